//go:build verif

package ircserver

// Verification-only exports (injected into internal/ircserver by `go test -overlay`, build tag
// `verif`, never part of /repo).  Used by the `ircdrv` driver in package main
// (/verif/harness/go/main/zz_verif_irc_test.go):
//
//	VerifDump(srv)                       canonical state dump, format: /verif/harness/IRCFORMAT.md "State dump"
//	VerifInvariantWalk(srv, prevS, prevC) invariant walk over the three indexes (C14), codes below
//	VerifCounts(srv)                     (len(sessions), len(channels))
//
// Unexported state is read by reflection on field NAMES: a renamed/removed field prints `?` for that
// one field (one degraded comparison) instead of breaking the build.  Only the exported API
// (IsValidNickname, IsValidChannel, NickToLower, ChanToLower, IRCServer.Config) is used by name.
//
// Invariant walk codes (comma separated in the `inv=` field, sorted, each at most once per step):
//
//	nickidx-dangling  nick index entry whose session is nil / not in sessions / deleted / carries a
//	                  different nick under NickToLower than the key
//	nick-dup          two live sessions with NickToLower-equal non-empty nicks
//	nick-unindexed    live session with non-empty nick not reachable through the index
//	nick-invalid      owned (non-empty) nickname failing IsValidNickname (pseudo-clients included: the
//	                  property restricts services to conforming lines, the code itself does not check)
//	chan-invalid      channel name failing IsValidChannel
//	chan-miskeyed     channel stored under a key different from ChanToLower(name)          (extra)
//	memb-asym-s       session lists a channel that does not exist or does not list the session
//	memb-asym-c       channel lists a nick whose (index-resolved) session does not list the channel
//	chan-empty        channel without members
//	memb-dangling     member key not resolving through the nick index to a live session with that nick
//	memb-nil          nil member entry
//	deleted-survives  session with deleted=true still in the sessions map after the entry
//	sess-miskeyed     sessions map key differs from Session.Id, or nil session                 (extra)
//	limit-sessions    len(sessions) > max(previous len, MaxSessions) while MaxSessions > 0
//	limit-channels    len(channels) > max(previous len, MaxChannels) while MaxChannels > 0
//	invited-ghost     invitedTo names a channel that does not exist
//	reflect-<field>   a field the walk needs could not be read (renamed) — the walk is degraded

import (
	"encoding/hex"
	"fmt"
	"reflect"
	"sort"
	"strconv"
	"strings"
	"time"
	"unsafe"

	"github.com/robustirc/robustirc/internal/robust"
	"gopkg.in/sorcix/irc.v2"
)

type verifReader struct {
	missing map[string]bool
}

func verifClean(v reflect.Value) reflect.Value {
	if v.IsValid() && v.CanAddr() {
		return reflect.NewAt(v.Type(), unsafe.Pointer(v.UnsafeAddr())).Elem()
	}
	return v
}

// verifAddressable returns an addressable copy of a (clean) struct value, e.g. a map element.
func verifAddressable(v reflect.Value) reflect.Value {
	if v.CanAddr() {
		return v
	}
	nv := reflect.New(v.Type()).Elem()
	nv.Set(v)
	return nv
}

func (r *verifReader) fld(v reflect.Value, name string) reflect.Value {
	if !v.IsValid() || v.Kind() != reflect.Struct {
		r.missing[name] = true
		return reflect.Value{}
	}
	f := v.FieldByName(name)
	if !f.IsValid() {
		r.missing[name] = true
		return reflect.Value{}
	}
	return verifClean(f)
}

func vhex(s string) string {
	if s == "" {
		return "-"
	}
	return hex.EncodeToString([]byte(s))
}

func (r *verifReader) str(v reflect.Value, name string) (string, bool) {
	f := r.fld(v, name)
	if !f.IsValid() || f.Kind() != reflect.String {
		r.missing[name] = true
		return "", false
	}
	return f.String(), true
}

func (r *verifReader) hexstr(v reflect.Value, name string) string {
	s, ok := r.str(v, name)
	if !ok {
		return "?"
	}
	return vhex(s)
}

func (r *verifReader) boolean(v reflect.Value, name string) (bool, bool) {
	f := r.fld(v, name)
	if !f.IsValid() || f.Kind() != reflect.Bool {
		r.missing[name] = true
		return false, false
	}
	return f.Bool(), true
}

func (r *verifReader) b01(v reflect.Value, name string) string {
	b, ok := r.boolean(v, name)
	if !ok {
		return "?"
	}
	if b {
		return "1"
	}
	return "0"
}

func vtime(t time.Time) string {
	if t.IsZero() {
		return "zero"
	}
	return strconv.FormatInt(t.UnixNano(), 10)
}

func (r *verifReader) tm(v reflect.Value, name string) string {
	f := r.fld(v, name)
	if !f.IsValid() {
		return "?"
	}
	if !f.CanInterface() {
		r.missing[name] = true
		return "?"
	}
	t, ok := f.Interface().(time.Time)
	if !ok {
		r.missing[name] = true
		return "?"
	}
	return vtime(t)
}

func (r *verifReader) integer(v reflect.Value, name string) string {
	f := r.fld(v, name)
	if !f.IsValid() {
		return "?"
	}
	switch f.Kind() {
	case reflect.Int, reflect.Int8, reflect.Int16, reflect.Int32, reflect.Int64:
		return strconv.FormatInt(f.Int(), 10)
	case reflect.Uint, reflect.Uint8, reflect.Uint16, reflect.Uint32, reflect.Uint64:
		return strconv.FormatUint(f.Uint(), 10)
	}
	r.missing[name] = true
	return "?"
}

// modeLetters renders a [N]bool array indexed by mode letter: set letters in byte order.
func (r *verifReader) modeLetters(v reflect.Value, name string) string {
	f := r.fld(v, name)
	if !f.IsValid() || (f.Kind() != reflect.Array && f.Kind() != reflect.Slice) {
		r.missing[name] = true
		return "?"
	}
	var sb strings.Builder
	for i := 0; i < f.Len(); i++ {
		e := f.Index(i)
		if e.Kind() == reflect.Bool && e.Bool() {
			c := byte(i)
			if (c >= 'A' && c <= 'Z') || (c >= 'a' && c <= 'z') || (c >= '0' && c <= '9') {
				sb.WriteByte(c)
			} else {
				fmt.Fprintf(&sb, "%%%02x", c)
			}
		}
	}
	if sb.Len() == 0 {
		return "-"
	}
	return sb.String()
}

// trueKeys returns the keys (as strings) with value true of a map[<string kind>]bool, sorted bytewise.
func (r *verifReader) trueKeys(v reflect.Value, name string) ([]string, bool) {
	f := r.fld(v, name)
	if !f.IsValid() || f.Kind() != reflect.Map {
		r.missing[name] = true
		return nil, false
	}
	var keys []string
	it := f.MapRange()
	for it.Next() {
		if it.Key().Kind() != reflect.String || it.Value().Kind() != reflect.Bool {
			r.missing[name] = true
			return nil, false
		}
		if it.Value().Bool() {
			keys = append(keys, it.Key().String())
		}
	}
	sort.Strings(keys)
	return keys, true
}

func vhexlist(l []string, ok bool) string {
	if !ok {
		return "?"
	}
	if len(l) == 0 {
		return "-"
	}
	h := make([]string, len(l))
	for i, s := range l {
		h[i] = vhex(s)
	}
	return strings.Join(h, ",")
}

// ---------------------------------------------------------------- neutral snapshot

type verifSession struct {
	key      robust.Id
	id       robust.Id
	idok     bool
	isnil    bool
	nick     string
	nickok   bool
	deleted  bool
	server   bool
	channels []string
	chok     bool
	invited  []string
	invok    bool
	v        reflect.Value // the Session struct (addressable, clean)
}

type verifMember struct {
	key   string
	isnil bool
	op    bool
	voice bool
}

type verifChannel struct {
	key     string
	name    string
	nameok  bool
	members []verifMember
	v       reflect.Value
}

type verifNickEntry struct {
	key   string
	isnil bool
	ptr   uintptr
	id    robust.Id
}

type verifState struct {
	r        *verifReader
	sessions []verifSession
	byptr    map[uintptr]int // pointer -> index into sessions
	nicks    []verifNickEntry
	channels []verifChannel
	srv      reflect.Value
}

func verifSnapshot(i *IRCServer) *verifState {
	st := &verifState{r: &verifReader{missing: make(map[string]bool)}, byptr: make(map[uintptr]int)}
	r := st.r
	st.srv = reflect.ValueOf(i).Elem()

	sm := r.fld(st.srv, "sessions")
	if sm.IsValid() && sm.Kind() == reflect.Map {
		it := sm.MapRange()
		for it.Next() {
			var vs verifSession
			if k, ok := it.Key().Interface().(robust.Id); ok {
				vs.key = k
			} else {
				r.missing["sessions"] = true
			}
			pv := it.Value()
			if pv.Kind() != reflect.Ptr || pv.IsNil() {
				vs.isnil = true
				st.sessions = append(st.sessions, vs)
				continue
			}
			sv := verifClean(pv.Elem())
			vs.v = sv
			if idf := r.fld(sv, "Id"); idf.IsValid() {
				if id, ok := idf.Interface().(robust.Id); ok {
					vs.id, vs.idok = id, true
				}
			}
			vs.nick, vs.nickok = r.str(sv, "Nick")
			vs.deleted, _ = r.boolean(sv, "deleted")
			vs.server, _ = r.boolean(sv, "Server")
			vs.channels, vs.chok = r.trueKeys(sv, "Channels")
			vs.invited, vs.invok = r.trueKeys(sv, "invitedTo")
			st.byptr[pv.Pointer()] = len(st.sessions)
			st.sessions = append(st.sessions, vs)
		}
	} else {
		r.missing["sessions"] = true
	}
	sort.Slice(st.sessions, func(a, b int) bool {
		x, y := st.sessions[a].key, st.sessions[b].key
		if x.Id != y.Id {
			return x.Id < y.Id
		}
		return x.Reply < y.Reply
	})
	// byptr indexes were taken before sorting: rebuild
	st.byptr = make(map[uintptr]int)
	for idx, s := range st.sessions {
		if !s.isnil {
			st.byptr[s.v.Addr().Pointer()] = idx
		}
	}

	nm := r.fld(st.srv, "nicks")
	if nm.IsValid() && nm.Kind() == reflect.Map {
		it := nm.MapRange()
		for it.Next() {
			ne := verifNickEntry{key: it.Key().String()}
			pv := it.Value()
			if pv.Kind() != reflect.Ptr || pv.IsNil() {
				ne.isnil = true
			} else {
				ne.ptr = pv.Pointer()
				if idf := r.fld(verifClean(pv.Elem()), "Id"); idf.IsValid() {
					if id, ok := idf.Interface().(robust.Id); ok {
						ne.id = id
					}
				}
			}
			st.nicks = append(st.nicks, ne)
		}
	} else {
		r.missing["nicks"] = true
	}
	sort.Slice(st.nicks, func(a, b int) bool { return st.nicks[a].key < st.nicks[b].key })

	cm := r.fld(st.srv, "channels")
	if cm.IsValid() && cm.Kind() == reflect.Map {
		it := cm.MapRange()
		for it.Next() {
			vc := verifChannel{key: it.Key().String()}
			pv := it.Value()
			if pv.Kind() != reflect.Ptr || pv.IsNil() {
				st.channels = append(st.channels, vc)
				continue
			}
			cv := verifClean(pv.Elem())
			vc.v = cv
			vc.name, vc.nameok = r.str(cv, "name")
			mm := r.fld(cv, "nicks")
			if mm.IsValid() && mm.Kind() == reflect.Map {
				mit := mm.MapRange()
				for mit.Next() {
					vm := verifMember{key: mit.Key().String()}
					mp := mit.Value()
					if mp.Kind() != reflect.Ptr || mp.IsNil() {
						vm.isnil = true
					} else {
						arr := mp.Elem()
						if arr.Kind() == reflect.Array && arr.Len() >= 2 {
							vm.op = arr.Index(chanop).Bool()
							vm.voice = arr.Index(voice).Bool()
						} else {
							r.missing["channel.nicks"] = true
						}
					}
					vc.members = append(vc.members, vm)
				}
			} else {
				r.missing["channel.nicks"] = true
			}
			sort.Slice(vc.members, func(a, b int) bool { return vc.members[a].key < vc.members[b].key })
			st.channels = append(st.channels, vc)
		}
	} else {
		r.missing["channels"] = true
	}
	sort.Slice(st.channels, func(a, b int) bool { return st.channels[a].key < st.channels[b].key })
	return st
}

// VerifCounts returns len(sessions), len(channels).
func VerifCounts(i *IRCServer) (int, int) {
	return len(i.sessions), len(i.channels)
}

// ---------------------------------------------------------------- dump

// VerifDump prints the canonical state dump (IRCFORMAT.md).
func VerifDump(i *IRCServer) string {
	st := verifSnapshot(i)
	r := st.r
	var recs []string
	for _, s := range st.sessions {
		if s.isnil {
			recs = append(recs, fmt.Sprintf("S/%d/%d/nil", s.key.Id, s.key.Reply))
			continue
		}
		v := s.v
		pfx := "?"
		if pf := r.fld(v, "ircPrefix"); pf.IsValid() {
			if p, ok := pf.Interface().(irc.Prefix); ok {
				pfx = vhex(p.String())
			}
		}
		recs = append(recs, strings.Join([]string{
			"S", strconv.FormatUint(s.key.Id, 10), strconv.FormatUint(s.key.Reply, 10),
			"nick=" + r.hexstr(v, "Nick"),
			"user=" + r.hexstr(v, "Username"),
			"real=" + r.hexstr(v, "Realname"),
			"li=" + r.b01(v, "loggedIn"),
			"op=" + r.b01(v, "Operator"),
			"srv=" + r.b01(v, "Server"),
			"del=" + r.b01(v, "deleted"),
			"away=" + r.hexstr(v, "AwayMsg"),
			"pass=" + r.hexstr(v, "Pass"),
			"modes=" + r.modeLetters(v, "modes"),
			"svid=" + r.hexstr(v, "svid"),
			"la=" + r.tm(v, "LastActivity"),
			"lnp=" + r.tm(v, "LastNonPing"),
			"lsc=" + r.tm(v, "LastSolvedCaptcha"),
			"cr=" + r.integer(v, "Created"),
			"cmid=" + r.integer(v, "lastClientMessageId"),
			"ra=" + r.hexstr(v, "RemoteAddr"),
			"auth=" + r.hexstr(v, "auth"),
			"thr=" + r.integer(v, "throttlingExponent"),
			"ch=" + vhexlist(s.channels, s.chok),
			"inv=" + vhexlist(s.invited, s.invok),
			"pfx=" + pfx,
		}, "/"))
	}
	for _, n := range st.nicks {
		if n.isnil {
			recs = append(recs, "N/"+vhex(n.key)+"/nil/nil")
		} else {
			recs = append(recs, fmt.Sprintf("N/%s/%d/%d", vhex(n.key), n.id.Id, n.id.Reply))
		}
	}
	for _, c := range st.channels {
		if !c.v.IsValid() {
			recs = append(recs, "C/"+vhex(c.key)+"/nil")
			continue
		}
		var bans []string
		bansok := false
		if bf := r.fld(c.v, "bans"); bf.IsValid() && bf.Kind() == reflect.Slice {
			bansok = true
			for k := 0; k < bf.Len(); k++ {
				p, ok := r.str(verifAddressable(verifClean(bf.Index(k))), "pattern")
				if !ok {
					bansok = false
				}
				bans = append(bans, p)
			}
		}
		var ms []string
		for _, m := range c.members {
			if m.isnil {
				ms = append(ms, vhex(m.key)+":nil")
			} else {
				o, vo := "0", "0"
				if m.op {
					o = "1"
				}
				if m.voice {
					vo = "1"
				}
				ms = append(ms, vhex(m.key)+":"+o+vo)
			}
		}
		mstr := "-"
		if len(ms) > 0 {
			mstr = strings.Join(ms, ",")
		}
		recs = append(recs, strings.Join([]string{
			"C", vhex(c.key),
			"name=" + r.hexstr(c.v, "name"),
			"topic=" + r.hexstr(c.v, "topic"),
			"tnick=" + r.hexstr(c.v, "topicNick"),
			"ttime=" + r.tm(c.v, "topicTime"),
			"modes=" + r.modeLetters(c.v, "modes"),
			"key=" + r.hexstr(c.v, "key"),
			"bans=" + vhexlist(bans, bansok),
			"m=" + mstr,
		}, "/"))
	}
	// svsholds
	if hm := r.fld(st.srv, "svsholds"); hm.IsValid() && hm.Kind() == reflect.Map {
		type hrec struct{ key, rec string }
		var hs []hrec
		it := hm.MapRange()
		for it.Next() {
			hv := verifAddressable(it.Value())
			dur := "?"
			if df := r.fld(hv, "duration"); df.IsValid() && df.Kind() == reflect.Int64 {
				dur = strconv.FormatInt(df.Int(), 10)
			}
			k := it.Key().String()
			hs = append(hs, hrec{k, "H/" + vhex(k) + "/added=" + r.tm(hv, "added") + "/dur=" + dur + "/reason=" + r.hexstr(hv, "reason")})
		}
		sort.Slice(hs, func(a, b int) bool { return hs[a].key < hs[b].key })
		for _, h := range hs {
			recs = append(recs, h.rec)
		}
	} else {
		recs = append(recs, "H/?")
	}
	// V: serverSessions deduplicated, sorted ascending, restricted to ids with a live session {id,0}
	if sf := r.fld(st.srv, "serverSessions"); sf.IsValid() && sf.Kind() == reflect.Slice {
		live := make(map[uint64]bool)
		for _, s := range st.sessions {
			if !s.isnil && s.key.Reply == 0 {
				live[s.key.Id] = true
			}
		}
		seen := make(map[uint64]bool)
		var ids []uint64
		for k := 0; k < sf.Len(); k++ {
			id := sf.Index(k).Uint()
			if live[id] && !seen[id] {
				seen[id] = true
				ids = append(ids, id)
			}
		}
		sort.Slice(ids, func(a, b int) bool { return ids[a] < ids[b] })
		if len(ids) == 0 {
			recs = append(recs, "V/-")
		} else {
			ss := make([]string, len(ids))
			for k, id := range ids {
				ss[k] = strconv.FormatUint(id, 10)
			}
			recs = append(recs, "V/"+strings.Join(ss, ","))
		}
	} else {
		recs = append(recs, "V/?")
	}
	if lf := r.fld(st.srv, "lastProcessed"); lf.IsValid() {
		if id, ok := lf.Interface().(robust.Id); ok {
			recs = append(recs, fmt.Sprintf("L/%d/%d", id.Id, id.Reply))
		} else {
			recs = append(recs, "L/?/?")
		}
	} else {
		recs = append(recs, "L/?/?")
	}
	recs = append(recs, fmt.Sprintf("G/rev=%d/", i.Config.Revision)+VerifConfigBody(i))
	return strings.Join(recs, ";")
}

// VerifConfigBody renders the configuration in force in the `G` record form, starting at `exp=`.
func VerifConfigBody(i *IRCServer) string {
	i.ConfigMu.RLock()
	defer i.ConfigMu.RUnlock()
	c := i.Config
	pair := func(m map[string]string) string {
		keys := make([]string, 0, len(m))
		for k := range m {
			keys = append(keys, k)
		}
		sort.Strings(keys)
		if len(keys) == 0 {
			return "-"
		}
		out := make([]string, len(keys))
		for n, k := range keys {
			out[n] = vhex(k) + ":" + vhex(m[k])
		}
		return strings.Join(out, ",")
	}
	ops := "-"
	if len(c.IRC.Operators) > 0 {
		l := make([]string, len(c.IRC.Operators))
		for n, o := range c.IRC.Operators {
			l[n] = vhex(o.Name) + ":" + vhex(o.Password)
		}
		ops = strings.Join(l, ",")
	}
	svc := "-"
	if len(c.IRC.Services) > 0 {
		l := make([]string, len(c.IRC.Services))
		for n, o := range c.IRC.Services {
			l[n] = vhex(o.Password)
		}
		svc = strings.Join(l, ",")
	}
	var wo []string
	for k, v := range c.WhitelistedOrigins {
		if v {
			wo = append(wo, k)
		}
	}
	sort.Strings(wo)
	caplogin := "0"
	if c.CaptchaRequiredForLogin {
		caplogin = "1"
	}
	return fmt.Sprintf("exp=%d/cool=%d/maxs=%d/maxc=%d/capurl=%s/caphmac=%s/caplogin=%s/ops=%s/svc=%s/banned=%s/tb=%s/wo=%s",
		int64(c.SessionExpiration), int64(c.PostMessageCooloff), c.MaxSessions, c.MaxChannels,
		vhex(c.CaptchaURL), vhex(string(c.CaptchaHMACSecret)), caplogin, ops, svc,
		pair(c.Banned), pair(c.TrustedBridges), vhexlist(wo, true))
}

// ---------------------------------------------------------------- invariant walk

// VerifInvariantWalk checks the C14 invariants on the three indexes.  prevSessions/prevChannels are
// the table sizes before the entry (for the limit clauses).  Returns sorted, de-duplicated codes.
func VerifInvariantWalk(i *IRCServer, prevSessions, prevChannels int) []string {
	st := verifSnapshot(i)
	codes := make(map[string]bool)

	nickIndex := make(map[string]*verifNickEntry)
	for k := range st.nicks {
		nickIndex[st.nicks[k].key] = &st.nicks[k]
	}
	chanIndex := make(map[string]*verifChannel)
	for k := range st.channels {
		chanIndex[st.channels[k].key] = &st.channels[k]
	}

	// nick index -> sessions
	for _, n := range st.nicks {
		if n.isnil {
			codes["nickidx-dangling"] = true
			continue
		}
		idx, ok := st.byptr[n.ptr]
		if !ok {
			codes["nickidx-dangling"] = true
			continue
		}
		s := st.sessions[idx]
		if s.deleted || string(NickToLower(s.nick)) != n.key {
			codes["nickidx-dangling"] = true
		}
	}
	// sessions
	seen := make(map[string]bool)
	for idx, s := range st.sessions {
		if s.isnil || !s.idok || s.id != s.key {
			codes["sess-miskeyed"] = true
			if s.isnil {
				continue
			}
		}
		if s.deleted {
			codes["deleted-survives"] = true
		}
		if s.nick != "" {
			lc := string(NickToLower(s.nick))
			if !s.deleted {
				if seen[lc] {
					codes["nick-dup"] = true
				}
				seen[lc] = true
				if n, ok := nickIndex[lc]; !ok || n.isnil {
					codes["nick-unindexed"] = true
				} else if j, ok := st.byptr[n.ptr]; !ok || j != idx {
					codes["nick-unindexed"] = true
				}
			}
			if !IsValidNickname(s.nick) {
				codes["nick-invalid"] = true
			}
		}
		for _, ch := range s.channels {
			c, ok := chanIndex[ch]
			if !ok {
				codes["memb-asym-s"] = true
				continue
			}
			found := false
			lc := string(NickToLower(s.nick))
			for _, m := range c.members {
				if m.key == lc {
					found = true
					break
				}
			}
			if !found {
				codes["memb-asym-s"] = true
			}
		}
		for _, ch := range s.invited {
			if _, ok := chanIndex[ch]; !ok {
				codes["invited-ghost"] = true
			}
		}
	}
	// channels
	for _, c := range st.channels {
		if !c.v.IsValid() {
			codes["chan-empty"] = true
			continue
		}
		if !IsValidChannel(c.name) {
			codes["chan-invalid"] = true
		}
		if string(ChanToLower(c.name)) != c.key {
			codes["chan-miskeyed"] = true
		}
		if len(c.members) == 0 {
			codes["chan-empty"] = true
		}
		for _, m := range c.members {
			if m.isnil {
				codes["memb-nil"] = true
			}
			n, ok := nickIndex[m.key]
			if !ok || n.isnil {
				codes["memb-dangling"] = true
				continue
			}
			idx, ok := st.byptr[n.ptr]
			if !ok {
				codes["memb-dangling"] = true
				continue
			}
			s := st.sessions[idx]
			if s.deleted || string(NickToLower(s.nick)) != m.key {
				codes["memb-dangling"] = true
				continue
			}
			has := false
			for _, ch := range s.channels {
				if ch == c.key {
					has = true
					break
				}
			}
			if !has {
				codes["memb-asym-c"] = true
			}
		}
	}
	// limits
	i.ConfigMu.RLock()
	maxS, maxC := i.Config.MaxSessions, i.Config.MaxChannels
	i.ConfigMu.RUnlock()
	if maxS > 0 && uint64(len(st.sessions)) > maxS && len(st.sessions) > prevSessions {
		codes["limit-sessions"] = true
	}
	if maxC > 0 && uint64(len(st.channels)) > maxC && len(st.channels) > prevChannels {
		codes["limit-channels"] = true
	}
	for name := range st.r.missing {
		codes["reflect-"+name] = true
	}
	out := make([]string, 0, len(codes))
	for c := range codes {
		out = append(out, c)
	}
	sort.Strings(out)
	return out
}
