(* IrcProofs/Utf8.v — every string IRCServer.Marshal serialises is valid UTF-8 (properties C03 / C02).

   proto.Marshal refuses a proto3 `string` field that is not valid UTF-8, so one ill-formed string anywhere in the
   IRC state makes every later snapshot fail.  [utf8 s := to_valid_utf8 s = s] (Str.to_valid_utf8 renders Go's
   strings.ToValidUTF8(s, "")).  This file: the theory of [utf8] (a DFA characterisation, closure under
   concatenation, cuts at ASCII bytes, case folding, trimming, splitting, parsing), the class [U8] that lifts it to
   the value types of the model — this time INCLUDING the string keys of the serialised maps and sets — and the
   lemmas about field updates.  Utf8Handlers.v has the logical relation over the handler monad and the theorems. *)
From stdpp Require Import gmap.
From Coq Require Import Strings.String Strings.Ascii ZArith NArith Lia.
From RV Require Import Base.Text Irc.Str Irc.Parse Irc.State Irc.Monad Irc.Cmds Irc.SCmds Irc.Apply.
From RV Require Import IrcProofs.StrLemmas.
From RV Require Import IrcProofs.Top.
Local Open Scope string_scope.

Definition utf8 (s : string) : Prop := to_valid_utf8 s = s.

(* ---- the recogniser: [pend] continuation bytes are still due, the next one in [lo, hi] ------------------ *)
Fixpoint chk (pend : nat) (lo hi : N) (s : string) : bool :=
  match s with
  | EmptyString => Nat.eqb pend 0
  | String c r =>
      match pend with
      | S k => in_range lo hi (byte_of c) && chk k 128 191 r
      | O => match lead_info (byte_of c) with
             | Some (k, lo', hi') => chk k lo' hi' r
             | None => false
             end
      end
  end.
Definition validb (s : string) : bool := chk 0 0 0 s.

Definition is_ascii (c : ascii) : bool := (byte_of c <? 128)%N.
(* the state of the recogniser is sane: a pending continuation byte lies in 80..BF *)
Definition sane (p : nat) (lo hi : N) : Prop := p = 0 \/ (128 <= lo /\ hi <= 191)%N.

Lemma app_cons c (a b : string) : String c a ++ b = String c (a ++ b).
Proof. reflexivity. Qed.

Lemma lead_info_sane n k lo hi : lead_info n = Some (k, lo, hi) -> sane k lo hi.
Proof.
  unfold lead_info, sane.
  repeat match goal with |- (if ?b then _ else _) = _ -> _ => destruct b end;
    intros [= <- <- <-]; first [left; reflexivity | right; lia].
Qed.
Lemma lead_info_ascii c : is_ascii c = true -> lead_info (byte_of c) = Some (0, 0%N, 0%N).
Proof. unfold is_ascii, lead_info. intros ->. reflexivity. Qed.
Lemma cont_not_lead c : in_range 128 191 (byte_of c) = true -> lead_info (byte_of c) = None.
Proof. destruct c as [[] [] [] [] [] [] [] []]; vm_compute; intros; congruence. Qed.
Lemma cont_not_ascii c : in_range 128 191 (byte_of c) = true -> is_ascii c = false.
Proof. destruct c as [[] [] [] [] [] [] [] []]; vm_compute; intros; congruence. Qed.
Lemma in_range_weaken lo hi n : (128 <= lo)%N -> (hi <= 191)%N -> in_range lo hi n = true -> in_range 128 191 n = true.
Proof.
  unfold in_range. intros Hl Hh H. apply andb_true_iff in H. destruct H as [H1 H2]. apply N.leb_le in H1, H2.
  apply andb_true_iff. split; apply N.leb_le; lia.
Qed.

Lemma chk_0_irrel lo hi s : chk 0 lo hi s = validb s.
Proof. destruct s; reflexivity. Qed.

Lemma chk_app p lo hi a b : chk p lo hi a = true -> chk p lo hi (a ++ b) = validb b.
Proof.
  revert p lo hi. induction a as [|c a IH]; intros p lo hi H.
  - cbn [chk] in H. apply Nat.eqb_eq in H. subst p. apply chk_0_irrel.
  - rewrite app_cons. cbn [chk] in *. destruct p as [|k].
    + destruct (lead_info (byte_of c)) as [[[k lo'] hi']|]; [|discriminate]. apply IH. exact H.
    + apply andb_true_iff in H. destruct H as [H1 H2]. rewrite H1. cbn [andb]. apply IH. exact H2.
Qed.

(* a cut in front of an ASCII byte *)
Lemma chk_cut p lo hi a c b :
  sane p lo hi -> is_ascii c = true -> chk p lo hi (a ++ String c b) = true ->
  chk p lo hi a = true /\ validb (String c b) = true.
Proof.
  revert p lo hi. induction a as [|d a IH]; intros p lo hi Hs Hc H.
  - change ("" ++ String c b) with (String c b) in H. destruct p as [|k].
    + split; [reflexivity|]. rewrite chk_0_irrel in H. exact H.
    + exfalso. destruct Hs as [Hs|[Hl Hh]]; [discriminate|]. cbn [chk] in H. apply andb_true_iff in H. destruct H as [H _].
      apply (in_range_weaken _ _ _ Hl Hh) in H. apply cont_not_ascii in H. congruence.
  - rewrite app_cons in H. cbn [chk] in *. destruct p as [|k].
    + destruct (lead_info (byte_of d)) as [[[k lo'] hi']|] eqn:E; [|discriminate].
      apply IH; [eapply lead_info_sane; exact E|exact Hc|exact H].
    + apply andb_true_iff in H. destruct H as [H1 H2]. rewrite H1. cbn [andb].
      apply IH; [right; lia|exact Hc|exact H2].
Qed.

(* a valid suffix can be taken off *)
Lemma chk_app_inv_l p lo hi a u :
  sane p lo hi -> chk p lo hi (a ++ u) = true -> validb u = true -> chk p lo hi a = true.
Proof.
  revert p lo hi. induction a as [|d a IH]; intros p lo hi Hs H Hu.
  - change ("" ++ u) with u in H. cbn [chk]. destruct p as [|k]; [reflexivity|exfalso].
    destruct Hs as [Hs|[Hl Hh]]; [discriminate|]. destruct u as [|c r]; [discriminate|]. cbn [chk] in H.
    apply andb_true_iff in H. destruct H as [H _]. apply (in_range_weaken _ _ _ Hl Hh) in H. apply cont_not_lead in H.
    unfold validb in Hu. cbn [chk] in Hu. rewrite H in Hu. discriminate.
  - rewrite app_cons in H. cbn [chk] in *. destruct p as [|k].
    + destruct (lead_info (byte_of d)) as [[[k lo'] hi']|] eqn:E; [|discriminate].
      apply IH; [eapply lead_info_sane; exact E|exact H|exact Hu].
    + apply andb_true_iff in H. destruct H as [H1 H2]. rewrite H1. cbn [andb]. apply IH; [right; lia|exact H2|exact Hu].
Qed.

(* ---- to_valid_utf8 and the recogniser ----------------------------------------------------------------------- *)
Lemma tvu_len k s : slen (to_valid_utf8_aux k s) <= slen s.
Proof.
  revert k. induction s as [|c r IH]; intros k; cbn [to_valid_utf8_aux]; [cbn; lia|]. unfold slen in *. destruct k as [|k].
  - destruct (lead_info _) as [[[k lo] hi]|]; [destruct (conts_ok _ _ _ _)|]; cbn [String.length];
      first [specialize (IH k); lia | specialize (IH 0); lia].
  - cbn [String.length]. specialize (IH k). lia.
Qed.
Lemma tvu_not_longer k r c : to_valid_utf8_aux k r <> String c r.
Proof. intros H. pose proof (tvu_len k r) as HL. rewrite H in HL. unfold slen in HL. cbn [String.length] in HL. lia. Qed.

Lemma tvu_fix_chk s : forall k lo hi, conts_ok k lo hi s = true -> to_valid_utf8_aux k s = s -> chk k lo hi s = true.
Proof.
  induction s as [|c r IH]; intros k lo hi Hc Hf.
  - destruct k; [reflexivity|discriminate].
  - destruct k as [|k]; cbn [chk to_valid_utf8_aux conts_ok] in *.
    + destruct (lead_info (byte_of c)) as [[[k lo'] hi']|]; [|exfalso; exact (tvu_not_longer _ _ _ Hf)].
      destruct (conts_ok k lo' hi' r) eqn:E; [|exfalso; exact (tvu_not_longer _ _ _ Hf)].
      injection Hf as Hf. apply IH; assumption.
    + apply andb_true_iff in Hc. destruct Hc as [H1 H2]. rewrite H1. cbn [andb]. injection Hf as Hf. apply IH; assumption.
Qed.
Lemma chk_tvu_fix s : forall k lo hi, chk k lo hi s = true -> conts_ok k lo hi s = true /\ to_valid_utf8_aux k s = s.
Proof.
  induction s as [|c r IH]; intros k lo hi H.
  - cbn [chk] in H. apply Nat.eqb_eq in H. subst k. split; reflexivity.
  - destruct k as [|k]; cbn [chk to_valid_utf8_aux conts_ok] in *.
    + split; [reflexivity|]. destruct (lead_info (byte_of c)) as [[[k lo'] hi']|]; [|discriminate].
      destruct (IH _ _ _ H) as [H1 H2]. rewrite H1, H2. reflexivity.
    + apply andb_true_iff in H. destruct H as [H1 H2]. destruct (IH _ _ _ H2) as [H3 H4]. rewrite H1, H3, H4. split; reflexivity.
Qed.
Lemma utf8_iff s : utf8 s <-> validb s = true.
Proof.
  unfold utf8, to_valid_utf8, validb. split.
  - intros H. apply tvu_fix_chk; [reflexivity|exact H].
  - intros H. apply (chk_tvu_fix s 0 0%N 0%N H).
Qed.

(* strings.ToValidUTF8 yields valid UTF-8 (so cap_user does) *)
Lemma chk_tvu s : forall k lo hi, conts_ok k lo hi s = true -> chk k lo hi (to_valid_utf8_aux k s) = true.
Proof.
  induction s as [|c r IH]; intros k lo hi Hc.
  - destruct k; [reflexivity|discriminate].
  - destruct k as [|k]; cbn [to_valid_utf8_aux conts_ok] in *.
    + destruct (lead_info (byte_of c)) as [[[k lo'] hi']|] eqn:E.
      * destruct (conts_ok k lo' hi' r) eqn:E2.
        -- cbn [chk]. rewrite E. apply IH. exact E2.
        -- rewrite chk_0_irrel. apply (IH 0 0%N 0%N). reflexivity.
      * rewrite chk_0_irrel. apply (IH 0 0%N 0%N). reflexivity.
    + apply andb_true_iff in Hc. destruct Hc as [H1 H2]. cbn [chk]. rewrite H1. cbn [andb]. apply IH. exact H2.
Qed.
Lemma utf8_to_valid_utf8 s : utf8 (to_valid_utf8 s).
Proof. apply utf8_iff. apply (chk_tvu s 0 0%N 0%N). reflexivity. Qed.
Lemma to_valid_utf8_idem s : to_valid_utf8 (to_valid_utf8 s) = to_valid_utf8 s.
Proof. apply utf8_to_valid_utf8. Qed.

(* ---- closure properties ------------------------------------------------------------------------------------ *)
Lemma utf8_empty : utf8 "". Proof. reflexivity. Qed.
Lemma utf8_app a b : utf8 a -> utf8 b -> utf8 (a ++ b).
Proof. rewrite !utf8_iff. intros Ha Hb. unfold validb. rewrite (chk_app _ _ _ _ _ Ha). exact Hb. Qed.
Lemma utf8_cut a c b : is_ascii c = true -> utf8 (a ++ String c b) -> utf8 a /\ utf8 (String c b).
Proof. rewrite !utf8_iff. intros Hc H. apply (chk_cut 0 0%N 0%N); [left; reflexivity|exact Hc|exact H]. Qed.
Lemma utf8_app_inv_l a u : utf8 (a ++ u) -> utf8 u -> utf8 a.
Proof. rewrite !utf8_iff. intros H Hu. apply (chk_app_inv_l 0 0%N 0%N a u); [left; reflexivity|exact H|exact Hu]. Qed.
Lemma utf8_app_inv_r a u : utf8 (a ++ u) -> utf8 a -> utf8 u.
Proof. rewrite !utf8_iff. intros H Ha. unfold validb in H. rewrite (chk_app _ _ _ _ _ Ha) in H. exact H. Qed.
Lemma utf8_String c r : is_ascii c = true -> utf8 r -> utf8 (String c r).
Proof. rewrite !utf8_iff. intros Hc Hr. unfold validb. cbn [chk]. rewrite (lead_info_ascii c Hc). rewrite chk_0_irrel. exact Hr. Qed.
Lemma utf8_String_inv c r : is_ascii c = true -> utf8 (String c r) -> utf8 r.
Proof. rewrite !utf8_iff. intros Hc H. unfold validb in H. cbn [chk] in H. rewrite (lead_info_ascii c Hc), chk_0_irrel in H. exact H. Qed.
Lemma utf8_cut3 a c b : is_ascii c = true -> utf8 (a ++ String c b) -> utf8 a /\ utf8 b /\ utf8 (String c b).
Proof. intros Hc H. destruct (utf8_cut a c b Hc H) as [Ha Hb]. split; [exact Ha|]. split; [eapply utf8_String_inv; eauto|exact Hb]. Qed.

(* strings of ASCII bytes *)
Fixpoint asciib (s : string) : bool := match s with EmptyString => true | String c r => is_ascii c && asciib r end.
Lemma utf8_asciib s : asciib s = true -> utf8 s.
Proof.
  induction s as [|c r IH]; cbn [asciib]; [reflexivity|]. intros H. apply andb_true_iff in H. destruct H.
  apply utf8_String; auto.
Qed.
Lemma asciib_app a b : asciib a = true -> asciib b = true -> asciib (a ++ b) = true.
Proof. induction a as [|c a IH]; [trivial|]. rewrite app_cons. cbn [asciib]. intros H Hb. apply andb_true_iff in H. destruct H as [-> H]. cbn. auto. Qed.

(* ---- positions ------------------------------------------------------------------------------------------------ *)
Fixpoint sget (n : nat) (s : string) : option ascii :=
  match s, n with
  | EmptyString, _ => None
  | String c _, O => Some c
  | String _ r, S k => sget k r
  end.
Lemma sget_split n s c : sget n s = Some c -> s = stake n s ++ String c (sdrop (S n) s).
Proof.
  revert n. induction s as [|d r IH]; intros n H; [destruct n; discriminate|]. destruct n as [|n]; cbn [sget stake sdrop] in *.
  - injection H as ->. reflexivity.
  - rewrite app_cons. f_equal. apply IH. exact H.
Qed.
Lemma stake_sdrop n s : s = stake n s ++ sdrop n s.
Proof. revert s. induction n as [|n IH]; intros s; [reflexivity|]. destruct s as [|c r]; [reflexivity|]. cbn [stake sdrop]. rewrite app_cons. f_equal. apply IH. Qed.
Lemma sdrop_S n s c : sget n s = Some c -> sdrop n s = String c (sdrop (S n) s).
Proof.
  revert n. induction s as [|d r IH]; intros n H; [destruct n; discriminate|]. destruct n as [|n]; cbn [sget sdrop] in *.
  - injection H as ->. reflexivity.
  - apply IH. exact H.
Qed.
Lemma sget_sdrop m n s : sget n (sdrop m s) = sget (m + n) s.
Proof. revert s. induction m as [|m IH]; intros s; [reflexivity|]. destruct s as [|c r]; [destruct n; reflexivity|]. cbn [sdrop Nat.add sget]. apply IH. Qed.
Lemma sdrop_sdrop m n s : sdrop n (sdrop m s) = sdrop (m + n) s.
Proof. revert s. induction m as [|m IH]; intros s; [reflexivity|]. destruct s as [|c r]; [destruct n; reflexivity|]. cbn [sdrop Nat.add]. apply IH. Qed.

(* cutting a valid string at the position of an ASCII byte *)
Lemma utf8_at n s c :
  utf8 s -> sget n s = Some c -> is_ascii c = true -> utf8 (stake n s) /\ utf8 (sdrop n s) /\ utf8 (sdrop (S n) s).
Proof.
  intros Hs Hg Hc. pose proof (sget_split n s c Hg) as E. rewrite E in Hs. destruct (utf8_cut3 _ _ _ Hc Hs) as (H1 & H2 & H3).
  split; [exact H1|]. split; [|exact H2]. rewrite (sdrop_S n s c Hg). exact H3.
Qed.

Lemma has_prefix_sget p t j c : has_prefix p t = true -> sget j p = Some c -> sget j t = Some c.
Proof.
  revert t j. induction p as [|a p IH]; intros t j Hp Hg; [destruct j; discriminate|]. destruct t as [|b t]; [discriminate|].
  cbn [has_prefix] in Hp. apply andb_true_iff in Hp. destruct Hp as [Hab Hp]. apply Ascii.eqb_eq in Hab. subst b.
  destruct j as [|j]; cbn [sget] in *; [exact Hg|]. apply IH; assumption.
Qed.
Lemma sindex_aux_S p s i : sindex_aux p s (S i) = option_map S (sindex_aux p s i).
Proof.
  revert i. induction s as [|c r IH]; intros i; cbn [sindex_aux].
  - destruct (has_prefix p ""); reflexivity.
  - destruct (has_prefix p (String c r)); [reflexivity|]. apply IH.
Qed.
Lemma sindex_prefix p s i : sindex p s = Some i -> has_prefix p (sdrop i s) = true.
Proof.
  unfold sindex. revert i. induction s as [|c r IH]; intros i; cbn [sindex_aux].
  - destruct (has_prefix p "") eqn:E; [|discriminate]. intros [= <-]. exact E.
  - destruct (has_prefix p (String c r)) eqn:E; [intros [= <-]; exact E|]. rewrite sindex_aux_S.
    destruct (sindex_aux p r 0) as [j|]; [|discriminate]. cbn [option_map]. intros [= <-]. cbn [sdrop]. apply IH. reflexivity.
Qed.
Lemma sindex_sget p s i j c : sindex p s = Some i -> sget j p = Some c -> sget (i + j) s = Some c.
Proof. intros Hi Hg. rewrite <- sget_sdrop. eapply has_prefix_sget; [apply sindex_prefix; exact Hi|exact Hg]. Qed.
Lemma index_byte_sget c s i : index_byte c s = Some i -> sget i s = Some c.
Proof. intros H. rewrite <- (Nat.add_0_r i). eapply sindex_sget; [exact H|reflexivity]. Qed.

(* ---- bytes ------------------------------------------------------------------------------------------------------ *)
Lemma byte_eq c n : byte_of c = n -> c = chr n.
Proof. intros <-. symmetry. apply ascii_N_embedding. Qed.
Lemma lower_nonascii c : is_ascii c = false -> chr (lower_byte (byte_of c)) = c.
Proof. destruct c as [[] [] [] [] [] [] [] []]; vm_compute; intros; congruence. Qed.
Lemma lower_ascii c : is_ascii c = true -> is_ascii (chr (lower_byte (byte_of c))) = true.
Proof. destruct c as [[] [] [] [] [] [] [] []]; vm_compute; intros; congruence. Qed.
Lemma fold_nonascii c : is_ascii c = false -> chr (nick_fold_byte (byte_of c)) = c.
Proof. destruct c as [[] [] [] [] [] [] [] []]; vm_compute; intros; congruence. Qed.
Lemma fold_ascii c : is_ascii c = true -> is_ascii (chr (nick_fold_byte (byte_of c))) = true.
Proof. destruct c as [[] [] [] [] [] [] [] []]; vm_compute; intros; congruence. Qed.
Lemma plus32_cont d : in_range 128 158 (byte_of d) = true -> in_range 128 191 (byte_of (chr (byte_of d + 32))) = true.
Proof. destruct d as [[] [] [] [] [] [] [] []]; vm_compute; intros; congruence. Qed.
Lemma space_ascii c : is_space_byte (byte_of c) = true -> is_ascii c = true.
Proof. destruct c as [[] [] [] [] [] [] [] []]; vm_compute; intros; congruence. Qed.
Lemma crlf_ascii c : is_crlf c = true -> is_ascii c = true.
Proof. destruct c as [[] [] [] [] [] [] [] []]; vm_compute; intros; congruence. Qed.
Lemma meta_ascii c : is_meta (byte_of c) = true -> is_ascii c = true.
Proof. destruct c as [[] [] [] [] [] [] [] []]; vm_compute; intros; congruence. Qed.
Lemma hex_digit_ascii n : (n < 16)%N -> is_ascii (hex_digit n) = true.
Proof.
  intros H.
  assert (n = 0 \/ n = 1 \/ n = 2 \/ n = 3 \/ n = 4 \/ n = 5 \/ n = 6 \/ n = 7 \/ n = 8 \/ n = 9 \/
          n = 10 \/ n = 11 \/ n = 12 \/ n = 13 \/ n = 14 \/ n = 15)%N as Hn by lia.
  repeat (destruct Hn as [->|Hn]; [reflexivity|]). subst. reflexivity.
Qed.
(* a byte accepted as a continuation byte is not ASCII *)
Lemma cont_nonascii p lo hi c : sane (S p) lo hi -> in_range lo hi (byte_of c) = true -> is_ascii c = false.
Proof. intros [Hs|[Hl Hh]] H; [discriminate|]. apply cont_not_ascii. eapply in_range_weaken; eauto. Qed.
(* so an ASCII byte is only accepted between characters *)
Lemma ascii_pend0 p lo hi c r : sane p lo hi -> is_ascii c = true -> chk p lo hi (String c r) = true -> p = 0 /\ validb r = true.
Proof.
  intros Hs Hc H. destruct p as [|p].
  - split; [reflexivity|]. cbn [chk] in H. rewrite (lead_info_ascii c Hc), chk_0_irrel in H. exact H.
  - exfalso. cbn [chk] in H. apply andb_true_iff in H. destruct H as [H _]. rewrite (cont_nonascii _ _ _ _ Hs H) in Hc. discriminate.
Qed.
(* one step of the recogniser on a byte that is kept *)
Lemma chk_step p lo hi c r :
  sane p lo hi -> chk p lo hi (String c r) = true ->
  exists p' lo' hi', sane p' lo' hi' /\ chk p' lo' hi' r = true /\ forall r', chk p' lo' hi' r' = true -> chk p lo hi (String c r') = true.
Proof.
  intros Hs H. cbn [chk] in H. destruct p as [|p].
  - destruct (lead_info (byte_of c)) as [[[k lo'] hi']|] eqn:E; [|discriminate]. exists k, lo', hi'.
    split; [eapply lead_info_sane; exact E|]. split; [exact H|]. intros r' Hr'. cbn [chk]. rewrite E. exact Hr'.
  - apply andb_true_iff in H. destruct H as [H1 H2]. exists p, 128%N, 191%N. split; [right; lia|]. split; [exact H2|].
    intros r' Hr'. cbn [chk]. rewrite H1. exact Hr'.
Qed.

(* ---- case folding ---------------------------------------------------------------------------------------------- *)
Lemma chk_map_bytes f :
  (forall c, is_ascii c = true -> is_ascii (chr (f (byte_of c))) = true) ->
  (forall c, is_ascii c = false -> chr (f (byte_of c)) = c) ->
  forall s p lo hi, sane p lo hi -> chk p lo hi s = true -> chk p lo hi (map_bytes f s) = true.
Proof.
  intros Ha Hn. induction s as [|c r IH]; intros p lo hi Hs H; [exact H|]. cbn [map_bytes].
  destruct (is_ascii c) eqn:Ec.
  - destruct (ascii_pend0 _ _ _ _ _ Hs Ec H) as [-> Hr]. cbn [chk]. rewrite (lead_info_ascii _ (Ha c Ec)). rewrite chk_0_irrel.
    apply (IH 0 0%N 0%N); [left; reflexivity|exact Hr].
  - rewrite (Hn c Ec). destruct (chk_step _ _ _ _ _ Hs H) as (p' & lo' & hi' & Hs' & Hr & Hk). apply Hk. apply IH; assumption.
Qed.

Lemma chk_to_lower n : forall s p lo hi, slen s <= n -> sane p lo hi -> chk p lo hi s = true -> chk p lo hi (to_lower s) = true.
Proof.
  induction n as [|n IH]; intros s p lo hi Hl Hs H.
  - destruct s; [exact H|cbn in Hl; lia].
  - destruct s as [|c r]; [exact H|]. unfold slen in *. cbn [String.length] in Hl. cbn [to_lower]. cbv zeta.
    destruct (byte_of c =? 195)%N eqn:E.
    + apply N.eqb_eq in E. destruct p as [|p].
      * cbn [chk] in H. rewrite E in H. change (lead_info 195) with (Some (1, 128%N, 191%N)) in H.
        destruct r as [|d r']; [discriminate|]. cbn [chk] in H. apply andb_true_iff in H. destruct H as [H1 H2].
        cbn [String.length] in Hl.
        assert (chk 0 128 191 (to_lower r') = true) as Hr' by (apply IH; [unfold slen; lia|left; reflexivity|exact H2]).
        destruct (_ && _) eqn:E2; cbn [chk]; rewrite E; change (lead_info 195) with (Some (1, 128%N, 191%N)); cbn [chk].
        -- apply andb_true_iff in E2. destruct E2 as [E2 _]. rewrite (plus32_cont d E2). exact Hr'.
        -- rewrite H1. exact Hr'.
      * exfalso. cbn [chk] in H. apply andb_true_iff in H. destruct H as [H _]. destruct Hs as [Hs|[Hlo Hhi]]; [discriminate|].
        unfold in_range in H. apply andb_true_iff in H. destruct H as [_ H]. apply N.leb_le in H. lia.
    + destruct (is_ascii c) eqn:Ec.
      * destruct (ascii_pend0 _ _ _ _ _ Hs Ec H) as [-> Hr]. cbn [chk]. rewrite (lead_info_ascii _ (lower_ascii c Ec)). rewrite chk_0_irrel.
        apply (IH r 0 0%N 0%N); [unfold slen; lia|left; reflexivity|exact Hr].
      * rewrite (lower_nonascii c Ec). destruct (chk_step _ _ _ _ _ Hs H) as (p' & lo' & hi' & Hs' & Hr & Hk). apply Hk.
        apply IH; [unfold slen; lia|exact Hs'|exact Hr].
Qed.
Lemma utf8_to_lower s : utf8 s -> utf8 (to_lower s).
Proof. rewrite !utf8_iff. apply (chk_to_lower (slen s)); [lia|left; reflexivity]. Qed.
Lemma utf8_chan_to_lower s : utf8 s -> utf8 (chan_to_lower s).
Proof. apply utf8_to_lower. Qed.
Lemma utf8_nick_to_lower s : utf8 s -> utf8 (nick_to_lower s).
Proof.
  intros H. apply utf8_to_lower in H. rewrite utf8_iff in *. unfold nick_to_lower.
  apply chk_map_bytes; [apply fold_ascii|apply fold_nonascii|left; reflexivity|exact H].
Qed.

(* ---- trimming ------------------------------------------------------------------------------------------------- *)
Lemma asciib_srev_app s acc : asciib (srev_app s acc) = asciib s && asciib acc.
Proof.
  revert acc. induction s as [|c s IH]; intros acc; cbn [srev_app asciib]; [reflexivity|].
  rewrite IH. cbn [asciib]. destruct (is_ascii c), (asciib s); reflexivity.
Qed.
Lemma asciib_srev s : asciib s = true -> asciib (srev s) = true.
Proof. intros H. unfold srev. rewrite asciib_srev_app, H. reflexivity. Qed.

Lemma drop_while_split f s : (forall c, f c = true -> is_ascii c = true) ->
  exists t, s = t ++ drop_while f s /\ asciib t = true.
Proof.
  intros Hf. induction s as [|c r IH]; cbn [drop_while]; [exists ""; split; reflexivity|].
  destruct (f c) eqn:E; [|exists ""; split; reflexivity]. destruct IH as (t & Ht & Ha). exists (String c t).
  split; [rewrite app_cons; f_equal; exact Ht|]. cbn [asciib]. rewrite (Hf c E), Ha. reflexivity.
Qed.
Lemma utf8_trim_crlf s : utf8 s -> utf8 (trim_crlf s).
Proof.
  intros H. unfold trim_crlf. destruct (drop_while_split is_crlf s crlf_ascii) as (t & Ht & Ha).
  assert (utf8 (drop_while is_crlf s)) as H1.
  { rewrite Ht in H. eapply utf8_app_inv_r; [exact H|apply utf8_asciib; exact Ha]. }
  set (s1 := drop_while is_crlf s) in *. clearbody s1.
  destruct (drop_while_split is_crlf (srev s1) crlf_ascii) as (t2 & Ht2 & Ha2).
  assert (s1 = srev (drop_while is_crlf (srev s1)) ++ srev t2) as E.
  { rewrite <- srev_append, <- Ht2. symmetry. apply srev_involutive. }
  rewrite E in H1. eapply utf8_app_inv_l; [exact H1|]. apply utf8_asciib, asciib_srev. exact Ha2.
Qed.

Lemma utf8_trim_left_fuel f s : utf8 s -> utf8 (trim_left_fuel f s).
Proof.
  revert s. induction f as [|f IH]; intros s H; cbn [trim_left_fuel]; [exact H|].
  destruct s as [|c r]; [exact H|]. destruct (is_space_byte _) eqn:E.
  { apply IH. eapply utf8_String_inv; [apply space_ascii; exact E|exact H]. }
  destruct (byte_of c =? 194)%N eqn:E2; [|exact H]. destruct r as [|d r']; [exact H|]. destruct (_ || _) eqn:E3; [|exact H].
  apply IH. apply N.eqb_eq, byte_eq in E2. subst c.
  change (String (chr 194) (String d r')) with (String (chr 194) (String d "") ++ r') in H.
  eapply utf8_app_inv_r; [exact H|]. apply orb_true_iff in E3. destruct E3 as [E3|E3]; apply N.eqb_eq, byte_eq in E3; subst d; reflexivity.
Qed.
Lemma trim_right_rev_split f x : exists t, x = t ++ trim_right_rev_fuel f x /\ utf8 (srev t).
Proof.
  revert x. induction f as [|f IH]; intros x; cbn [trim_right_rev_fuel]; [exists ""; split; reflexivity|].
  destruct x as [|c r]; [exists ""; split; reflexivity|]. destruct (is_space_byte _) eqn:E.
  { destruct (IH r) as (t & Ht & Hu). exists (String c t). split; [rewrite app_cons; f_equal; exact Ht|].
    rewrite srev_cons. apply utf8_app; [exact Hu|]. apply utf8_String; [apply space_ascii; exact E|reflexivity]. }
  destruct (_ || _) eqn:E3; [|exists ""; split; reflexivity]. destruct r as [|d r']; [exists ""; split; reflexivity|].
  destruct (byte_of d =? 194)%N eqn:E2; [|exists ""; split; reflexivity].
  destruct (IH r') as (t & Ht & Hu). exists (String c (String d t)). split; [rewrite !app_cons; do 2 f_equal; exact Ht|].
  rewrite !srev_cons, append_assoc. apply utf8_app; [exact Hu|]. apply N.eqb_eq, byte_eq in E2. subst d.
  apply orb_true_iff in E3. destruct E3 as [E3|E3]; apply N.eqb_eq, byte_eq in E3; subst c; reflexivity.
Qed.
Lemma utf8_trim_space s : utf8 s -> utf8 (trim_space s).
Proof.
  intros H. unfold trim_space. cbv zeta. pose proof (utf8_trim_left_fuel (S (slen s)) s H) as Hl.
  set (l := trim_left_fuel _ s) in *. clearbody l.
  destruct (trim_right_rev_split (S (slen l)) (srev l)) as (t & Ht & Hu).
  assert (l = srev (trim_right_rev_fuel (S (slen l)) (srev l)) ++ srev t) as E.
  { rewrite <- srev_append, <- Ht. symmetry. apply srev_involutive. }
  rewrite E in Hl. eapply utf8_app_inv_l; [exact Hl|exact Hu].
Qed.

(* ---- splitting, joining ------------------------------------------------------------------------------------- *)
Lemma utf8_split_on_aux c s cur : is_ascii c = true -> utf8 (srev cur ++ s) -> Forall utf8 (split_on_aux c s cur).
Proof.
  intros Hc. revert cur. induction s as [|d r IH]; intros cur H; cbn [split_on_aux].
  - rewrite append_nil_r in H. constructor; [exact H|constructor].
  - destruct (Ascii.eqb_spec d c) as [->|Hne].
    + destruct (utf8_cut3 _ _ _ Hc H) as (H1 & H2 & _). constructor; [exact H1|]. apply IH. exact H2.
    + apply IH. rewrite srev_cons, append_assoc. exact H.
Qed.
Lemma utf8_split_on c s : is_ascii c = true -> utf8 s -> Forall utf8 (split_on c s).
Proof. intros Hc H. apply utf8_split_on_aux; [exact Hc|exact H]. Qed.

Lemma utf8_sjoin sep l : utf8 sep -> Forall utf8 l -> utf8 (sjoin sep l).
Proof.
  intros Hs. induction 1 as [|x l Hx Hl IH]; cbn [sjoin]; [reflexivity|].
  destruct l as [|y l']; [exact Hx|]. apply utf8_app; [exact Hx|]. apply utf8_app; [exact Hs|exact IH].
Qed.

(* ---- numbers -------------------------------------------------------------------------------------------------- *)
Lemma asciib_hex_of_N_aux f n acc : asciib acc = true -> asciib (hex_of_N_aux f n acc) = true.
Proof.
  revert n acc. induction f as [|f IH]; intros n acc H; cbn [hex_of_N_aux]; [exact H|]. cbv zeta.
  assert (asciib (String (hex_digit (n mod 16)) acc) = true) as H'.
  { cbn [asciib]. rewrite H, hex_digit_ascii; [reflexivity|]. apply N.mod_lt. discriminate. }
  destruct (_ =? 0)%N; [exact H'|apply IH; exact H'].
Qed.
Lemma utf8_hex_of_N n : utf8 (hex_of_N n).
Proof. apply utf8_asciib. apply asciib_hex_of_N_aux. reflexivity. Qed.

(* ---- ban patterns ------------------------------------------------------------------------------------------------ *)
Lemma has_prefix_split p s : has_prefix p s = true -> s = p ++ sdrop (slen p) s.
Proof.
  revert s. induction p as [|a p IH]; intros s H; [reflexivity|]. destruct s as [|b s]; [discriminate|].
  cbn [has_prefix] in H. apply andb_true_iff in H. destruct H as [Hab Hp]. apply Ascii.eqb_eq in Hab. subst b.
  unfold slen. cbn [String.length sdrop]. rewrite app_cons. f_equal. apply IH. exact Hp.
Qed.
Lemma chk_replace_all_fuel a old' new :
  is_ascii a = true -> asciib old' = true -> utf8 new ->
  forall f s p lo hi, sane p lo hi -> chk p lo hi s = true -> chk p lo hi (replace_all_fuel f (String a old') new s) = true.
Proof.
  intros Ha Ho Hn. apply utf8_iff in Hn. induction f as [|f IH]; intros s p lo hi Hs H; cbn [replace_all_fuel]; [exact H|].
  destruct (has_prefix (String a old') s) eqn:E.
  - pose proof (has_prefix_split _ _ E) as Es. set (rest := sdrop (slen (String a old')) s) in *. clearbody rest. subst s.
    rewrite app_cons in H. destruct (ascii_pend0 _ _ _ _ _ Hs Ha H) as [-> _]. rewrite <- app_cons in H.
    assert (validb (String a old') = true) as Hv by (apply utf8_iff, utf8_asciib; cbn [asciib]; rewrite Ha, Ho; reflexivity).
    rewrite chk_0_irrel in H. unfold validb in H. rewrite (chk_app _ _ _ _ _ Hv) in H.
    rewrite chk_0_irrel. unfold validb. rewrite (chk_app _ _ _ _ _ Hn). apply (IH rest 0 0%N 0%N); [left; reflexivity|exact H].
  - destruct s as [|c r]; [exact H|]. destruct (chk_step _ _ _ _ _ Hs H) as (p' & lo' & hi' & Hs' & Hr & Hk). apply Hk.
    apply IH; assumption.
Qed.
Lemma utf8_replace_all a old' new s :
  is_ascii a = true -> asciib old' = true -> utf8 new -> utf8 s -> utf8 (replace_all (String a old') new s).
Proof.
  intros Ha Ho Hn H. apply utf8_iff. apply utf8_iff in H. unfold replace_all.
  apply chk_replace_all_fuel; [exact Ha|exact Ho|exact Hn|left; reflexivity|exact H].
Qed.
Lemma chk_quote_meta s : forall p lo hi, sane p lo hi -> chk p lo hi s = true -> chk p lo hi (quote_meta s) = true.
Proof.
  induction s as [|c r IH]; intros p lo hi Hs H; [exact H|]. cbn [quote_meta]. destruct (is_meta (byte_of c)) eqn:E.
  - pose proof (meta_ascii c E) as Hc. destruct (ascii_pend0 _ _ _ _ _ Hs Hc H) as [-> Hr].
    cbn [chk]. change (lead_info (byte_of "\"%char)) with (Some (0, 0%N, 0%N)). cbn [chk]. rewrite (lead_info_ascii c Hc).
    rewrite chk_0_irrel. apply (IH 0 0%N 0%N); [left; reflexivity|exact Hr].
  - destruct (chk_step _ _ _ _ _ Hs H) as (p' & lo' & hi' & Hs' & Hr & Hk). apply Hk. apply IH; assumption.
Qed.
Lemma utf8_quote_meta s : utf8 s -> utf8 (quote_meta s).
Proof. rewrite !utf8_iff. apply chk_quote_meta. left; reflexivity. Qed.
Lemma utf8_ban_pattern s : utf8 s -> utf8 (replace_all "\*" ".*" (quote_meta s)).
Proof. intros H. apply utf8_replace_all; [reflexivity|reflexivity|reflexivity|apply utf8_quote_meta; exact H]. Qed.

(* ---- the user name cut ------------------------------------------------------------------------------------------ *)
Lemma utf8_cap_user u : utf8 u -> utf8 (cap_user u).
Proof. intros H. unfold cap_user. destruct (Nat.ltb _ _); [apply utf8_to_valid_utf8|exact H]. Qed.

(* ---- the class ------------------------------------------------------------------------------------------------ *)
Class U8 (A : Type) := u8 : A -> Prop.
Global Hint Mode U8 ! : typeclass_instances.

Global Instance u8_string : U8 string := utf8.
Global Instance u8_unit : U8 unit := fun _ => True.
Global Instance u8_bool : U8 bool := fun _ => True.
Global Instance u8_nat : U8 nat := fun _ => True.
Global Instance u8_N : U8 N := fun _ => True.
Global Instance u8_Z : U8 Z := fun _ => True.
Global Instance u8_option {A} `{U8 A} : U8 (option A) := fun o => match o with Some a => u8 a | None => True end.
Global Instance u8_prod {A B} `{U8 A} `{U8 B} : U8 (A * B) := fun p => u8 (fst p) /\ u8 (snd p).
Global Instance u8_list {A} `{U8 A} : U8 (list A) := Forall u8.
Global Instance u8_res {A} `{U8 A} : U8 (res A) := fun x => match x with Ok a => u8 a | _ => True end.
(* sets and maps: the ELEMENTS and KEYS are serialised too *)
Global Instance u8_gset {K} `{Countable K} `{U8 K} : U8 (gset K) := fun s => forall x, x ∈ s -> u8 x.
Global Instance u8_gmap {K A} `{Countable K} `{U8 K} `{U8 A} : U8 (gmap K A) :=
  fun m => forall k a, m !! k = Some a -> u8 k /\ u8 a.

Global Instance u8_prefix : U8 prefix := fun p => u8 (p_name p) /\ u8 (p_user p) /\ u8 (p_host p).
(* the command word of a parsed line is never stored *)
Global Instance u8_imsg : U8 imsg := fun m => u8 (m_prefix m) /\ u8 (m_params m).
(* pb.Snapshot_Session: auth, nick, username, realname, channels, away_msg, invited_to, svid, pass, irc_prefix, remote_addr
   (modes are single ASCII letters 'A'..'y') *)
Global Instance u8_session : U8 session :=
  fun s => u8 (s_auth s) /\ u8 (s_nick s) /\ u8 (s_user s) /\ u8 (s_real s) /\ u8 (s_channels s) /\ u8 (s_away s) /\
           u8 (s_invited s) /\ u8 (s_svid s) /\ u8 (s_pass s) /\ u8 (s_prefix s) /\ u8 (s_remoteAddr s).
(* pb.Snapshot_Channel: name, topic_nick, topic, the keys of nicks, key, bans (pattern and regexp source) *)
Global Instance u8_chan : U8 chan :=
  fun c => u8 (c_name c) /\ u8 (c_topicNick c) /\ u8 (c_topic c) /\ u8 (c_nicks c) /\ u8 (c_key c) /\ u8 (c_bans c).
Global Instance u8_svshold : U8 svshold := fun h => u8 (h_reason h).
(* pb.Snapshot_Config: operators, services, trusted_bridges, captcha_url, captcha_hmac_secret, banned, whitelisted_origins
   (the two durations are printed by time.Duration.String: ASCII) *)
Global Instance u8_config : U8 config :=
  fun g => u8 (g_captchaURL g) /\ u8 (g_captchaHMAC g) /\ u8 (g_operators g) /\ u8 (g_services g) /\ u8 (g_banned g) /\
           u8 (g_trustedBridges g) /\ u8 (g_whitelistedOrigins g).
(* pb.Snapshot: sessions, channels, svsholds (keys and reasons), config.  The keys of i.channels and the nick index are
   not serialised (Unmarshal recomputes them); the channel keys are covered anyway, the nick index is not. *)
Global Instance u8_server : U8 server :=
  fun sv => u8 (sv_sessions sv) /\ u8 (sv_channels sv) /\ u8 (sv_svsholds sv) /\ u8 (sv_config sv).
Global Instance u8_modecmd : U8 modecmd := fun md => u8 (mc_param md).

Definition Utf8State (sv : server) : Prop := u8 sv.

(* trivially fine types *)
Class TrivU8 (A : Type) `{U8 A} := triv_u8 : forall a : A, u8 a.
Global Instance trivu_unit : TrivU8 unit. Proof. intros ?; exact Logic.I. Qed.
Global Instance trivu_bool : TrivU8 bool. Proof. intros ?; exact Logic.I. Qed.
Global Instance trivu_nat : TrivU8 nat. Proof. intros ?; exact Logic.I. Qed.
Global Instance trivu_N : TrivU8 N. Proof. intros ?; exact Logic.I. Qed.
Global Instance trivu_Z : TrivU8 Z. Proof. intros ?; exact Logic.I. Qed.
Global Instance trivu_option {A} `{TrivU8 A} : TrivU8 (option A).
Proof. intros [a|]; [exact (triv_u8 a)|exact Logic.I]. Qed.
Global Instance trivu_prod {A B} `{TrivU8 A} `{TrivU8 B} : TrivU8 (A * B).
Proof. intros [a b]; split; [exact (triv_u8 a)|exact (triv_u8 b)]. Qed.
Global Instance trivu_list {A} `{TrivU8 A} : TrivU8 (list A).
Proof. intros l. apply Forall_forall. intros x _. exact (triv_u8 x). Qed.
Global Instance trivu_res {A} `{TrivU8 A} : TrivU8 (res A).
Proof. intros [a|?|?]; [exact (triv_u8 a)|exact Logic.I|exact Logic.I]. Qed.
Global Instance trivu_gset {K} `{Countable K} `{TrivU8 K} : TrivU8 (gset K).
Proof. intros s x _. exact (triv_u8 x). Qed.

(* ---- constructors and projections ------------------------------------------------------------------------- *)
Lemma u8_empty : u8 "". Proof. reflexivity. Qed.
Lemma u8_app (a b : string) : u8 a -> u8 b -> u8 (a ++ b). Proof. apply utf8_app. Qed.
Lemma u8_to_lower s : u8 s -> u8 (to_lower s). Proof. apply utf8_to_lower. Qed.
Lemma u8_chan_to_lower s : u8 s -> u8 (chan_to_lower s). Proof. apply utf8_to_lower. Qed.
Lemma u8_nick_to_lower s : u8 s -> u8 (nick_to_lower s). Proof. apply utf8_nick_to_lower. Qed.
Lemma u8_trim_space s : u8 s -> u8 (trim_space s). Proof. apply utf8_trim_space. Qed.
Lemma u8_cap_user s : u8 s -> u8 (cap_user s). Proof. apply utf8_cap_user. Qed.
Lemma u8_hex_of_N n : u8 (hex_of_N n). Proof. apply utf8_hex_of_N. Qed.
Lemma u8_ban_pattern s : u8 s -> u8 (replace_all "\*" ".*" (quote_meta s)). Proof. apply utf8_ban_pattern. Qed.

Lemma u8_Some {A} `{U8 A} (a : A) : u8 a -> u8 (Some a). Proof. trivial. Qed.
Lemma u8_None {A} `{U8 A} : u8 (@None A). Proof. exact Logic.I. Qed.
Lemma u8_pair {A B} `{U8 A} `{U8 B} (a : A) (b : B) : u8 a -> u8 b -> u8 (a, b). Proof. split; assumption. Qed.
Lemma u8_fst {A B} `{U8 A} `{U8 B} (p : A * B) : u8 p -> u8 (fst p). Proof. intros [? ?]; assumption. Qed.
Lemma u8_snd {A B} `{U8 A} `{U8 B} (p : A * B) : u8 p -> u8 (snd p). Proof. intros [? ?]; assumption. Qed.
Lemma u8_Ok {A} `{U8 A} (a : A) : u8 a -> u8 (Ok a). Proof. trivial. Qed.
Lemma u8_Panic {A} `{U8 A} s : u8 (@Panic A s). Proof. exact Logic.I. Qed.
Lemma u8_Gap {A} `{U8 A} s : u8 (@Gap A s). Proof. exact Logic.I. Qed.

Lemma u8_nil {A} `{U8 A} : u8 (@nil A). Proof. constructor. Qed.
Lemma u8_cons {A} `{U8 A} (a : A) l : u8 a -> u8 l -> u8 (a :: l). Proof. constructor; assumption. Qed.
Lemma u8_cons_inv {A} `{U8 A} (a : A) l : u8 (a :: l) -> u8 a /\ u8 l.
Proof. intros HH. inversion HH; subst. split; assumption. Qed.
Lemma u8_lapp {A} `{U8 A} (a b : list A) : u8 a -> u8 b -> u8 (a ++ b)%list.
Proof. intros Ha Hb. apply Forall_app. split; assumption. Qed.
Lemma u8_last (l : list string) d : u8 l -> u8 d -> u8 (last l d).
Proof. intros Hl Hd. induction Hl as [|x l Hx Hl IH]; cbn [last]; [exact Hd|]. destruct l; [exact Hx|exact IH]. Qed.
Lemma u8_nth (l : list string) n d : u8 l -> u8 d -> u8 (nth n l d).
Proof. intros Hl Hd. revert n. induction Hl; intros [|n]; cbn [nth]; auto. Qed.
Lemma u8_nth_error {A} `{U8 A} (l : list A) n : u8 l -> u8 (nth_error l n).
Proof. intros Hl. revert n. induction Hl; intros [|n]; cbn [nth_error]; try exact Logic.I; auto. Qed.
Lemma u8_hd (l : list string) d : u8 l -> u8 d -> u8 (hd d l).
Proof. intros Hl Hd. destruct Hl; assumption. Qed.
Lemma u8_tl {A} `{U8 A} (l : list A) : u8 l -> u8 (tl l).
Proof. intros Hl. destruct Hl; [apply u8_nil|assumption]. Qed.
Lemma u8_lfilter {A} `{U8 A} f (l : list A) : u8 l -> u8 (List.filter f l).
Proof. induction 1; cbn [List.filter]; [apply u8_nil|]. destruct (f _); [apply u8_cons|]; assumption. Qed.
Lemma u8_split_on c s : is_ascii c = true -> u8 s -> u8 (split_on c s). Proof. apply utf8_split_on. Qed.
Lemma u8_sjoin sep (l : list string) : u8 sep -> u8 l -> u8 (sjoin sep l). Proof. apply utf8_sjoin. Qed.
Lemma u8_zip_keys (a b : list string) : u8 a -> u8 b -> u8 (zip_keys a b).
Proof.
  intros Ha. revert b. induction Ha as [|x a Hx Ha IH]; intros b Hb; cbn [zip_keys]; [apply u8_nil|].
  destruct Hb as [|y b Hy Hb]; (apply u8_cons; [apply u8_pair; [exact Hx|first [exact Hy|reflexivity]]|apply IH]); [apply u8_nil|exact Hb].
Qed.

Lemma u8_Prefix a b c : u8 a -> u8 b -> u8 c -> u8 (Prefix a b c). Proof. repeat split; assumption. Qed.
Lemma u8_p_name p : u8 p -> u8 (p_name p). Proof. intros (?&?&?); assumption. Qed.
Lemma u8_p_user p : u8 p -> u8 (p_user p). Proof. intros (?&?&?); assumption. Qed.
Lemma u8_p_host p : u8 p -> u8 (p_host p). Proof. intros (?&?&?); assumption. Qed.
Lemma u8_IMsg p c ps : u8 p -> u8 ps -> u8 (IMsg p c ps). Proof. split; assumption. Qed.
Lemma u8_m_prefix m : u8 m -> u8 (m_prefix m). Proof. intros (?&?); assumption. Qed.
Lemma u8_m_params m : u8 m -> u8 (m_params m). Proof. intros (?&?); assumption. Qed.
Lemma u8_trailing m : u8 m -> u8 (trailing m).
Proof. intros H. unfold trailing. apply u8_last; [apply u8_m_params; exact H|reflexivity]. Qed.

Lemma u8_Session k au li nick user real ch la lnp lsc op away cr inv mo svid pass srv cmid pfx del ra :
  u8 au -> u8 nick -> u8 user -> u8 real -> u8 ch -> u8 away -> u8 inv -> u8 svid -> u8 pass -> u8 pfx -> u8 ra ->
  u8 (Session k au li nick user real ch la lnp lsc op away cr inv mo svid pass srv cmid pfx del ra).
Proof.
  intros. unfold u8 at 1, u8_session.
  cbn [s_auth s_nick s_user s_real s_channels s_away s_invited s_svid s_pass s_prefix s_remoteAddr]. tauto.
Qed.
Lemma u8_s_auth s : u8 s -> u8 (s_auth s). Proof. intros (?&?&?&?&?&?&?&?&?&?&?); assumption. Qed.
Lemma u8_s_nick s : u8 s -> u8 (s_nick s). Proof. intros (?&?&?&?&?&?&?&?&?&?&?); assumption. Qed.
Lemma u8_s_user s : u8 s -> u8 (s_user s). Proof. intros (?&?&?&?&?&?&?&?&?&?&?); assumption. Qed.
Lemma u8_s_real s : u8 s -> u8 (s_real s). Proof. intros (?&?&?&?&?&?&?&?&?&?&?); assumption. Qed.
Lemma u8_s_channels s : u8 s -> u8 (s_channels s). Proof. intros (?&?&?&?&?&?&?&?&?&?&?); assumption. Qed.
Lemma u8_s_away s : u8 s -> u8 (s_away s). Proof. intros (?&?&?&?&?&?&?&?&?&?&?); assumption. Qed.
Lemma u8_s_invited s : u8 s -> u8 (s_invited s). Proof. intros (?&?&?&?&?&?&?&?&?&?&?); assumption. Qed.
Lemma u8_s_svid s : u8 s -> u8 (s_svid s). Proof. intros (?&?&?&?&?&?&?&?&?&?&?); assumption. Qed.
Lemma u8_s_pass s : u8 s -> u8 (s_pass s). Proof. intros (?&?&?&?&?&?&?&?&?&?&?); assumption. Qed.
Lemma u8_s_prefix s : u8 s -> u8 (s_prefix s). Proof. intros (?&?&?&?&?&?&?&?&?&?&?); assumption. Qed.
Lemma u8_s_remoteAddr s : u8 s -> u8 (s_remoteAddr s). Proof. intros (?&?&?&?&?&?&?&?&?&?&?); assumption. Qed.

Lemma u8_Chan name tn tt topic nicks modes key bans :
  u8 name -> u8 tn -> u8 topic -> u8 nicks -> u8 key -> u8 bans -> u8 (Chan name tn tt topic nicks modes key bans).
Proof. intros. unfold u8 at 1, u8_chan. cbn [c_name c_topicNick c_topic c_nicks c_key c_bans]. tauto. Qed.
Lemma u8_c_name c : u8 c -> u8 (c_name c). Proof. intros (?&?&?&?&?&?); assumption. Qed.
Lemma u8_c_topicNick c : u8 c -> u8 (c_topicNick c). Proof. intros (?&?&?&?&?&?); assumption. Qed.
Lemma u8_c_topic c : u8 c -> u8 (c_topic c). Proof. intros (?&?&?&?&?&?); assumption. Qed.
Lemma u8_c_nicks c : u8 c -> u8 (c_nicks c). Proof. intros (?&?&?&?&?&?); assumption. Qed.
Lemma u8_c_key c : u8 c -> u8 (c_key c). Proof. intros (?&?&?&?&?&?); assumption. Qed.
Lemma u8_c_bans c : u8 c -> u8 (c_bans c). Proof. intros (?&?&?&?&?&?); assumption. Qed.

Lemma u8_SvsHold a d r : u8 r -> u8 (SvsHold a d r). Proof. trivial. Qed.
Lemma u8_h_reason h : u8 h -> u8 (h_reason h). Proof. trivial. Qed.

Lemma u8_Config rv ex co ms mc cu ch cl ops svc banned tb wo :
  u8 cu -> u8 ch -> u8 ops -> u8 svc -> u8 banned -> u8 tb -> u8 wo -> u8 (Config rv ex co ms mc cu ch cl ops svc banned tb wo).
Proof.
  intros. unfold u8 at 1, u8_config.
  cbn [g_captchaURL g_captchaHMAC g_operators g_services g_banned g_trustedBridges g_whitelistedOrigins]. tauto.
Qed.
Lemma u8_g_captchaURL g : u8 g -> u8 (g_captchaURL g). Proof. intros (?&?&?&?&?&?&?); assumption. Qed.
Lemma u8_g_captchaHMAC g : u8 g -> u8 (g_captchaHMAC g). Proof. intros (?&?&?&?&?&?&?); assumption. Qed.
Lemma u8_g_operators g : u8 g -> u8 (g_operators g). Proof. intros (?&?&?&?&?&?&?); assumption. Qed.
Lemma u8_g_services g : u8 g -> u8 (g_services g). Proof. intros (?&?&?&?&?&?&?); assumption. Qed.
Lemma u8_g_banned g : u8 g -> u8 (g_banned g). Proof. intros (?&?&?&?&?&?&?); assumption. Qed.
Lemma u8_g_trustedBridges g : u8 g -> u8 (g_trustedBridges g). Proof. intros (?&?&?&?&?&?&?); assumption. Qed.
Lemma u8_g_whitelistedOrigins g : u8 g -> u8 (g_whitelistedOrigins g). Proof. intros (?&?&?&?&?&?&?); assumption. Qed.
Lemma u8_with_revision rv g : u8 g -> u8 (with_revision rv g).
Proof. intros (?&?&?&?&?&?&?). apply u8_Config; assumption. Qed.

Lemma u8_Server ss sss ns cs hs net lp g : u8 ss -> u8 cs -> u8 hs -> u8 g -> u8 (Server ss sss ns cs hs net lp g).
Proof. intros. unfold u8 at 1, u8_server. cbn [sv_sessions sv_channels sv_svsholds sv_config]. tauto. Qed.
Lemma u8_sv_sessions sv : u8 sv -> u8 (sv_sessions sv). Proof. intros (?&?&?&?); assumption. Qed.
Lemma u8_sv_channels sv : u8 sv -> u8 (sv_channels sv). Proof. intros (?&?&?&?); assumption. Qed.
Lemma u8_sv_svsholds sv : u8 sv -> u8 (sv_svsholds sv). Proof. intros (?&?&?&?); assumption. Qed.
Lemma u8_sv_config sv : u8 sv -> u8 (sv_config sv). Proof. intros (?&?&?&?); assumption. Qed.

Lemma u8_ModeCmd a c p : u8 p -> u8 (ModeCmd a c p). Proof. trivial. Qed.
Lemma u8_mc_param md : u8 md -> u8 (mc_param md). Proof. trivial. Qed.

(* ---- sets and maps ------------------------------------------------------------------------------------------ *)
Section Sets.
  Context {K : Type} `{Countable K} `{U8 K}.
  Implicit Types (s : gset K).
  Lemma u8_sempty : u8 (∅ : gset K). Proof. intros x Hx. apply not_elem_of_empty in Hx. contradiction. Qed.
  Lemma u8_singleton (x : K) : u8 x -> u8 ({[ x ]} : gset K).
  Proof. intros Hx y Hy. apply elem_of_singleton in Hy. subst y. exact Hx. Qed.
  Lemma u8_union s1 s2 : u8 s1 -> u8 s2 -> u8 (s1 ∪ s2).
  Proof. intros H1 H2 x Hx. apply elem_of_union in Hx. destruct Hx; auto. Qed.
  Lemma u8_difference s1 s2 : u8 s1 -> u8 (s1 ∖ s2).
  Proof. intros H1 x Hx. apply elem_of_difference in Hx. destruct Hx; auto. Qed.
End Sets.

Section Maps.
  Context {K A : Type} `{Countable K} `{U8 K} `{U8 A}.
  Implicit Types (m : gmap K A).
  Lemma u8_gempty : u8 (∅ : gmap K A).
  Proof. intros k a Hk. rewrite lookup_empty in Hk. discriminate. Qed.
  Lemma u8_lookup m k : u8 m -> u8 (m !! k).
  Proof. intros Hm. destruct (m !! k) as [a|] eqn:E; [exact (proj2 (Hm k a E))|exact Logic.I]. Qed.
  Lemma u8_insert m k a : u8 k -> u8 a -> u8 m -> u8 (<[k := a]> m).
  Proof.
    intros Hk Ha Hm k' a' Hk'. destruct (decide (k = k')) as [->|Hne].
    - rewrite lookup_insert in Hk'. injection Hk' as <-. split; assumption.
    - rewrite lookup_insert_ne in Hk' by exact Hne. exact (Hm k' a' Hk').
  Qed.
  Lemma u8_delete m k : u8 m -> u8 (delete k m).
  Proof.
    intros Hm k' a' Hk. destruct (decide (k = k')) as [->|Hne].
    - rewrite lookup_delete in Hk. discriminate.
    - rewrite lookup_delete_ne in Hk by exact Hne. exact (Hm k' a' Hk).
  Qed.
  Lemma u8_fmap (f : A -> A) m : (forall a, u8 a -> u8 (f a)) -> u8 m -> u8 (f <$> m).
  Proof.
    intros Hf Hm k a Hk. rewrite lookup_fmap in Hk. destruct (m !! k) as [a0|] eqn:E; [|discriminate].
    cbn in Hk. injection Hk as <-. destruct (Hm k a0 E). split; [assumption|]. apply Hf. assumption.
  Qed.
  Lemma u8_mfilter (P : K * A -> Prop) `{!forall x, Decision (P x)} m : u8 m -> u8 (base.filter P m).
  Proof. intros Hm k a Hk. apply map_filter_lookup_Some in Hk. destruct Hk as [Hk _]. exact (Hm k a Hk). Qed.
End Maps.
Global Instance trivu_gmap {K A} `{Countable K} `{TrivU8 K} `{TrivU8 A} : TrivU8 (gmap K A).
Proof. intros m k a _. split; [exact (triv_u8 k)|exact (triv_u8 a)]. Qed.

(* ---- field updates ---------------------------------------------------------------------------------------------- *)
Ltac sess_setter :=
  intros;
  repeat match goal with Hs : @u8 session _ _ |- _ => destruct Hs as (?&?&?&?&?&?&?&?&?&?&?) end;
  unfold ss_nick, ss_user_real, ss_loggedIn, ss_channels, ss_activity, ss_solved, ss_operator, ss_away, ss_invited,
         ss_modes, ss_svid, ss_pass, ss_server, ss_prefix, ss_deleted, ss_remoteAddr, reload_session;
  apply u8_Session; assumption.
Lemma u8_ss_nick v s : u8 v -> u8 s -> u8 (ss_nick v s). Proof. sess_setter. Qed.
Lemma u8_ss_user_real u r s : u8 u -> u8 r -> u8 s -> u8 (ss_user_real u r s). Proof. sess_setter. Qed.
Lemma u8_ss_loggedIn v s : u8 s -> u8 (ss_loggedIn v s). Proof. sess_setter. Qed.
Lemma u8_ss_channels f s : u8 (f (s_channels s)) -> u8 s -> u8 (ss_channels f s). Proof. sess_setter. Qed.
Lemma u8_ss_activity a b c s : u8 s -> u8 (ss_activity a b c s). Proof. sess_setter. Qed.
Lemma u8_ss_solved v s : u8 s -> u8 (ss_solved v s). Proof. sess_setter. Qed.
Lemma u8_ss_operator v s : u8 s -> u8 (ss_operator v s). Proof. sess_setter. Qed.
Lemma u8_ss_away v s : u8 v -> u8 s -> u8 (ss_away v s). Proof. sess_setter. Qed.
Lemma u8_ss_invited f s : u8 (f (s_invited s)) -> u8 s -> u8 (ss_invited f s). Proof. sess_setter. Qed.
Lemma u8_ss_modes f s : u8 s -> u8 (ss_modes f s). Proof. sess_setter. Qed.
Lemma u8_ss_svid v s : u8 v -> u8 s -> u8 (ss_svid v s). Proof. sess_setter. Qed.
Lemma u8_ss_pass v s : u8 v -> u8 s -> u8 (ss_pass v s). Proof. sess_setter. Qed.
Lemma u8_ss_server v s : u8 s -> u8 (ss_server v s). Proof. sess_setter. Qed.
Lemma u8_ss_prefix v s : u8 v -> u8 s -> u8 (ss_prefix v s). Proof. sess_setter. Qed.
Lemma u8_ss_deleted v s : u8 s -> u8 (ss_deleted v s). Proof. sess_setter. Qed.
Lemma u8_ss_remoteAddr v s : u8 v -> u8 s -> u8 (ss_remoteAddr v s). Proof. sess_setter. Qed.
Lemma u8_reload_session s : u8 s -> u8 (reload_session s). Proof. sess_setter. Qed.
Lemma u8_mk_prefix s : u8 s -> u8 (mk_prefix s).
Proof.
  intros Hs. apply u8_Prefix; [apply u8_s_nick; exact Hs|apply u8_s_user; exact Hs|].
  apply u8_app; [reflexivity|apply u8_hex_of_N].
Qed.
Lemma u8_update_prefix s : u8 s -> u8 (update_prefix s).
Proof. intros Hs. apply u8_ss_prefix; [apply u8_mk_prefix; exact Hs|exact Hs]. Qed.
Lemma u8_new_session k a ts : u8 a -> u8 (new_session k a ts).
Proof. intros Ha. apply u8_Session; try reflexivity; try exact Ha; try apply u8_sempty. apply u8_Prefix; reflexivity. Qed.

Ltac chan_setter :=
  intros;
  repeat match goal with Hc : @u8 chan _ _ |- _ => destruct Hc as (?&?&?&?&?&?) end;
  unfold cc_nicks, cc_topic, cc_modes, cc_key, cc_bans, new_chan;
  apply u8_Chan; try assumption; try reflexivity.
Lemma u8_cc_nicks f c : u8 (f (c_nicks c)) -> u8 c -> u8 (cc_nicks f c). Proof. chan_setter. Qed.
Lemma u8_cc_topic n t txt c : u8 n -> u8 txt -> u8 c -> u8 (cc_topic n t txt c). Proof. chan_setter. Qed.
Lemma u8_cc_modes f c : u8 c -> u8 (cc_modes f c). Proof. chan_setter. Qed.
Lemma u8_cc_key k c : u8 k -> u8 c -> u8 (cc_key k c). Proof. chan_setter. Qed.
Lemma u8_cc_bans f c : u8 (f (c_bans c)) -> u8 c -> u8 (cc_bans f c). Proof. chan_setter. Qed.
Lemma u8_new_chan name modes : u8 name -> u8 (new_chan name modes).
Proof. chan_setter; [apply u8_gempty|apply u8_nil]. Qed.

Lemma u8_rename_member oldn newn (ns : gmap string (bool * bool)) : u8 newn -> u8 ns -> u8 (rename_member oldn newn ns).
Proof.
  intros Hn Hns. unfold rename_member. destruct (ns !! oldn) as [perms|]; [|apply u8_delete; exact Hns].
  apply u8_delete. apply u8_insert; [exact Hn|exact (triv_u8 perms)|exact Hns].
Qed.

Lemma u8_ban_one add mask pat (bans : list (string * string)) : u8 mask -> u8 pat -> u8 bans -> u8 (ban_one add mask pat bans).
Proof.
  intros Hm Hp Hb. unfold ban_one. destruct add; [|apply u8_lfilter; exact Hb].
  apply u8_lapp; [exact Hb|]. apply u8_cons; [split; assumption|apply u8_nil].
Qed.
Lemma u8_ban_both add mask pat pa (bans : list (string * string)) :
  u8 mask -> u8 pat -> u8 pa -> u8 bans -> u8 (ban_both add mask pat pa bans).
Proof.
  intros Hm Hp Hpa Hb. unfold ban_both. cbv zeta. destruct (String.eqb pa pat); [apply u8_ban_one; assumption|].
  apply u8_ban_one; [exact Hm|exact Hpa|]. apply u8_ban_one; assumption.
Qed.
(* resolveSessionToRemoteAddrLocked cuts the pattern in front of the ASCII text "robust/0x" *)
Lemma u8_resolve_remote sv pattern : u8 sv -> u8 pattern -> u8 (resolve_remote sv pattern).
Proof.
  intros Hsv Hp. unfold resolve_remote. destruct (sindex "robust/0x" pattern) as [idx|] eqn:Ei; [|exact Hp].
  destruct (parse_0x _); [|exact Hp]. destruct (sv_sessions sv !! _) as [s|] eqn:Es; [|exact Hp].
  destruct (is_empty _); [exact Hp|]. apply u8_app.
  - pose proof (sindex_sget _ _ _ 0 "r"%char Ei eq_refl) as Hg. rewrite Nat.add_0_r in Hg.
    exact (proj1 (utf8_at idx pattern _ Hp Hg eq_refl)).
  - apply u8_s_remoteAddr. exact (proj2 (u8_sv_sessions sv Hsv _ _ Es)).
Qed.

Ltac srv_setter :=
  intros;
  repeat match goal with Hs : @u8 server _ _ |- _ => destruct Hs as (?&?&?&?) end;
  unfold set_sessions, set_serverSessions, set_nicks, set_channels, set_svsholds, set_lastProcessed, set_config;
  apply u8_Server; assumption.
Lemma u8_set_sessions f sv : u8 sv -> u8 (f (sv_sessions sv)) -> u8 (set_sessions f sv). Proof. srv_setter. Qed.
Lemma u8_set_serverSessions f sv : u8 sv -> u8 (set_serverSessions f sv). Proof. srv_setter. Qed.
Lemma u8_set_nicks f sv : u8 sv -> u8 (set_nicks f sv). Proof. srv_setter. Qed.
Lemma u8_set_channels f sv : u8 sv -> u8 (f (sv_channels sv)) -> u8 (set_channels f sv). Proof. srv_setter. Qed.
Lemma u8_set_svsholds f sv : u8 sv -> u8 (f (sv_svsholds sv)) -> u8 (set_svsholds f sv). Proof. srv_setter. Qed.
Lemma u8_set_lastProcessed k sv : u8 sv -> u8 (set_lastProcessed k sv). Proof. srv_setter. Qed.
Lemma u8_set_config f sv : u8 sv -> u8 (f (sv_config sv)) -> u8 (set_config f sv). Proof. srv_setter. Qed.
Lemma u8_default_config : u8 default_config.
Proof. apply u8_Config; try reflexivity; try apply u8_nil; try apply u8_gempty. apply u8_sempty. Qed.
Lemma u8_init_server net : u8 (init_server net).
Proof. apply u8_Server; [apply u8_gempty|apply u8_gempty|apply u8_gempty|apply u8_default_config]. Qed.

(* ---- parsing ------------------------------------------------------------------------------------------------------ *)
Lemma u8_parse_prefix raw : u8 raw -> u8 (parse_prefix raw).
Proof.
  intros H. unfold parse_prefix. cbv zeta.
  destruct (index_byte "!" raw) as [u|] eqn:Eu, (index_byte "@" raw) as [h|] eqn:Eh;
    try (pose proof (utf8_at u raw _ H (index_byte_sget _ _ _ Eu) eq_refl) as (Hu1 & Hu2 & Hu3));
    try (pose proof (utf8_at h raw _ H (index_byte_sget _ _ _ Eh) eq_refl) as (Hh1 & Hh2 & Hh3)).
  - destruct (Nat.ltb 0 u && Nat.ltb u h) eqn:E.
    + apply andb_true_iff in E. destruct E as [_ E]. apply Nat.ltb_lt in E. apply u8_Prefix; [exact Hu1| |exact Hh3].
      assert (sget (h - u - 1) (sdrop (S u) raw) = Some "@"%char) as Hg.
      { rewrite sget_sdrop. replace (S u + (h - u - 1)) with h by lia. apply index_byte_sget. exact Eh. }
      exact (proj1 (utf8_at _ _ _ Hu3 Hg eq_refl)).
    + destruct (Nat.ltb 0 u); [apply u8_Prefix; [exact Hu1|exact Hu3|reflexivity]|].
      destruct (Nat.ltb 0 h); [apply u8_Prefix; [exact Hh1|reflexivity|exact Hh3]|]. apply u8_Prefix; [exact H|reflexivity|reflexivity].
  - destruct (Nat.ltb 0 u); [apply u8_Prefix; [exact Hu1|exact Hu3|reflexivity]|apply u8_Prefix; [exact H|reflexivity|reflexivity]].
  - destruct (Nat.ltb 0 h); [apply u8_Prefix; [exact Hh1|reflexivity|exact Hh3]|apply u8_Prefix; [exact H|reflexivity|reflexivity]].
  - apply u8_Prefix; [exact H|reflexivity|reflexivity].
Qed.

Lemma u8_parse_message raw0 : u8 raw0 -> u8 (parse_message raw0).
Proof.
  intros H0. unfold parse_message. cbv zeta. pose proof (utf8_trim_crlf _ H0) as H. set (raw := trim_crlf raw0) in *. clearbody raw.
  destruct (Nat.ltb (slen raw) 2); [exact Logic.I|].
  match goal with |- u8 (match ?pre with None => None | Some _ => _ end) => set (P := pre) end.
  assert (HP : match P with None => True | Some (p, i) => u8 p /\ utf8 (sdrop i raw) end).
  { subst P. destruct raw as [|c r]; [split; [exact Logic.I|exact H]|].
    destruct c as [[] [] [] [] [] [] [] []]; try (split; [exact Logic.I|exact H]).
    destruct (index_byte " " _) as [i|] eqn:Ei; [|exact Logic.I]. destruct (Nat.ltb i 2) eqn:Ei2; [exact Logic.I|].
    destruct i as [|i]; [discriminate|]. pose proof (index_byte_sget _ _ _ Ei) as Hg.
    destruct (utf8_at _ _ _ H Hg eq_refl) as (_ & _ & H3). split; [|exact H3].
    cbn [sdrop Nat.sub]. rewrite Nat.sub_0_r. cbn [sget] in Hg.
    assert (utf8 r) as Hr by (eapply utf8_String_inv; [|exact H]; reflexivity).
    apply u8_parse_prefix. exact (proj1 (utf8_at _ _ _ Hr Hg eq_refl)). }
  destruct P as [[pfx i]|]; [|exact Logic.I]. destruct HP as [HP Hr]. set (rest := sdrop i raw) in *. clearbody rest.
  destruct (index_byte " " rest) as [[|k]|] eqn:Ek.
  - apply u8_IMsg; [exact HP|apply u8_nil].
  - pose proof (index_byte_sget _ _ _ Ek) as Hg. destruct (utf8_at _ _ _ Hr Hg eq_refl) as (_ & Hf & _).
    assert (sget 0 (sdrop (S k) rest) = Some " "%char) as Hg0 by (rewrite sget_sdrop, Nat.add_0_r; exact Hg).
    set (fromj := sdrop (S k) rest) in *. clearbody fromj.
    destruct (utf8_at _ _ _ Hf Hg0 eq_refl) as (_ & _ & Hf1).
    destruct (sindex " :" fromj) as [idx|] eqn:Ei.
    + apply u8_IMsg; [exact HP|]. apply u8_lapp.
      * destruct (Nat.ltb 1 idx) eqn:E1; [|apply u8_nil]. apply Nat.ltb_lt in E1. apply u8_split_on; [reflexivity|].
        assert (sget (idx - 1) (sdrop 1 fromj) = Some " "%char) as Hg1.
        { rewrite sget_sdrop. replace (1 + (idx - 1)) with (idx + 0) by lia. exact (sindex_sget _ _ _ 0 _ Ei eq_refl). }
        exact (proj1 (utf8_at _ _ _ Hf1 Hg1 eq_refl)).
      * apply u8_cons; [|apply u8_nil]. pose proof (sindex_sget _ _ _ 1 ":"%char Ei eq_refl) as Hg2.
        replace (idx + 2) with (S (idx + 1)) by lia. exact (proj2 (proj2 (utf8_at _ _ _ Hf Hg2 eq_refl))).
    + apply u8_IMsg; [exact HP|]. apply u8_split_on; [reflexivity|exact Hf1].
  - apply u8_IMsg; [exact HP|apply u8_nil].
Qed.

Lemma u8_normalize_modes_aux cs (ps : list string) n a : u8 ps -> u8 (normalize_modes_aux cs ps n a).
Proof.
  intros Hps. revert n a. induction cs as [|c cs IH]; intros n a; cbn [normalize_modes_aux]; [apply u8_nil|].
  cbv zeta. destruct (_ =? 43)%N; [apply IH|]. destruct (_ =? 45)%N; [apply IH|].
  destruct (takes_param _); (apply u8_cons; [|apply IH]); [apply u8_nth; [exact Hps|reflexivity]|reflexivity].
Qed.
Lemma u8_normalize_modes m : u8 m -> u8 (normalize_modes m).
Proof.
  intros H. unfold normalize_modes. pose proof (u8_m_params m H) as Hps.
  destruct (m_params m) as [|a [|b l]] eqn:E; try apply u8_nil. apply u8_normalize_modes_aux. exact Hps.
Qed.

Lemma u8_collectM {A B} `{U8 B} (l : list A) (f : A -> res (option B)) : (forall x, u8 (f x)) -> u8 (collectM l f).
Proof.
  intros Hf. induction l as [|x l IH]; cbn [collectM]; [apply u8_nil|]. specialize (Hf x).
  destruct (f x) as [o|?|?]; try exact Logic.I. destruct (collectM l f) as [bs|?|?]; try exact Logic.I.
  destruct o as [b|]; [apply u8_cons; assumption|exact IH].
Qed.
Lemma u8_member_session sv n : u8 sv -> u8 (member_session sv n).
Proof.
  intros Hsv. unfold member_session. destruct (sv_nicks sv !! n) as [tk|]; [|exact Logic.I].
  destruct (sv_sessions sv !! tk) as [t|] eqn:E; [|exact Logic.I]. exact (proj2 (u8_sv_sessions sv Hsv tk t E)).
Qed.
