//go:build verif

package main

// Monitor driver for property C18: the copies of the RaftLog decoder that are inlined in package
// main (the loop of FSM.Snapshot, FSM.Restore/decodeProtobuf behind robustSnapshot.Persist, the loop
// of dumpLogToDisk1) read the same fields as LevelDBStore.GetLog from what FSM.Apply stored.
// Injected by `go test -overlay`, never part of /repo.  One case per line of $VERIF_IN:
//   readers <offset> {<idx>,<term>,<old|recent>,<exthex>,<sec>,<nsec>,<12 message fields>}*
// Entries marked old are CreateSession messages with an ancient timestamp (the Snapshot loop folds
// them into the state and deletes them); entries marked recent are IRCFromClient messages stamped
// with the current time (they stay in the log, are written to the snapshot and to the text dump).
// Output per case: "readers ok" or "readers FAIL <what> | FAIL <what> ...".
// None of the inline loops can be called on its own; what each one decoded is observed through its
// effects: sessions in the folded state (id defaulted from the raft index), entries deleted from the
// store, firstIndex of the snapshot, the rows of the CSV dump, the entries of the restored store.

import (
	"bufio"
	"bytes"
	"encoding/csv"
	"encoding/hex"
	"flag"
	"fmt"
	"io"
	"log"
	"os"
	"path/filepath"
	"strconv"
	"strings"
	"testing"
	"time"

	"github.com/golang/protobuf/proto"
	"github.com/hashicorp/raft"

	"github.com/robustirc/robustirc/internal/ircserver"
	"github.com/robustirc/robustirc/internal/outputstream"
	"github.com/robustirc/robustirc/internal/raftstore"
	"github.com/robustirc/robustirc/internal/robust"
)

type verifRdSink struct{ bytes.Buffer }

func (s *verifRdSink) Close() error  { return nil }
func (s *verifRdSink) ID() string    { return "verif" }
func (s *verifRdSink) Cancel() error { return nil }

type verifRdEntry struct {
	log    raft.Log
	msg    robust.Message
	old    bool
	wantID uint64
}

func verifRdUnhex(s string) string {
	if s == "-" {
		return ""
	}
	b, err := hex.DecodeString(s)
	if err != nil {
		panic(err)
	}
	return string(b)
}

func verifRdU(s string) uint64 {
	n, err := strconv.ParseUint(s, 10, 64)
	if err != nil {
		panic(err)
	}
	return n
}

func verifRdI(s string) int64 {
	n, err := strconv.ParseInt(s, 10, 64)
	if err != nil {
		panic(err)
	}
	return n
}

func verifRdSameLog(a, b *raft.Log) bool {
	return a.Index == b.Index && a.Term == b.Term && a.Type == b.Type && bytes.Equal(a.Data, b.Data) &&
		bytes.Equal(a.Extensions, b.Extensions) && a.AppendedAt.Equal(b.AppendedAt)
}

func verifRdCase(f []string, dir string) (fails []string) {
	fail := func(format string, a ...interface{}) {
		fails = append(fails, "FAIL "+strings.ReplaceAll(strings.ReplaceAll(fmt.Sprintf(format, a...), "\n", " "), " | ", " / "))
	}
	defer func() {
		if r := recover(); r != nil {
			fail("panic: %v", r)
		}
	}()
	robust.MessageOffset = verifRdU(f[1])
	defer func() { robust.MessageOffset = 0 }()
	flag.Set("raftdir", dir)
	flag.Set("pre1.0_protobuf", "true")
	ircServer = ircserver.NewIRCServer("testnetwork", time.Now())
	var err error
	outputStream, err = outputstream.NewOutputStream(dir)
	if err != nil {
		panic(err)
	}
	logstore, err := raftstore.NewLevelDBStore(filepath.Join(dir, "raftlog"), false, true)
	if err != nil {
		panic(err)
	}
	defer logstore.Close()
	ircstore, err := raftstore.NewLevelDBStore(filepath.Join(dir, "irclog"), false, true)
	if err != nil {
		panic(err)
	}
	fsm := &FSM{
		store:                logstore,
		ircstore:             ircstore,
		lastSnapshotState:    make(map[uint64][]byte),
		sessionExpirationDur: 10 * time.Minute,
		ReplaceState:         func(*ircserver.IRCServer, *raftstore.LevelDBStore, *outputstream.OutputStream) {},
	}
	defer func() { fsm.ircstore.Close() }()

	var entries []*verifRdEntry
	now := time.Now().UnixNano()
	for n, tok := range f[2:] {
		a := strings.Split(tok, ",")
		e := &verifRdEntry{old: a[2] == "old"}
		m := &e.msg
		mf := a[6:]
		m.Id.Id, m.Id.Reply = verifRdU(mf[0]), verifRdU(mf[1])
		m.Session.Id, m.Session.Reply = verifRdU(mf[2]), verifRdU(mf[3])
		m.Type = robust.Type(verifRdI(mf[4]))
		m.Data = verifRdUnhex(mf[5])
		m.UnixNano = verifRdI(mf[6])
		if !e.old {
			m.UnixNano = now + int64(n)
		}
		m.ClientMessageId = verifRdU(mf[9])
		m.RemoteAddr = verifRdUnhex(mf[11])
		b, err := proto.Marshal(m.ProtoMessage())
		if err != nil {
			panic(err)
		}
		e.log = raft.Log{Type: raft.LogCommand, Index: verifRdU(a[0]), Term: verifRdU(a[1]), Data: append([]byte{'p'}, b...),
			Extensions: []byte(verifRdUnhex(a[3])), AppendedAt: time.Unix(verifRdI(a[4]), verifRdI(a[5]))}
		e.wantID = m.Id.Id
		if e.wantID == 0 {
			e.wantID = robust.IdFromRaftIndex(e.log.Index)
		}
		entries = append(entries, e)
		l := e.log // FSM.Apply is the writer: pb.RaftLog field by field, then StoreLogProto
		fsm.Apply(&l)
	}

	// reader 1: LevelDBStore.GetLog
	for _, e := range entries {
		var got raft.Log
		if err := fsm.ircstore.GetLog(e.log.Index, &got); err != nil || !verifRdSameLog(&got, &e.log) {
			fail("GetLog(%d) after Apply: err=%v got=%+v", e.log.Index, err, got)
		}
	}

	// reader 2: the loop of dumpLogToDisk1 (rows for IRCFromClient entries: id, remote address, session, time, text)
	dumpdir := filepath.Join(dir, "dump")
	if err := dumpLogToDisk1(fsm, dumpdir); err != nil {
		fail("dumpLogToDisk1: %v", err)
	} else {
		var rows [][]string
		filepath.Walk(dumpdir, func(p string, info os.FileInfo, err error) error {
			if err == nil && strings.HasSuffix(p, ".csv") {
				fh, _ := os.Open(p)
				defer fh.Close()
				r, _ := csv.NewReader(fh).ReadAll()
				rows = append(rows, r...)
			}
			return nil
		})
		var want [][]string
		for _, e := range entries {
			if e.msg.Type != robust.IRCFromClient {
				continue
			}
			want = append(want, []string{strconv.FormatUint(e.wantID, 10) + ".0", e.msg.RemoteAddr,
				fmt.Sprintf("0x%x", e.msg.Session.Id), time.Unix(0, e.msg.UnixNano).Format(time.RFC3339), e.msg.Data})
		}
		var gotIn [][]string // rows written for incoming messages (replies have an empty session column and a non-.0 id)
		for _, r := range rows {
			if len(r) == 5 && strings.HasSuffix(r[0], ".0") && r[2] != "" {
				gotIn = append(gotIn, r)
			}
		}
		if fmt.Sprint(gotIn) != fmt.Sprint(want) {
			fail("text dump rows: got %q want %q", gotIn, want)
		}
	}

	// reader 3: the loop of FSM.Snapshot
	firstRecent := uint64(0)
	for _, e := range entries {
		if !e.old {
			firstRecent = e.log.Index
			break
		}
	}
	snapI, err := fsm.Snapshot()
	if err != nil {
		fail("Snapshot: %v", err)
		return
	}
	snap := snapI.(*robustSnapshot)
	if snap.firstIndex != firstRecent {
		fail("Snapshot firstIndex=%d, first recent entry is %d", snap.firstIndex, firstRecent)
	}
	folded := ircserver.NewIRCServer("testnetwork", time.Now())
	if _, err := folded.Unmarshal(snap.state); err != nil {
		fail("state of the snapshot does not unmarshal: %v", err)
	}
	for _, e := range entries {
		var got raft.Log
		err := fsm.ircstore.GetLog(e.log.Index, &got)
		if e.old {
			if err != raft.ErrLogNotFound {
				fail("entry %d was folded by Snapshot but is still stored (err=%v)", e.log.Index, err)
			}
			s, serr := folded.GetSession(robust.Id{Id: e.wantID})
			if serr != nil {
				fail("Snapshot loop: no session %d in the folded state for entry %d (id defaulting/index/data read wrongly)", e.wantID, e.log.Index)
			} else if want := time.Unix(0, e.msg.UnixNano); e.msg.UnixNano != 0 && !s.LastActivity.Equal(want) {
				fail("Snapshot loop: session %d created at %v, entry says %v", e.wantID, s.LastActivity, want)
			}
		} else if err != nil || !verifRdSameLog(&got, &e.log) {
			fail("GetLog(%d) after Snapshot: err=%v", e.log.Index, err)
		}
	}

	// reader 4: Persist writes the raw values, Restore/decodeProtobuf decodes them and re-stores them
	var sink verifRdSink
	if err := snap.Persist(&sink); err != nil {
		fail("Persist: %v", err)
		return
	}
	if err := fsm.Restore(io.NopCloser(bytes.NewReader(sink.Bytes()))); err != nil {
		fail("Restore: %v", err)
		return
	}
	for _, e := range entries {
		var got raft.Log
		err := fsm.ircstore.GetLog(e.log.Index, &got)
		if e.old {
			if err != raft.ErrLogNotFound {
				fail("entry %d reappeared after Restore (err=%v)", e.log.Index, err)
			}
			if _, serr := ircServer.GetSession(robust.Id{Id: e.wantID}); serr != nil {
				fail("Restore: session %d of folded entry %d missing from the restored state", e.wantID, e.log.Index)
			}
		} else if err != nil || !verifRdSameLog(&got, &e.log) {
			fail("GetLog(%d) after Restore: err=%v got=%+v want=%+v", e.log.Index, err, got, e.log)
		}
	}
	outputStream.Close()
	return fails
}

func TestVerifReaders(t *testing.T) {
	in, err := os.Open(os.Getenv("VERIF_IN"))
	if err != nil {
		t.Fatal(err)
	}
	defer in.Close()
	out, err := os.Create(os.Getenv("VERIF_OUT"))
	if err != nil {
		t.Fatal(err)
	}
	defer out.Close()
	w := bufio.NewWriter(out)
	defer w.Flush()
	log.SetOutput(io.Discard)
	defer log.SetOutput(os.Stderr)
	base := t.TempDir()
	sc := bufio.NewScanner(in)
	sc.Buffer(make([]byte, 1<<20), 1<<26)
	n := 0
	for sc.Scan() {
		f := strings.Fields(sc.Text())
		if len(f) < 3 || f[0] != "readers" {
			fmt.Fprintln(w, "readers FAIL bad-case")
			continue
		}
		n++
		dir := filepath.Join(base, fmt.Sprintf("case%d", n))
		os.MkdirAll(dir, 0700)
		fails := verifRdCase(f, dir)
		os.RemoveAll(dir)
		if len(fails) == 0 {
			fmt.Fprintln(w, "readers ok")
		} else {
			fmt.Fprintln(w, "readers "+strings.Join(fails, " | "))
		}
	}
}
