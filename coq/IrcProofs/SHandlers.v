(* IrcProofs/SHandlers.v — SERVER and the services-link handlers keep the invariant and never
   panic on protocol-conforming lines (DESIGN.md Appendix A.4). *)
From stdpp Require Import gmap.
From Coq Require Import Strings.String Strings.Ascii ZArith NArith Lia.
From RV Require Import Base.Text Irc.Str Irc.Parse Irc.State Irc.Monad Irc.Cmds Irc.SCmds.
From RV Require Import IrcProofs.WP IrcProofs.Inv IrcProofs.InvPrims IrcProofs.StrLemmas IrcProofs.Handlers.
Local Open Scope string_scope.

(* ---- SERVER ------------------------------------------------------------------------------------ *)
Lemma Good_set_server k p0 sv :
  Good k sv ->
  Good k (upd_sess_state k (fun s => ss_prefix (Prefix p0 "" "") (ss_server true s)) sv).
Proof.
  intros [I L D K0 A Lg]. set (f := fun s => ss_prefix (Prefix p0 "" "") (ss_server true s)).
  assert (I' : InvM (upd_sess_state k f sv)) by (apply InvM_updSess_same; [solve_same|exact I]).
  destruct L as (s & Hs & Hd).
  assert (Hl : forall k2, sv_sessions (upd_sess_state k f sv) !! k2 = (if bool_decide (k = k2) then f else id) <$> (sv_sessions sv !! k2)).
  { intros k2. unfold upd_sess_state. cbn [sv_sessions set_sessions]. rewrite lookup_upd_sess.
    destruct (bool_decide (k = k2)), (sv_sessions sv !! k2); reflexivity. }
  split; [exact I'| | |exact K0| |].
  - exists (f s). rewrite Hl, bool_decide_true, Hs by reflexivity. split; [reflexivity|exact Hd].
  - intros k2 s2. rewrite Hl. destruct (sv_sessions sv !! k2) as [s0|] eqn:Hs0; [|discriminate].
    cbn. intros [= <-] Hd2.
    assert (Hd0 : s_deleted s0 = true) by (destruct (bool_decide (k = k2)); exact Hd2).
    destruct (D _ _ Hs0 Hd0) as [->|(sp & Hsp & Hp)]; [now left|]. right.
    exists (f sp). rewrite Hl, bool_decide_true, Hsp by reflexivity. split; [reflexivity|]. reflexivity.
  - intros k2 s2. rewrite Hl. destruct (sv_sessions sv !! k2) as [s0|] eqn:Hs0; [|discriminate].
    cbn. intros [= <-] Hk0. specialize (A k2 s0 Hs0 Hk0). destruct (bool_decide (k = k2)); exact A.
  - intros k2 s2. rewrite Hl. destruct (sv_sessions sv !! k2) as [s0|] eqn:Hs0; [|discriminate].
    cbn. intros [= <-]. specialize (Lg k2 s0 Hs0). destruct (bool_decide (k = k2)); exact Lg.
Qed.

Lemma burst_one_ok sv t r :
  InvM sv -> (exists kt, sv_sessions sv !! kt = Some t) -> s_deleted t = false ->
  wp (burst_one sv t) (unchanged sv) sv r.
Proof.
  intros I [kt Ht] Htd. unfold burst_one. wp_step. wp_step.
  apply (wp_forM _ _ (fun sv' _ => sv' = sv)); [reflexivity|].
  intros lc svz rz Hin ->. apply (proj1 (sort_strings_In _ _)) in Hin. apply elem_of_list_In, elem_of_elements in Hin.
  destruct (i_memb_s sv I _ _ _ Ht Htd Hin) as (c & Hc & Hm). rewrite Hc.
  apply wp_bind, wp_chanop_of; [exact Hm|intros o]. wp_step. reflexivity.
Qed.

Lemma cmd_server_ok k m sv r : Good k sv -> 1 <= nparams m -> wp (cmd_server k m) (good_post k) sv r.
Proof.
  intros G Hp. unfold cmd_server. apply wp_bind. wp_sess_acting G. wp_step. wp_step.
  wp_step; [repeat wp_step; exact G|].
  wp_step. wp_step. apply wp_bind, wp_updSess.
  pose proof (Good_set_server k p sv G) as G1. unfold upd_sess_state in G1.
  apply wp_bind, wp_modS.
  match goal with |- wp _ _ ?svx _ => assert (G2 : Good k svx) by (apply (Good_other k _ svx) in G1; auto) end.
  wp_step. wp_step. wp_step. wp_step.
  eapply wp_mono.
  - match goal with |- wp _ _ ?svx _ => apply (wp_forM _ _ (fun sv' _ => sv' = svx)); [reflexivity|] end.
    intros lcn svz rz Hin ->. apply (proj1 (sort_strings_In _ _)) in Hin.
    apply elem_of_list_In, elem_of_list_fmap in Hin. destruct Hin as ([n kt] & -> & Hin).
    apply elem_of_map_to_list in Hin. cbn [fst].
    destruct (i_idx_sound _ (g_inv _ _ G2) _ _ Hin) as (_ & t & Ht & Htd & _).
    wp_step. wp_step; [unfold member_session; rewrite Hin, Ht; now eexists|].
    match goal with Hm : member_session _ _ = Ok ?a |- _ =>
      unfold member_session in Hm; rewrite Hin, Ht in Hm; injection Hm as <- end.
    wp_step; [wp_step; reflexivity|].
    apply burst_one_ok; [apply G2|now exists kt|exact Htd].
  - intros [] svz rz ->. exact G2.
Qed.

(* ---- pseudo-clients ----------------------------------------------------------------------------- *)
Lemma Good_create_pseudo k id ts sv :
  Good k sv -> sv_sessions sv !! id = None -> snd id <> 0%N ->
  Good k (set_sessions (<[id := new_session id "" ts]>) sv).
Proof.
  intros [I L D K0 A Lg] Hnone Hid. destruct L as (s & Hs & Hd).
  assert (Hne : id <> k) by (intros ->; congruence).
  split.
  - apply InvM_create; auto.
  - exists s. cbn [sv_sessions set_sessions]. rewrite lookup_insert_ne by assumption. auto.
  - intros k' s'. cbn [sv_sessions set_sessions]. destruct (decide (id = k')) as [<-|Hn].
    + rewrite lookup_insert. intros [= <-]. cbn. discriminate.
    + rewrite lookup_insert_ne by assumption. intros Hs' Hd'.
      destruct (D _ _ Hs' Hd') as [->|(sp & Hsp & Hp)]; [now left|]. right. exists sp.
      cbn [sv_sessions set_sessions]. rewrite lookup_insert_ne by assumption. auto.
  - exact K0.
  - intros k' s'. cbn [sv_sessions set_sessions]. destruct (decide (id = k')) as [<-|Hn].
    + rewrite lookup_insert. intros _ Hk0. contradiction.
    + rewrite lookup_insert_ne by assumption. apply A.
  - intros k' s'. cbn [sv_sessions set_sessions]. destruct (decide (id = k')) as [<-|Hn].
    + rewrite lookup_insert. intros [= <-]. reflexivity.
    + rewrite lookup_insert_ne by assumption. apply Lg.
Qed.

Lemma wp_create_session key auth ts (Q : bool -> server -> rctx -> Prop) sv r :
  Q false sv r -> Q true (set_sessions (<[key := new_session key auth ts]>) sv) r ->
  wp (create_session key auth ts) Q sv r.
Proof.
  intros Hf Ht. unfold create_session. apply wp_bind, wp_getS. cbv zeta.
  destruct (_ && _); [apply wp_ret; exact Hf|]. apply wp_bind, wp_modS, wp_ret. exact Ht.
Qed.

Lemma cmd_server_nick_ok k m sv r :
  Good k sv ->
  (nparams m = 1 \/
   (4 <= nparams m /\ forall p0, nth_error (m_params m) 0 = Some p0 ->
       valid_nick p0 = true /\ sv_sessions sv !! (fst k, fnv64 p0) = None /\ fnv64 p0 <> 0%N)) ->
  wp (cmd_server_nick k m) (good_post k) sv r.
Proof.
  intros G Hconf. unfold cmd_server_nick. destruct (Nat.eqb (nparams m) 1) eqn:Hone; [wp_step; exact G|].
  destruct Hconf as [H1|(Hp & Hconf)]; [apply Nat.eqb_neq in Hone; contradiction|].
  wp_step. wp_step. wp_step. wp_step. apply wp_bind. wp_sess_acting G.
  match goal with Hp0 : nth_error (m_params m) 0 = Some ?p0 |- _ => destruct (Hconf p0 Hp0) as (Hv & Hfree & Hh) end.
  wp_step; [repeat wp_step; exact G|]. cbv zeta.
  match goal with Hidx : bool_decide (is_Some _) = false |- _ => apply bool_decide_is_Some_false in Hidx; rename Hidx into Hnofree end.
  (* createSessionLocked *)
  apply wp_bind, wp_create_session; [cbn [negb]; wp_step; exact G|].
  pose proof (Good_create_pseudo k (fst k, fnv64 p) (s_lastActivity s) sv G Hfree Hh) as G1.
  cbn [negb]. wp_step. wp_step.
  wp_apply wp_updSess_good; try solve_same.
  match goal with H : _ /\ _ /\ _ |- _ => destruct H as (G2 & (Rn & _) & L2) end.
  (* the new session, still without nickname, gets its nick *)
  assert (Hnew : exists s2, sv_sessions sv' !! (fst k, fnv64 p) = Some s2 /\ s_nick s2 = "" /\ s_deleted s2 = false).
  { rewrite L2. cbn [sv_sessions set_sessions]. rewrite lookup_insert, bool_decide_true by reflexivity.
    eexists. split; [reflexivity|]. split; reflexivity. }
  destruct Hnew as (s2 & Hs2 & Hn2 & Hd2).
  assert (E : "" = nick_to_lower (s_nick s2)) by (rewrite Hn2; reflexivity). rewrite E.
  eapply change_nick_good; eauto; [discriminate|].
  intros _. rewrite Rn. exact Hnofree.
Qed.

Lemma quit_pseudo_ok k tk m sv r (Q : unit -> server -> rctx -> Prop) :
  Fine k sv -> live sv tk -> priv sv k ->
  (forall sv' r', Fine k sv' -> priv sv' k -> (forall k2, k2 <> tk -> live sv k2 -> live sv' k2) -> Q tt sv' r') ->
  wp (quit_pseudo tk m) Q sv r.
Proof.
  intros F (t & Ht & Htd) Hp HQ. unfold quit_pseudo. apply wp_bind. eapply wp_sessM; [exact Ht|].
  wp_step. wp_step. wp_step. wp_step; [eapply rc_common_ok; apply F|]. wp_step. wp_step.
  eapply (delete_session_fine k); [exact F|exact Ht|exact Htd|now right|].
  intros svz rz F' _ Hl Hpp _. apply HQ; auto.
Qed.

Lemma pseudo_clients_spec sv id tk :
  In tk (pseudo_clients sv id) -> fst tk = id /\ snd tk <> 0%N /\ is_Some (sv_sessions sv !! tk).
Proof.
  unfold pseudo_clients. intros H. apply in_map_iff in H. destruct H as (rp & <- & Hin). cbn [fst snd].
  split; [reflexivity|]. apply (proj1 (set_of_ids_In _ _)) in Hin.
  apply in_map_iff in Hin. destruct Hin as ([a b] & <- & Hf). apply filter_In in Hf. destruct Hf as [Hf Hc].
  cbn [fst snd] in *. apply andb_true_iff in Hc. destruct Hc as [Ha Hb].
  apply N.eqb_eq in Ha. subst a. apply negb_true_iff, N.eqb_neq in Hb. split; [exact Hb|].
  apply elem_of_list_In, elem_of_list_fmap in Hf. destruct Hf as ([k0 s0] & E & Hin0). cbn in E. subst k0.
  apply elem_of_map_to_list in Hin0. now exists s0.
Qed.

Lemma pseudo_clients_NoDup sv id : NoDup (pseudo_clients sv id).
Proof.
  unfold pseudo_clients. apply FinFun.Injective_map_NoDup; [|apply set_of_ids_NoDup].
  intros a b E. now injection E.
Qed.

Lemma quit_all_ok k m (l : list (N * N)) sv r :
  NoDup l -> (forall tk, In tk l -> live sv tk) -> Fine k sv -> priv sv k ->
  wp (forM l (fun tk => quit_pseudo tk m)) (fine_post k) sv r.
Proof.
  revert sv r. induction l as [|tk l IH]; intros sv r Hnd Hlive F Hp; cbn [forM].
  - apply wp_ret. exact F.
  - inversion Hnd as [|? ? Hnotin Hnd']; subst. apply wp_bind.
    eapply quit_pseudo_ok; [exact F|apply Hlive; now left|exact Hp|].
    intros sv' r' F' Hp' Hl'. apply IH; auto.
    intros tk2 Hin2. apply Hl'; [intros ->; contradiction|apply Hlive; now right].
Qed.

Lemma cmd_server_quit_ok k m sv r :
  Good k sv -> priv sv k -> (forall k2 s2, sv_sessions sv !! k2 = Some s2 -> s_deleted s2 = false) ->
  wp (cmd_server_quit k m) (fine_post k) sv r.
Proof.
  intros G Hp Hall. unfold cmd_server_quit. destruct (g_live _ _ G) as (s & Hs & Hd).
  destruct (m_prefix m) as [pfx|].
  - (* one pseudo-client *)
    wp_step. wp_step. destruct (find_pseudo sv (fst k) (nick_to_lower (p_name pfx))) as [tk|] eqn:Hf.
    + unfold find_pseudo in Hf. apply find_some in Hf. destruct Hf as [Hin _].
      apply pseudo_clients_spec in Hin. destruct Hin as (_ & _ & [t Ht]).
      eapply quit_pseudo_ok; [apply Good_Fine; exact G|exists t; split; [exact Ht|eapply Hall; eauto]|exact Hp|].
      intros svz rz F' _ _. exact F'.
    + wp_step. now apply Good_Fine.
  - (* the whole link *)
    apply wp_bind. eapply (delete_session_fine k); [apply Good_Fine; exact G|exact Hs|exact Hd|now left|].
    intros sv1 r1 F1 _ Hl1 Hp1 Hback. wp_step. wp_step.
    apply quit_all_ok; [apply pseudo_clients_NoDup| |exact F1|now apply Hp1].
    intros tk Hin. apply pseudo_clients_spec in Hin. destruct Hin as (Hfst & Hsnd & [t1 Ht1]).
    (* the pseudo-client was live before the link itself was deleted, and is not the link *)
    assert (Hne : tk <> k) by (intros ->; apply Hsnd; exact (g_key0 _ _ G)).
    assert (Hpres : present sv tk) by (apply Hback; now exists t1).
    destruct Hpres as [t0 Ht0]. apply Hl1; [exact Hne|]. exists t0. split; [exact Ht0|eapply Hall; eauto].
Qed.

Ltac with_prefix Hpfx := unfold prefix_name, msg_prefix; rewrite ?Hpfx.

Lemma cmd_server_kill_ok k m sv r pfx :
  Good k sv -> priv sv k -> m_prefix m = Some pfx ->
  wp (cmd_server_kill k m) (fine_post k) sv r.
Proof.
  intros G Hp Hpfx. unfold cmd_server_kill. wp_step; [repeat wp_step; now apply Good_Fine|].
  match goal with Hlt : Nat.ltb (nparams m) 2 = false |- _ => apply Nat.ltb_ge in Hlt; rename Hlt into Hn end.
  wp_step. wp_step. rewrite Hpfx.
  (* the prefix used in the KILL line *)
  apply wp_bind. eapply (wp_mono _ (fun kp sv' _ => sv' = sv /\ kp <> None)).
  { assert (Hfind : wp (match find_pseudo sv (fst k) (nick_to_lower (p_name pfx)) with
                          | Some tk => DO t <- sessM tk IN retM (Some (s_prefix t))
                          | None => retM (Some pfx) end) (fun kp sv' _ => sv' = sv /\ kp <> None) sv r).
    { destruct (find_pseudo sv (fst k) (nick_to_lower (p_name pfx))) as [tk|] eqn:Hf.
      - unfold find_pseudo in Hf. apply find_some in Hf. destruct Hf as [Hin _].
        apply pseudo_clients_spec in Hin. destruct Hin as (_ & _ & [t Ht]).
        apply wp_bind. eapply wp_sessM; [exact Ht|]. wp_step. split; [reflexivity|discriminate].
      - wp_step. split; [reflexivity|discriminate]. }
    destruct (pseudo_clients sv (fst k)); exact Hfind. }
  intros kp svz rz [-> Hkp]. cbv beta. wp_step. wp_step.
  wp_step; [|repeat wp_step; now apply Good_Fine].
  destruct kp as [kp|]; [|contradiction].
  match goal with Hk : sv_nicks sv !! _ = Some ?tk |- _ =>
    destruct (i_idx_sound sv (g_inv _ _ G) _ _ Hk) as (_ & t & Ht & Htd & _) end.
  apply wp_bind. eapply wp_sessM; [exact Ht|]. cbv zeta.
  wp_step. wp_step. wp_step. wp_step; [eapply rc_common_ok; apply G|]. wp_step. wp_step.
  eapply (delete_session_fine k); [apply Good_Fine; exact G|exact Ht|exact Htd|now right|].
  intros sv1 r1 F1 _ _ _ _. exact F1.
Qed.

Lemma cmd_server_join_ok k m sv r pfx :
  Good k sv -> m_prefix m = Some pfx -> 1 <= nparams m ->
  wp (cmd_server_join k m) (good_post k) sv r.
Proof.
  intros G Hpfx Hp. unfold cmd_server_join. wp_step. wp_step.
  apply (wp_forM _ _ (fun sv' _ => Good k sv')); [exact G|].
  intros channelname sv1 r1 _ G1. wp_step. wp_step. with_prefix Hpfx.
  wp_step; [repeat wp_step; exact G1|].
  wp_step. wp_step. wp_step. wp_step. cbv zeta.
  wp_step; [|repeat wp_step; exact G1].
  match goal with Hv : negb (valid_chan _) = false |- _ => apply negb_false_iff in Hv end.
  set (lc := chan_to_lower channelname).
  match goal with Hk : sv_nicks sv1 !! _ = Some ?tk |- _ => rename Hk into Hidx end.
  wp_step; [repeat wp_step; exact G1|].
  assert (Hok : chan_ok sv1 lc (match sv_channels sv1 !! lc with Some c => c | None => new_chan channelname ∅ end)).
  { destruct (sv_channels sv1 !! lc) as [c|] eqn:Hc.
    - apply chan_ok_existing; [apply G1|exact Hc].
    - apply chan_ok_new; [apply G1|exact Hc|reflexivity]. }
  wp_apply add_member_good.
  match goal with H : Good _ _ /\ _ |- _ => destruct H as (G2 & Hc2 & Hn2 & _) end.
  wp_step. wp_step. wp_step. wp_step; [eapply rc_channel_ok; [apply G2|exact Hc2]|]. wp_step. exact G2.
Qed.

Lemma cmd_server_part_ok k m sv r pfx :
  Good k sv -> m_prefix m = Some pfx -> 1 <= nparams m ->
  wp (cmd_server_part k m) (good_post k) sv r.
Proof.
  intros G Hpfx Hp. unfold cmd_server_part. wp_step. wp_step.
  apply (wp_forM _ _ (fun sv' _ => Good k sv')); [exact G|].
  intros channelname sv1 r1 _ G1. wp_step. wp_step. cbv zeta. with_prefix Hpfx.
  wp_step; [|repeat wp_step; exact G1].
  wp_step. wp_step. wp_step. wp_step.
  wp_step; [repeat wp_step; exact G1|].
  name_member pm Hm.
  match goal with Hc : sv_channels sv1 !! _ = Some ?c |- _ =>
    destruct (i_memb_c sv1 (g_inv _ _ G1) _ _ _ _ Hc Hm) as (tk & t & Hk & Ht & _);
    assert (Hrc : exists ids, rc_channel sv1 c = Ok ids) by (eapply rc_channel_ok; [apply G1|exact Hc]);
    rename Hc into Hchan end.
  rewrite Hk. wp_step. wp_step; [exact Hrc|]. wp_step. wp_step.
  eapply leave_channel_good; eauto.
Qed.

Lemma cmd_server_kick_ok k m sv r pfx :
  Good k sv -> m_prefix m = Some pfx -> 2 <= nparams m ->
  wp (cmd_server_kick k m) (good_post k) sv r.
Proof.
  intros G Hpfx Hp. unfold cmd_server_kick. wp_step. wp_step. wp_step. wp_step. wp_step. wp_step. cbv zeta.
  with_prefix Hpfx.
  wp_step; [|repeat wp_step; exact G].
  wp_step; [repeat wp_step; exact G|].
  name_member pm Hm.
  match goal with Hc : sv_channels sv !! _ = Some ?c |- _ =>
    destruct (i_memb_c sv (g_inv _ _ G) _ _ _ _ Hc Hm) as (tk & t & Hk & Ht & _);
    assert (Hrc : exists ids, rc_channel sv c = Ok ids) by (eapply rc_channel_ok; [apply G|exact Hc]) end.
  wp_step. wp_step. wp_step. wp_step; [exact Hrc|]. wp_step. wp_step. rewrite Hk.
  eapply leave_channel_good; eauto.
Qed.

Lemma cmd_server_svspart_ok k m sv r pfx :
  Good k sv -> m_prefix m = Some pfx -> 2 <= nparams m ->
  wp (cmd_server_svspart k m) (good_post k) sv r.
Proof.
  intros G Hpfx Hp. unfold cmd_server_svspart. wp_step. wp_step. wp_step. wp_step. wp_step. wp_step. cbv zeta.
  with_prefix Hpfx.
  wp_step; [|repeat wp_step; exact G].
  wp_step; [|repeat wp_step; exact G].
  wp_step; [repeat wp_step; exact G|].
  name_member pm Hm.
  match goal with Hc : sv_channels sv !! _ = Some ?c |- _ =>
    assert (Hrc : exists ids, rc_channel sv c = Ok ids) by (eapply rc_channel_ok; [apply G|exact Hc]) end.
  apply wp_bind. wp_sess_of_index (g_inv _ _ G).
  wp_step. wp_step; [exact Hrc|]. wp_step. wp_step.
  eapply leave_channel_good; eauto.
Qed.

Lemma cmd_server_svsjoin_ok k m sv r pfx :
  Good k sv -> m_prefix m = Some pfx -> 2 <= nparams m ->
  wp (cmd_server_svsjoin k m) (good_post k) sv r.
Proof.
  intros G Hpfx Hp. unfold cmd_server_svsjoin. wp_step. wp_step. wp_step. wp_step. wp_step. wp_step. cbv zeta.
  with_prefix Hpfx.
  wp_step; [|repeat wp_step; exact G].
  wp_step; [repeat wp_step; exact G|].
  match goal with Hv : negb (valid_chan _) = false |- _ => apply negb_false_iff in Hv end.
  match goal with Hk : sv_nicks sv !! _ = Some ?tk |- _ => rename Hk into Hidx end.
  match goal with |- context [chan_to_lower ?ch] => set (lc := chan_to_lower ch) end.
  match goal with |- context [new_chan ?ch ∅] =>
    assert (Hok : chan_ok sv lc (match sv_channels sv !! lc with Some c => c | None => new_chan ch ∅ end)) end.
  { destruct (sv_channels sv !! lc) as [c|] eqn:Hc.
    - apply chan_ok_existing; [apply G|exact Hc].
    - apply chan_ok_new; [apply G|exact Hc|reflexivity]. }
  wp_step; [repeat wp_step; exact G|].
  wp_step; [wp_step; exact G|].
  wp_apply add_member_good.
  match goal with H : Good _ _ /\ _ |- _ => destruct H as (G2 & Hc2 & Hn2 & _) end.
  wp_step. wp_step. apply wp_bind.
  match type of Hidx with _ = Some ?tk =>
    assert (Hidx2 : sv_nicks sv' !! nick_to_lower p = Some tk) by (rewrite Hn2; exact Hidx) end.
  wp_sess_of_index (g_inv _ _ G2).
  wp_step. wp_step; [eapply rc_channel_ok; [apply G2|exact Hc2]|].
  wp_step. wp_step. wp_step. wp_step.
  assert (Hlive : live sv' p1) by (eexists; split; eauto).
  wp_apply cmd_topic_query_unchanged_live; [apply G2|].
  match goal with H : unchanged _ _ _ _ |- _ => red in H; subst end.
  eapply wp_mono; [apply cmd_names_ok; [apply G2|eexists; eauto]|]. intros [] svz rz ->. exact G2.
Qed.

(* SVSNICK: the same state change as a client nick change that is not a pure re-capitalisation *)
Lemma svsnick_state tk p1 oldNick sv :
  oldNick <> "" ->
  set_sessions (fun m => match m !! tk with Some s => <[tk := update_prefix s]> m | None => m end)
    (set_channels (fmap (cc_nicks (rename_member oldNick (nick_to_lower p1))))
       (set_nicks (fun ns => delete oldNick (<[nick_to_lower p1 := tk]> ns))
          (set_sessions (fun m => match m !! tk with Some s => <[tk := ss_nick p1 s]> m | None => m end) sv)))
  = nick_state tk p1 oldNick false sv.
Proof.
  intros Hne. unfold nick_state. rewrite (proj2 (is_empty_false _) Hne). reflexivity.
Qed.

Lemma cmd_server_svsnick_ok k m sv r :
  Good k sv -> 2 <= nparams m ->
  (forall p1, nth_error (m_params m) 1 = Some p1 -> sv_nicks sv !! nick_to_lower p1 = None) ->
  wp (cmd_server_svsnick k m) (good_post k) sv r.
Proof.
  intros G Hp Hfree. unfold cmd_server_svsnick. wp_step. wp_step. wp_step. wp_step. wp_step. wp_step.
  wp_step; [repeat wp_step; exact G|].
  match goal with Hv : negb (valid_nick _) = false |- _ => apply negb_false_iff in Hv; rename Hv into Hvalid end.
  wp_step; [|repeat wp_step; exact G].
  match goal with Hk : sv_nicks sv !! ?n = Some ?tk |- _ =>
    destruct (i_idx_sound sv (g_inv _ _ G) _ _ Hk) as (Hne & t & Ht & Htd & Htl); rename Hk into Hidx end.
  apply wp_bind. eapply wp_sessM; [exact Ht|]. cbv zeta.
  apply wp_bind, wp_updSess, wp_bind, wp_modS, wp_bind. unfold rename_in_channels. apply wp_modS, wp_bind, wp_updSess.
  match goal with |- wp _ _ ?svx _ => replace svx with (nick_state p1 p0 (nick_to_lower (s_nick t)) false sv) end.
  2: { rewrite <- svsnick_state; [|rewrite Htl; exact Hne]. rewrite Htl. reflexivity. }
  assert (G1 : Good k (nick_state p1 p0 (nick_to_lower (s_nick t)) false sv)).
  { eapply Good_flags; [exact G| |apply flags_same_nick; [now apply valid_nick_nonempty|intros s0 Hs0; eapply (g_login _ _ G); eauto]].
    eapply InvM_change_nick; eauto; [apply G|discriminate]. }
  wp_step. wp_step.
  assert (Hpres : exists t1, sv_sessions (nick_state p1 p0 (nick_to_lower (s_nick t)) false sv) !! p1 = Some t1).
  { rewrite nick_state_sessions, Ht. now eexists. }
  destruct Hpres as [t1 Ht1]. apply wp_bind. eapply wp_sessM; [exact Ht1|].
  wp_step. wp_step; [eapply rc_common_ok; apply G1|]. wp_step. exact G1.
Qed.

Lemma cmd_server_mode_ok k m sv r pfx :
  Good k sv -> m_prefix m = Some pfx -> 1 <= nparams m ->
  wp (cmd_server_mode k m) (good_post k) sv r.
Proof.
  intros G Hpfx Hp. unfold cmd_server_mode. wp_step. wp_step. wp_step. wp_step. cbv zeta. with_prefix Hpfx.
  wp_step; [|repeat wp_step; exact G].
  match goal with |- context [chan_to_lower ?ch] => set (lc := chan_to_lower ch) in * end.
  match goal with Hc : sv_channels sv !! lc = Some ?c |- _ => rename Hc into Hchan end.
  apply wp_bind. eapply (wp_mono _ (fun _ sv' _ => mode_inv k lc sv')).
  - apply (wp_forM _ _ (fun sv' _ => mode_inv k lc sv')); [split; [exact G|eexists; exact Hchan]|].
    intros md sv1 r1 _ [G1 [c1 Hc1]]. cbv zeta.
    assert (J1 : mode_inv k lc sv1) by (split; [exact G1|now exists c1]).
    wp_step.
    { eapply wp_mono; [apply wp_updChan_at_good; [intros cz _; split; reflexivity|exact G1]|].
      intros [] svz rz [G' Hex]. split; [exact G'|apply Hex; now exists c1]. }
    wp_step; [|repeat wp_step; exact J1].
    wp_step. wp_step. rewrite Hc1. wp_step; [|repeat wp_step; exact J1].
    wp_step. wp_step; [wp_step; exact J1|].
    eapply wp_mono; [apply wp_updChan_at_good; [|exact G1]|].
    + intros cz Hcz. rewrite Hc1 in Hcz. injection Hcz as <-. split; [reflexivity|]. cbn.
      apply dom_insert_lookup_L. match goal with Hl : c_nicks c1 !! _ = Some _ |- _ => rewrite Hl; now eexists end.
    + intros [] svz rz [G' Hex]. split; [exact G'|apply Hex; now exists c1].
  - intros [] sv1 r1 [G1 [c1 Hc1]]. cbv beta. wp_step. wp_step. wp_step; [wp_step; exact G1|].
    wp_step. wp_step. wp_step. wp_step. rewrite Hc1. wp_step. wp_step; [eapply rc_channel_ok; [apply G1|exact Hc1]|].
    wp_step. exact G1.
Qed.

Lemma cmd_server_topic_ok k m sv r pfx :
  Good k sv -> m_prefix m = Some pfx -> 3 <= nparams m ->
  (forall p2, nth_error (m_params m) 2 = Some p2 -> Z_of_dec p2 <> None) ->
  wp (cmd_server_topic k m) (good_post k) sv r.
Proof.
  intros G Hpfx Hp Hdec. unfold cmd_server_topic. wp_step. wp_step. wp_step. wp_step. cbv zeta. with_prefix Hpfx.
  wp_step; [|repeat wp_step; exact G].
  match goal with Hc : sv_channels sv !! _ = Some ?c |- _ =>
    assert (Hrc : exists ids, rc_channel sv c = Ok ids) by (eapply rc_channel_ok; [apply G|exact Hc]) end.
  wp_step.
  - wp_step. wp_step. wp_apply wp_updChan_good; [intros ?; split; reflexivity|].
    match goal with H : Good _ _ /\ _ |- _ => destruct H as (G1 & _) end.
    wp_step. wp_step; [exact Hrc|]. wp_step. exact G1.
  - wp_step. wp_step. wp_step. wp_step.
    match goal with Hp2 : nth_error (m_params m) 2 = Some ?p2 |- _ => specialize (Hdec p2 Hp2) end.
    wp_step; [|contradiction].
    wp_step. wp_step. wp_apply wp_updChan_good; [intros ?; split; reflexivity|].
    match goal with H : Good _ _ /\ _ |- _ => destruct H as (G1 & _) end.
    wp_step. wp_step; [exact Hrc|]. wp_step. exact G1.
Qed.

Lemma cmd_server_invite_ok k m sv r pfx :
  Good k sv -> m_prefix m = Some pfx -> 2 <= nparams m ->
  wp (cmd_server_invite k m) (good_post k) sv r.
Proof.
  intros G Hpfx Hp. unfold cmd_server_invite. wp_step. wp_step. wp_step. wp_step. wp_step. wp_step. with_prefix Hpfx.
  wp_step; [|repeat wp_step; exact G]. cbv zeta.
  wp_step; [|repeat wp_step; exact G].
  match goal with Hc : sv_channels sv !! _ = Some ?c |- _ =>
    assert (Hrc : exists ids, rc_channel sv c = Ok ids) by (eapply rc_channel_ok; [apply G|exact Hc]) end.
  apply wp_bind. wp_sess_of_index (g_inv _ _ G).
  wp_step; [repeat wp_step; exact G|].
  wp_apply wp_updSess_good; try solve_same.
  match goal with H : _ /\ _ /\ _ |- _ => destruct H as (G1 & _ & _) end.
  repeat wp_step; [exact Hrc|exact G1].
Qed.

Lemma cmd_server_privmsg_ok k m sv r pfx :
  Good k sv -> m_prefix m = Some pfx -> wp (cmd_server_privmsg k m) (good_post k) sv r.
Proof.
  intros G Hpfx. unfold cmd_server_privmsg. with_prefix Hpfx.
  repeat wp_step; try exact G. eapply rc_channel_ok; [apply G|eassumption].
Qed.

Lemma cmd_server_svshold_ok k m sv r :
  Good k sv -> 1 <= nparams m ->
  (forall p1, nth_error (m_params m) 1 = Some p1 -> N_of_dec p1 <> None) ->
  wp (cmd_server_svshold k m) (good_post k) sv r.
Proof.
  intros G Hp Hdec. unfold cmd_server_svshold. wp_step. wp_step. apply wp_bind. wp_sess_acting G. cbv zeta.
  wp_step.
  - match goal with Hlt : Nat.ltb 1 _ = true |- _ => apply Nat.ltb_lt in Hlt end.
    wp_step. wp_step.
    match goal with Hp1 : nth_error (m_params m) 1 = Some ?p1 |- _ => specialize (Hdec p1 Hp1) end.
    wp_step; [|contradiction].
    apply wp_modS_good; auto.
  - apply wp_modS_good; auto.
Qed.

Lemma cmd_server_svsmode_ok k m sv r :
  Good k sv -> 2 <= nparams m -> wp (cmd_server_svsmode k m) (good_post k) sv r.
Proof.
  intros G Hp. unfold cmd_server_svsmode. wp_step. wp_step. wp_step. wp_step. wp_step. wp_step.
  apply wp_bind. wp_sess_acting G.
  wp_step; [|repeat wp_step; exact G].
  wp_step; [repeat wp_step; exact G|].
  match goal with Hk : sv_nicks sv !! _ = Some ?tk |- _ => rename Hk into Hidx end.
  apply wp_bind. eapply (wp_mono _ (fun _ sv' _ => Good k sv' /\ rest_same sv sv')).
  - apply (wp_forM _ _ (fun sv' _ => Good k sv' /\ rest_same sv sv')); [split; [exact G|apply rest_same_refl]|].
    intros md sv1 r1 _ [G1 R1].
    wp_step.
    { wp_apply_last wp_updSess_good; try solve_same.
      match goal with H : _ /\ _ /\ _ |- _ => destruct H as (G2 & R2 & _) end.
      split; [exact G2|eapply rest_same_trans; eauto]. }
    wp_step.
    { wp_apply_last wp_updSess_good; try solve_same.
      match goal with H : _ /\ _ /\ _ |- _ => destruct H as (G2 & R2 & _) end.
      split; [exact G2|eapply rest_same_trans; eauto]. }
    repeat wp_step. auto.
  - intros [] sv1 r1 [G1 (Hn1 & _)]. cbv beta.
    match type of Hidx with _ = Some ?tk =>
      assert (Htk1 : exists t1, sv_sessions sv1 !! tk = Some t1)
        by (rewrite <- Hn1 in Hidx; eapply inv_index_session; [apply G1|exact Hidx]) end.
    destruct Htk1 as [t1 Ht1]. apply wp_bind. eapply wp_sessM; [exact Ht1|]. wp_step. exact G1.
Qed.
