# C11 — session secret / network password.
#   proofs (Properties/C11.v) + generated route/mux tables (routescan -> Gen/Routes.v, obligations
#   Gen/GenOKRoutes.v) + correspondence of Api/Auth.v with the real dispatchers behind main()'s
#   wiring + a model-independent monitor stating the property text on every response.
#
# The first part of this file (apilib section) is shared by c10.py and c16.py.
import binascii, json, os, re, subprocess, time
import vlib

# ======================================================================= apilib (shared)
PW = "verif-network-pw"
SCAN_SRC = os.path.join(vlib.ROOT, "harness", "scan", "routescan")
SCAN_BIN = os.path.join(vlib.BUILD, "bin", "routescan")
OVERLAY = {
    vlib.REPO + "/zz_verif_api_test.go": vlib.HGO + "/main/zz_verif_api_test.go",
    vlib.REPO + "/zz_verif_api_node_test.go": vlib.HGO + "/main/zz_verif_api_node_test.go",
}
BASE_CFG = ('SessionExpiration = "30m"\nPostMessageCooloff = "0s"\n[IRC]\n[[IRC.Operators]]\nName = "verifop"\n'
            'Password = "verifoppw"\n[TrustedBridges]\nverifbridge = "verif"\n')


def hx(s):
    if isinstance(s, str):
        s = s.encode("utf-8")
    return binascii.hexlify(s).decode() if s else "-"


def unhx(s):
    if s in ("-", ""):
        return b""
    return binascii.unhexlify(s)


def parse_obs(tok):
    """'R|m=GET|p=..|status=200' -> {'op': 'R', 'm': 'GET', ...}"""
    parts = tok.split("|")
    d = {"op": parts[0]}
    for p in parts[1:]:
        if "=" in p:
            k, v = p.split("=", 1)
            d[k] = v
        else:
            d[p] = True
    return d


def build_scanner():
    """(re)build the scanner binary when its source is newer; serialised by a lock"""
    with vlib.Lock("routescan"):
        src = [os.path.join(SCAN_SRC, f) for f in os.listdir(SCAN_SRC) if f.endswith(".go") or f.startswith("go.")]
        if os.path.exists(SCAN_BIN) and all(os.path.getmtime(f) <= os.path.getmtime(SCAN_BIN) for f in src):
            return 0, "up to date"
        os.makedirs(os.path.dirname(SCAN_BIN), exist_ok=True)
        return vlib.sh(["go", "build", "-o", SCAN_BIN, "."], cwd=SCAN_SRC, env=vlib.go_env(), timeout=600)


def scan_routes():
    """run routescan on the current tree -> (facts dict | None, coq text | None, log)"""
    rc, out = build_scanner()
    if rc != 0:
        return None, None, "scanner build failed:\n" + out[-3000:]
    wd = vlib.workdir()
    vfile = os.path.join(wd, "Routes.v")
    p = subprocess.run([SCAN_BIN, "-repo", vlib.REPO, "-coq", vfile], stdout=subprocess.PIPE, stderr=subprocess.PIPE,
                       env=vlib.go_env(), timeout=600)
    if p.returncode != 0:
        return None, None, "scanner failed:\n" + p.stderr.decode("utf-8", "replace")[-3000:]
    facts = json.loads(p.stdout.decode())
    for k in ("unrecognised", "routes", "served_mux", "side_effect_registrations", "conditional_registrations",
              "blank_imports_main", "main_registrations"):
        if facts.get(k) is None:
            facts[k] = []
    return facts, open(vfile).read(), ""


GENOK = """(* GENERATED on every run by harness/py/props/c11.py — obligations on the tables that
   routescan derived from the current source (Gen/Routes.v). *)
From Coq Require Import List Bool String.
From RV Require Import Base.Text Api.Auth Gen.Routes.
%s
"""
GEN_OBLIGATIONS = [
    ("gen_routes_eq", "gen_routes = model_routes"),
    ("gen_routes_gated", "forallb gated gen_routes = true"),
    ("gen_mux_eq", "gen_mux = model_mux"),
    ("gen_mux_gated", "forallb mux_gated gen_mux = true"),
    ("gen_prefix_eq", "gen_public_prefix = public_prefix"),
    ("gen_user_eq", "gen_basic_user = basic_user"),
]


def compile_gen(routes_v):
    """write coq/Gen/Routes.v + GenOKRoutes.v, compile under the Coq lock.
    Returns {name: bool}, log.  On failure of the combined file each obligation is compiled alone."""
    gen = os.path.join(vlib.COQ, "Gen")
    res, log = {}, ""
    with vlib.Lock("coq"):
        open(os.path.join(gen, "Routes.v"), "w").write(routes_v)
        rc, out = vlib.sh(["coqc", "-Q", vlib.COQ, "RV", "Gen/Routes.v"], cwd=vlib.COQ, timeout=600)
        if rc != 0:
            return {n: False for n, _ in GEN_OBLIGATIONS}, "Gen/Routes.v does not compile:\n" + out[-2000:]
        body = "\n".join("Lemma %s : %s. Proof. reflexivity. Qed." % (n, s) for n, s in GEN_OBLIGATIONS)
        # the property theorems instantiated at the generated table
        body += ("\nFrom RV Require Properties.C11.\n"
                 "Definition C11_session_current := Properties.C11.C11_session gen_routes gen_routes_gated.\n"
                 "Definition C11_private_current := Properties.C11.C11_private gen_routes gen_routes_gated.\n"
                 "Definition C11_no_foreign_current := Properties.C11.C11_no_foreign_handler gen_routes gen_mux gen_mux_gated.\n")
        open(os.path.join(gen, "GenOKRoutes.v"), "w").write(GENOK % body)
        rc, out = vlib.sh(["coqc", "-Q", vlib.COQ, "RV", "Gen/GenOKRoutes.v"], cwd=vlib.COQ, timeout=600)
        if rc == 0:
            return {n: True for n, _ in GEN_OBLIGATIONS}, ""
        log = out[-1500:]
        for n, s in GEN_OBLIGATIONS:
            f = "Gen/GenOKRoutes_%s.v" % n
            open(os.path.join(vlib.COQ, f), "w").write(GENOK % ("Lemma %s : %s. Proof. reflexivity. Qed." % (n, s)))
            rc1, _ = vlib.sh(["coqc", "-Q", vlib.COQ, "RV", f], cwd=vlib.COQ, timeout=600)
            res[n] = (rc1 == 0)
            for ext in (".v", ".vo", ".vos", ".vok", ".glob"):
                try:
                    os.remove(os.path.join(vlib.COQ, f[:-2] + ext))
                except FileNotFoundError:
                    pass
    return res, log


def run_go_partial(lines, wiring="default", name="api", timeout=900):
    """run case lines through the real code.  Returns (results, output, crash): results = [[kind, cid, obs...], ...] for
    every line the driver started (the driver flushes each observation as soon as its op is done), crash = None when the
    driver finished, else {"line": i, "op": j, "token": the op that was being served when the test process exited}."""
    wd = vlib.workdir()
    inp, outp = os.path.join(wd, name + ".in"), os.path.join(wd, name + ".out")
    open(inp, "w").write("\n".join(lines) + "\n")
    if os.path.exists(outp):
        os.remove(outp)
    rc, out = vlib.go_test(".", OVERLAY, "^TestVerifApi$", {"VERIF_IN": inp, "VERIF_OUT": outp, "VERIF_API_WIRING": wiring},
                           timeout=timeout)
    if not os.path.exists(outp):
        return None, out, None
    raw = open(outp).read()
    parts = raw.split("\n")
    partial = parts.pop() if not raw.endswith("\n") else (parts.pop() and None)
    res = []
    for l in parts + ([partial] if partial else []):
        f = l.split(" ")
        if len(f) >= 2:
            res.append([f[0], f[1]] + [parse_obs(t) for t in f[2:] if t])
    crash = None
    if partial and len(res) <= len(lines):
        ci = len(res) - 1
        toks = lines[ci].split(" ")[2:]
        oi = len(res[ci]) - 2
        crash = {"line": ci, "op": oi, "token": toks[oi] if oi < len(toks) else None, "go_output_tail": out[-1500:]}
    elif rc != 0 or len(res) != len(lines):
        return None, out + "\n[driver produced %d of %d result lines]" % (len(res), len(lines)), None
    return res, out, crash


def run_go(lines, wiring="default", name="api", timeout=900):
    """as run_go_partial, but an unfinished run counts as no result: (results | None, output)"""
    res, out, crash = run_go_partial(lines, wiring, name, timeout)
    if res is None or crash:
        return None, out + ("\n[driver exited while serving %s]" % crash["token"][:200] if crash else "")
    return res, out


def vm_sample(lines, budget=24000):
    """indices of a sample of model input lines small enough for one coqc string literal (vm_compute cross-check)"""
    idx, used = [], 0
    for i, l in enumerate(lines):
        if used + len(l) + 1 > budget:
            continue
        idx.append(i); used += len(l) + 1
    return idx


def wiring_of(facts):
    return facts["served"] if facts and facts.get("served") in ("default", "private") else "default"


def ref_parse_uint(s):
    """reference reading of a session id / revision (Go integer-literal syntax as accepted by ParseUint(s, 0, 64):
    decimal, 0x/0o/0b prefixes, leading-0 octal, underscores only between digits or after a prefix).  Written from
    the Go documentation, independently of the Coq model; used by the monitors to tell which session a path names."""
    if not s:
        return None
    base, digits, saw = 10, s, "^"
    if s[0] == "0":
        if len(s) >= 3 and s[1] in "xXoObB":
            base, digits, saw = {"x": 16, "o": 8, "b": 2}[s[1].lower()], s[2:], "0"
        else:
            base, digits, saw = 8, s[1:], "0"
    val = 0
    for ch in digits:
        if ch == "_":
            if saw != "0":
                return None
            saw = "_"
            continue
        d = int(ch, 36) if (ch.isascii() and ch.isalnum()) else 99
        if d >= base:
            return None
        val, saw = val * base + d, "0"
    if saw == "_" or val >= 2 ** 64:
        return None
    return val


def sessions_of(obs):
    """ss=<id>.<authhex>.<alive>.<lpm>[.<ended>],... -> {id: (auth bytes, alive as the implementation reports it, lpm, ended)}.
    ended: the driver saw the session end (its DELETE was answered 200, or a QUIT it posted was committed) — known
    independently of what the implementation's session table says"""
    d = {}
    if obs.get("ss", "-") != "-":
        for t in obs["ss"].split(","):
            f = t.split(".")
            d[int(f[0])] = (unhx(f[1]), f[2] == "1", int(f[3]), len(f) > 4 and f[4] == "1")
    return d


# ======================================================================= C11 proper
PUBLIC = "/robustirc/v1/"
ERR_CLASSES = ("unauthorized", "notfound", "invalid-session", "no-header", "nosuch", "notyet", "bad-auth")


def R(meth, path, hdr="-", basic="-", body=""):
    return "R:%s:%s:%s:%s:%s" % (meth, hx(path), hdr, basic, hx(body))


def basic(user, pw):
    return "l%s.%s" % (hx(user), hx(pw))


BAD_BASIC = [("none", "-"), ("wrong-pass", basic("robustirc", "{pw}x")), ("wrong-user", basic("admin", "{pw}")),
             ("empty-pass", basic("robustirc", "")), ("case-user", basic("RobustIRC", "{pw}")), ("prefix-pass", basic("robustirc", PW[:-1])),
             ("swapped", basic("{pw}", "robustirc"))]
PRIVATE_ROUTES = [("GET", "/"), ("GET", "/status"), ("GET", "/status/getmessage"), ("GET", "/status/sessions"), ("GET", "/status/irclog"),
                  ("GET", "/status/state"), ("GET", "/irclog"), ("GET", "/snapshot"), ("GET", "/leader"), ("GET", "/config"),
                  ("GET", "/metrics"), ("POST", "/raft/AppendEntries"), ("POST", "/join"), ("POST", "/part"), ("POST", "/quit"),
                  ("POST", "/config"), ("POST", "/kill"), ("GET", "/debug/pprof/"), ("GET", "/debug/pprof/cmdline"), ("GET", "/debug/vars"),
                  ("GET", "/nonexistent"), ("PUT", "/config"), ("DELETE", "/status"), ("POST", "/status")]
SAFE_WITH_PASSWORD = [("GET", "/"), ("GET", "/status"), ("GET", "/status/sessions"), ("GET", "/status/state"), ("GET", "/irclog"),
                      ("GET", "/leader"), ("GET", "/config"), ("GET", "/metrics"), ("GET", "/nonexistent"), ("PUT", "/config"),
                      ("GET", "/debug/pprof/cmdline"), ("GET", "/debug/vars")]
PROBES = ["/debug/pprof/", "/debug/pprof/cmdline", "/debug/pprof/heap", "/debug/pprof/goroutine", "/debug/pprof/symbol",
          "/debug/vars", "/debug/requests", "/debug/events"]
POSTBODY = '{"Data":"PRIVMSG #verif :retry-probe","ClientMessageId":%d}'


def session_requests(rng, quick):
    """the C11 matrix on the public dispatcher: targets x routes x credential variants.  Slots: 0 fresh,
    1 logged in, 2 logged in + traffic, 3 deleted, g never created (not yet seen)."""
    reqs = []
    targets = ["0", "1", "2", "3", "4", "5", "6", "g"]
    routes = [("POST", "/message", POSTBODY), ("GET", "/messages", ""), ("DELETE", "", '{"Quitmessage":"bye"}')]
    cmid = [1000]
    def one(meth, suffix, body, t, fmt, cred):
        cmid[0] += 1
        b = (body % cmid[0]) if "%d" in body else body
        reqs.append(R(meth, PUBLIC + "{%s:%s}" % (t, fmt) + suffix, cred, "-", b))
    for t in list(ENDED) + [x for x in targets if x not in ENDED]:
        if t == "0":
            reqs.append(WATCH)
        others = [x for x in ("0", "1", "2") if x != t]
        for meth, suffix, body in routes:
            creds = ["-", "e"] + ["a" + o for o in others] + ["l" + hx("x"), "l" + hx("0" * 256)]
            if t != "g":
                creds += ["w" + t, "p" + t, "u" + t, "x" + t]
            if t in ENDED:
                creds += ["a" + t]       # the ended session's own (once valid) secret
            for c in creds:
                one(meth, suffix, body, t, rng.choice(["x", "x", "d", "X"]), c)
    # id syntax variants with the correct secret (read-only route), and wrong methods / shapes
    for fmt in ["d", "X", "o", "O", "b", "z", "u", "U", "p", "m", "h", "w"]:
        one("GET", "/messages", "", "1", fmt, "a1")
        one("GET", "/messages", "", "1", fmt, "a2")
    for meth, path in [("PUT", "{1}/message"), ("PATCH", "{1}"), ("OPTIONS", "{1}/messages"), ("GET", "session"), ("GET", "{1}"),
                       ("POST", "{1}/messages"), ("POST", "{1}/x/message"), ("GET", "{1}/x/messages"), ("DELETE", "{1}/message"),
                       ("DELETE", "{1}/x"), ("POST", "{1}"), ("POST", "session/message"), ("GET", ""), ("POST", "message")]:
        for c in ("a1", "-"):
            reqs.append(R(meth, PUBLIC + path, c, "-", POSTBODY % 7))
    # a password does not open session routes, a secret does not open private ones
    reqs.append(R("GET", PUBLIC + "{1}/messages", "-", "ok", ""))
    reqs.append(R("POST", PUBLIC + "{1}/message", "-", "ok", POSTBODY % 8))
    reqs.append(R("GET", "/status", "a1", "-", ""))
    extra = 40 if quick else 1500
    for _ in range(extra):
        t = rng.choice(targets)
        meth, suffix, body = rng.choice(routes[:2])   # read-only / idempotent for refused; POST proposes when entitled
        pool = ["-", "e", "a0", "a1", "a2", "a3", "a4", "a5", "a6", "w1", "p2", "u0", "x1", "l" + hx("%x" % rng.getrandbits(64))]
        one(meth, suffix, body, t, rng.choice(["x", "d", "X", "o", "b", "z", "u", "h", "p"]), rng.choice(pool))
    # finally the entitled requests (these change state): POST and DELETE with the correct secret
    for t in ("0", "1", "2"):
        one("POST", "/message", POSTBODY, t, "x", "a" + t)
        one("GET", "/messages", "", t, "d", "a" + t)
    one("DELETE", "", '{"Quitmessage":"bye"}', "0", "x", "a0")
    one("GET", "/messages", "", "0", "x", "a0")       # now deleted
    one("POST", "/message", POSTBODY, "0", "x", "a0")
    return reqs


PRESENT_WRONG = [b for n, b in BAD_BASIC if n in ("wrong-pass", "empty-pass", "wrong-user")]   # an Authorization header is present, but wrong
OTHER_BAD = [b for n, b in BAD_BASIC if n not in ("wrong-pass", "empty-pass", "wrong-user")]
# requests whose handler, if it were reached, ends the process (log.Fatalf in handleQuit; nil raft transport -> panic ->
# exitOnRecover): issued last, so that everything else has been observed when a fall-through kills the node
FATAL_IF_REACHED = [("POST", "/quit"), ("POST", "/raft/AppendEntries")]


def private_requests(rng, quick):
    """every private route x a present-but-wrong Basic header (wrong password, empty password, wrong user) + one of the
    other variants (none, case-changed user, truncated password, swapped) in the quick tier, all of them in thorough."""
    reqs, last = [], []
    for i, (m, p) in enumerate(PRIVATE_ROUTES):
        bad = PRESENT_WRONG + ([OTHER_BAD[i % len(OTHER_BAD)]] if quick else OTHER_BAD)
        (last if (m, p) in FATAL_IF_REACHED else reqs).extend(R(m, p, "-", b, "") for b in bad)
    for m, p in SAFE_WITH_PASSWORD:
        reqs.append(R(m, p, "-", "ok", ""))
    # requests that would change state if the handler were reached without the password
    for b in PRESENT_WRONG + ["-"]:
        reqs.append(R("POST", "/kill?session={2:d}", "-", b, ""))
    reqs.append("F:%s:%s:bad" % (hx("1"), hx(BASE_CFG.replace("verifoppw", "changed-without-password"))))
    reqs.append("F:%s:%s:none" % (hx("1"), hx(BASE_CFG.replace("verifoppw", "changed-without-password"))))
    return reqs + last


def setup_ops():
    def I(k, line):
        return "I:%d:%s" % (k, hx(line))
    ops = ["N", "F:%s:%s:ok" % (hx("0"), hx(BASE_CFG))]
    for k in range(4):
        ops.append("C:%d" % k)
    for k in (1, 2, 3):
        ops += [I(k, "NICK vnick%d" % k), I(k, "USER v%d 0 * :Verif %d" % (k, k))]
    ops += [I(1, "JOIN #verif"), I(2, "JOIN #verif"), I(1, "PRIVMSG #verif :secret-text-of-one"), I(2, "PRIVMSG #verif :secret-text-of-two"),
            I(2, "PRIVMSG vnick1 :private-for-one-only")]
    # sessions that end before they ever logged in (ending them produces no output line for anybody):
    # 4 deleted while fresh, 5 after NICK only via DELETE, 6 after NICK only via its own QUIT
    ops += ["C:4", "D:4:%s" % hx('{"Quitmessage":"never said a word"}'),
            "C:5", I(5, "NICK vhalf5"), "D:5:%s" % hx('{"Quitmessage":"half registered"}'),
            "C:6", I(6, "NICK vhalf6"), I(6, "QUIT :half registered, leaving")]
    ops += ["D:3:%s" % hx('{"Quitmessage":"gone"}')]      # last: leaves lastProcessed at its own (largest) index
    return ops


ENDED = ("3", "4", "5", "6")     # slots whose session ended during the setup


# the rightful owner of session 1 keeps its long poll open while (most of) the matrix runs; every R op then reports
# whether that stream survived the request and still delivers.  The liveness probe posts a PING as session 1, which
# moves IRCServer.lastProcessed (to the session's id, sic), so the requests aimed at the deleted session 3 — the ones
# that exercise "No such session" rather than "Session not yet seen" — are issued before the watch starts.
WATCH = "L:1"


UINT_STRINGS = ["", "0", "1", "7", "42", "007", "08", "0x", "0x1f", "0X1F", "0xg", "0b101", "0B2", "0o17", "0O8", "017", "1_000", "0x_1f", "0_7",
                "_1", "1_", "1__0", "0x1_f", "0x__1", "+1", "-1", " 1", "1 ", "18446744073709551615", "18446744073709551616",
                "0xffffffffffffffff", "0x10000000000000000", "99999999999999999999999", "0b", "0o", "0_", "0x_", "1e3", "١", "0x0", "00", "0_0",
                "abc", "0xABCdef", "1777777777777777777777", "02000000000000000000000", "0b1_0", "0o1_7", "1_2_3", "0x1__2", "12a", "0x12g"]


def model_line_api(o):
    """the model's input for one recorded request, built from what the implementation reported about its state"""
    ss = o.get("ss", "-")
    sess = [] if ss == "-" else ss.split(",")
    return " ".join(["api", o["m"], o["p"], o["h"], o["ba"], o["jp"], o["jd"], "1", hx(PW), o["last"]] + sess)


def impl_line_api(o):
    return "api class=%s status=%s grew=%s" % (o["class"], o["status"], o["grew"])


def agree(model, impl):
    """model line 'api class=c status=s grew=g h=.. sid=..' vs implementation; '*' = not determined by the model"""
    m = dict(t.split("=", 1) for t in model.split(" ")[1:] if "=" in t)
    i = dict(t.split("=", 1) for t in impl.split(" ")[1:] if "=" in t)
    for k in ("class", "status", "grew"):
        if m.get(k) != "*" and m.get(k) != i.get(k):
            return False
    return True


def monitor_request(o):
    """the property, on one response of the implementation (no model involved).  Returns (signature, text) or None."""
    path = unhx(o["p"]).decode("latin-1")
    status, cls = int(o["status"]), o["class"]
    if o.get("stream") == "dead" and cls != "handled":
        # the owner's open GET .../messages ended (or stopped delivering) although this request was refused;
        # only a request carrying the session's own secret may supersede the owner's stream
        return ("refused-request-had-effect:stream-cancelled", "%s %s answered %d %s, yet the open GetMessages stream of the session's owner was terminated"
                % (o["m"], path, status, cls))
    effects = []
    if o["grew"] != "0":
        effects.append("raft log grew by " + o["grew"])
    if o["leak"] != "0":
        effects.append("response contains message text or a session secret")
    if o["same"] != "1":
        effects.append("state digest changed")
    if path.startswith(PUBLIC):
        rest = path[len(PUBLIC):]
        target = None
        if o["m"] == "POST" and rest.endswith("/message") and "/" not in rest[:-len("/message")]:
            target = rest[:-len("/message")]
        elif o["m"] == "GET" and rest.endswith("/messages") and "/" not in rest[:-len("/messages")]:
            target = rest[:-len("/messages")]
        elif o["m"] == "DELETE" and "/" not in rest:
            target = rest
        if target is None:
            if o["m"] == "POST" and rest == "session":
                return None                                   # creating a session is public
            if cls != "notfound" or effects:
                return ("unknown-public-route-not-refused", "%s %s: expected 404 Not found without effects, got %d %s %s" % (o["m"], path, status, cls, effects))
            return None
        sess = sessions_of(o)
        hdr = None if o["h"] == "!" else unhx(o["h"])
        tid = ref_parse_uint(target)
        entitled = bool(hdr) and tid is not None and tid in sess and sess[tid][1] and sess[tid][0] == hdr and not sess[tid][3]
        if cls == "handled" and bool(hdr) and tid in sess and sess[tid][3] and sess[tid][0] == hdr:
            # the session ended (DELETE answered 200 / its QUIT committed), yet its old secret still opens the route
            return ("deleted-session-still-served", "%s %s handled (status %d%s) with the secret of session %d, which was deleted before (the implementation still lists it: alive=%s)"
                    % (o["m"], path, status, (", " + "; ".join(effects)) if effects else "", tid, sess[tid][1]))
        if cls == "handled" and not entitled:
            why = "missing" if hdr is None else "empty" if hdr == b"" else \
                  "another session's" if any(v[0] == hdr for v in sess.values()) else "wrong"
            return ("session-route-handled-without-secret", "%s %s handled (status %d, %s) with %s X-Session-Auth" % (o["m"], path, status, effects or "no visible effect", why))
        if cls != "handled":
            if cls == "notyet" and status == 404:
                # clients classify by status: any 404 means "session gone" (D22); "not yet seen" must be a 5xx on every route
                return ("not-yet-seen-answered-404", "%s %s: 'Session not yet seen' answered with status 404" % (o["m"], path))
            if status not in (404, 500) or cls not in ERR_CLASSES:
                return ("refusal-shape", "%s %s refused with unexpected status/class %d %s" % (o["m"], path, status, cls))
            if effects:
                return ("refused-request-has-effect", "%s %s answered %d %s but: %s" % (o["m"], path, status, cls, "; ".join(effects)))
            if entitled and re.fullmatch(r"0x[0-9a-f]+|[1-9][0-9]*", target):
                return ("entitled-request-refused", "%s %s with the session's own secret refused: %d %s" % (o["m"], path, status, cls))
        return None
    # every other path is non-public
    ok = False
    if o["ba"] != "!":
        u, p = o["ba"].split(".")
        ok = (unhx(u) == b"robustirc" and unhx(p) == PW.encode())
    if not ok:
        how = "no Authorization header" if o["ba"] == "!" else "wrong Basic credentials (user %r)" % unhx(o["ba"].split(".")[0]).decode("latin-1")
        if status != 401 or effects:
            seg = "/".join(path.split("/")[:3])
            return ("noauth:" + seg, "%s %s with %s answered %d (%d bytes) %s instead of a bare 401" % (o["m"], path, how, status, int(o.get("blen", 0)), effects))
        if cls != "unauthorized":
            # status 401, but the body is not exactly what an unauthenticated request gets: a handler wrote to it
            return ("unauthorized-body-not-bare", "%s %s with %s answered 401 with a %d-byte body instead of 'Unauthorized': handler output was appended"
                    % (o["m"], path, how, int(o.get("blen", 0))))
    return None


def monitor_config_post(tok, o):
    """F op (POST /config) issued with wrong / without credentials: must be a bare 401 and change nothing"""
    cred = tok.split(":")[3] if tok.count(":") >= 3 else "ok"
    if cred == "ok" or "status" not in o:
        return None
    if o["status"] != "401" or o["class"] != "unauthorized" or o["grew"] != "0":
        return ("noauth:/config", "POST /config with %s answered %s (%s), raft log grew by %s, revision now %s"
                % ("wrong Basic credentials" if cred == "bad" else "no Authorization header", o["status"], o["class"], o["grew"], o.get("rev")))
    return None


def judge(tok, o):
    """the monitors, by kind of op"""
    if o.get("op") == "R" and "status" in o:
        return monitor_request(o)
    if o.get("op") == "W" and "status" in o:
        return monitor_probe(o)
    if o.get("op") == "F":
        return monitor_config_post(tok, o)
    return None


def private_without_password(tok):
    """is this op a request to a non-public path that does not carry the network password?"""
    a = tok.split(":")
    if a[0] == "W":
        return not unhx(a[1]).decode("latin-1").startswith(PUBLIC)
    if a[0] == "F":
        return a[3] != "ok"
    if a[0] == "R":
        return not unhx(a[2]).decode("latin-1").startswith(PUBLIC) and a[4] != "ok"
    return False


def monitor_probe(o):
    path = unhx(o["p"]).decode("latin-1")
    if int(o["status"]) != 401:
        seg = "/".join(path.split("/")[:3])
        return ("noauth:" + seg, "GET %s without credentials through main()'s wiring answered %s (%s bytes) instead of 401" % (path, o["status"], o.get("blen")))
    return None


def minimise(ck, wiring, setup, tok):
    """smallest history on which this request still fails the monitor (or still ends the process): no setup at all,
    the node with its configuration, the full setup, the full setup with the owner's long poll"""
    for ops in (["N"], ["N"] + setup[1:2], setup, setup + [WATCH]):
        res, _, crash = run_go_partial(["api min " + " ".join(ops + [tok])], wiring, "min")
        if not res:
            continue
        if crash:
            if crash["token"] == tok:
                return ops + [tok], {"op": tok[:1], "process_exited": True}
            continue
        o = res[0][-1]
        if judge(tok, o):
            return ops + [tok], o
    return setup + [tok], None


def run(ck, replay):
    quick = ck.tier == "quick"
    ck.cov["trusted_base"] += [
        "routescan (go/packages + go/ast, /verif/harness/scan/routescan): route table of DispatchPublic/DispatchPrivate(WithoutAuth) with dominating gate, "
        "main()'s mux registrations, init-time registrations on http.DefaultServeMux in main's import closure",
        "Go driver harness/go/main/zz_verif_api_*_test.go: single-node raft (in-memory transport, real LevelDB stores), real FSM, real api.HTTP behind httptest, "
        "main()'s three wiring lines replicated from the scanner's reading (default mux vs own mux)",
        "modelled, not verified: net/http (ServeMux matching without path cleaning, BasicAuth decoding, header canonicalisation), strconv.ParseUint (modelled and "
        "differentially tested), encoding/json (oracle), hashicorp/raft; non-leader paths (proxying) are modelled but not exercised (single node)"]
    ck.assumptions += ["secrets of distinct live sessions are distinct (createsession.go: 128 bytes of crypto/rand per session) — hypothesis of C11_other_secret only",
                       "requests reach the dispatchers only through the mux main() serves (scanned; the driver replicates the wiring)",
                       "a handler, once entered, is the only code that proposes to raft or reads the output stream (the monitor checks log growth, state digest, response bytes of every refused "
                       "request, and that the owner's open GetMessages long poll of session 1 survives it and still delivers a message posted afterwards)"]
    ok = ck.proof_obligations()

    facts, routes_v, slog = scan_routes()
    ck.notes["scanner"] = {"error": slog} if facts is None else {
        "served": facts["served"], "served_mux": [(m["pattern"], m["target"], m["who"]) for m in facts["served_mux"]],
        "routes": len(facts["routes"]), "route_table": [(r["disp"], r["method"], r["pat"], r["arg"], r["handler"], r["gate"]) for r in facts["routes"]],
        "blank_imports_main": facts["blank_imports_main"],
        "side_effect_registrations": [(s["pkg"], s["pattern"]) for s in facts["side_effect_registrations"]],
        "conditional_registrations": sorted(set((s["pkg"], s["func"]) for s in facts["conditional_registrations"])),
        "unrecognised": facts["unrecognised"], "basic_cond": facts["basic_cond"], "session_fn_shape": facts["session_fn_shape"],
        "packages_in_closure": facts["packages_in_closure"]}
    gen_res, gen_log = ({n: False for n, _ in GEN_OBLIGATIONS}, slog) if facts is None else compile_gen(routes_v)
    for n, s in GEN_OBLIGATIONS:
        ck.add_obligation(gen_res.get(n, False), "Gen/GenOKRoutes.v: %s : %s" % (n, s))
    wiring = wiring_of(facts)

    # ---- cases
    setup = setup_ops()
    if replay:
        rp = json.load(open(replay))
        lines = rp.get("cases", [])
    else:
        reqs = session_requests(ck.rng, quick) + private_requests(ck.rng, quick)
        probes = ["W:" + hx(p) for p in PROBES]
        uints = list(UINT_STRINGS)
        for _ in range(150 if quick else 5000):
            n = ck.rng.randint(1, 8)
            uints.append("".join(ck.rng.choice("0011223789abfxXoOb_+-gG ") for _ in range(n)))
        lines = ["uint u " + " ".join("U:" + hx(u) for u in uints), "api matrix " + " ".join(setup + probes + reqs)]
        corpus = os.path.join(vlib.ROOT, "corpus", "C11")
        if os.path.isdir(corpus):
            for fn in sorted(os.listdir(corpus)):
                if fn.endswith(".case"):
                    lines += [l for l in open(os.path.join(corpus, fn)).read().split("\n") if l and not l.startswith("#")]
    t0 = time.time()
    res, goout, crash = run_go_partial(lines, wiring, "c11")
    ck.notes["go_wall_s"] = round(time.time() - t0, 1)
    if res is None:
        ck.violation("tie-broken:go-driver", {"what": "Go correspondence driver did not build/run against the current tree",
                                              "output": goout[-4000:], "obligation": "correspondence apidrv (package main)", "cases": lines[:3]}, concrete=False)
        return
    # ---- model + monitor
    mlines_in, impl, owner = [], [], []
    monfail, dist, nontriv = [], {}, set()
    for ci, case in enumerate(res):
        for oi, o in enumerate(case[2:]):
            if o["op"] == "R" and "status" in o:
                mlines_in.append(model_line_api(o)); impl.append(impl_line_api(o)); owner.append((ci, oi))
                key = "%s/%s" % ("public" if unhx(o["p"]).startswith(PUBLIC.encode()) else "private", o["class"])
                dist[key] = dist.get(key, 0) + 1
                if o["class"] not in ("notfound",):
                    nontriv.add((o["m"], o["p"], o["h"], o["ba"], o["ss"]))
                why = monitor_request(o)
                if why:
                    monfail.append((ci, oi, why))
            elif o["op"] == "W" and "status" in o:
                dist["probe/" + o["status"]] = dist.get("probe/" + o["status"], 0) + 1
                why = monitor_probe(o)
                if why:
                    monfail.append((ci, oi, why))
            elif o["op"] == "C" and o.get("status") == "200" and "authlen" in o:
                # what createsession.go hands out: 128 bytes of crypto/rand as 256 hex characters.  The state machine slices
                # s.auth[:8] (captcha URL): a secret of fewer than 8 bytes would panic every node (hypothesis wf_entry of C06)
                dist["secret/%s" % o["authlen"]] = dist.get("secret/%s" % o["authlen"], 0) + 1
                if int(o["authlen"]) < 256 or o.get("authhex") != "true":
                    monfail.append((ci, oi, ("session-secret-weak", "POST /session returned a secret of %s characters (hex only: %s); createsession.go is "
                                             "expected to hand out 256 hex characters (C06's theorem assumes at least 8: s.auth[:8])" % (o["authlen"], o.get("authhex")))))
            elif o["op"] == "U":
                mlines_in.append("uint " + o["s"]); impl.append("uint " + o["v"]); owner.append((ci, oi))
                try:
                    rv = ref_parse_uint(unhx(o["s"]).decode("utf-8"))
                except UnicodeDecodeError:
                    rv = None
                if ("!" if rv is None else str(rv)) != o["v"]:
                    ck.notes.setdefault("ref_parse_uint_disagreements", []).append([o["s"], o["v"], rv])
            elif o["op"] == "F":
                toks = lines[ci].split(" ")[2:]
                why = monitor_config_post(toks[oi] if oi < len(toks) else "", o)
                if why:
                    monfail.append((ci, oi, why))
            elif "panic" in o or "err" in o:
                monfail.append((ci, oi, ("driver-op-failed", "op %s failed in the driver: %s" % (o["op"], o))))
    crash_violation = None
    if crash:
        # the test process (= the node) exited while an op was being served; everything after it was not run
        ck.notes["driver_exited_while_serving"] = {"line": crash["line"], "op_index": crash["op"], "token": (crash["token"] or "")[:300]}
        tok = crash["token"]
        if tok and private_without_password(tok):
            a = tok.split(":")
            path = unhx(a[1] if a[0] == "W" else a[2]).decode("latin-1") if a[0] in ("W", "R") else "/config"
            ops = lines[crash["line"]].split(" ")[2:2 + crash["op"]] + [tok]
            if not replay:
                ops, _ = minimise(ck, wiring, setup, tok)
            crash_violation = ("noauth:" + "/".join(path.split("?")[0].split("/")[:3]) + ":process-exit",
                               {"what": "%s %s without the network password made the node process exit (a handler behind DispatchPrivate was reached: "
                                        "log.Fatalf in handleQuit, or a handler panic caught by exitOnRecover)" % (a[1] if a[0] == "R" else "GET", path),
                                "cases": ["api replay " + " ".join(ops)], "go_output_tail": crash["go_output_tail"][-800:],
                                "expected": "401 Unauthorized without effects", "wiring": wiring,
                                "not_run": "the ops after this one in the same run (%d) were not executed" % (len(lines[crash["line"]].split(" ")) - 3 - crash["op"]),
                                "how_to_replay": "bin/check C11 --replay <this file>"})
        else:
            ck.violation("tie-broken:go-driver", {"what": "the Go correspondence driver exited while serving an op that is not an unauthenticated request",
                                                  "token": (tok or "")[:500], "output": goout[-3000:], "obligation": "correspondence apidrv (package main)",
                                                  "cases": [lines[crash["line"]]]}, concrete=False)
    mism = []
    if getattr(ck, "model_ok", False):
        mout = vlib.run_model("\n".join(mlines_in) + "\n") if mlines_in else []
        for k in range(len(mlines_in)):
            m = mout[k] if k < len(mout) else "<missing>"
            good = (m == impl[k]) if impl[k].startswith("uint") else agree(m, impl[k])
            if not good:
                mism.append((k, m))
        if ck.tier == "thorough" and mlines_in:
            idx = vm_sample(mlines_in)
            vm = vlib.run_model_vm("\n".join(mlines_in[i] for i in idx) + "\n")
            ck.add_obligation(vm == [mout[i] for i in idx], "extracted model agrees with vm_compute on %d cases" % len(idx))
    else:
        ck.violation("tie-broken:model", {"what": "model driver could not be built", "output": ck.model_out[-3000:],
                                          "obligation": "extraction of Driver.Main.run"}, concrete=False)
    ck.cov["evaluations"] = len(mlines_in)
    ck.cov["distinct_nontrivial"] = len(nontriv)
    ck.cov["disagreements_checked"] = len(mlines_in)
    ck.cov["traces_validated_against_impl"] = len(mlines_in)
    ck.cov["rule"] = ("one node (operator config, 4 sessions: fresh / logged in / logged in with channel+private traffic / deleted, plus a never-created id); every "
                      "public route x method x {no, empty, wrong, truncated, extended, upper-cased, other live session's, deleted session's own, correct} secret "
                      "x id syntaxes (0x, decimal, 0X, octal, binary, underscores, signs, blanks); every private route x {no, wrong password, wrong user, empty, "
                      "case-changed user, truncated, swapped} + correct password on side-effect-free routes; unauthenticated probes of /debug/* through main()'s "
                      "wiring; ParseUint strings. non-trivial = request that reached a dispatcher decision other than 'Not found', distinct by (method, path, "
                      "credentials, state)")
    ck.cov["input_distribution"] = dist
    ck.cov["samples"] = [{"model_in": mlines_in[k][:300], "impl": impl[k]} for k in range(min(3, len(mlines_in)))]

    seen = set()
    for ci, oi, (sig, text) in monfail:
        if sig in seen:
            continue
        seen.add(sig)
        if replay:
            ops, o2 = lines[ci].split(" ")[2:], res[ci][2 + oi]
        else:
            tok = lines[ci].split(" ")[2 + oi]
            ops, o2 = minimise(ck, wiring, setup, tok)
            o2 = o2 or res[ci][2 + oi]
        ck.violation(sig, {"what": text, "cases": ["api replay " + " ".join(ops)], "observed": {k: v for k, v in o2.items() if k not in ("ss",)},
                           "expected": "a bare 401 Unauthorized without effects" if sig.startswith(("noauth", "unauthorized")) else "refusal without effects / handling only with the target session's secret",
                           "wiring": wiring, "scanner_served_mux": ck.notes["scanner"].get("served_mux") if facts else None,
                           "how_to_replay": "bin/check C11 --replay <this file>"}, concrete=True)
    if crash_violation:
        ck.violation(crash_violation[0], crash_violation[1], concrete=True)
        monfail = monfail or [(crash["line"], crash["op"], (crash_violation[0], ""))]
    if mism and not monfail:
        k, m = mism[0]
        ci, oi = owner[k]
        ck.violation("correspondence:api", {"what": "model (Api/Auth.v) and implementation disagree; the monitor found no request violating the property",
                                            "obligation": "correspondence apidrv (Api/Auth.v vs internal/api dispatchers)", "model_input": mlines_in[k][:2000],
                                            "model_output": m, "impl_output": impl[k], "mismatches": len(mism),
                                            "cases": [lines[ci]] if replay else ["api replay " + " ".join(setup + [lines[ci].split(" ")[2 + oi]])]}, concrete=False)
    elif mism:
        ck.notes["model_disagreements_explained_by_monitor_failures"] = len(mism)
    if not ok:
        ck.violation("proof-broken", {"what": "proof obligations not discharged", "errors": ck.proof_errors,
                                      "obligation": ck.proof_result.get("broken_at", "Properties/C11.v"),
                                      "coq_output": ck.proof_result["output_tail"]}, concrete=False)
    bad = [o for o in ck.cov.get("extra_obligations", []) if not o["ok"]]
    if bad and not monfail:
        ck.violation("obligation:" + bad[0]["name"].split(":")[1].strip().replace(" ", "_"),
                     {"what": "generated-table obligation failed and no request violating the property was found: the route/mux table of the current source "
                              "differs from the model's", "obligation": bad[0]["name"], "obligations": bad, "coq_output": gen_log,
                      "scanner": ck.notes["scanner"]}, concrete=False)
    elif bad:
        ck.notes["failed_generated_obligations_explained_by_monitor_failures"] = [o["name"] for o in bad]
