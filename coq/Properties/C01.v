(* C01 — replica determinism.  The model is a function of the history (nothing else is an input), and the
   two places where the Go code turns a map into output — recipient sets and sorted listings — are
   independent of the iteration order; loops that mutate state are bulk operations on the maps
   (Irc/Cmds.v remove_nick_everywhere, rename_in_channels).  That no handler emits inside a map loop
   without sorting is checked on the source by the range-site scan and on the implementation by running
   every history on three fresh instances in two processes. *)
From Coq Require Import List NArith Sorting.Permutation.
From RV Require Import Irc.Str Irc.State Irc.Cmds Irc.Apply.
From Coq Require Import Strings.String.
From RV Require Import IrcProofs.Top IrcProofs.Misc IrcProofs.Determinism.

Theorem C01_model_deterministic : forall e sv es r1 r2, run e sv es = r1 -> run e sv es = r2 -> r1 = r2.
Proof. exact model_deterministic. Qed.
Print Assumptions C01_model_deterministic.

Theorem C01_recipients_order_independent : forall l l', Permutation l l' -> set_of_ids l = set_of_ids l'.
Proof. exact recipients_order_independent. Qed.
Print Assumptions C01_recipients_order_independent.

(* listings built from a map (NAMES, WHO, WHOIS channel list, LIST, ban list, SERVER burst) are sorted: whatever
   order the keys are traversed in, the listing is the same *)
Theorem C01_listings_order_independent : forall l l', Permutation l l' -> sort_strings l = sort_strings l'.
Proof. exact sort_strings_order_independent. Qed.
Print Assumptions C01_listings_order_independent.

(* loops over a map that only mutate state apply an update that commutes with itself (delete this nick from every
   channel, rename it in every channel, …): the resulting state does not depend on the traversal order *)
Theorem C01_bulk_updates_order_independent : forall (A S : Type) (f : A -> S -> S),
  (forall a b s, f a (f b s) = f b (f a s)) ->
  forall l l', Permutation l l' -> forall s, fold_right f s l = fold_right f s l'.
Proof. exact @fold_commutative_order_independent. Qed.
Print Assumptions C01_bulk_updates_order_independent.

(* replicas that are at different positions of the same log: what the one behind has emitted is a prefix of
   what the one ahead has emitted, and applying the rest brings it to the same state with exactly the missing
   output — "everywhere" includes nodes that are catching up or were restarted and replay *)
From RV Require Import IrcProofs.Refine.
Theorem C01_lagging_replica_is_prefix : forall e sv l1 l2 sv2 o,
  run_out e sv (l1 ++ l2) = Some (sv2, o) ->
  exists sv1 o1 o2, run_out e sv l1 = Some (sv1, o1) /\ run_out e sv1 l2 = Some (sv2, o2) /\ o = (o1 ++ o2)%list.
Proof.
  intros e sv l1 l2 sv2 o H. rewrite run_out_app in H.
  destruct (run_out e sv l1) as [[sv1 o1]|]; [|discriminate].
  destruct (run_out e sv1 l2) as [[sv2' o2]|] eqn:E2; [|discriminate].
  injection H as <- <-. exists sv1, o1, o2. auto.
Qed.
Print Assumptions C01_lagging_replica_is_prefix.

Theorem C01_outputs_deterministic : forall e sv es r1 r2, run_out e sv es = r1 -> run_out e sv es = r2 -> r1 = r2.
Proof. intros e sv es r1 r2 <- <-. reflexivity. Qed.
Print Assumptions C01_outputs_deterministic.
