(* C06 — no client line (and no protocol-conforming services line) can crash the state machine.
   [wf_entry] is what the HTTP API can put into the log (CreateSession with a secret of >= 8 bytes and a
   fresh id; lines of an authenticated services link conform to the protocol, DESIGN.md Appendix A.4);
   every other entry — any IRCFromClient line of a client session, DeleteSession, Config, message of
   death — is unrestricted.  OPanic marks every Go expression that can panic (nil map entry, nil
   session, nil prefix, slice index, s.auth[:8]); OGap marks the places where the model's abstraction
   would be left. *)
From stdpp Require Import gmap.
From Coq Require Import Strings.String.
From RV Require Import Irc.State Irc.Cmds Irc.Apply.
From RV Require Import IrcProofs.Inv IrcProofs.Top IrcProofs.Examples.
Local Open Scope string_scope.

Theorem C06_no_panic : forall e sv en site,
  EInv sv -> wf_entry sv en -> apply_entry e sv en <> OPanic site /\ apply_entry e sv en <> OGap site.
Proof. exact entry_no_panic. Qed.
Print Assumptions C06_no_panic.

(* in every state reachable by a well-formed history: the history itself never panicked *)
Theorem C06_histories : forall e net es,
  wf_history e (init_server net) es ->
  exists sv', run e (init_server net) es = Some sv' /\ EInv sv'.
Proof. exact no_panic. Qed.
Print Assumptions C06_histories.

Theorem C06_reachable_then_any_line : forall e net es sv id ts session cmid ra data site,
  wf_history e (init_server net) es -> run e (init_server net) es = Some sv ->
  line_ok sv (session, 0%N) (Irc.Parse.parse_message data) ->
  apply_entry e sv (EMessage id ts session cmid ra data) <> OPanic site.
Proof.
  intros e net es sv id ts session cmid ra data site Hwf Hrun Hline.
  destruct (no_panic e net es Hwf) as (sv' & Hr & E). rewrite Hrun in Hr. injection Hr as <-.
  now apply (entry_no_panic e sv (EMessage id ts session cmid ra data) site E Hline).
Qed.
Print Assumptions C06_reachable_then_any_line.

Theorem C06_nonvacuous : wf_history ex_env (init_server "robustirc.net") ex_history.
Proof. exact ex_history_wf. Qed.
Print Assumptions C06_nonvacuous.
