(* IrcProofs/Top.v — ProcessMessage, applyRobustMessage and whole histories: the invariant holds
   after every entry and no entry panics or leaves the modelled domain. *)
From stdpp Require Import gmap.
From Coq Require Import Strings.String Strings.Ascii ZArith NArith Lia.
From RV Require Import Base.Text Irc.Str Irc.Parse Irc.State Irc.Monad Irc.Cmds Irc.SCmds Irc.Apply.
From RV Require Import IrcProofs.WP IrcProofs.Inv IrcProofs.InvPrims IrcProofs.StrLemmas IrcProofs.Handlers IrcProofs.SHandlers.
Local Open Scope string_scope.

(* what a protocol-conforming line of an authenticated services link looks like (DESIGN Appendix A.4);
   [name] is the key of the command table, i.e. "server_" followed by the upper-cased command *)
Record conforming (sv : server) (k : N * N) (name : string) (m : imsg) : Prop := {
  cf_prefix : In name ["server_JOIN"; "server_PART"; "server_KICK"; "server_MODE"; "server_TOPIC"; "server_PRIVMSG";
                       "server_NOTICE"; "server_INVITE"; "server_SVSJOIN"; "server_SVSPART"; "server_KILL"] ->
              is_Some (m_prefix m);
  cf_params1 : In name ["server_JOIN"; "server_PART"; "server_MODE"] -> 1 <= nparams m;
  cf_nick : name = "server_NICK" ->
            nparams m = 1 \/
            (4 <= nparams m /\ forall p0, nth_error (m_params m) 0 = Some p0 ->
                valid_nick p0 = true /\ sv_sessions sv !! (fst k, fnv64 p0) = None /\ fnv64 p0 <> 0%N);
  cf_svsnick : name = "server_SVSNICK" ->
               forall p1, nth_error (m_params m) 1 = Some p1 -> sv_nicks sv !! nick_to_lower p1 = None;
  cf_topic : name = "server_TOPIC" -> forall p2, nth_error (m_params m) 2 = Some p2 -> Z_of_dec p2 <> None;
  cf_svshold : name = "server_SVSHOLD" -> forall p1, nth_error (m_params m) 1 = Some p1 -> N_of_dec p1 <> None;
}.

Definition all_live (sv : server) : Prop := forall k s, sv_sessions sv !! k = Some s -> s_deleted s = false.

(* side conditions under which the handler registered as [name] is run by ProcessMessage *)
Definition side (sv : server) (k : N * N) (name : string) (m : imsg) : Prop :=
  (name = "JOIN" -> forall s, sv_sessions sv !! k = Some s -> s_nick s <> "") /\
  (has_prefix "server_" name = true -> priv sv k /\ all_live sv /\ conforming sv k name m).

Lemma dispatch_ok name minp (f : handler) :
  In (name, (minp, f)) commands ->
  forall e k m sv r, Good k sv -> minp <= nparams m -> side sv k name m ->
  wp (f e k m) (fine_post k) sv r.
Proof.
  intros Hin e k m sv r G Hp [Hjoin Hsrv].
  unfold commands in Hin.
  repeat (destruct Hin as [Hin|Hin]; [injection Hin as <- <- <-|]); try contradiction; unfold noenv.
  (* the read-only and the ordinary client handlers *)
  all: try solve [ apply good_fine_post; apply unchanged_good; [exact G|]; apply cmd_service_alias_ok; [apply G|apply live_present, G]
                 | apply good_fine_post; apply cmd_away_ok; exact G | apply good_fine_post; apply cmd_invite_ok; [exact G|lia]
                 | apply good_fine_post; apply unchanged_good; [exact G|]; apply cmd_ison_ok; [apply G|apply live_present, G]
                 | apply good_fine_post; apply cmd_join_ok; [exact G|now apply Hjoin|lia]
                 | apply good_fine_post; apply cmd_kick_ok; [exact G|lia]
                 | apply good_fine_post; apply unchanged_good; [exact G|]; apply cmd_knock_ok; [apply G|apply live_present, G|lia]
                 | apply good_fine_post; apply unchanged_good; [exact G|]; apply cmd_list_ok; [apply G|apply live_present, G]
                 | apply good_fine_post; apply cmd_mode_ok; [exact G|lia]
                 | apply good_fine_post; apply unchanged_good; [exact G|]; destruct (g_live _ _ G) as (s0 & Hs0 & _); eapply cmd_motd_ok; eauto
                 | apply good_fine_post; apply unchanged_good; [exact G|]; apply cmd_names_ok; [apply G|apply live_present, G]
                 | apply good_fine_post; apply cmd_nick_ok; exact G | apply good_fine_post; apply cmd_oper_ok; [exact G|lia] | apply good_fine_post; apply cmd_part_ok; [exact G|lia]
                 | apply good_fine_post; apply cmd_pass_ok; exact G
                 | apply good_fine_post; apply unchanged_good; [exact G|]; destruct (g_live _ _ G) as (s0 & Hs0 & _); eapply cmd_ping_ok; eauto
                 | apply good_fine_post; apply unchanged_good; [exact G|]; apply cmd_privmsg_ok; [apply G|apply live_present, G]
                 | apply good_fine_post; apply cmd_topic_ok; [exact G|lia]
                 | apply good_fine_post; apply cmd_user_ok; [exact G|lia]
                 | apply good_fine_post; apply unchanged_good; [exact G|]; apply cmd_userhost_ok; [apply G|apply live_present, G]
                 | apply good_fine_post; apply unchanged_good; [exact G|]; apply cmd_who_ok; [apply G|apply live_present, G]
                 | apply good_fine_post; apply unchanged_good; [exact G|]; apply cmd_whois_ok; [apply G|apply live_present, G|lia]
                 | apply good_fine_post; apply cmd_server_ok; [exact G|lia] ].
  all: try solve [ apply cmd_gline_ok; [exact G|lia] | apply cmd_kill_ok; [exact G|lia] | apply cmd_quit_ok; exact G ].
  (* the services handlers *)
  all: destruct (Hsrv eq_refl) as (Hpriv & Hlive & C).
  all: try (destruct (cf_prefix _ _ _ _ C) as [pfx Hpfx]; [cbn; tauto|]).
  all: try solve [ apply good_fine_post; eapply cmd_server_invite_ok; eauto; lia
                 | apply good_fine_post; eapply cmd_server_join_ok; eauto; apply (cf_params1 _ _ _ _ C); cbn; tauto
                 | apply good_fine_post; eapply cmd_server_kick_ok; eauto; lia
                 | eapply cmd_server_kill_ok; eauto
                 | apply good_fine_post; eapply cmd_server_mode_ok; eauto; apply (cf_params1 _ _ _ _ C); cbn; tauto
                 | apply good_fine_post; eapply cmd_server_nick_ok; eauto; apply (cf_nick _ _ _ _ C); reflexivity
                 | apply good_fine_post; eapply cmd_server_part_ok; eauto; apply (cf_params1 _ _ _ _ C); cbn; tauto
                 | apply good_fine_post; apply unchanged_good; [exact G|]; destruct (g_live _ _ G) as (s0 & Hs0 & _); eapply cmd_ping_ok; eauto
                 | apply good_fine_post; eapply cmd_server_privmsg_ok; eauto
                 | eapply cmd_server_quit_ok; eauto
                 | apply good_fine_post; eapply cmd_server_svshold_ok; eauto; [lia|apply (cf_svshold _ _ _ _ C); reflexivity]
                 | apply good_fine_post; eapply cmd_server_svsjoin_ok; eauto; lia
                 | apply good_fine_post; eapply cmd_server_svsmode_ok; eauto; lia
                 | apply good_fine_post; eapply cmd_server_svsnick_ok; eauto; [lia|apply (cf_svsnick _ _ _ _ C); reflexivity]
                 | apply good_fine_post; eapply cmd_server_svspart_ok; eauto; lia
                 | apply good_fine_post; eapply cmd_server_topic_ok; eauto; [lia|apply (cf_topic _ _ _ _ C); reflexivity] ].
  - apply good_fine_post. apply cmd_server_svshold_ok; [exact G|lia|apply (cf_svshold _ _ _ _ C); reflexivity].
  - apply good_fine_post. apply cmd_server_svsnick_ok; [exact G|lia|apply (cf_svsnick _ _ _ _ C); reflexivity].
  - apply good_fine_post.
    eapply cmd_server_topic_ok; [exact G|exact Hpfx|lia|apply (cf_topic _ _ _ _ C); reflexivity].
Qed.

(* ---- the entry-level invariant ------------------------------------------------------------------- *)
Record EInv (sv : server) : Prop := {
  e_inv : InvM sv;
  e_live : all_live sv;
  e_auth : auth_ok sv;
  e_login : login_ok sv;
}.

Lemma EInv_Good sv k : EInv sv -> present sv k -> snd k = 0%N -> Good k sv.
Proof.
  intros [I L A Lg] [s Hs] Hk0. split; auto.
  - exists s. split; [exact Hs|eapply L; eauto].
  - intros k' s' Hs' Hd'. rewrite (L _ _ Hs') in Hd'. discriminate.
Qed.

Lemma assoc_str_In {A} k (l : list (string * A)) v : assoc_str k l = Some v -> In (k, v) l.
Proof.
  induction l as [|[k' v'] l IH]; cbn [assoc_str]; [discriminate|].
  destruct (String.eqb k k') eqn:E.
  - apply String.eqb_eq in E. subst k'. intros [= <-]. now left.
  - intros H. right. now apply IH.
Qed.

(* a line of a services link is conforming in the current state *)
Definition line_ok (sv : server) (k : N * N) (ircmsg : option imsg) : Prop :=
  forall s m, sv_sessions sv !! k = Some s -> s_server s = true -> ircmsg = Some m ->
    conforming sv k ("server_" ++ to_upper (m_cmd m)) m.

Lemma conforming_transfer sv sv' k name m :
  sv_nicks sv' = sv_nicks sv ->
  (forall k2, sv_sessions sv' !! k2 = None <-> sv_sessions sv !! k2 = None) ->
  conforming sv k name m -> conforming sv' k name m.
Proof.
  intros Hn Hs [C1 C2 C3 C4 C5 C6]. split; auto.
  - intros Hname. destruct (C3 Hname) as [H1|(H4 & Hf)]; [now left|right]. split; [exact H4|].
    intros p0 Hp0. destruct (Hf p0 Hp0) as (Hv & Hfree & Hh). repeat split; auto. now apply Hs.
  - intros Hname p1 Hp1. rewrite Hn. now apply C4.
Qed.

Lemma process_message_ok e k ra ircmsg sv r :
  EInv sv -> present sv k -> snd k = 0%N -> line_ok sv k ircmsg ->
  wp (process_message e k ra ircmsg) (fine_post k) sv r.
Proof.
  intros E P Hk0 Hline. pose proof (EInv_Good sv k E P Hk0) as G.
  unfold process_message. apply wp_bind. wp_sess_acting G.
  destruct ircmsg as [m|]; [|wp_step; now apply Good_Fine]. cbv zeta.
  (* the address-ban test *)
  apply wp_bind.
  eapply (wp_mono _ (fun banned sv' _ => (banned = true -> Fine k sv') /\
            (banned = false -> Good k sv' /\ all_live sv' /\
               sv_sessions sv' !! k = Some (if negb (is_empty ra) && negb (String.eqb ra (s_remoteAddr s)) then ss_remoteAddr ra s else s) /\
               sv_nicks sv' = sv_nicks sv /\
               (forall k2, k2 <> k -> sv_sessions sv' !! k2 = sv_sessions sv !! k2)))).
  { destruct (negb (is_empty ra) && negb (String.eqb ra (s_remoteAddr s))) eqn:Hra.
    - wp_apply wp_updSess_good; try solve_same.
      match goal with H : _ /\ _ /\ _ |- _ => destruct H as (G1 & (Rn & _) & L1) end.
      assert (Hlive1 : all_live sv').
      { intros k2 s2. rewrite L1. destruct (sv_sessions sv !! k2) as [s0|] eqn:Hs0; [|discriminate].
        cbn. intros [= <-]. pose proof (e_live sv E _ _ Hs0) as Hd0. destruct (bool_decide (k = k2)); exact Hd0. }
      assert (Hs1 : sv_sessions sv' !! k = Some (ss_remoteAddr ra s)) by (rewrite L1, bool_decide_true, Hs by reflexivity; reflexivity).
      assert (Hoth : forall k2, k2 <> k -> sv_sessions sv' !! k2 = sv_sessions sv !! k2).
      { intros k2 Hne. rewrite L1, bool_decide_false by congruence. now destruct (sv_sessions sv !! k2). }
      wp_step. wp_step. wp_step.
      + wp_step.
        * wp_step. split; [discriminate|]. intros _.
          split; [exact G1|split; [exact Hlive1|split; [exact Hs1|split; [exact Rn|exact Hoth]]]].
        * wp_step. wp_step. apply wp_bind.
          eapply (delete_session_fine k); [apply Good_Fine; exact G1|exact Hs1|exact Hd|now left|].
          intros sv2 r2 F2 _ _ _ _. wp_step. split; [auto|discriminate].
      + wp_step. split; [discriminate|]. intros _.
        split; [exact G1|split; [exact Hlive1|split; [exact Hs1|split; [exact Rn|exact Hoth]]]].
    - wp_step. split; [discriminate|]. intros _.
      split; [exact G|split; [apply E|split; [exact Hs|split; [reflexivity|reflexivity]]]]. }
  intros banned sv1 r1 [Hb1 Hb0]. cbv beta. destruct banned; [wp_step; now apply Hb1|].
  destruct (Hb0 eq_refl) as (G1 & Hlive1 & Hs1 & Hn1 & Hoth1). clear Hb1 Hb0.
  apply wp_bind. eapply wp_sessM; [exact Hs1|].
  set (s1 := if negb (is_empty ra) && negb (String.eqb ra (s_remoteAddr s)) then ss_remoteAddr ra s else s) in *.
  assert (Hflags1 : s_loggedIn s1 = s_loggedIn s /\ s_server s1 = s_server s).
  { unfold s1. destruct (_ && _); split; reflexivity. }
  destruct Hflags1 as (Hli & Hsrv).
  wp_step.
  - (* not registered *)
    wp_step. wp_step. apply wp_whenM; intros _; [|now apply Good_Fine].
    wp_step. wp_step. eapply (delete_session_fine k); [apply Good_Fine; exact G1|exact Hs1|eapply Hlive1; eauto|now left|].
    intros sv2 r2 F2 _ _ _ _. exact F2.
  - (* dispatch *)
    match goal with Hreg : _ && _ && negb (pre_registration _) = false |- _ => rename Hreg into Hreg0 end.
    destruct (assoc_str ((if s_server s1 then "server_" else "") ++ to_upper (m_cmd m)) commands) as [[minp f]|] eqn:Hcmd;
      [|repeat wp_step; now apply Good_Fine].
    wp_step; [repeat wp_step; now apply Good_Fine|].
    match goal with Hlt : Nat.ltb (nparams m) minp = false |- _ => apply Nat.ltb_ge in Hlt end.
    apply assoc_str_In in Hcmd.
    eapply dispatch_ok; [exact Hcmd|exact G1|assumption|]. split.
    + (* JOIN needs a nickname: the session is logged in *)
      intros Hname s2 Hs2. rewrite Hs1 in Hs2. injection Hs2 as <-.
      destruct (s_server s1) eqn:Hsv; [cbn in Hname; discriminate|].
      change (to_upper (m_cmd m) = "JOIN") in Hname.
      assert (Hli1 : s_loggedIn s1 = true).
      { destruct (s_loggedIn s1) eqn:Hl; [reflexivity|]. exfalso.
        rewrite Hname in Hreg0. cbn in Hreg0. discriminate. }
      pose proof (g_login _ _ G1 _ _ Hs1) as Hlb. unfold login_bit in Hlb. rewrite Hli1 in Hlb. cbn in Hlb.
      apply negb_true_iff, is_empty_false in Hlb. exact Hlb.
    + (* services handlers: the link is authenticated and the line conforms *)
      intros Hpre. destruct (s_server s1) eqn:Hsv.
      * split; [exists s1; split; [exact Hs1|now rewrite Hsv]|]. split; [exact Hlive1|].
        eapply (conforming_transfer sv); [exact Hn1| |eapply Hline; eauto; congruence].
        intros k2. destruct (decide (k2 = k)) as [->|Hne].
        -- rewrite Hs1, Hs. split; discriminate.
        -- now rewrite Hoth1.
      * exfalso. cbn [String.append] in Hpre, Hcmd.
        (* no client command name starts with "server_" *)
        unfold commands in Hcmd.
        repeat (destruct Hcmd as [Hcmd|Hcmd]; [injection Hcmd as Hc _ _; rewrite <- Hc in Hpre; cbn in Hpre; try discriminate|]);
          try contradiction.
        all: exfalso; cbn [String.append] in Hc; symmetry in Hc; revert Hc; apply to_upper_not_s.
Qed.

(* ---- MaybeDeleteSession, the other fields ------------------------------------------------------- *)
Lemma InvM_restrict (sv : server) (sess' : gmap (N * N) session) :
  InvM sv ->
  (forall k s, sess' !! k = Some s -> sv_sessions sv !! k = Some s) ->
  (forall k s, sv_sessions sv !! k = Some s -> s_deleted s = false -> sess' !! k = Some s) ->
  InvM (set_sessions (fun _ => sess') sv).
Proof.
  intros I Hsub Hkeep. split; cbn [sv_sessions sv_nicks sv_channels set_sessions].
  - intros k s Hs. eapply i_key; eauto.
  - intros n k Hn. destruct (i_idx_sound sv I _ _ Hn) as (Hne & s & Hs & Hd & Hl). split; [exact Hne|].
    exists s. auto.
  - intros k s Hs. apply (i_idx_complete sv I k). auto.
  - intros lc c n p Hc Hm. destruct (i_memb_c sv I _ _ _ _ Hc Hm) as (k & s & Hk & Hs & Hin).
    destruct (i_idx_sound sv I _ _ Hk) as (_ & s2 & Hs2 & Hd2 & _). rewrite Hs in Hs2. injection Hs2 as <-.
    exists k, s. auto.
  - intros k s lc Hs. apply (i_memb_s sv I k). auto.
  - apply (i_chan sv I).
Qed.

Lemma maybe_delete_session_ok (k : N * N) (sv : server) :
  Fine k sv -> EInv (maybe_delete_session k sv).
Proof.
  intros [I [s Hs] D A Lg]. unfold maybe_delete_session. rewrite Hs.
  set (purged := if s_server s || s_operator s
                 then set_sessions (base.filter (fun kv : N * N * session => s_deleted kv.2 = false)) sv else sv).
  (* every session still marked deleted after the conditional purge is k itself *)
  assert (Hsub : forall k2 s2, sv_sessions purged !! k2 = Some s2 -> sv_sessions sv !! k2 = Some s2).
  { intros k2 s2. unfold purged. destruct (s_server s || s_operator s); [|auto].
    cbn [sv_sessions set_sessions]. rewrite map_filter_lookup_Some. tauto. }
  assert (Hkeep : forall k2 s2, sv_sessions sv !! k2 = Some s2 -> s_deleted s2 = false -> sv_sessions purged !! k2 = Some s2).
  { intros k2 s2 H2 Hd2. unfold purged. destruct (s_server s || s_operator s); [|auto].
    cbn [sv_sessions set_sessions]. rewrite map_filter_lookup_Some. auto. }
  assert (Honly : forall k2 s2, sv_sessions purged !! k2 = Some s2 -> s_deleted s2 = true -> k2 = k).
  { intros k2 s2 H2 Hd2. unfold purged in H2. destruct (s_server s || s_operator s) eqn:Hp.
    - cbn [sv_sessions set_sessions] in H2. apply map_filter_lookup_Some in H2. destruct H2 as [_ H2]. cbn in H2. congruence.
    - destruct (D _ _ H2 Hd2) as [->|(sp & Hsp & Hpp)]; [reflexivity|]. rewrite Hs in Hsp. injection Hsp as <-. congruence. }
  assert (Hrest : sv_nicks purged = sv_nicks sv /\ sv_channels purged = sv_channels sv).
  { unfold purged. destruct (s_server s || s_operator s); split; reflexivity. }
  destruct Hrest as [Hn Hc].
  set (final := if s_deleted s then set_sessions (delete k) purged else purged).
  assert (Hsub' : forall k2 s2, sv_sessions final !! k2 = Some s2 -> sv_sessions sv !! k2 = Some s2 /\ s_deleted s2 = false).
  { intros k2 s2. unfold final. destruct (s_deleted s) eqn:Hds.
    - cbn [sv_sessions set_sessions]. intros H2. apply lookup_delete_Some in H2. destruct H2 as [Hne H2].
      split; [now apply Hsub|]. destruct (s_deleted s2) eqn:Hd2; [|reflexivity]. exfalso. apply Hne. symmetry. eapply Honly; eauto.
    - intros H2. split; [now apply Hsub|]. destruct (s_deleted s2) eqn:Hd2; [|reflexivity].
      pose proof (Honly _ _ H2 Hd2) as ->. apply Hsub in H2. congruence. }
  assert (Hkeep' : forall k2 s2, sv_sessions sv !! k2 = Some s2 -> s_deleted s2 = false -> sv_sessions final !! k2 = Some s2).
  { intros k2 s2 H2 Hd2. unfold final. destruct (s_deleted s) eqn:Hds; [|auto].
    cbn [sv_sessions set_sessions]. rewrite lookup_delete_ne; [auto|]. intros <-. congruence. }
  assert (Hfin : sv_nicks final = sv_nicks sv /\ sv_channels final = sv_channels sv).
  { unfold final. destruct (s_deleted s); split; assumption. }
  destruct Hfin as [Hn' Hc'].
  split.
  - eapply (InvM_other (set_sessions (fun _ => sv_sessions final) sv)); [reflexivity|exact Hn'|exact Hc'|].
    apply InvM_restrict; [exact I| |exact Hkeep']. intros k2 s2 H2. apply (Hsub' _ _ H2).
  - intros k2 s2 H2. apply (Hsub' _ _ H2).
  - intros k2 s2 H2 Hk0. apply Hsub' in H2. eapply A; [apply H2|exact Hk0].
  - intros k2 s2 H2. apply Hsub' in H2. eapply Lg. apply H2.
Qed.

Lemma EInv_other sv sv' :
  sv_sessions sv' = sv_sessions sv -> sv_nicks sv' = sv_nicks sv -> sv_channels sv' = sv_channels sv ->
  EInv sv -> EInv sv'.
Proof.
  intros Hs Hn Hc [I L A Lg]. split.
  - eapply InvM_other; eauto.
  - intros k s. rewrite Hs. apply L.
  - intros k s. rewrite Hs. apply A.
  - intros k s. rewrite Hs. apply Lg.
Qed.

Lemma Fine_other k sv sv' :
  sv_sessions sv' = sv_sessions sv -> sv_nicks sv' = sv_nicks sv -> sv_channels sv' = sv_channels sv ->
  Fine k sv -> Fine k sv'.
Proof.
  intros Hs Hn Hc [I P D A Lg]. split.
  - eapply InvM_other; eauto.
  - unfold present. now rewrite Hs.
  - intros k2 s2. rewrite Hs. intros H2 Hd2. destruct (D _ _ H2 Hd2) as [->|(sp & Hsp & Hp)]; [now left|right].
    exists sp. rewrite Hs. auto.
  - intros k2 s2. rewrite Hs. apply A.
  - intros k2 s2. rewrite Hs. apply Lg.
Qed.

(* ---- one log entry --------------------------------------------------------------------------------- *)
(* what the HTTP API can put into the log, relative to the state the entry is applied in *)
Definition wf_entry (sv : server) (en : entry) : Prop :=
  match en with
  | ECreate id _ auth => 8 <= slen auth /\ sv_sessions sv !! (id, 0%N) = None
  | EMessage _ _ session _ _ data => line_ok sv (session, 0%N) (parse_message data)
  | _ => True
  end.

Definition entry_result (o : outcome) : option server :=
  match o with
  | OOk sv _ => Some sv | OSessionLimit sv => Some sv | OSkip sv => Some sv
  | OPanic _ => None | OGap _ => None
  end.

Lemma update_last_cmid_EInv k ts data cmid sv sv' :
  EInv sv -> update_last_cmid k ts data cmid sv = Some sv' ->
  EInv sv' /\ present sv' k /\ sv_nicks sv' = sv_nicks sv /\
  (forall k2, sv_sessions sv' !! k2 = None <-> sv_sessions sv !! k2 = None) /\
  (forall s, sv_sessions sv !! k = Some s -> exists s', sv_sessions sv' !! k = Some s' /\ s_server s' = s_server s).
Proof.
  intros E H. unfold update_last_cmid in H. destruct (sv_sessions sv !! k) as [s|] eqn:Hs; [|discriminate].
  injection H as <-.
  set (f := ss_activity ts (if has_prefix "ping" (to_lower data) then s_lastNonPing s else ts) cmid).
  assert (Hl : forall k2, sv_sessions (set_sessions (<[k := f s]>) sv) !! k2 = (if bool_decide (k = k2) then f else id) <$> (sv_sessions sv !! k2)).
  { intros k2. cbn [sv_sessions set_sessions]. destruct (decide (k = k2)) as [<-|Hne].
    - rewrite lookup_insert, bool_decide_true, Hs by reflexivity. reflexivity.
    - rewrite lookup_insert_ne, bool_decide_false by assumption. now destruct (sv_sessions sv !! k2). }
  assert (Heq : sv_sessions (set_sessions (<[k := f s]>) sv) = sv_sessions (upd_sess_state k f sv)).
  { unfold upd_sess_state. cbn [sv_sessions set_sessions]. now rewrite Hs. }
  destruct E as [I L A Lg]. split; [split|split; [|split; [|split]]].
  - eapply (InvM_other (upd_sess_state k f sv)); [exact Heq|reflexivity|reflexivity|].
    unfold upd_sess_state. apply InvM_updSess_same; [intros s0; repeat split|exact I].
  - intros k2 s2. rewrite Hl. destruct (sv_sessions sv !! k2) as [s0|] eqn:Hs0; [|discriminate].
    cbn. intros [= <-]. pose proof (L _ _ Hs0). destruct (bool_decide (k = k2)); assumption.
  - intros k2 s2. rewrite Hl. destruct (sv_sessions sv !! k2) as [s0|] eqn:Hs0; [|discriminate].
    cbn. intros [= <-] Hk0. pose proof (A _ _ Hs0 Hk0). destruct (bool_decide (k = k2)); assumption.
  - intros k2 s2. rewrite Hl. destruct (sv_sessions sv !! k2) as [s0|] eqn:Hs0; [|discriminate].
    cbn. intros [= <-]. pose proof (Lg _ _ Hs0). destruct (bool_decide (k = k2)); assumption.
  - unfold present. rewrite Hl, bool_decide_true, Hs by reflexivity. now eexists.
  - reflexivity.
  - intros k2. rewrite Hl. destruct (sv_sessions sv !! k2); split; intros; try discriminate; reflexivity.
  - intros s0 Hs0. injection Hs0 as <-. exists (f s).
    rewrite Hl, bool_decide_true, Hs by reflexivity. split; reflexivity.
Qed.

Lemma run_handler_ok e k ra ircmsg sv msgid finish :
  EInv sv -> present sv k -> snd k = 0%N -> line_ok sv k ircmsg ->
  (forall sv', Fine k sv' -> EInv (finish sv')) ->
  exists sv' out, run_handler sv msgid (process_message e k ra ircmsg) finish = OOk sv' out /\ EInv sv'.
Proof.
  intros E P Hk0 Hl Hfin. unfold run_handler.
  pose proof (process_message_ok e k ra ircmsg sv (RCtx msgid []) E P Hk0 Hl) as H. unfold wp in H.
  destruct (process_message e k ra ircmsg sv (RCtx msgid [])) as [[[[] sv'] r']|?|?]; [|contradiction|contradiction].
  eexists _, _. split; [reflexivity|]. apply Hfin. exact H.
Qed.

Theorem apply_entry_ok e sv en :
  EInv sv -> wf_entry sv en ->
  exists sv', entry_result (apply_entry e sv en) = Some sv' /\ EInv sv'.
Proof.
  intros E Hwf. destruct en as [id un auth|id un session q|id un session cmid ra data|id un session cmid data|id un rev parsed];
    cbn [apply_entry].
  - (* CreateSession *)
    destruct Hwf as [Hauth Hfresh]. unfold create_session, bindM, getS, retM, modS.
    destruct (_ && _); [eexists; split; [reflexivity|exact E]|].
    cbn. eexists. split; [reflexivity|]. destruct E as [I L A Lg]. split.
    + apply InvM_create; auto.
    + intros k s. cbn [sv_sessions set_sessions]. destruct (decide ((id, 0%N) = k)) as [<-|Hne].
      * rewrite lookup_insert. intros [= <-]. reflexivity.
      * rewrite lookup_insert_ne by assumption. apply L.
    + intros k s. cbn [sv_sessions set_sessions]. destruct (decide ((id, 0%N) = k)) as [<-|Hne].
      * rewrite lookup_insert. intros [= <-] _. exact Hauth.
      * rewrite lookup_insert_ne by assumption. apply A.
    + intros k s. cbn [sv_sessions set_sessions]. destruct (decide ((id, 0%N) = k)) as [<-|Hne].
      * rewrite lookup_insert. intros [= <-]. reflexivity.
      * rewrite lookup_insert_ne by assumption. apply Lg.
  - (* DeleteSession *)
    destruct (sv_sessions sv !! (session, 0%N)) as [s|] eqn:Hs; [|eexists; split; [reflexivity|exact E]].
    destruct (parse_quit q) as [ps Hq]. rewrite Hq.
    destruct (run_handler_ok e (session, 0%N) "" (Some (IMsg None "QUIT" ps)) sv id
                (fun sv' => maybe_delete_session (session, 0%N) (set_lastProcessed (id, 0%N) sv')) E) as (sv' & out & -> & E');
      [now exists s|reflexivity| |intros sv' F; apply maybe_delete_session_ok; apply (Fine_other _ sv'); [reflexivity|reflexivity|reflexivity|exact F]|].
    + (* a QUIT line conforms *)
      intros s0 m0 _ _ [= <-]. split; cbn; intros H; try discriminate; repeat (destruct H as [H|H]; [discriminate|]); contradiction.
    + eexists. split; [reflexivity|exact E'].
  - (* IRCFromClient *)
    destruct (is_retry (session, 0%N) cmid sv) eqn:Hretry; [eexists; split; [reflexivity|exact E]|].
    destruct (update_last_cmid (session, 0%N) (timestamp id un) data cmid sv) as [sv1|] eqn:Hu;
      [|eexists; split; [reflexivity|exact E]].
    destruct (update_last_cmid_EInv _ _ _ _ _ _ E Hu) as (E1 & P1 & Hn1 & Hdom1 & Hsrv1).
    destruct (run_handler_ok e (session, 0%N) ra (parse_message data) sv1 id
                (fun sv' => maybe_delete_session (session, 0%N) (set_lastProcessed (session, 0%N) sv')) E1 P1) as (sv' & out & -> & E');
      [reflexivity| |intros sv' F; apply maybe_delete_session_ok; apply (Fine_other _ sv'); [reflexivity|reflexivity|reflexivity|exact F]|].
    + intros s1 m1 Hs1 Hsv1 Hm1. cbn [wf_entry] in Hwf.
      destruct (sv_sessions sv !! (session, 0%N)) as [s|] eqn:Hs.
      * destruct (Hsrv1 s eq_refl) as (s' & Hs' & Hsame). rewrite Hs1 in Hs'. injection Hs' as <-.
        eapply conforming_transfer; [exact Hn1|exact Hdom1|]. eapply Hwf; eauto; congruence.
      * exfalso. destruct (Hdom1 (session, 0%N)) as [_ Hd]. rewrite (Hd Hs) in Hs1. discriminate.
    + eexists. split; [reflexivity|exact E'].
  - (* message of death *)
    destruct (update_last_cmid (session, 0%N) (timestamp id un) data cmid sv) as [sv1|] eqn:Hu.
    + destruct (update_last_cmid_EInv _ _ _ _ _ _ E Hu) as (E1 & _). eexists. split; [reflexivity|exact E1].
    + eexists. split; [reflexivity|exact E].
  - (* Config *)
    destruct (config_in_force _ _ _) as [g|]; (eexists; split; [reflexivity|]); [|exact E].
    eapply EInv_other; [| | |exact E]; reflexivity.
Qed.

Lemma config_in_force_Some rev p sv g : config_in_force rev p sv = Some g -> p = Some g.
Proof.
  unfold config_in_force. destruct p as [g'|]; [|discriminate]. destruct (_ =? _)%N; [intros [= ->]; reflexivity|discriminate].
Qed.
Lemma config_in_force_rev rev p sv g : config_in_force rev p sv = Some g -> rev = (g_revision (sv_config sv) + 1)%N.
Proof.
  unfold config_in_force. destruct p as [g'|]; [|discriminate]. destruct (N.eqb_spec rev (g_revision (sv_config sv) + 1)); [intros _; assumption|discriminate].
Qed.

(* ---- histories -------------------------------------------------------------------------------------- *)
Fixpoint run (e : env) (sv : server) (es : list entry) : option server :=
  match es with
  | [] => Some sv
  | en :: r => match entry_result (apply_entry e sv en) with
               | Some sv' => run e sv' r
               | None => None
               end
  end.

(* a history is well-formed if every entry is well-formed in the state it is applied in *)
Fixpoint wf_history (e : env) (sv : server) (es : list entry) : Prop :=
  match es with
  | [] => True
  | en :: r => wf_entry sv en /\
               forall sv', entry_result (apply_entry e sv en) = Some sv' -> wf_history e sv' r
  end.

Lemma EInv_init net : EInv (init_server net).
Proof.
  split; [apply InvM_init| | |]; intros k s H; cbn [init_server sv_sessions] in H; rewrite lookup_empty in H; discriminate.
Qed.

Theorem run_ok e sv es :
  EInv sv -> wf_history e sv es -> exists sv', run e sv es = Some sv' /\ EInv sv'.
Proof.
  revert sv. induction es as [|en es IH]; intros sv E Hwf; cbn [run].
  - now exists sv.
  - destruct Hwf as [Hen Hrest]. destruct (apply_entry_ok e sv en E Hen) as (sv1 & Hr & E1).
    rewrite Hr. apply IH; [exact E1|]. apply Hrest. exact Hr.
Qed.

(* ---- what the invariant says in the words of the property ------------------------------------------- *)
Corollary unique_nicks sv k1 k2 s1 s2 :
  EInv sv -> sv_sessions sv !! k1 = Some s1 -> sv_sessions sv !! k2 = Some s2 ->
  s_nick s1 <> "" -> nick_to_lower (s_nick s1) = nick_to_lower (s_nick s2) -> k1 = k2.
Proof.
  intros [I L _ _] H1 H2 Hn E.
  assert (Hn2 : s_nick s2 <> "").
  { intros E2. rewrite E2 in E. apply nick_to_lower_nonempty in Hn. apply Hn. rewrite E. reflexivity. }
  pose proof (i_idx_complete sv I _ _ H1 (L _ _ H1) Hn) as C1.
  pose proof (i_idx_complete sv I _ _ H2 (L _ _ H2) Hn2) as C2.
  rewrite E in C1. congruence.
Qed.

Corollary membership_symmetric sv k s lc :
  EInv sv -> sv_sessions sv !! k = Some s ->
  (lc ∈ s_channels s <-> exists c, sv_channels sv !! lc = Some c /\ is_Some (c_nicks c !! nick_to_lower (s_nick s)) /\
                                    sv_nicks sv !! nick_to_lower (s_nick s) = Some k).
Proof.
  intros [I L _ _] Hs. split.
  - intros Hin. destruct (i_memb_s sv I _ _ _ Hs (L _ _ Hs) Hin) as (c & Hc & Hm). exists c. split; [exact Hc|]. split; [exact Hm|].
    destruct Hm as [p Hp]. eapply member_key_acting; eauto.
  - intros (c & Hc & [p Hp] & Hk). destruct (i_memb_c sv I _ _ _ _ Hc Hp) as (k' & s' & Hk' & Hs' & Hin).
    rewrite Hk in Hk'. injection Hk' as <-. rewrite Hs in Hs'. injection Hs' as <-. exact Hin.
Qed.

Corollary channels_nonempty_members_live sv lc c :
  EInv sv -> sv_channels sv !! lc = Some c ->
  c_nicks c <> ∅ /\ chan_to_lower (c_name c) = lc /\
  forall n p, c_nicks c !! n = Some p ->
    exists k s, sv_nicks sv !! n = Some k /\ sv_sessions sv !! k = Some s /\ s_deleted s = false /\
                nick_to_lower (s_nick s) = n /\ lc ∈ s_channels s.
Proof.
  intros [I L _ _] Hc. destruct (i_chan sv I _ _ Hc) as [Hne Hname]. split; [exact Hne|]. split; [exact Hname|].
  intros n p Hp. destruct (i_memb_c sv I _ _ _ _ Hc Hp) as (k & s & Hk & Hs & Hin).
  destruct (i_idx_sound sv I _ _ Hk) as (_ & s' & Hs' & Hd & Hl). rewrite Hs in Hs'. injection Hs' as <-.
  exists k, s. auto.
Qed.

(* the model never reports a panic or leaves its domain on a well-formed history *)
Theorem no_panic e net es :
  wf_history e (init_server net) es -> exists sv', run e (init_server net) es = Some sv' /\ EInv sv'.
Proof. intros H. apply run_ok; [apply EInv_init|exact H]. Qed.

Theorem entry_no_panic e sv en site :
  EInv sv -> wf_entry sv en -> apply_entry e sv en <> OPanic site /\ apply_entry e sv en <> OGap site.
Proof.
  intros E Hwf. destruct (apply_entry_ok e sv en E Hwf) as (sv' & Hr & _).
  split; intros Heq; rewrite Heq in Hr; discriminate.
Qed.
