(* C02 — compaction, snapshot and restore never change the replicated state.
   M-FSM (Fsm/Fsm.v) over ANY deterministic machine (S, init, apply, marshal, unmarshal, exp_of) with
   - the Marshal/Unmarshal round trip (C03),
   - only a Config message that parses AND follows the revision in force (e_rev = rev_of s + 1, as applyRobustMessage
     checks since b3bad2c) changes Config.SessionExpiration; every other entry leaves it alone,
   - a fresh server's SessionExpiration is the 10 minutes FSM.Snapshot assumes for an unset copy;
   for every log with index gaps (log_ok: strictly increasing indexes >= 1) and every schedule of
   {Apply next, Snapshot t + Persist ok|fail, Restore latest, Restart} that respects raft's contract
   (schedule_ok: entries handed to Apply in log order, after Restore/restart exactly the entries after the
   snapshot; a restart finds a persisted snapshot UNLESS the tree carries fixes/D18-wipe-irclog-on-start.diff
   (fix_d18 v) — see C02_refuted_restart_without_snapshot).
   The theorems are about every variant v of the model with fix_d3 v = fix_d15 v = true, i.e. the tree REPAIRED
   by fixes/D3-snapshot-chain.diff + D15-restore-expiration.diff ([repaired], [repaired_all]);
   C02_refuted_pinned_* document the defects of the pinned tree on the executable digest machine. *)
From Coq Require Import List ZArith NArith Bool.
From RV Require Import Fsm.Fsm Fsm.FsmDriver Fsm.FsmProofs.
Import ListNotations.

(* (state) the live server equals the plain replay of the applied prefix *)
Theorem C02_state : forall (S O B : Type) (init : S) (apply : S -> entry -> S * list O)
    (marshal : S -> N -> B) (unmarshal : B -> option (S * N)) (exp_of rev_of : S -> N),
  (forall s k, unmarshal (marshal s k) = Some (s, k)) ->
  (forall s e, sets_exp (rev_of s) e = false -> exp_of (fst (apply s e)) = exp_of s) ->
  eff_exp (exp_of init) = ten_minutes ->
  forall v : variant, fix_d3 v = true -> fix_d15 v = true ->
  forall (L : list entry) (sigma : list step),
  log_ok L ->
  schedule_ok S O B init apply marshal unmarshal exp_of rev_of v L sigma (world0 S O B init) ->
  let w := run S O B init apply marshal unmarshal exp_of rev_of v L sigma (world0 S O B init) in
  server (w_fsm w) = replay S O init apply (firstn (w_applied w) L).
Proof. exact fsm_state. Qed.
Print Assumptions C02_state.

(* (output) for every index still in the node's log copy the output store serves exactly the batch of
   the plain replay; for every other index it serves nothing *)
Theorem C02_output : forall (S O B : Type) (init : S) (apply : S -> entry -> S * list O)
    (marshal : S -> N -> B) (unmarshal : B -> option (S * N)) (exp_of rev_of : S -> N),
  (forall s k, unmarshal (marshal s k) = Some (s, k)) ->
  (forall s e, sets_exp (rev_of s) e = false -> exp_of (fst (apply s e)) = exp_of s) ->
  eff_exp (exp_of init) = ten_minutes ->
  forall v : variant, fix_d3 v = true -> fix_d15 v = true ->
  forall (L : list entry) (sigma : list step),
  log_ok L ->
  schedule_ok S O B init apply marshal unmarshal exp_of rev_of v L sigma (world0 S O B init) ->
  let w := run S O B init apply marshal unmarshal exp_of rev_of v L sigma (world0 S O B init) in
  forall i : N,
    get i (outstore (w_fsm w)) =
    if existsb (N.eqb i) (keys (ircstore (w_fsm w)))
    then get i (replay_out S O init apply (firstn (w_applied w) L))
    else None.
Proof. exact fsm_output. Qed.
Print Assumptions C02_output.

(* (exactness) there is a cut [base] such that the log copy holds exactly the applied commands above it
   (unmodified), nothing unapplied lies at or below it, and the state filed under it is the replay of
   everything at or below it: nothing un-folded is dropped, nothing folded is retained *)
Theorem C02_exact : forall (S O B : Type) (init : S) (apply : S -> entry -> S * list O)
    (marshal : S -> N -> B) (unmarshal : B -> option (S * N)) (exp_of rev_of : S -> N),
  (forall s k, unmarshal (marshal s k) = Some (s, k)) ->
  (forall s e, sets_exp (rev_of s) e = false -> exp_of (fst (apply s e)) = exp_of s) ->
  eff_exp (exp_of init) = ten_minutes ->
  forall v : variant, fix_d3 v = true -> fix_d15 v = true ->
  forall (L : list entry) (sigma : list step),
  log_ok L ->
  schedule_ok S O B init apply marshal unmarshal exp_of rev_of v L sigma (world0 S O B init) ->
  let w := run S O B init apply marshal unmarshal exp_of rev_of v L sigma (world0 S O B init) in
  let pre := firstn (w_applied w) L in
  exists base : N,
    ircstore (w_fsm w) = ents_store (filter (gt_idx base) (cmds pre)) /\
    (forall e, In e (skipn (w_applied w) L) -> (base < e_idx e)%N) /\
    (base = 0%N \/
     exists b, In (base, b) (lss (w_fsm w)) /\
               unmarshal b = Some (replay S O init apply (filter (le_idx base) pre), base)).
Proof. exact fsm_exact. Qed.
Print Assumptions C02_exact.

(* (the cut is the horizon) a Snapshot at time t in any reachable state folds exactly the maximal prefix
   of stored entries whose timestamp is not after t - (SessionExpiration of the live config + 10 s),
   deletes exactly those, leaves the live server alone, and its state message is the plain replay of
   everything no longer stored *)
Theorem C02_cut : forall (S O B : Type) (init : S) (apply : S -> entry -> S * list O)
    (marshal : S -> N -> B) (unmarshal : B -> option (S * N)) (exp_of rev_of : S -> N),
  (forall s k, unmarshal (marshal s k) = Some (s, k)) ->
  (forall s e, sets_exp (rev_of s) e = false -> exp_of (fst (apply s e)) = exp_of s) ->
  eff_exp (exp_of init) = ten_minutes ->
  forall v : variant, fix_d3 v = true -> fix_d15 v = true ->
  forall (L : list entry) (sigma : list step),
  log_ok L ->
  schedule_ok S O B init apply marshal unmarshal exp_of rev_of v L sigma (world0 S O B init) ->
  let w := run S O B init apply marshal unmarshal exp_of rev_of v L sigma (world0 S O B init) in
  let pre := firstn (w_applied w) L in
  forall (t : Z) f' sn,
  fsm_snapshot S O B init apply marshal unmarshal exp_of rev_of v t (w_fsm w) = Some (f', sn) ->
  let hz := (t - (eff_exp (exp_of (replay S O init apply pre)) + expire_interval))%Z in
  exists base base' : N,
    ircstore (w_fsm w) = ents_store (filter (gt_idx base) (cmds pre)) /\
    let stored := filter (gt_idx base) (cmds pre) in
    ircstore f' = ents_store (new_suffix hz stored) /\
    (forall e, In e (old_prefix hz stored) -> (e_ts e <= hz)%Z) /\
    (forall e r, new_suffix hz stored = e :: r -> (hz < e_ts e)%Z) /\
    unmarshal (sn_state sn) =
      Some (run_state S O apply init (filter (le_idx base) (cmds pre) ++ old_prefix hz stored), base') /\
    server f' = server (w_fsm w).
Proof. exact fsm_cut. Qed.
Print Assumptions C02_cut.

(* (Persist may come later) raft calls Persist from another goroutine while it keeps handing entries to Apply:
   whatever k entries are applied in between, the persisted snapshot is the one an immediate Persist would have
   written — the state message and the retained entries firstIndex..lastIndex as captured by Snapshot() — and it is
   filed under the number of entries applied when Snapshot() ran (the schedules of the theorems above contain such
   steps: SSnapshot t k ok) *)
Theorem C02_persist_late : forall (S O B : Type) (init : S) (apply : S -> entry -> S * list O)
    (marshal : S -> N -> B) (unmarshal : B -> option (S * N)) (exp_of rev_of : S -> N),
  (forall s k, unmarshal (marshal s k) = Some (s, k)) ->
  (forall s e, sets_exp (rev_of s) e = false -> exp_of (fst (apply s e)) = exp_of s) ->
  eff_exp (exp_of init) = ten_minutes ->
  forall v : variant, fix_d3 v = true -> fix_d15 v = true ->
  forall (L : list entry) (sigma : list step),
  log_ok L ->
  schedule_ok S O B init apply marshal unmarshal exp_of rev_of v L sigma (world0 S O B init) ->
  let w := run S O B init apply marshal unmarshal exp_of rev_of v L sigma (world0 S O B init) in
  forall (t : Z) (k : nat) f' sn,
  fsm_snapshot S O B init apply marshal unmarshal exp_of rev_of v t (w_fsm w) = Some (f', sn) ->
  persist S O B (w_fsm (apply_n S O B apply exp_of rev_of L k (mkWorld S O B f' (w_applied w) (w_persisted w)))) sn (w_applied w) =
  persist S O B f' sn (w_applied w).
Proof. exact fsm_persist_late. Qed.
Print Assumptions C02_persist_late.

(* ---- the pinned tree (before the fixes) violates the property: witnesses on the digest machine ---- *)
(* D3: a Snapshot that folds every stored entry files the state under the wrong key *)
Theorem C02_refuted_pinned : exists L sigma, log_ok L /\ d_valid pinned L sigma /\
  server (w_fsm (d_run pinned L sigma)) <> d_replay (firstn (w_applied (d_run pinned L sigma)) L).
Proof. exact refuted_pinned_d3. Qed.
Print Assumptions C02_refuted_pinned.

(* D15: after restart + Restore the FSM's horizon is the 10-minute default, not the restored config's *)
Theorem C02_refuted_pinned_horizon : exists L sigma t e r f' sn, log_ok L /\ d_valid pinned L sigma /\
  let w := d_run pinned L sigma in
  ircstore (w_fsm w) = (e_idx e, e) :: r /\
  (t - (eff_exp (d_exp_of (server (w_fsm w))) + expire_interval) < e_ts e)%Z /\
  fsm_snapshot dS dO dB d_init d_apply d_marshal d_unmarshal d_exp_of d_rev_of pinned t (w_fsm w) = Some (f', sn) /\
  ircstore f' = [].
Proof. exact refuted_pinned_d15. Qed.
Print Assumptions C02_refuted_pinned_horizon.

(* D15b: folding an old Config message into the temporary server overwrites the FSM's expiration copy *)
Theorem C02_refuted_pinned_fold : exists L sigma, log_ok L /\ d_valid pinned L sigma /\
  let w := d_run pinned L sigma in
  eff_exp (expdur (w_fsm w)) <> eff_exp (d_exp_of (server (w_fsm w))).
Proof. exact refuted_pinned_d15b. Qed.
Print Assumptions C02_refuted_pinned_fold.

(* D18 (open, also on the repaired tree): without the hypothesis "a restart finds a persisted snapshot"
   the statement is false: the irclog LevelDB survives the restart, raft replays from index 1, and a
   Snapshot taken before the replay has caught up folds entries the live server has not applied *)
Theorem C02_refuted_restart_without_snapshot : exists L sigma, log_ok L /\ d_valid_raft repaired L sigma /\
  server (w_fsm (d_run repaired L sigma)) <> d_replay (firstn (w_applied (d_run repaired L sigma)) L).
Proof. exact refuted_restart_without_snapshot. Qed.
Print Assumptions C02_refuted_restart_without_snapshot.
