//go:build verif

package ircserver

// C17 — lookups while a snapshot is being loaded (FSM.Restore hands the fresh IRCServer to the HTTP
// handlers BEFORE calling Unmarshal): a session that is part of the snapshot must be reported as
// "not yet seen" (before) or found (after), never as "no such session".  In the model `reload` is one
// atomic step; this driver checks that the implementation's restore is atomic for lookups.
// Injected into internal/ircserver by `go test -overlay`; never part of /repo.
//
// Output ($VERIF_OUT): one line  "lookup rounds=<n> sessions=<n> ok=<n> notyet=<n> nosuch=<n> first=<round:id|->"

import (
	"fmt"
	"os"
	"strconv"
	"sync"
	"sync/atomic"
	"testing"
	"time"

	"github.com/robustirc/robustirc/internal/robust"
)

func TestVerifRestoreLookup(t *testing.T) {
	rounds, _ := strconv.Atoi(os.Getenv("VERIF_ROUNDS"))
	if rounds == 0 {
		rounds = 20
	}
	nsess, _ := strconv.Atoi(os.Getenv("VERIF_SESSIONS"))
	if nsess == 0 {
		nsess = 3000
	}
	ts := time.Unix(1700000000, 0)
	donor := NewIRCServer("verif.net", ts)
	for id := uint64(1); id <= uint64(nsess); id++ {
		if err := donor.CreateSession(robust.Id{Id: id}, fmt.Sprintf("%032x", id), ts); err != nil {
			t.Fatalf("CreateSession(%d): %v", id, err)
		}
	}
	donor.SetLastProcessed(robust.Id{Id: uint64(nsess)})
	data, err := donor.Marshal(uint64(nsess))
	if err != nil {
		t.Fatal(err)
	}
	probes := []uint64{1, 2, uint64(nsess) / 3, uint64(nsess) / 2, uint64(nsess) - 1, uint64(nsess)}
	var ok, notyet, nosuch int64
	first := "-"
	var firstMu sync.Mutex
	for round := 0; round < rounds; round++ {
		fresh := NewIRCServer("verif.net", ts)
		var stop int32
		var wg sync.WaitGroup
		for g := 0; g < 3; g++ {
			wg.Add(1)
			go func(g int) {
				defer wg.Done()
				for atomic.LoadInt32(&stop) == 0 {
					for _, id := range probes {
						var err error
						if g == 0 {
							_, err = fresh.GetSession(robust.Id{Id: id})
						} else {
							_, err = fresh.GetAuth(robust.Id{Id: id})
						}
						switch err {
						case nil:
							atomic.AddInt64(&ok, 1)
						case ErrSessionNotYetSeen:
							atomic.AddInt64(&notyet, 1)
						case ErrNoSuchSession:
							if atomic.AddInt64(&nosuch, 1) == 1 {
								firstMu.Lock()
								first = fmt.Sprintf("%d:%d", round, id)
								firstMu.Unlock()
							}
						}
					}
				}
			}(g)
		}
		time.Sleep(200 * time.Microsecond)
		if _, err := fresh.Unmarshal(data); err != nil {
			t.Fatal(err)
		}
		time.Sleep(200 * time.Microsecond)
		atomic.StoreInt32(&stop, 1)
		wg.Wait()
		for _, id := range probes {
			if _, err := fresh.GetSession(robust.Id{Id: id}); err != nil {
				t.Fatalf("after the restore session %d is not found: %v", id, err)
			}
		}
	}
	line := fmt.Sprintf("lookup rounds=%d sessions=%d ok=%d notyet=%d nosuch=%d first=%s\n", rounds, nsess, ok, notyet, nosuch, first)
	if p := os.Getenv("VERIF_OUT"); p != "" {
		os.WriteFile(p, []byte(line), 0o644)
	}
	t.Log(line)
}
