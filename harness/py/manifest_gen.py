#!/usr/bin/env python3
# regenerates /verif/MANIFEST.json from the table below (kept valid at all times)
import json, os
BASELINE = json.load(open("/root/.vp/BASELINE.json"))["cmd"]

CLAIMED = {
 "C19": dict(
   technique="Coq proof (lia over Z) of the physical soundness of the drift bound + differential correspondence of the model with synchronizedWithNetwork + source scan of main()",
   text="Theorems C19_sound/refuse/refuse_only_with_reason/ignore_silent/disabled over the Gallina model of worstCaseDrift/timeInSync/synchronizedWithNetwork, for every threshold, every number of peers, all offsets and delays (no bound); the model is tied to the code by running both on the same synthesised measurements on every run and by a scan of main() for the constant and the call order.",
   note="Trusted: Coq kernel; the correspondence driver; the regex scan of robustirc.go; the physical assumption that the peer read its clock between Start and End. Modelled not verified: time.Time arithmetic (Z ns), health.GetServerStatus network I/O.",
   ref="DESIGN.md §4 C19"),
}
PENDING_REASON = "not claimed yet: model/proof for this property is still being built in this round (see DESIGN.md §8 build order); no check is registered until it is sound"

def main():
    props = [json.loads(l)["id"] for l in open("/verif/properties.jsonl")]
    checks, na = [], []
    for p in props:
        if p in CLAIMED:
            c = CLAIMED[p]
            checks.append({
                "property_id": p,
                "quick_cmd": "bin/check %s --tier quick" % p,
                "thorough_cmd": "bin/check %s --tier thorough" % p,
                "evidence_file": "/verif/evidence/%s.json" % p,
                "replay_cmd_template": "bin/check %s --replay {path}" % p,
                "engine": "coq-proof+correspondence",
                "level_claimed": {"category": "proof", "text": c["text"], "design_ref": c["ref"]},
                "level_note": c["note"],
                "technique": c["technique"],
            })
        else:
            na.append({"property_id": p, "reason": CLAIMED.get(p, {}).get("na", PENDING_REASON)})
    m = {
        "version": 1,
        "setup_cmd": "bin/setup",
        "hooks": {
            "guard": "verif",
            "enable": "go test -tags verif -vet=off -overlay <json mapping /repo/<pkg>/zz_verif_*_test.go to /verif/harness/go/...>: harness files are injected at build time, nothing is committed to /repo",
            "baseline_off_cmd": BASELINE,
            "source_commits": [],
            "add_only": True,
        },
        "engines": [{"name": "coq-proof+correspondence", "path": "/verif/bin/check",
                     "serves_properties": sorted(CLAIMED.keys()),
                     "kind_free_text": "Coq 8.16 theorems over hand-written Gallina models; models tied to /repo by differential runs (extracted OCaml + vm_compute vs. overlay-injected Go drivers) and source-derived obligations"}],
        "checks": checks,
        "not_applicable": na,
        "notes": "All checks rebuild from /repo's working tree. known_findings.txt lists open/fixed findings.",
    }
    json.dump(m, open("/verif/MANIFEST.json", "w"), indent=1)

if __name__ == "__main__":
    main()
