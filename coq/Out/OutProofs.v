(* Out/OutProofs.v — proofs about M-OUT (OutSeq.v, OutConc.v): the linked-list/cache invariant,
   the lookup lemma (nextUnlocked = successor in the sorted keyspace) and the C08 theorems over
   the small-step semantics, for any number of threads and any schedule of their sections. *)
From Coq Require Import NArith List String Lia.
From stdpp Require Import gmap.
From RV Require Import Out.OutSeq Out.OutConc.
Import ListNotations.
Local Open Scope N_scope.

(* ================================================================================== *)
(** * 1. Ordered access: specifications of the iterator functions *)

Lemma list_first_ge_spec x l :
  (forall k e, list_first_ge x l = Some (k, e) ->
     (k, e) ∈ l /\ x <= k /\ forall k' e', (k', e') ∈ l -> x <= k' -> k <= k') /\
  (list_first_ge x l = None -> forall k' e', (k', e') ∈ l -> k' < x).
Proof.
  induction l as [|[k0 e0] r [IHs IHn]]; simpl.
  - split; [discriminate|]. intros _ k' e' Hin. inversion Hin.
  - destruct (x <=? k0) eqn:Hx; [apply N.leb_le in Hx | apply N.leb_gt in Hx].
    + destruct (list_first_ge x r) as [[k1 e1]|] eqn:Hr.
      * destruct (IHs k1 e1 eq_refl) as (Hin1 & Hx1 & Hmin1).
        split; [|destruct (k0 <=? k1); discriminate].
        intros k e. destruct (k0 <=? k1) eqn:Hk; [apply N.leb_le in Hk | apply N.leb_gt in Hk];
          intros [= <- <-].
        -- split; [left|]. split; [exact Hx|].
           intros k' e' Hin Hxk'. apply elem_of_cons in Hin as [[= -> ->]|Hin]; [lia|].
           specialize (Hmin1 _ _ Hin Hxk'). lia.
        -- split; [right; exact Hin1|]. split; [exact Hx1|].
           intros k' e' Hin Hxk'. apply elem_of_cons in Hin as [[= -> ->]|Hin]; [lia|].
           exact (Hmin1 _ _ Hin Hxk').
      * split; [|discriminate]. intros k e [= <- <-].
        split; [left|]. split; [exact Hx|].
        intros k' e' Hin Hxk'. apply elem_of_cons in Hin as [[= -> ->]|Hin]; [lia|].
        specialize (IHn eq_refl _ _ Hin). lia.
    + split.
      * intros k e Hr. destruct (IHs k e Hr) as (Hin1 & Hx1 & Hmin1).
        split; [right; exact Hin1|]. split; [exact Hx1|].
        intros k' e' Hin Hxk'. apply elem_of_cons in Hin as [[= -> ->]|Hin]; [lia|].
        exact (Hmin1 _ _ Hin Hxk').
      * intros Hr k' e' Hin. apply elem_of_cons in Hin as [[= -> ->]|Hin]; [lia|].
        exact (IHn Hr _ _ Hin).
Qed.

Definition is_below (b : option N) (k : N) : Prop :=
  match b with Some b' => k < b' | None => True end.
Lemma below_spec b k : below b k = true <-> is_below b k.
Proof. destruct b; simpl; [apply N.ltb_lt|tauto]. Qed.

Lemma list_last_below_spec b l :
  (forall k e, list_last_below b l = Some (k, e) ->
     (k, e) ∈ l /\ is_below b k /\ forall k' e', (k', e') ∈ l -> is_below b k' -> k' <= k) /\
  (list_last_below b l = None -> forall k' e', (k', e') ∈ l -> ~ is_below b k').
Proof.
  induction l as [|[k0 e0] r [IHs IHn]]; simpl.
  - split; [discriminate|]. intros _ k' e' Hin. inversion Hin.
  - destruct (below b k0) eqn:Hx.
    + apply below_spec in Hx.
      destruct (list_last_below b r) as [[k1 e1]|] eqn:Hr.
      * destruct (IHs k1 e1 eq_refl) as (Hin1 & Hx1 & Hmax1).
        split; [|destruct (k1 <=? k0); discriminate].
        intros k e. destruct (k1 <=? k0) eqn:Hk; [apply N.leb_le in Hk | apply N.leb_gt in Hk];
          intros [= <- <-].
        -- split; [left|]. split; [exact Hx|].
           intros k' e' Hin Hxk'. apply elem_of_cons in Hin as [[= -> ->]|Hin]; [lia|].
           specialize (Hmax1 _ _ Hin Hxk'). lia.
        -- split; [right; exact Hin1|]. split; [exact Hx1|].
           intros k' e' Hin Hxk'. apply elem_of_cons in Hin as [[= -> ->]|Hin]; [lia|].
           exact (Hmax1 _ _ Hin Hxk').
      * split; [|discriminate]. intros k e [= <- <-].
        split; [left|]. split; [exact Hx|].
        intros k' e' Hin Hxk'. apply elem_of_cons in Hin as [[= -> ->]|Hin]; [lia|].
        exfalso. exact (IHn eq_refl _ _ Hin Hxk').
    + assert (Hnb : ~ is_below b k0) by (rewrite <- below_spec, Hx; discriminate).
      split.
      * intros k e Hr. destruct (IHs k e Hr) as (Hin1 & Hx1 & Hmax1).
        split; [right; exact Hin1|]. split; [exact Hx1|].
        intros k' e' Hin Hxk'. apply elem_of_cons in Hin as [[= -> ->]|Hin]; [tauto|].
        exact (Hmax1 _ _ Hin Hxk').
      * intros Hr k' e' Hin. apply elem_of_cons in Hin as [[= -> ->]|Hin]; [exact Hnb|].
        exact (IHn Hr _ _ Hin).
Qed.

Lemma first_ge_Some m x k e :
  first_ge m x = Some (k, e) ->
  m !! k = Some e /\ x <= k /\ forall k' e', m !! k' = Some e' -> x <= k' -> k <= k'.
Proof.
  unfold first_ge. intros H.
  destruct (proj1 (list_first_ge_spec x (map_to_list m)) k e H) as (Hin & Hx & Hmin).
  split; [apply elem_of_map_to_list; exact Hin|]. split; [exact Hx|].
  intros k' e' Hk'. apply (Hmin k' e'). apply elem_of_map_to_list. exact Hk'.
Qed.
Lemma first_ge_None m x k' e' : first_ge m x = None -> m !! k' = Some e' -> k' < x.
Proof.
  unfold first_ge. intros H Hk'.
  apply (proj2 (list_first_ge_spec x (map_to_list m)) H k' e'). apply elem_of_map_to_list. exact Hk'.
Qed.
Lemma last_key_Some m k e :
  last_key m = Some (k, e) -> m !! k = Some e /\ forall k' e', m !! k' = Some e' -> k' <= k.
Proof.
  unfold last_key. intros H.
  destruct (proj1 (list_last_below_spec None (map_to_list m)) k e H) as (Hin & _ & Hmax).
  split; [apply elem_of_map_to_list; exact Hin|].
  intros k' e' Hk'. apply (Hmax k' e'); [apply elem_of_map_to_list; exact Hk'|exact I].
Qed.
Lemma last_key_None m k' e' : last_key m = None -> m !! k' = Some e' -> False.
Proof.
  unfold last_key. intros H Hk'.
  apply (proj2 (list_last_below_spec None (map_to_list m)) H k' e'); [|exact I].
  apply elem_of_map_to_list. exact Hk'.
Qed.
Lemma prev_key_Some m b k e :
  prev_key m b = Some (k, e) ->
  m !! k = Some e /\ k < b /\ forall k' e', m !! k' = Some e' -> k' < b -> k' <= k.
Proof.
  unfold prev_key. intros H.
  destruct (proj1 (list_last_below_spec (Some b) (map_to_list m)) k e H) as (Hin & Hb & Hmax).
  split; [apply elem_of_map_to_list; exact Hin|]. split; [exact Hb|].
  intros k' e' Hk' Hlt. apply (Hmax k' e'); [apply elem_of_map_to_list; exact Hk'|exact Hlt].
Qed.
Lemma prev_key_None m b k' e' : prev_key m b = None -> m !! k' = Some e' -> ~ k' < b.
Proof.
  unfold prev_key. intros H Hk'.
  apply (proj2 (list_last_below_spec (Some b) (map_to_list m)) H k' e').
  apply elem_of_map_to_list. exact Hk'.
Qed.

(* ================================================================================== *)
(** * 2. Declarative successor and the state invariant *)

(* over the abstract contents: id -> messages *)
Definition is_successor (C : gmap N batch) (x k : N) (b : batch) : Prop :=
  C !! k = Some b /\ x < k /\ forall k', is_Some (C !! k') -> x < k' -> k <= k'.
Definition no_successor (C : gmap N batch) (x : N) : Prop :=
  forall k', is_Some (C !! k') -> k' <= x.

Definition msgs_of (m : gmap N entry) : gmap N batch := e_msgs <$> m.

Lemma msgs_of_lookup m k : msgs_of m !! k = e_msgs <$> (m !! k).
Proof. unfold msgs_of. apply lookup_fmap. Qed.
Lemma msgs_of_is_Some m k : is_Some (msgs_of m !! k) <-> is_Some (m !! k).
Proof. rewrite msgs_of_lookup. apply fmap_is_Some. Qed.

Lemma is_successor_unique C x k1 b1 k2 b2 :
  is_successor C x k1 b1 -> is_successor C x k2 b2 -> k1 = k2 /\ b1 = b2.
Proof.
  intros (H1 & Hx1 & Hm1) (H2 & Hx2 & Hm2).
  assert (k1 = k2) as ->.
  { specialize (Hm1 k2 (ex_intro _ _ H2) Hx2). specialize (Hm2 k1 (ex_intro _ _ H1) Hx1). lia. }
  split; [reflexivity|congruence].
Qed.
Lemma successor_excludes_none C x k b : is_successor C x k b -> no_successor C x -> False.
Proof. intros (H & Hx & _) Hn. specialize (Hn k (ex_intro _ _ H)). lia. Qed.

Lemma range_search_spec o x :
  match range_search o x with
  | Some (k, b) => is_successor (msgs_of (db o)) x k b
  | None => no_successor (msgs_of (db o)) x
  end.
Proof.
  unfold range_search. destruct (first_ge (db o) (x + 1)) as [[k e]|] eqn:Hf.
  - apply first_ge_Some in Hf as (Hk & Hx & Hmin). split; [|split].
    + rewrite msgs_of_lookup, Hk. reflexivity.
    + lia.
    + intros k' Hs Hlt. apply msgs_of_is_Some in Hs as [e' He']. apply (Hmin k' e' He'). lia.
  - intros k' Hs. apply msgs_of_is_Some in Hs as [e' He'].
    pose proof (first_ge_None _ _ _ _ Hf He'). lia.
Qed.

Record Inv (o : state) : Prop := {
  inv_tail : db o !! tail_id o = Some (Entry (tail_msgs o) MAXID);
  inv_max : forall k e, db o !! k = Some e -> k <= tail_id o;
  inv_next_le : forall k e, db o !! k = Some e -> e_next e <= MAXID;
  inv_nomax : forall k e, db o !! k = Some e -> e_next e = MAXID -> k = tail_id o;
  inv_link : forall k e, db o !! k = Some e -> e_next e < MAXID ->
             k < e_next e /\ e_next e <= tail_id o /\ forall j, k < j -> j < e_next e -> db o !! j = None;
  inv_cache : forall k c, cache o !! k = Some c ->
             exists e, db o !! k = Some e /\ e_msgs c = e_msgs e /\
               (e_next c = e_next e \/
                (k = tail_id o /\ db o !! e_next c = None /\ k < e_next c /\ e_next c < MAXID)) }.

Lemma init_inv : Inv init.
Proof.
  split; simpl.
  - apply lookup_singleton.
  - intros k e H. apply lookup_singleton_Some in H as [<- _]. lia.
  - intros k e H. apply lookup_singleton_Some in H as [_ <-]. simpl. lia.
  - intros k e H _. apply lookup_singleton_Some in H as [<- _]. reflexivity.
  - intros k e H Hlt. apply lookup_singleton_Some in H as [_ <-]. simpl in Hlt. lia.
  - intros k c H. rewrite lookup_empty in H. discriminate.
Qed.

(* ---- getUnlocked ---- *)
Lemma get_unlocked_db o k : db (snd (get_unlocked o k)) = db o.
Proof. unfold get_unlocked. destruct (cache o !! k); [reflexivity|]. destruct (db o !! k); reflexivity. Qed.
Lemma get_unlocked_tail o k :
  tail_id (snd (get_unlocked o k)) = tail_id o /\ tail_msgs (snd (get_unlocked o k)) = tail_msgs o.
Proof. unfold get_unlocked. destruct (cache o !! k); [tauto|]. destruct (db o !! k); simpl; tauto. Qed.

Lemma set_cache_inv o c :
  Inv o ->
  (forall k e', c !! k = Some e' -> cache o !! k = Some e' \/ db o !! k = Some e') ->
  Inv (set_cache o c).
Proof.
  intros [H1 H2 H3 H4 H5 H6] Hc. split; simpl; try assumption.
  intros k e' Hk. destruct (Hc k e' Hk) as [Hold|Hdb].
  - exact (H6 k e' Hold).
  - exists e'. split; [exact Hdb|]. split; [reflexivity|]. left. reflexivity.
Qed.

Lemma get_unlocked_inv o k : Inv o -> Inv (snd (get_unlocked o k)).
Proof.
  intros HI. unfold get_unlocked. destruct (cache o !! k) eqn:Hc; [exact HI|].
  destruct (db o !! k) eqn:Hd; [|exact HI]. simpl.
  apply set_cache_inv; [exact HI|].
  intros k' e' Hk'. destruct (decide (k' = k)) as [->|Hne].
  - rewrite lookup_insert in Hk'. right. congruence.
  - rewrite lookup_insert_ne in Hk' by congruence. left. exact Hk'.
Qed.

Lemma evict_inv o k : Inv o -> Inv (evict o k).
Proof.
  intros HI. unfold evict. apply set_cache_inv; [exact HI|].
  intros k' e' Hk'. left. apply lookup_delete_Some in Hk' as [_ Hk']. exact Hk'.
Qed.

(* what getUnlocked answers, in terms of the LevelDB contents *)
Lemma get_unlocked_res o k :
  Inv o ->
  match fst (get_unlocked o k) with
  | Some c => exists e, db o !! k = Some e /\ e_msgs c = e_msgs e /\
               (e_next c = e_next e \/
                (k = tail_id o /\ db o !! e_next c = None /\ k < e_next c /\ e_next c < MAXID))
  | None => db o !! k = None
  end.
Proof.
  intros HI. unfold get_unlocked. destruct (cache o !! k) eqn:Hc; simpl.
  - exact (inv_cache o HI k e Hc).
  - destruct (db o !! k) eqn:Hd; simpl; [|reflexivity].
    exists e. split; [reflexivity|]. split; [reflexivity|]. left. reflexivity.
Qed.

Lemma get_spec_seq o x : Inv o -> fst (get o x) = msgs_of (db o) !! x.
Proof.
  intros HI. unfold get. pose proof (get_unlocked_res o x HI) as Hr.
  destruct (get_unlocked o x) as [r o']. simpl in *. rewrite msgs_of_lookup.
  destruct r as [c|].
  - destruct Hr as (e & -> & Hm & _). simpl. rewrite Hm. reflexivity.
  - rewrite Hr. reflexivity.
Qed.
Lemma get_inv o x : Inv o -> Inv (snd (get o x)).
Proof.
  intros HI. unfold get. pose proof (get_unlocked_inv o x HI) as H.
  destruct (get_unlocked o x) as [r o']. exact H.
Qed.
Lemma get_db o x : db (snd (get o x)) = db o.
Proof.
  unfold get. pose proof (get_unlocked_db o x) as H.
  destruct (get_unlocked o x) as [r o']. exact H.
Qed.

(* ---- nextUnlocked = successor ---- *)
Lemma next_unlocked_frame o x :
  Inv o -> Inv (snd (next_unlocked o x)) /\ db (snd (next_unlocked o x)) = db o.
Proof.
  intros HI. unfold next_unlocked.
  pose proof (get_unlocked_inv o x HI) as HI1. pose proof (get_unlocked_db o x) as Hd1.
  destruct (get_unlocked o x) as [cur o1]. simpl in HI1, Hd1.
  destruct cur as [e|]; [|simpl; tauto].
  destruct (e_next e <? MAXID); [|simpl; tauto].
  pose proof (get_unlocked_inv o1 (e_next e) HI1) as HI2. pose proof (get_unlocked_db o1 (e_next e)) as Hd2.
  destruct (get_unlocked o1 (e_next e)) as [nx o2]. simpl in HI2, Hd2.
  destruct nx; simpl; split; try assumption; congruence.
Qed.

Lemma next_unlocked_spec o x :
  Inv o ->
  match fst (next_unlocked o x) with
  | Some (k, b) => is_successor (msgs_of (db o)) x k b
  | None => no_successor (msgs_of (db o)) x
  end.
Proof.
  intros HI. unfold next_unlocked.
  pose proof (get_unlocked_res o x HI) as Hr1.
  pose proof (get_unlocked_inv o x HI) as HI1. pose proof (get_unlocked_db o x) as Hd1.
  pose proof (get_unlocked_tail o x) as [Ht1 _].
  destruct (get_unlocked o x) as [cur o1]. simpl in Hr1, HI1, Hd1, Ht1.
  destruct cur as [c|].
  - destruct Hr1 as (e & Hdbx & Hmsgs & Hnext).
    destruct (e_next c <? MAXID) eqn:Hlt; [apply N.ltb_lt in Hlt | apply N.ltb_ge in Hlt].
    + pose proof (get_unlocked_res o1 (e_next c) HI1) as Hr2.
      pose proof (get_unlocked_db o1 (e_next c)) as Hd2.
      destruct (get_unlocked o1 (e_next c)) as [nx o2]. simpl in Hr2, Hd2.
      destruct nx as [c'|].
      * (* linked successor present *)
        simpl. destruct Hr2 as (e' & Hdbn & Hmsgs' & _). rewrite Hd1 in Hdbn.
        destruct Hnext as [Heq|(_ & Hnone & _)]; [|congruence].
        rewrite Heq in Hlt, Hdbn.
        destruct (inv_link o HI x e Hdbx Hlt) as (Hxn & _ & Hgap).
        split; [|split].
        -- rewrite msgs_of_lookup, Heq, Hdbn. simpl. congruence.
        -- rewrite Heq. exact Hxn.
        -- rewrite Heq. intros k' Hs Hxk'. apply msgs_of_is_Some in Hs as [e'' He''].
           destruct (N.lt_ge_cases k' (e_next e)) as [Hlt'|Hge]; [|exact Hge].
           rewrite (Hgap k' Hxk' Hlt') in He''. discriminate.
      * (* NextID points to a deleted message *)
        simpl. pose proof (range_search_spec o2 x) as Hrs. rewrite Hd2, Hd1 in Hrs. exact Hrs.
    + (* x is the most recent message *)
      simpl. assert (Hxt : x = tail_id o).
      { destruct Hnext as [Heq|(_ & _ & _ & Hlt')]; [|lia].
        apply (inv_nomax o HI x e Hdbx). pose proof (inv_next_le o HI x e Hdbx). lia. }
      intros k' Hs. apply msgs_of_is_Some in Hs as [e' He']. subst x. exact (inv_max o HI k' e' He').
  - simpl. pose proof (range_search_spec o1 x) as Hrs. rewrite Hd1 in Hrs. exact Hrs.
Qed.

(* ---- Add ---- *)
Lemma add_ok o id msgs :
  Inv o -> msgs <> [] -> id < MAXID -> (forall k e, db o !! k = Some e -> k < id) ->
  exists o', add o id msgs = Ok o' /\ Inv o' /\
             msgs_of (db o') = <[id := msgs]> (msgs_of (db o)).
Proof.
  intros HI Hne Hid Hnew. unfold add. destruct msgs as [|m0 mr]; [congruence|].
  set (msgs := m0 :: mr). eexists. split; [reflexivity|].
  pose proof (inv_tail o HI) as Htail.
  assert (Htid : tail_id o < id) by exact (Hnew _ _ Htail).
  assert (Hfresh : db o !! id = None).
  { destruct (db o !! id) eqn:H; [|reflexivity]. specialize (Hnew _ _ H). lia. }
  split.
  - split; simpl.
    + apply lookup_insert.
    + intros k e Hk. destruct (decide (k = id)) as [->|Hne1]; [lia|].
      rewrite lookup_insert_ne in Hk by congruence.
      destruct (decide (k = tail_id o)) as [->|Hne2]; [lia|].
      rewrite lookup_insert_ne in Hk by congruence. specialize (Hnew _ _ Hk). lia.
    + intros k e Hk. destruct (decide (k = id)) as [->|Hne1].
      { rewrite lookup_insert in Hk. injection Hk as <-. simpl. lia. }
      rewrite lookup_insert_ne in Hk by congruence.
      destruct (decide (k = tail_id o)) as [->|Hne2].
      { rewrite lookup_insert in Hk. injection Hk as <-. simpl. lia. }
      rewrite lookup_insert_ne in Hk by congruence. exact (inv_next_le o HI k e Hk).
    + intros k e Hk Hmax. destruct (decide (k = id)) as [->|Hne1]; [reflexivity|].
      rewrite lookup_insert_ne in Hk by congruence.
      destruct (decide (k = tail_id o)) as [->|Hne2].
      { rewrite lookup_insert in Hk. injection Hk as <-. simpl in Hmax. lia. }
      rewrite lookup_insert_ne in Hk by congruence.
      pose proof (inv_nomax o HI k e Hk Hmax). congruence.
    + intros k e Hk Hlt. destruct (decide (k = id)) as [->|Hne1].
      { rewrite lookup_insert in Hk. injection Hk as <-. simpl in Hlt. lia. }
      rewrite lookup_insert_ne in Hk by congruence.
      destruct (decide (k = tail_id o)) as [->|Hne2].
      { rewrite lookup_insert in Hk. injection Hk as <-. simpl.
        split; [exact Htid|]. split; [lia|].
        intros j Hj1 Hj2. rewrite lookup_insert_ne by lia. rewrite lookup_insert_ne by lia.
        destruct (db o !! j) eqn:Hdj; [|reflexivity].
        pose proof (inv_max o HI j _ Hdj). lia. }
      rewrite lookup_insert_ne in Hk by congruence.
      destruct (inv_link o HI k e Hk Hlt) as (Hkn & Hnt & Hgap).
      split; [exact Hkn|]. split; [lia|].
      intros j Hj1 Hj2. rewrite lookup_insert_ne by lia. rewrite lookup_insert_ne by lia.
      exact (Hgap j Hj1 Hj2).
    + intros k c Hk. apply lookup_delete_Some in Hk as [Hne2 Hk].
      destruct (inv_cache o HI k c Hk) as (e & Hdk & Hm & Hn).
      assert (Hne1 : k <> id) by (intros ->; congruence).
      exists e. split; [rewrite lookup_insert_ne by congruence; rewrite lookup_insert_ne by congruence; exact Hdk|].
      split; [exact Hm|]. left. destruct Hn as [Hn|(Hkt & _)]; [exact Hn|congruence].
  - simpl. unfold msgs_of. rewrite !fmap_insert. simpl.
    apply map_eq. intros k. destruct (decide (k = id)) as [->|Hne1].
    { rewrite !lookup_insert. reflexivity. }
    rewrite !(lookup_insert_ne _ id) by congruence.
    destruct (decide (k = tail_id o)) as [->|Hne2].
    { rewrite lookup_insert, lookup_fmap, Htail. reflexivity. }
    rewrite lookup_insert_ne by congruence. reflexivity.
Qed.

Lemma add_panic_only_empty o id msgs s : add o id msgs = Panic s -> msgs = [].
Proof. unfold add. destruct msgs; [reflexivity|discriminate]. Qed.

(* ---- Delete ---- *)
Lemma delete_inv o x o' :
  Inv o -> delete_op o x = Ok o' ->
  Inv o' /\ msgs_of (db o') = delete x (msgs_of (db o)).
Proof.
  intros HI. unfold delete_op.
  destruct (x =? tail_id o) eqn:Hx; [apply N.eqb_eq in Hx | apply N.eqb_neq in Hx].
  - destruct (last_key (db o)) as [[l el]|] eqn:Hl; [|discriminate].
    destruct (prev_key (db o) l) as [[p e]|] eqn:Hp; [|discriminate].
    intros [= <-].
    apply last_key_Some in Hl as (Hdl & Hlmax).
    assert (l = tail_id o) as ->.
    { pose proof (inv_max o HI l el Hdl). pose proof (Hlmax _ _ (inv_tail o HI)). lia. }
    apply prev_key_Some in Hp as (Hdp & Hpl & Hpmax). subst x.
    split.
    + split; simpl.
      * rewrite lookup_delete_ne by lia. apply lookup_insert.
      * intros k e0 Hk. apply lookup_delete_Some in Hk as [Hne Hk].
        destruct (decide (k = p)) as [->|Hnp]; [lia|].
        rewrite lookup_insert_ne in Hk by congruence.
        apply (Hpmax k e0 Hk). pose proof (inv_max o HI k e0 Hk). lia.
      * intros k e0 Hk. apply lookup_delete_Some in Hk as [Hne Hk].
        destruct (decide (k = p)) as [->|Hnp].
        { rewrite lookup_insert in Hk. injection Hk as <-. simpl. lia. }
        rewrite lookup_insert_ne in Hk by congruence. exact (inv_next_le o HI k e0 Hk).
      * intros k e0 Hk Hmax. apply lookup_delete_Some in Hk as [Hne Hk].
        destruct (decide (k = p)) as [->|Hnp]; [reflexivity|].
        rewrite lookup_insert_ne in Hk by congruence.
        pose proof (inv_nomax o HI k e0 Hk Hmax). congruence.
      * intros k e0 Hk Hlt. apply lookup_delete_Some in Hk as [Hne Hk].
        destruct (decide (k = p)) as [->|Hnp].
        { rewrite lookup_insert in Hk. injection Hk as <-. simpl in Hlt. lia. }
        rewrite lookup_insert_ne in Hk by congruence.
        destruct (inv_link o HI k e0 Hk Hlt) as (Hkn & Hnt & Hgap).
        assert (Hkp : k <= p). { apply (Hpmax k e0 Hk). pose proof (inv_max o HI k e0 Hk). lia. }
        assert (Hnp' : e_next e0 <= p).
        { destruct (N.le_gt_cases (e_next e0) p) as [H|H]; [exact H|].
          assert (k < p) by lia. rewrite (Hgap p) in Hdp by lia. discriminate. }
        split; [exact Hkn|]. split; [exact Hnp'|].
        intros j Hj1 Hj2. rewrite lookup_delete_ne by lia.
        rewrite lookup_insert_ne by lia. exact (Hgap j Hj1 Hj2).
      * intros k c Hk. apply lookup_delete_Some in Hk as [Hne Hk].
        destruct (inv_cache o HI k c Hk) as (e0 & Hdk & Hm & Hn).
        destruct (decide (k = p)) as [->|Hnp].
        -- exists (Entry (e_msgs e) MAXID).
           split; [rewrite lookup_delete_ne by congruence; apply lookup_insert|].
           assert (e0 = e) as -> by congruence.
           split; [exact Hm|]. right. split; [reflexivity|].
           destruct Hn as [Hn|(Hkt & _)]; [|lia].
           assert (Hlt : e_next e < MAXID).
           { pose proof (inv_next_le o HI p e Hdp). destruct (N.eq_dec (e_next e) MAXID) as [Heq|]; [|lia].
             pose proof (inv_nomax o HI p e Hdp Heq). lia. }
           destruct (inv_link o HI p e Hdp Hlt) as (Hpn & Hnt & Hgap).
           rewrite Hn. split; [|split; [exact Hpn|exact Hlt]].
           destruct (decide (e_next e = tail_id o)) as [->|Hnt'].
           { apply lookup_delete. }
           rewrite lookup_delete_ne by congruence. rewrite lookup_insert_ne by lia.
           destruct (db o !! e_next e) eqn:Hdn; [|reflexivity].
           pose proof (Hpmax _ _ Hdn). lia.
        -- exists e0. split; [rewrite lookup_delete_ne by congruence; rewrite lookup_insert_ne by congruence; exact Hdk|].
           split; [exact Hm|]. left. destruct Hn as [Hn|(Hkt & _)]; [exact Hn|congruence].
    + simpl. unfold msgs_of. rewrite fmap_delete, fmap_insert. simpl.
      apply map_eq. intros k. destruct (decide (k = tail_id o)) as [->|Hne].
      { rewrite !lookup_delete. reflexivity. }
      rewrite !lookup_delete_ne by congruence.
      destruct (decide (k = p)) as [->|Hnp].
      { rewrite lookup_insert, lookup_fmap, Hdp. reflexivity. }
      rewrite lookup_insert_ne by congruence. reflexivity.
  - intros [= <-]. split.
    + split; simpl.
      * rewrite lookup_delete_ne by congruence. exact (inv_tail o HI).
      * intros k e Hk. apply lookup_delete_Some in Hk as [_ Hk]. exact (inv_max o HI k e Hk).
      * intros k e Hk. apply lookup_delete_Some in Hk as [_ Hk]. exact (inv_next_le o HI k e Hk).
      * intros k e Hk. apply lookup_delete_Some in Hk as [_ Hk]. exact (inv_nomax o HI k e Hk).
      * intros k e Hk Hlt. apply lookup_delete_Some in Hk as [_ Hk].
        destruct (inv_link o HI k e Hk Hlt) as (Hkn & Hnt & Hgap).
        split; [exact Hkn|]. split; [exact Hnt|].
        intros j Hj1 Hj2. apply lookup_delete_None. right. exact (Hgap j Hj1 Hj2).
      * intros k c Hk. apply lookup_delete_Some in Hk as [Hne Hk].
        destruct (inv_cache o HI k c Hk) as (e & Hdk & Hm & Hn).
        exists e. split; [rewrite lookup_delete_ne by congruence; exact Hdk|]. split; [exact Hm|].
        destruct Hn as [Hn|(Hkt & Hnone & Hlt1 & Hlt2)]; [left; exact Hn|right].
        split; [exact Hkt|]. split; [|tauto]. apply lookup_delete_None. right. exact Hnone.
    + simpl. unfold msgs_of. apply fmap_delete.
Qed.

Lemma delete_ok o x :
  Inv o -> (exists k, k <> x /\ is_Some (db o !! k)) -> exists o', delete_op o x = Ok o'.
Proof.
  intros HI (k & Hkx & [e He]). unfold delete_op.
  destruct (x =? tail_id o) eqn:Hx; [apply N.eqb_eq in Hx | eexists; reflexivity].
  destruct (last_key (db o)) as [[l el]|] eqn:Hl.
  2:{ exfalso. exact (last_key_None _ _ _ Hl He). }
  apply last_key_Some in Hl as (Hdl & Hlmax).
  assert (l = tail_id o) as ->.
  { pose proof (inv_max o HI l el Hdl). pose proof (Hlmax _ _ (inv_tail o HI)). lia. }
  destruct (prev_key (db o) (tail_id o)) as [[p e']|] eqn:Hp; [eexists; reflexivity|].
  exfalso. apply (prev_key_None _ _ _ _ Hp He). pose proof (inv_max o HI k e He). lia.
Qed.

(* ================================================================================== *)
(** * 3. The small-step semantics: executions under the schedule discipline *)

(* what the stream holds according to the operations performed, nothing else *)
Definition contents_step (C : gmap N batch) (l : label) : gmap N batch :=
  match l with
  | LAdd id m => <[id := m]> C
  | LDelete x => delete x C
  | _ => C
  end.
Definition contents0 : gmap N batch := {[ 0 := sentinel ]}.
Definition contents (ls : list label) : gmap N batch := fold_left contents_step ls contents0.

Lemma contents_snoc ls l : contents (ls ++ [l]) = contents_step (contents ls) l.
Proof. unfold contents. rewrite fold_left_app. reflexivity. Qed.

(* the schedule discipline: Add with a non-empty batch and an id above everything stored (and
   below MaxUint64, which means "no successor"); Delete in ANY order, of existing or
   non-existing ids, as long as it does not remove the last remaining batch.  This contains the
   discipline of the property (oldest-first while readers are active, any order otherwise,
   non-existing ids; the sentinel 0 is never deleted) — see [property_discipline_ok]. *)
Definition ok_label (C : gmap N batch) (l : label) : Prop :=
  match l with
  | LAdd id m => m <> [] /\ id < MAXID /\ forall k, is_Some (C !! k) -> k < id
  | LDelete x => exists k, k <> x /\ is_Some (C !! k)
  | _ => True
  end.

(* Close: afterwards the LevelDB handle is closed.  Only GetNext (reader sections, new readers),
   cancellation, InterruptGetNext, Close itself and cache eviction are inside the discipline on a
   closed stream (FSM.Restore swaps the new stream in before it closes the old one, so Add and
   Delete never reach a closed stream; Get panics on it on a cache miss). *)
Definition is_close (l : label) : bool := match l with LClose => true | _ => false end.
Definition is_closed (ls : list label) : bool := existsb is_close ls.
Definition ok_after_close (l : label) : Prop :=
  match l with
  | LAdd _ _ | LDelete _ | LGet _ => False
  | _ => True
  end.

Lemma is_closed_snoc ls l : is_closed (ls ++ [l]) = is_closed ls || is_close l.
Proof. unfold is_closed. rewrite existsb_app. simpl. rewrite orb_false_r. reflexivity. Qed.

Inductive exec : list label -> cres -> Prop :=
| exec_nil : exec [] (Running cinit)
| exec_snoc ls c l r :
    exec ls (Running c) -> ok_label (contents ls) l -> (is_closed ls = true -> ok_after_close l) ->
    cstep c l = Some r -> exec (ls ++ [l]) r.

Record CInv (ls : list label) (c : cstate) : Prop := {
  ci_inv : Inv (c_out c);
  ci_abs : msgs_of (db (c_out c)) = contents ls;
  ci_wait : forall t th, c_threads c !! t = Some th -> t_st th = TWait ->
            no_successor (contents ls) (t_x th);
  ci_empty : forall t th, c_threads c !! t = Some th -> t_st th = TDone None ->
             t_cancelled th = true \/ c_closed c = true;
  ci_closed : c_closed c = is_closed ls;
  ci_nowait : c_closed c = true -> forall t th, c_threads c !! t = Some th -> t_st th <> TWait }.

Lemma wake_st th : t_st (wake th) <> TWait.
Proof. unfold wake. destruct (t_st th) eqn:H; simpl; congruence. Qed.
Lemma wake_x th : t_x (wake th) = t_x th.
Proof. unfold wake. destruct (t_st th); reflexivity. Qed.
Lemma wake_cancelled th : t_cancelled (wake th) = t_cancelled th.
Proof. unfold wake. destruct (t_st th); reflexivity. Qed.
Lemma wake_done th r : t_st (wake th) = TDone r -> t_st th = TDone r.
Proof. unfold wake. destruct (t_st th) eqn:H; simpl; congruence. Qed.
Lemma wake_done' th r : t_st th = TDone r -> wake th = th.
Proof. unfold wake. intros ->. reflexivity. Qed.

Lemma broadcast_lookup ts t th' :
  broadcast ts !! t = Some th' -> exists th, ts !! t = Some th /\ th' = wake th.
Proof.
  unfold broadcast. rewrite lookup_fmap. destruct (ts !! t) as [th|]; simpl; [|discriminate].
  intros [= <-]. eauto.
Qed.

Lemma no_successor_delete C x y : no_successor C y -> no_successor (delete x C) y.
Proof.
  intros H k' Hs. apply H. destruct Hs as [v Hv]. apply lookup_delete_Some in Hv as [_ Hv]. eauto.
Qed.

Lemma reader_step_closed o th :
  (t_st th = TStart \/ t_st th = TLoop) ->
  reader_step true o th = Some (o, Thread (t_x th) (TDone None) (t_cancelled th)).
Proof. unfold reader_step. intros [->| ->]; reflexivity. Qed.

Lemma reader_step_cases cl o th o' th' :
  Inv o -> reader_step cl o th = Some (o', th') ->
  Inv o' /\ db o' = db o /\ t_x th' = t_x th /\ (t_st th = TStart \/ t_st th = TLoop) /\
  match t_st th' with
  | TDone (Some (k, b)) => cl = false /\ is_successor (msgs_of (db o)) (t_x th) k b /\ t_cancelled th' = t_cancelled th
  | TDone None => cl = true \/
                  (no_successor (msgs_of (db o)) (t_x th) /\ t_st th = TLoop /\
                   t_cancelled th = true /\ t_cancelled th' = true)
  | TWait => cl = false /\ no_successor (msgs_of (db o)) (t_x th) /\ t_st th = TLoop /\ t_cancelled th = false
  | TLoop => cl = false /\ no_successor (msgs_of (db o)) (t_x th) /\ t_st th = TStart /\ t_cancelled th' = t_cancelled th
  | TStart => False
  end.
Proof.
  intros HI. destruct cl.
  - unfold reader_step. destruct (t_st th) eqn:Hst; try discriminate; intros [= <- <-]; simpl; tauto.
  - unfold reader_step.
    pose proof (next_unlocked_frame o (t_x th) HI) as [HI' Hdb].
    pose proof (next_unlocked_spec o (t_x th) HI) as Hspec.
    destruct (t_st th) eqn:Hst; try discriminate;
      destruct (next_unlocked o (t_x th)) as [r o1]; simpl in *;
      destruct r as [[k b]|].
    + intros [= <- <-]. simpl. tauto.
    + intros [= <- <-]. simpl. tauto.
    + intros [= <- <-]. simpl. tauto.
    + destruct (t_cancelled th) eqn:Hc; intros [= <- <-]; simpl; tauto.
Qed.

Lemma CInv_snoc ls l c :
  Inv (c_out c) ->
  msgs_of (db (c_out c)) = contents_step (contents ls) l ->
  (forall t th, c_threads c !! t = Some th -> t_st th = TWait ->
     no_successor (contents_step (contents ls) l) (t_x th)) ->
  (forall t th, c_threads c !! t = Some th -> t_st th = TDone None ->
     t_cancelled th = true \/ c_closed c = true) ->
  c_closed c = is_closed ls || is_close l ->
  (c_closed c = true -> forall t th, c_threads c !! t = Some th -> t_st th <> TWait) ->
  CInv (ls ++ [l]) c.
Proof. intros H1 H2 H3 H4 H5 H6. split; rewrite ?contents_snoc, ?is_closed_snoc; assumption. Qed.

Lemma exec_inv ls r : exec ls r -> exists c, r = Running c /\ CInv ls c.
Proof.
  induction 1 as [|ls c l r Hex IH Hok Hafter Hstep].
  - exists cinit. split; [reflexivity|]. split; simpl.
    + exact init_inv.
    + unfold msgs_of, contents, contents0. simpl. apply map_fmap_singleton.
    + intros t th H. rewrite lookup_empty in H. discriminate.
    + intros t th H. rewrite lookup_empty in H. discriminate.
    + reflexivity.
    + discriminate.
  - destruct IH as (c0 & [= <-] & [HI Habs Hwait Hempty Hcl Hnw]).
    assert (Hnw' : forall th0 : thread, c_closed c = true -> t_st (wake th0) <> TWait)
      by (intros th0 _; apply wake_st).
    destruct l as [id m|x|x|t x|t|t| |k|]; simpl in Hstep, Hok |- *.
    + (* Add *)
      destruct (c_closed c) eqn:Hc; [discriminate|].
      destruct Hok as (Hne & Hid & Hnew).
      destruct (add_ok (c_out c) id m HI Hne Hid) as (o' & Hadd & HI' & Habs').
      { intros k e Hk. apply Hnew. rewrite <- Habs. apply msgs_of_is_Some. eauto. }
      rewrite Hadd in Hstep. injection Hstep as <-. eexists. split; [reflexivity|].
      apply CInv_snoc; simpl.
      * exact HI'.
      * rewrite Habs', Habs. reflexivity.
      * intros t th Ht Hst. apply broadcast_lookup in Ht as (th0 & _ & ->).
        exfalso. exact (wake_st th0 Hst).
      * intros t th Ht Hst. apply broadcast_lookup in Ht as (th0 & Ht0 & ->).
        rewrite wake_cancelled. destruct (Hempty t th0 Ht0 (wake_done _ _ Hst)) as [H|H]; [left; exact H|discriminate].
      * rewrite <- Hcl. reflexivity.
      * discriminate.
    + (* Delete *)
      destruct (c_closed c) eqn:Hc; [discriminate|].
      destruct (delete_ok (c_out c) x HI) as (o' & Hdel).
      { destruct Hok as (k & Hkx & Hs). exists k. split; [exact Hkx|].
        apply msgs_of_is_Some. rewrite Habs. exact Hs. }
      rewrite Hdel in Hstep. injection Hstep as <-.
      destruct (delete_inv _ _ _ HI Hdel) as [HI' Habs'].
      eexists. split; [reflexivity|]. apply CInv_snoc; simpl.
      * exact HI'.
      * rewrite Habs', Habs. reflexivity.
      * intros t th Ht Hst. apply no_successor_delete. exact (Hwait t th Ht Hst).
      * intros t th Ht Hst. destruct (Hempty t th Ht Hst) as [H|H]; [left; exact H|discriminate].
      * rewrite <- Hcl. reflexivity.
      * discriminate.
    + (* Get *)
      destruct (c_closed c) eqn:Hc; [discriminate|].
      injection Hstep as <-. eexists. split; [reflexivity|]. apply CInv_snoc; simpl.
      * apply get_inv. exact HI.
      * rewrite get_db. exact Habs.
      * exact Hwait.
      * intros t th Ht Hst. destruct (Hempty t th Ht Hst) as [H|H]; [left; exact H|discriminate].
      * rewrite <- Hcl. reflexivity.
      * discriminate.
    + (* Spawn *)
      destruct (c_threads c !! t) eqn:Ht; [discriminate|]. injection Hstep as <-.
      eexists. split; [reflexivity|]. apply CInv_snoc; simpl; try assumption.
      * intros t' th Ht' Hst. destruct (decide (t' = t)) as [->|Hne].
        { rewrite lookup_insert in Ht'. injection Ht' as <-. discriminate. }
        rewrite lookup_insert_ne in Ht' by congruence. exact (Hwait t' th Ht' Hst).
      * intros t' th Ht' Hst. destruct (decide (t' = t)) as [->|Hne].
        { rewrite lookup_insert in Ht'. injection Ht' as <-. discriminate. }
        rewrite lookup_insert_ne in Ht' by congruence. exact (Hempty t' th Ht' Hst).
      * rewrite orb_false_r. exact Hcl.
      * intros Hc t' th Ht'. destruct (decide (t' = t)) as [->|Hne].
        { rewrite lookup_insert in Ht'. injection Ht' as <-. discriminate. }
        rewrite lookup_insert_ne in Ht' by congruence. exact (Hnw Hc t' th Ht').
    + (* Reader *)
      destruct (c_threads c !! t) as [th|] eqn:Ht; [|discriminate].
      destruct (reader_step (c_closed c) (c_out c) th) as [[o' th']|] eqn:Hrs; [|discriminate].
      injection Hstep as <-.
      destruct (reader_step_cases _ _ _ _ _ HI Hrs) as (HI' & Hdb & Hx & _ & Hcase).
      eexists. split; [reflexivity|]. apply CInv_snoc; simpl.
      * exact HI'.
      * rewrite Hdb. exact Habs.
      * intros t' th0 Ht' Hst. destruct (decide (t' = t)) as [->|Hne].
        { rewrite lookup_insert in Ht'. injection Ht' as <-. rewrite Hst in Hcase.
          rewrite Hx, <- Habs. tauto. }
        rewrite lookup_insert_ne in Ht' by congruence. exact (Hwait t' th0 Ht' Hst).
      * intros t' th0 Ht' Hst. destruct (decide (t' = t)) as [->|Hne].
        { rewrite lookup_insert in Ht'. injection Ht' as <-. rewrite Hst in Hcase. tauto. }
        rewrite lookup_insert_ne in Ht' by congruence. exact (Hempty t' th0 Ht' Hst).
      * rewrite orb_false_r. exact Hcl.
      * intros Hc t' th0 Ht'. destruct (decide (t' = t)) as [->|Hne].
        { rewrite lookup_insert in Ht'. injection Ht' as <-. intros Hst. rewrite Hst in Hcase.
          destruct Hcase as [Hf _]. congruence. }
        rewrite lookup_insert_ne in Ht' by congruence. exact (Hnw Hc t' th0 Ht').
    + (* Cancel *)
      destruct (c_threads c !! t) as [th|] eqn:Ht; [|discriminate]. injection Hstep as <-.
      eexists. split; [reflexivity|]. apply CInv_snoc; simpl; try assumption.
      * intros t' th0 Ht' Hst. destruct (decide (t' = t)) as [->|Hne].
        { rewrite lookup_insert in Ht'. injection Ht' as <-. simpl in *. exact (Hwait t th Ht Hst). }
        rewrite lookup_insert_ne in Ht' by congruence. exact (Hwait t' th0 Ht' Hst).
      * intros t' th0 Ht' Hst. destruct (decide (t' = t)) as [->|Hne].
        { rewrite lookup_insert in Ht'. injection Ht' as <-. left. reflexivity. }
        rewrite lookup_insert_ne in Ht' by congruence. exact (Hempty t' th0 Ht' Hst).
      * rewrite orb_false_r. exact Hcl.
      * intros Hc t' th0 Ht'. destruct (decide (t' = t)) as [->|Hne].
        { rewrite lookup_insert in Ht'. injection Ht' as <-. simpl. exact (Hnw Hc t th Ht). }
        rewrite lookup_insert_ne in Ht' by congruence. exact (Hnw Hc t' th0 Ht').
    + (* Interrupt *)
      injection Hstep as <-. eexists. split; [reflexivity|]. apply CInv_snoc; simpl; try assumption.
      * intros t th Ht Hst. apply broadcast_lookup in Ht as (th0 & _ & ->).
        exfalso. exact (wake_st th0 Hst).
      * intros t th Ht Hst. apply broadcast_lookup in Ht as (th0 & Ht0 & ->).
        rewrite wake_cancelled. apply (Hempty t th0 Ht0). exact (wake_done _ _ Hst).
      * rewrite orb_false_r. exact Hcl.
      * intros _ t th Ht. apply broadcast_lookup in Ht as (th0 & _ & ->). apply wake_st.
    + (* Evict *)
      injection Hstep as <-. eexists. split; [reflexivity|]. apply CInv_snoc; simpl; try assumption.
      * apply evict_inv. exact HI.
      * rewrite orb_false_r. exact Hcl.
    + (* Close *)
      injection Hstep as <-. eexists. split; [reflexivity|]. apply CInv_snoc; simpl; try assumption.
      * intros t th Ht Hst. apply broadcast_lookup in Ht as (th0 & _ & ->).
        exfalso. exact (wake_st th0 Hst).
      * intros t th Ht Hst. right. reflexivity.
      * rewrite orb_true_r. reflexivity.
      * intros _ t th Ht. apply broadcast_lookup in Ht as (th0 & _ & ->). apply wake_st.
Qed.

(* ================================================================================== *)
(** * 4. The C08 theorems *)

(* Get returns exactly what was added under the id, for as long as it has not been deleted *)
Theorem get_spec ls c x :
  exec ls (Running c) -> fst (get (c_out c) x) = contents ls !! x.
Proof.
  intros Hex. destruct (exec_inv _ _ Hex) as (c0 & [= <-] & [HI Habs _ _]).
  rewrite get_spec_seq by exact HI. rewrite Habs. reflexivity.
Qed.

(* no operation panics under the discipline (the repaired GetNext has no panic site left; the
   panic sites of Add and Delete are unreachable) *)
Theorem no_panic ls r : exec ls r -> exists c, r = Running c.
Proof. intros Hex. destruct (exec_inv _ _ Hex) as (c & -> & _). eauto. Qed.

(* a GetNext that returned (k, b) returned the batch with the smallest id greater than x that
   existed at an instant at which the call was in progress *)
Theorem getnext_safe ls c t th k b :
  exec ls (Running c) ->
  c_threads c !! t = Some th -> t_st th = TDone (Some (k, b)) ->
  exists ls1 ls2 c1 th1,
    ls = ls1 ++ ls2 /\ exec ls1 (Running c1) /\
    c_threads c1 !! t = Some th1 /\ t_x th1 = t_x th /\ (t_st th1 = TStart \/ t_st th1 = TLoop) /\
    is_successor (contents ls1) (t_x th) k b.
Proof.
  intros Hex. remember (Running c) as r eqn:Hr. revert c th Hr.
  induction Hex as [|ls c0 l r Hex IH Hok Hafter Hstep]; intros c th Hr Ht Hst.
  - injection Hr as <-. simpl in Ht. rewrite lookup_empty in Ht. discriminate.
  - subst r. destruct (exec_inv _ _ Hex) as (c0' & [= <-] & [HI Habs _ _ _ _]).
    assert (Hold : forall th0, c_threads c0 !! t = Some th0 -> t_st th0 = TDone (Some (k, b)) ->
                   t_x th0 = t_x th ->
                   exists ls1 ls2 c1 th1, ls ++ [l] = ls1 ++ ls2 /\ exec ls1 (Running c1) /\
                     c_threads c1 !! t = Some th1 /\ t_x th1 = t_x th /\
                     (t_st th1 = TStart \/ t_st th1 = TLoop) /\ is_successor (contents ls1) (t_x th) k b).
    { intros th0 Ht0 Hst0 Hx0.
      destruct (IH c0 th0 eq_refl Ht0 Hst0) as (ls1 & ls2 & c1 & th1 & -> & Hex1 & Ht1 & Hx1 & Hs1 & Hsucc).
      exists ls1, (ls2 ++ [l]), c1, th1. rewrite app_assoc. rewrite <- Hx0.
      split; [reflexivity|]. split; [exact Hex1|]. split; [exact Ht1|]. split; [exact Hx1|].
      split; [exact Hs1|exact Hsucc]. }
    destruct l as [id m|x|x|t' x|t'|t'| |k'|]; simpl in Hstep.
    + destruct (c_closed c0); [discriminate|].
      destruct (add (c_out c0) id m); [|discriminate]. injection Hstep as <-. simpl in Ht.
      apply broadcast_lookup in Ht as (th0 & Ht0 & ->).
      apply (Hold th0 Ht0 (wake_done _ _ Hst)). symmetry. apply wake_x.
    + destruct (c_closed c0); [discriminate|].
      destruct (delete_op (c_out c0) x); [|discriminate]. injection Hstep as <-. simpl in Ht.
      exact (Hold th Ht Hst eq_refl).
    + destruct (c_closed c0); [discriminate|].
      injection Hstep as <-. simpl in Ht. exact (Hold th Ht Hst eq_refl).
    + destruct (c_threads c0 !! t') eqn:Ht'; [discriminate|]. injection Hstep as <-. simpl in Ht.
      destruct (decide (t = t')) as [->|Hne].
      { rewrite lookup_insert in Ht. injection Ht as <-. discriminate. }
      rewrite lookup_insert_ne in Ht by congruence. exact (Hold th Ht Hst eq_refl).
    + destruct (c_threads c0 !! t') as [th0|] eqn:Ht'; [|discriminate].
      destruct (reader_step (c_closed c0) (c_out c0) th0) as [[o' th']|] eqn:Hrs; [|discriminate].
      injection Hstep as <-. simpl in Ht.
      destruct (decide (t = t')) as [->|Hne].
      * rewrite lookup_insert in Ht. injection Ht as ->.
        destruct (reader_step_cases _ _ _ _ _ HI Hrs) as (_ & _ & Hx & Hs0 & Hcase).
        rewrite Hst in Hcase. destruct Hcase as (_ & Hsucc & _).
        exists ls, [LReader t'], c0, th0.
        split; [reflexivity|]. split; [exact Hex|]. split; [exact Ht'|]. split; [congruence|].
        split; [exact Hs0|]. rewrite <- Habs, Hx. exact Hsucc.
      * rewrite lookup_insert_ne in Ht by congruence. exact (Hold th Ht Hst eq_refl).
    + destruct (c_threads c0 !! t') as [th0|] eqn:Ht'; [|discriminate]. injection Hstep as <-. simpl in Ht.
      destruct (decide (t = t')) as [->|Hne].
      * rewrite lookup_insert in Ht. injection Ht as <-. simpl in *.
        exact (Hold th0 Ht' Hst eq_refl).
      * rewrite lookup_insert_ne in Ht by congruence. exact (Hold th Ht Hst eq_refl).
    + injection Hstep as <-. simpl in Ht.
      apply broadcast_lookup in Ht as (th0 & Ht0 & ->).
      apply (Hold th0 Ht0 (wake_done _ _ Hst)). symmetry. apply wake_x.
    + injection Hstep as <-. simpl in Ht. exact (Hold th Ht Hst eq_refl).
    + injection Hstep as <-. simpl in Ht.
      apply broadcast_lookup in Ht as (th0 & Ht0 & ->).
      apply (Hold th0 Ht0 (wake_done _ _ Hst)). symmetry. apply wake_x.
Qed.

(* no lost wake-up: a reader suspended in Cond.Wait without a pending wake-up has no successor *)
Theorem no_lost_wakeup ls c t th :
  exec ls (Running c) -> c_threads c !! t = Some th -> t_st th = TWait ->
  no_successor (contents ls) (t_x th).
Proof.
  intros Hex. destruct (exec_inv _ _ Hex) as (c0 & [= <-] & [_ _ Hwait _ _ _]). apply Hwait.
Qed.

(* the stream is closed exactly when Close was among the operations *)
Theorem closed_iff_close_happened ls c :
  exec ls (Running c) -> c_closed c = is_closed ls.
Proof. intros Hex. destruct (exec_inv _ _ Hex) as (c0 & [= <-] & [_ _ _ _ Hcl _]). exact Hcl. Qed.

(* ... hence a reader whose successor exists is runnable, and (on a stream that has not been
   closed) its next section returns it *)
Theorem reader_returns_successor ls c t th k b :
  exec ls (Running c) -> is_closed ls = false ->
  c_threads c !! t = Some th -> (forall r, t_st th <> TDone r) ->
  is_successor (contents ls) (t_x th) k b ->
  exists c', cstep c (LReader t) = Some (Running c') /\
             c_threads c' !! t = Some (Thread (t_x th) (TDone (Some (k, b))) (t_cancelled th)).
Proof.
  intros Hex Hopen Ht Hnd Hsucc. destruct (exec_inv _ _ Hex) as (c0 & [= <-] & [HI Habs Hwait _ Hcl _]).
  rewrite Hopen in Hcl. simpl. rewrite Ht, Hcl.
  pose proof (next_unlocked_spec (c_out c) (t_x th) HI) as Hspec. rewrite Habs in Hspec.
  assert (Hr : fst (next_unlocked (c_out c) (t_x th)) = Some (k, b)).
  { destruct (fst (next_unlocked (c_out c) (t_x th))) as [[k' b']|].
    - destruct (is_successor_unique _ _ _ _ _ _ Hspec Hsucc) as [-> ->]. reflexivity.
    - exfalso. exact (successor_excludes_none _ _ _ _ Hsucc Hspec). }
  unfold reader_step. destruct (t_st th) eqn:Hst.
  - destruct (next_unlocked (c_out c) (t_x th)) as [r o']. simpl in Hr. subst r.
    eexists. split; [reflexivity|]. simpl. apply lookup_insert.
  - destruct (next_unlocked (c_out c) (t_x th)) as [r o']. simpl in Hr. subst r.
    eexists. split; [reflexivity|]. simpl. apply lookup_insert.
  - exfalso. exact (successor_excludes_none _ _ _ _ Hsucc (Hwait t th Ht Hst)).
  - exfalso. exact (Hnd r eq_refl).
Qed.

(* every Broadcast (Add, InterruptGetNext, Close) makes every suspended reader runnable *)
Theorem broadcast_wakes_all c l c' t th :
  (l = LInterrupt \/ l = LClose \/ exists id m, l = LAdd id m) ->
  cstep c l = Some (Running c') -> c_threads c' !! t = Some th -> t_st th <> TWait.
Proof.
  intros [->|[->|(id & m & ->)]]; simpl.
  - intros [= <-] Ht. simpl in Ht. apply broadcast_lookup in Ht as (th0 & _ & ->). apply wake_st.
  - intros [= <-] Ht. simpl in Ht. apply broadcast_lookup in Ht as (th0 & _ & ->). apply wake_st.
  - destruct (c_closed c); [discriminate|].
    destruct (add (c_out c) id m); [|discriminate]. intros [= <-] Ht. simpl in Ht.
    apply broadcast_lookup in Ht as (th0 & _ & ->). apply wake_st.
Qed.

(* cancellation: a woken reader whose context is cancelled and who has no successor returns the
   empty slice; and the empty slice is only ever returned to a cancelled caller or on a closed stream *)
Theorem cancel_returns_empty ls c t th :
  exec ls (Running c) -> c_threads c !! t = Some th -> t_st th = TLoop -> t_cancelled th = true ->
  no_successor (contents ls) (t_x th) ->
  exists c', cstep c (LReader t) = Some (Running c') /\
             c_threads c' !! t = Some (Thread (t_x th) (TDone None) true).
Proof.
  intros Hex Ht Hst Hc Hnone. destruct (exec_inv _ _ Hex) as (c0 & [= <-] & [HI Habs _ _ _ _]).
  simpl. rewrite Ht.
  pose proof (next_unlocked_spec (c_out c) (t_x th) HI) as Hspec. rewrite Habs in Hspec.
  unfold reader_step. rewrite Hst. destruct (c_closed c).
  { rewrite Hc. eexists. split; [reflexivity|]. simpl. apply lookup_insert. }
  destruct (next_unlocked (c_out c) (t_x th)) as [r o']. simpl in Hspec.
  destruct r as [[k b]|].
  - exfalso. exact (successor_excludes_none _ _ _ _ Hspec Hnone).
  - rewrite Hc. eexists. split; [reflexivity|]. simpl. apply lookup_insert.
Qed.

Theorem empty_only_if_cancelled_or_closed ls c t th :
  exec ls (Running c) -> c_threads c !! t = Some th -> t_st th = TDone None ->
  t_cancelled th = true \/ is_closed ls = true.
Proof.
  intros Hex Ht Hst. destruct (exec_inv _ _ Hex) as (c0 & [= <-] & [_ _ _ Hempty Hcl _]).
  rewrite <- Hcl. exact (Hempty t th Ht Hst).
Qed.

(* Close wakes every reader and no GetNext blocks on a closed stream: after Close no reader is
   suspended, and the next section of every reader that is running - whether it was parked when
   Close happened or was started afterwards - returns the empty slice *)
Theorem close_wakes_readers ls c t th :
  exec ls (Running c) -> is_closed ls = true -> c_threads c !! t = Some th ->
  t_st th <> TWait /\
  ((t_st th = TStart \/ t_st th = TLoop) ->
   exists c', cstep c (LReader t) = Some (Running c') /\
              c_threads c' !! t = Some (Thread (t_x th) (TDone None) (t_cancelled th)) /\
              c_closed c' = true).
Proof.
  intros Hex Hclosed Ht. destruct (exec_inv _ _ Hex) as (c0 & [= <-] & [_ _ _ _ Hcl Hnw]).
  rewrite Hclosed in Hcl. split; [exact (Hnw Hcl t th Ht)|].
  intros Hst. simpl. rewrite Ht, Hcl, (reader_step_closed _ _ Hst).
  eexists. split; [reflexivity|]. simpl. split; [apply lookup_insert|reflexivity].
Qed.

(* a closed stream stays closed *)
Theorem closed_is_stable ls l : is_closed ls = true -> is_closed (ls ++ [l]) = true.
Proof. intros H. rewrite is_closed_snoc, H. reflexivity. Qed.

(* executions without Close are exactly the executions of the semantics before Close existed:
   the side condition on closed streams is vacuous for them *)
Theorem no_close_discipline ls l :
  is_closed ls = false -> (is_closed ls = true -> ok_after_close l).
Proof. intros H H'. congruence. Qed.

(* the discipline named in the property (ids increasing; Delete of anything but the sentinel,
   in any order — in particular oldest-first — including non-existing ids) is an instance *)
Definition property_discipline (C : gmap N batch) (l : label) : Prop :=
  match l with
  | LAdd id m => m <> [] /\ id < MAXID /\ forall k, is_Some (C !! k) -> k < id
  | LDelete x => x <> 0
  | _ => True
  end.

Lemma contents_sentinel ls :
  (forall l, In l ls -> l <> LDelete 0) -> is_Some (contents ls !! 0).
Proof.
  induction ls as [|l ls IH] using rev_ind; intros H.
  - unfold contents, contents0. simpl. rewrite lookup_singleton. eauto.
  - rewrite contents_snoc. assert (IH' : is_Some (contents ls !! 0)).
    { apply IH. intros l' Hin. apply H. apply in_or_app. left. exact Hin. }
    assert (Hl : l <> LDelete 0) by (apply H; apply in_or_app; right; left; reflexivity).
    destruct l as [id m|x| | | | | | |]; simpl; try exact IH'.
    + destruct (decide (id = 0)) as [->|Hne]; [rewrite lookup_insert; eauto|].
      rewrite lookup_insert_ne by congruence. exact IH'.
    + assert (x <> 0) by congruence. rewrite lookup_delete_ne by congruence. exact IH'.
Qed.

Theorem property_discipline_ok ls l :
  (forall l', In l' ls -> l' <> LDelete 0) ->
  property_discipline (contents ls) l -> ok_label (contents ls) l.
Proof.
  intros Hs. destruct l; simpl; try tauto.
  intros Hx. exists 0. split; [congruence|]. apply contents_sentinel. exact Hs.
Qed.

(* ================================================================================== *)
(** * 5. Non-vacuity: the hypotheses of the theorems are met by concrete executions *)

Definition ok_labelb (C : gmap N batch) (l : label) : bool :=
  match l with
  | LAdd id m => negb (match m with [] => true | _ => false end) && (id <? MAXID)
                 && forallb (fun kv => fst kv <? id) (map_to_list C)
  | LDelete x => existsb (fun kv => negb (fst kv =? x)) (map_to_list C)
  | _ => true
  end.

Lemma ok_labelb_sound C l : ok_labelb C l = true -> ok_label C l.
Proof.
  destruct l as [id m|x| | | | | | |]; simpl; try tauto.
  - rewrite !andb_true_iff. intros [[Hm Hid] Hall]. split; [|split].
    + destruct m; [discriminate|congruence].
    + apply N.ltb_lt. exact Hid.
    + intros k [v Hv]. rewrite forallb_forall in Hall.
      specialize (Hall (k, v)). simpl in Hall. apply N.ltb_lt. apply Hall.
      apply elem_of_list_In. apply elem_of_map_to_list. exact Hv.
  - rewrite existsb_exists. intros [[k v] [Hin Hne]]. simpl in Hne.
    exists k. split.
    + apply negb_true_iff in Hne. apply N.eqb_neq in Hne. exact Hne.
    + exists v. apply elem_of_map_to_list. apply elem_of_list_In. exact Hin.
Qed.

Definition ok_after_closeb (l : label) : bool :=
  match l with LAdd _ _ | LDelete _ | LGet _ => false | _ => true end.
Lemma ok_after_closeb_sound l : ok_after_closeb l = true -> ok_after_close l.
Proof. destruct l; simpl; (discriminate || tauto). Qed.

Fixpoint run_from (done : list label) (c : cstate) (todo : list label) : option cstate :=
  match todo with
  | [] => Some c
  | l :: r =>
      if ok_labelb (contents done) l && (negb (is_closed done) || ok_after_closeb l) then
        match cstep c l with
        | Some (Running c') => run_from (done ++ [l]) c' r
        | _ => None
        end
      else None
  end.

Lemma run_from_exec todo : forall done c c',
  exec done (Running c) -> run_from done c todo = Some c' -> exec (done ++ todo) (Running c').
Proof.
  induction todo as [|l r IH]; intros done c c' Hex; simpl.
  - intros [= <-]. rewrite app_nil_r. exact Hex.
  - destruct (ok_labelb (contents done) l) eqn:Hok; [|discriminate].
    destruct (negb (is_closed done) || ok_after_closeb l) eqn:Hac; [|discriminate]. simpl.
    destruct (cstep c l) as [[c1|s]|] eqn:Hstep; try discriminate.
    intros Hrun. replace (done ++ l :: r) with ((done ++ [l]) ++ r) by (rewrite <- app_assoc; reflexivity).
    apply (IH _ c1); [|exact Hrun].
    apply (exec_snoc done c l); [exact Hex|apply ok_labelb_sound; exact Hok| |exact Hstep].
    intros Hcl. rewrite Hcl in Hac. simpl in Hac. apply ok_after_closeb_sound. exact Hac.
Qed.

Definition ex_b5 : batch := [Msg 1 "a" [1]].
Definition ex_b6 : batch := [Msg 1 "b" [1]; Msg 2 "c" [2]].

(* the scenario of defect D5: a reader waits behind batch 5, compaction deletes 5, 6 is added *)
Definition ex_trace : list label :=
  [LAdd 5 ex_b5; LSpawn 1 5; LReader 1; LReader 1; LDelete 5; LAdd 6 ex_b6; LReader 1].

Lemma run_from_init_exec todo c : run_from [] cinit todo = Some c -> exec todo (Running c).
Proof. intros H. exact (run_from_exec todo [] cinit c exec_nil H). Qed.

Definition thread_view (c : cstate) (t : nat) : option (N * tst * bool) :=
  (fun th => (t_x th, t_st th, t_cancelled th)) <$> (c_threads c !! t).

Example getnext_safe_premises_met :
  exists c th, exec ex_trace (Running c) /\ c_threads c !! 1%nat = Some th /\
               t_st th = TDone (Some (6, ex_b6)) /\ t_x th = 5.
Proof.
  assert (Hp : (fun c => thread_view c 1) <$> run_from [] cinit ex_trace
               = Some (Some (5, TDone (Some (6, ex_b6)), false))) by (vm_compute; reflexivity).
  destruct (run_from [] cinit ex_trace) as [c|] eqn:Hrun; [|discriminate Hp].
  simpl in Hp. injection Hp as Hp. unfold thread_view in Hp.
  destruct (c_threads c !! 1%nat) as [th|] eqn:Ht; [|discriminate Hp]. simpl in Hp. injection Hp as H1 H2 H3.
  exists c, th. split; [exact (run_from_init_exec _ _ Hrun)|]. repeat split; assumption.
Qed.

(* a parked reader (no successor), then cancelled and woken by InterruptGetNext *)
Definition ex_trace_wait : list label := [LAdd 5 ex_b5; LSpawn 1 7; LReader 1; LReader 1].
Example no_lost_wakeup_premises_met :
  exists c th, exec ex_trace_wait (Running c) /\ c_threads c !! 1%nat = Some th /\ t_st th = TWait.
Proof.
  assert (Hp : (fun c => thread_view c 1) <$> run_from [] cinit ex_trace_wait
               = Some (Some (7, TWait, false))) by (vm_compute; reflexivity).
  destruct (run_from [] cinit ex_trace_wait) as [c|] eqn:Hrun; [|discriminate Hp].
  simpl in Hp. injection Hp as Hp. unfold thread_view in Hp.
  destruct (c_threads c !! 1%nat) as [th|] eqn:Ht; [|discriminate Hp]. simpl in Hp. injection Hp as H1 H2 H3.
  exists c, th. split; [exact (run_from_init_exec _ _ Hrun)|]. split; [exact Ht|assumption].
Qed.

Definition ex_trace_cancel : list label := ex_trace_wait ++ [LCancel 1; LInterrupt].
Example cancel_premises_met :
  exists c th, exec ex_trace_cancel (Running c) /\ c_threads c !! 1%nat = Some th /\
               t_st th = TLoop /\ t_cancelled th = true /\ no_successor (contents ex_trace_cancel) (t_x th).
Proof.
  assert (Hp : (fun c => thread_view c 1) <$> run_from [] cinit ex_trace_cancel
               = Some (Some (7, TLoop, true))) by (vm_compute; reflexivity).
  destruct (run_from [] cinit ex_trace_cancel) as [c|] eqn:Hrun; [|discriminate Hp].
  simpl in Hp. injection Hp as Hp. unfold thread_view in Hp.
  destruct (c_threads c !! 1%nat) as [th|] eqn:Ht; [|discriminate Hp]. simpl in Hp. injection Hp as H1 H2 H3.
  exists c, th. split; [exact (run_from_init_exec _ _ Hrun)|]. split; [exact Ht|].
  split; [assumption|]. split; [assumption|]. rewrite H1.
  intros k' [v Hv]. unfold contents, ex_trace_cancel, ex_trace_wait in Hv. simpl in Hv.
  apply lookup_insert_Some in Hv as [[<- _]|[_ Hv]]; [lia|].
  unfold contents0 in Hv. apply lookup_singleton_Some in Hv as [<- _]. lia.
Qed.

(* a reader parked behind the newest batch, then Close: it is woken and answers empty; a reader
   started on the closed stream answers empty although a successor of its position exists *)
Definition ex_trace_close : list label :=
  [LAdd 5 ex_b5; LSpawn 1 5; LReader 1; LReader 1; LClose; LSpawn 2 0].
Example close_premises_met :
  exists c th1 th2, exec ex_trace_close (Running c) /\ is_closed ex_trace_close = true /\
    c_threads c !! 1%nat = Some th1 /\ t_st th1 = TLoop /\
    c_threads c !! 2%nat = Some th2 /\ t_st th2 = TStart.
Proof.
  assert (Hp : (fun c => (thread_view c 1, thread_view c 2)) <$> run_from [] cinit ex_trace_close
               = Some (Some (5, TLoop, false), Some (0, TStart, false))) by (vm_compute; reflexivity).
  destruct (run_from [] cinit ex_trace_close) as [c|] eqn:Hrun; [|discriminate Hp].
  simpl in Hp. injection Hp as Hp1 Hp2. unfold thread_view in Hp1, Hp2.
  destruct (c_threads c !! 1%nat) as [th1|] eqn:Ht1; [|discriminate Hp1]. simpl in Hp1. injection Hp1 as A1 A2 A3.
  destruct (c_threads c !! 2%nat) as [th2|] eqn:Ht2; [|discriminate Hp2]. simpl in Hp2. injection Hp2 as B1 B2 B3.
  exists c, th1, th2. split; [exact (run_from_init_exec _ _ Hrun)|]. split; [reflexivity|].
  split; [exact Ht1|]. split; [assumption|]. split; [exact Ht2|assumption].
Qed.
