(* IrcProofs/Recipients4.v — C12, the membership events one by one: for PART, KICK, JOIN, TOPIC, NICK and QUIT
   the single message the handler emits, its prefix and EXACTLY who receives it (both directions), in terms of the
   state before the command.  Complements the all-handlers statements of Recipients3.v. *)
From stdpp Require Import gmap.
From Coq Require Import Strings.String Strings.Ascii ZArith NArith Lia.
From RV Require Import Base.Text Irc.Str Irc.Parse Irc.State Irc.Monad Irc.Cmds Irc.SCmds Irc.Apply.
From RV Require Import IrcProofs.WP IrcProofs.Inv IrcProofs.InvPrims IrcProofs.StrLemmas IrcProofs.Handlers IrcProofs.Top.
From RV Require Import IrcProofs.Recipients IrcProofs.Recipients2 IrcProofs.Recipients3.
Local Open Scope string_scope.

Lemma wp_run {A} (m : M A) sv r a sv' r' :
  wp m (fun a0 s0 r0 => a0 = a /\ s0 = sv' /\ r0 = r') sv r -> m sv r = Ok (a, sv', r').
Proof. unfold wp. destruct (m sv r) as [[[a0 s0] r0]|?|?]; [|tauto|tauto]. intros (-> & -> & ->). reflexivity. Qed.

Lemma leave_channel_run lc n tk sv r : leave_channel lc n tk sv r = Ok (tt, leave_state lc n tk sv, r).
Proof. apply wp_run, wp_leave_channel. auto. Qed.
Lemma delete_session_run k s sv r :
  sv_sessions sv !! k = Some s -> delete_session k sv r = Ok (tt, delete_state k s sv, r).
Proof. intros Hs. apply wp_run. eapply wp_delete_session; eauto. Qed.
Lemma add_member_run lc c0 me tk op sv r : add_member lc c0 me tk op sv r = Ok (tt, add_member_state lc c0 me tk op sv, r).
Proof. apply wp_run, wp_add_member. auto. Qed.

(* the members of a channel, as the nick index sees them *)
Definition chan_ids (sv : server) (c : chan) (id : N) : Prop :=
  exists n p (k' : N * N), c_nicks c !! n = Some p /\ sv_nicks sv !! n = Some k' /\ id = fst k'.

Lemma rc_channel_exact sv c ids id : rc_channel sv c = Ok ids -> (In id ids <-> chan_ids sv c id).
Proof.
  intros H. unfold rc_channel in H. rewrite (ids_of_members_spec sv _ ids id H). unfold chan_ids. split.
  - intros (n & k' & Hn & Hk & ->). apply members_spec in Hn. destruct Hn as [p Hp]. now exists n, p, k'.
  - intros (n & p & k' & Hp & Hk & ->). exists n, k'. split; [apply members_spec; now exists p|auto].
Qed.

(* under the invariant these are the sessions that list the channel *)
Lemma chan_ids_sessions sv lc c id :
  EInv sv -> sv_channels sv !! lc = Some c ->
  (chan_ids sv c id <-> exists (k' : N * N) s', sv_sessions sv !! k' = Some s' /\ lc ∈ s_channels s' /\ id = fst k').
Proof.
  intros E Hc. split.
  - intros (n & p & k' & Hp & Hk & ->). destruct (i_memb_c sv (e_inv _ E) _ _ _ _ Hc Hp) as (k2 & s2 & Hk2 & Hs2 & Hin).
    rewrite Hk in Hk2. injection Hk2 as <-. now exists k', s2.
  - intros (k' & s' & Hs' & Hin & ->). apply (membership_symmetric sv k' s' lc E Hs') in Hin.
    destruct Hin as (c' & Hc' & [p Hp] & Hk). rewrite Hc in Hc'. injection Hc' as <-. now exists (nick_to_lower (s_nick s')), p, k'.
Qed.

(* ---- PART ------------------------------------------------------------------------------------------- *)
Theorem part_event (k : N * N) m sv r s ch c :
  InvM sv -> sv_sessions sv !! k = Some s -> m_params m = [ch] -> split_on ","%char ch = [ch] ->
  sv_channels sv !! chan_to_lower ch = Some c -> is_Some (c_nicks c !! nick_to_lower (s_nick s)) ->
  exists o,
    cmd_part k m sv r = Ok (tt, leave_state (chan_to_lower ch) (nick_to_lower (s_nick s)) k sv, RCtx (r_msgid r) (o :: r_out r)) /\
    o_data o = msg_bytes (usrmsg (s_prefix s) "PART" [ch]) /\
    (forall id, In id (o_rcpt o) <-> chan_ids sv c id \/ In id (sv_serverSessions sv)).
Proof.
  intros I Hs Hps Hsplit Hc Hmem. destruct (rc_channel_ok sv _ c I Hc) as [ids Hids].
  unfold cmd_part, param, bindM. rewrite Hps. cbn [nth_error]. unfold retM. rewrite Hsplit. cbn [forM].
  unfold bindM, sessM, getS, retM. cbn [bindM]. unfold bindM. rewrite Hs, Hc. rewrite bool_decide_true by exact Hmem. cbn [negb].
  unfold liftR. rewrite Hids. unfold emit. rewrite leave_channel_run.
  eexists. split; [reflexivity|]. cbn [o_data o_rcpt]. split; [reflexivity|].
  intros id. rewrite set_of_ids_In, in_app_iff, (rc_channel_exact sv c ids id Hids). reflexivity.
Qed.

(* ---- KICK ------------------------------------------------------------------------------------------- *)
Theorem kick_event (k : N * N) m sv r s ch target rest c v (tk : N * N) :
  InvM sv -> sv_sessions sv !! k = Some s -> m_params m = ch :: target :: rest ->
  sv_channels sv !! chan_to_lower ch = Some c -> c_nicks c !! nick_to_lower (s_nick s) = Some (true, v) ->
  is_Some (c_nicks c !! nick_to_lower target) -> sv_nicks sv !! nick_to_lower target = Some tk ->
  exists o,
    cmd_kick k m sv r = Ok (tt, leave_state (chan_to_lower ch) (nick_to_lower target) tk sv, RCtx (r_msgid r) (o :: r_out r)) /\
    o_data o = msg_bytes (usrmsg (s_prefix s) "KICK" [ch; target; trailing m]) /\
    (forall id, In id (o_rcpt o) <-> chan_ids sv c id \/ In id (sv_serverSessions sv)).
Proof.
  intros I Hs Hps Hc Hop Hmem Htk. destruct (rc_channel_ok sv _ c I Hc) as [ids Hids].
  unfold cmd_kick, param, bindM. rewrite Hps. cbn [nth_error]. unfold retM, sessM, getS, bindM. cbn [bindM]. unfold bindM, retM.
  rewrite Hs, Hc, Hop. cbn [negb]. rewrite bool_decide_true by exact Hmem. cbn [negb].
  unfold liftR. rewrite Hids. unfold emit. rewrite Htk, leave_channel_run.
  eexists. split; [reflexivity|]. cbn [o_data o_rcpt]. split; [reflexivity|].
  intros id. rewrite set_of_ids_In, in_app_iff, (rc_channel_exact sv c ids id Hids). reflexivity.
Qed.

(* ---- TOPIC (setting a topic) ------------------------------------------------------------------------ *)
Theorem topic_event (k : N * N) m sv r s ch c o v :
  InvM sv -> sv_sessions sv !! k = Some s -> nth_error (m_params m) 0 = Some ch ->
  sv_channels sv !! chan_to_lower ch = Some c -> chan_to_lower ch ∈ s_channels s ->
  is_empty (trailing m) = false -> Nat.eqb (nparams m) 1 = false ->
  c_nicks c !! nick_to_lower (s_nick s) = Some (o, v) -> (has_mode 116 (c_modes c) = false \/ o = true) ->
  exists sv' o1 o2,
    cmd_topic k m sv r = Ok (tt, sv', RCtx (r_msgid r) (o2 :: o1 :: r_out r)) /\
    o_data o1 = msg_bytes (usrmsg (s_prefix s) "TOPIC" [ch; trailing m]) /\
    (forall id, In id (o_rcpt o1) <-> chan_ids sv c id) /\
    (forall id, In id (o_rcpt o2) <-> In id (sv_serverSessions sv)).
Proof.
  intros I Hs Hp0 Hc Hin Htr Hn1 Hme Hpriv. destruct (rc_channel_ok sv _ c I Hc) as [ids Hids].
  unfold cmd_topic, param, bindM. rewrite Hp0. unfold retM, sessM, getS, bindM. cbn [bindM]. unfold bindM, retM.
  rewrite Hs, Hc. unfold in_set. rewrite bool_decide_true by exact Hin. cbn [negb]. rewrite Htr. cbn [andb]. rewrite Hn1.
  unfold chanop_of. rewrite Hme. unfold retM.
  assert (Hg : has_mode 116 (c_modes c) && negb o = false).
  { destruct Hpriv as [-> | ->]; [reflexivity|apply andb_false_r]. }
  rewrite Hg. unfold updChan, modS, liftR. rewrite Hids. unfold emit. cbn [r_out r_msgid].
  eexists _, _, _. split; [reflexivity|]. cbn [o_data o_rcpt]. split; [reflexivity|]. split.
  - intros id. rewrite set_of_ids_In. apply (rc_channel_exact sv c ids id Hids).
  - intros id. rewrite set_of_ids_In. reflexivity.
Qed.

(* ---- rc_common: the members of the channels a session lists -------------------------------------------- *)
Lemma rc_common_aux_exact sv chs ids id :
  rc_common_aux sv chs = Ok ids ->
  (In id ids <-> exists lc c, In lc chs /\ sv_channels sv !! lc = Some c /\ chan_ids sv c id).
Proof.
  revert ids. induction chs as [|ch chs IH]; intros ids H; cbn [rc_common_aux] in H.
  - injection H as <-. split; [intros []|intros (lc & c & [] & _)].
  - destruct (sv_channels sv !! ch) as [c|] eqn:Hc.
    + destruct (rc_channel sv c) as [a| |] eqn:Ha; try discriminate.
      destruct (rc_common_aux sv chs) as [b| |] eqn:Hb; try discriminate. injection H as <-.
      rewrite in_app_iff, (rc_channel_exact sv c a id Ha), (IH b eq_refl). split.
      * intros [Hm|(lc & c' & Hlc & Hc' & Hm)]; [exists ch, c; split; [now left|auto]|exists lc, c'; split; [now right|auto]].
      * intros (lc & c' & [<-|Hlc] & Hc' & Hm); [left; rewrite Hc in Hc'; now injection Hc' as <-|right; now exists lc, c'].
    + rewrite (IH ids H). split.
      * intros (lc & c' & Hlc & Hc' & Hm). exists lc, c'. split; [now right|auto].
      * intros (lc & c' & [<-|Hlc] & Hc' & Hm); [congruence|now exists lc, c'].
Qed.

Lemma rc_common_exact sv s ids id :
  rc_common sv s = Ok ids ->
  (In id ids <-> exists lc c, lc ∈ s_channels s /\ sv_channels sv !! lc = Some c /\ chan_ids sv c id).
Proof.
  intros H. unfold rc_common in H. rewrite (rc_common_aux_exact sv _ ids id H). split.
  - intros (lc & c & Hlc & H0). exists lc, c. split; [|exact H0]. apply elem_of_elements, elem_of_list_In. exact Hlc.
  - intros (lc & c & Hlc & H0). exists lc, c. split; [|exact H0]. apply elem_of_list_In, elem_of_elements. exact Hlc.
Qed.

(* ---- QUIT ------------------------------------------------------------------------------------------- *)
(* the other members of the channels the leaving session was in, as the state BEFORE the QUIT has them *)
Definition others_sharing (sv : server) (s : session) (id : N) : Prop :=
  exists lc c n p (k' : N * N), lc ∈ s_channels s /\ sv_channels sv !! lc = Some c /\ c_nicks c !! n = Some p /\
    n <> nick_to_lower (s_nick s) /\ sv_nicks sv !! n = Some k' /\ id = fst k'.

Lemma delete_state_common (k : N * N) s sv s' ids id :
  InvM sv -> s_channels s' = s_channels s ->
  rc_common (delete_state k s sv) s' = Ok ids -> (In id ids <-> others_sharing sv s id).
Proof.
  intros I Hch H. rewrite (rc_common_exact _ _ ids id H). rewrite Hch.
  set (n := nick_to_lower (s_nick s)).
  assert (Hl : forall lc c', sv_channels (delete_state k s sv) !! lc = Some c' <->
             exists c, sv_channels sv !! lc = Some c /\ c' = cc_nicks (delete n) c /\ delete n (c_nicks c) <> ∅).
  { intros lc c'. unfold delete_state. cbn [sv_channels set_sessions set_nicks set_channels]. now apply delete_channels_lookup. }
  assert (Hn : sv_nicks (delete_state k s sv) = delete n (sv_nicks sv)) by reflexivity.
  unfold others_sharing, chan_ids. split.
  - intros (lc & c' & Hlc & Hc' & n' & p & k' & Hp & Hk & ->). apply Hl in Hc'. destruct Hc' as (c & Hc & -> & _).
    cbn in Hp. rewrite Hn in Hk. apply lookup_delete_Some in Hp. apply lookup_delete_Some in Hk.
    exists lc, c, n', p, k'. fold n. intuition.
  - intros (lc & c & n' & p & k' & Hlc & Hc & Hp & Hne & Hk & ->). fold n in Hne.
    exists lc, (cc_nicks (delete n) c). split; [exact Hlc|]. split.
    + apply Hl. exists c. split; [exact Hc|]. split; [reflexivity|]. intros He.
      apply (f_equal (fun mm => mm !! n')) in He. rewrite lookup_delete_ne, lookup_empty, Hp in He by congruence. discriminate.
    + exists n', p, k'. cbn [c_nicks cc_nicks]. rewrite Hn, !lookup_delete_ne by congruence. auto.
Qed.

Theorem quit_event (k : N * N) m sv r s :
  InvM sv -> sv_sessions sv !! k = Some s -> s_deleted s = false -> s_loggedIn s = true ->
  exists o1 o2,
    cmd_quit k m sv r = Ok (tt, delete_state k s sv, RCtx (r_msgid r) (o2 :: o1 :: r_out r)) /\
    o_data o1 = msg_bytes (usrmsg (s_prefix s) "QUIT" [trailing m]) /\
    (forall id, In id (o_rcpt o1) <-> others_sharing sv s id \/ In id (sv_serverSessions sv)) /\
    o_data o2 = msg_bytes (noprefix "ERROR" ["Closing Link: " ++ s_nick s ++ "[" ++ p_host (s_prefix s) ++ "] (" ++ trailing m ++ ")"]) /\
    o_rcpt o2 = [fst k].
Proof.
  intros I Hs Hd Hli.
  set (gone := (list_to_set (emptied_keys (nick_to_lower (s_nick s)) (sv_channels sv)) : gset string)).
  set (s' := ss_deleted true (ss_invited (fun i => i ∖ gone) s)).
  assert (Hs' : sv_sessions (delete_state k s sv) !! k = Some s').
  { unfold delete_state. cbn [sv_sessions set_sessions set_nicks set_channels]. fold gone.
    rewrite lookup_upd_sess, bool_decide_true, lookup_fmap, Hs by reflexivity. reflexivity. }
  destruct (rc_common_ok (delete_state k s sv) s' (InvM_delete sv k s I Hs Hd)) as [ids Hids].
  unfold cmd_quit, bindM. rewrite (delete_session_run k s sv r Hs). unfold sessM, getS, bindM, retM. rewrite Hs'.
  change (s_loggedIn s') with (s_loggedIn s). rewrite Hli. cbn [whenM]. unfold bindM, getS, liftR. rewrite Hids. unfold emit.
  cbn [r_out r_msgid]. eexists _, _. split; [reflexivity|]. cbn [o_data o_rcpt]. split; [reflexivity|]. split; [|split; reflexivity].
  intros id. rewrite set_of_ids_In, in_app_iff. rewrite (delete_state_common k s sv s' ids id I eq_refl Hids). reflexivity.
Qed.

(* ---- KILL ------------------------------------------------------------------------------------------- *)
Theorem kill_event (k : N * N) m sv r s p0 rest (tk : N * N) t :
  InvM sv -> sv_sessions sv !! k = Some s -> s_operator s = true -> m_params m = p0 :: rest ->
  sv_nicks sv !! nick_to_lower p0 = Some tk -> sv_sessions sv !! tk = Some t -> s_deleted t = false ->
  exists o1 o2 o3,
    cmd_kill k m sv r = Ok (tt, delete_state tk t sv, RCtx (r_msgid r) (o3 :: o2 :: o1 :: r_out r)) /\
    o_data o1 = msg_bytes (usrmsg (s_prefix t) "QUIT" ["Killed by " ++ s_nick s ++ ": " ++ trailing m]) /\
    (forall id, In id (o_rcpt o1) <-> others_sharing sv t id \/ In id (sv_serverSessions sv)) /\
    o_data o2 = msg_bytes (usrmsg (s_prefix s) "KILL"
                  [s_nick t; "ircd!" ++ p_host (s_prefix s) ++ "!" ++ s_nick s ++ " (" ++ trailing m ++ ")"]) /\
    o_rcpt o2 = [fst tk] /\
    o_data o3 = msg_bytes (noprefix "ERROR"
                  ["Closing Link: " ++ s_nick t ++ "[" ++ p_host (s_prefix t) ++ "] (Killed (" ++ s_nick s ++ " (" ++ trailing m ++ ")))"]) /\
    o_rcpt o3 = [fst tk].
Proof.
  intros I Hs Hop Hps Htk Ht Hd.
  set (gone := (list_to_set (emptied_keys (nick_to_lower (s_nick t)) (sv_channels sv)) : gset string)).
  set (t' := ss_deleted true (ss_invited (fun i => i ∖ gone) t)).
  assert (Ht' : sv_sessions (delete_state tk t sv) !! tk = Some t').
  { unfold delete_state. cbn [sv_sessions set_sessions set_nicks set_channels]. fold gone.
    rewrite lookup_upd_sess, bool_decide_true, lookup_fmap, Ht by reflexivity. reflexivity. }
  destruct (rc_common_ok (delete_state tk t sv) t' (InvM_delete sv tk t I Ht Hd)) as [ids Hids].
  unfold cmd_kill, bindM, sessM, getS, retM. cbn [bindM]. unfold bindM. rewrite Hs, Hop. cbn [negb].
  unfold param. rewrite Hps. cbn [nth_error]. unfold retM. rewrite Htk.
  rewrite (delete_session_run tk t sv r Ht). rewrite Ht'. unfold liftR. rewrite Hids. unfold emit. cbn [r_out r_msgid].
  eexists _, _, _. split; [reflexivity|]. cbn [o_data o_rcpt]. split; [reflexivity|]. split; [|repeat split; reflexivity].
  intros id. rewrite set_of_ids_In, in_app_iff. rewrite (delete_state_common tk t sv t' ids id I eq_refl Hids). reflexivity.
Qed.

(* (2), the session an ERROR :Closing Link was sent to is gone when the entry has been applied *)
Lemma maybe_delete_removes (k : N * N) sv s :
  sv_sessions sv !! k = Some s -> s_deleted s = true -> sv_sessions (maybe_delete_session k sv) !! k = None.
Proof.
  intros Hs Hd. unfold maybe_delete_session. rewrite Hs, Hd. cbn [sv_sessions set_sessions]. apply lookup_delete.
Qed.

Corollary quit_closes (k : N * N) s sv lp :
  sv_sessions sv !! k = Some s ->
  sv_sessions (maybe_delete_session k (set_lastProcessed lp (delete_state k s sv))) !! k = None.
Proof.
  intros Hs. eapply maybe_delete_removes.
  - unfold delete_state. cbn [sv_sessions set_sessions set_nicks set_channels set_lastProcessed].
    rewrite lookup_upd_sess, bool_decide_true, lookup_fmap, Hs by reflexivity. reflexivity.
  - reflexivity.
Qed.

(* a KILL is issued by an operator: the purge of MaybeDeleteSession removes the victim *)
Corollary kill_closes (k tk : N * N) s t sv lp :
  sv_sessions sv !! k = Some s -> s_operator s = true -> sv_sessions sv !! tk = Some t ->
  sv_sessions (maybe_delete_session k (set_lastProcessed lp (delete_state tk t sv))) !! tk = None.
Proof.
  intros Hs Hop Ht.
  set (svd := set_lastProcessed lp (delete_state tk t sv)).
  assert (Hl : forall k2 : N * N, sv_sessions svd !! k2 =
            (fun s0 => (if bool_decide (tk = k2) then ss_deleted true else id)
                         (ss_invited (fun i => i ∖ (list_to_set (emptied_keys (nick_to_lower (s_nick t)) (sv_channels sv)) : gset string)) s0))
              <$> (sv_sessions sv !! k2)).
  { intros k2. unfold svd, delete_state. cbn [sv_sessions set_sessions set_nicks set_channels set_lastProcessed].
    rewrite lookup_upd_sess, !lookup_fmap.
    destruct (decide (tk = k2)) as [->|Hn]; [rewrite !bool_decide_true by reflexivity|rewrite !bool_decide_false by congruence];
      destruct (sv_sessions sv !! k2); reflexivity. }
  unfold maybe_delete_session. rewrite (Hl k), Hs. cbn [fmap option_fmap option_map].
  assert (Hpriv : forall b : bool, s_server ((if b then ss_deleted true else id) (ss_invited (fun i => i ∖ (list_to_set (emptied_keys (nick_to_lower (s_nick t)) (sv_channels sv)) : gset string)) s))
                    || s_operator ((if b then ss_deleted true else id) (ss_invited (fun i => i ∖ (list_to_set (emptied_keys (nick_to_lower (s_nick t)) (sv_channels sv)) : gset string)) s)) = true).
  { intros []; cbn; rewrite Hop; apply orb_true_r. }
  rewrite Hpriv.
  assert (Hgone : base.filter (fun kv : N * N * session => s_deleted kv.2 = false) (sv_sessions svd) !! tk = None).
  { apply map_filter_lookup_None. right. intros t2 Ht2. rewrite (Hl tk), Ht, bool_decide_true in Ht2 by reflexivity.
    cbn in Ht2. injection Ht2 as <-. cbn. discriminate. }
  match goal with |- context [if ?b then _ else _] => destruct b end; cbn [sv_sessions set_sessions].
  - destruct (decide (k = tk)) as [->|Hne]; [apply lookup_delete|]. rewrite lookup_delete_ne by assumption. exact Hgone.
  - exact Hgone.
Qed.

(* ---- JOIN: the recipients of the JOIN line are the old members and the joiner --------------------------- *)
Lemma join_recipients sv lc c me (k : N * N) op ids id :
  sv_nicks sv !! me = Some k ->
  rc_channel (add_member_state lc c me k op sv) (cc_nicks (<[me := (op, false)]>) c) = Ok ids ->
  (In id ids <-> chan_ids sv c id \/ id = fst k).
Proof.
  intros Hme H. rewrite (rc_channel_exact _ _ ids id H). unfold chan_ids.
  assert (Hn : sv_nicks (add_member_state lc c me k op sv) = sv_nicks sv) by reflexivity. rewrite Hn. cbn [c_nicks cc_nicks]. split.
  - intros (n & p & k' & Hp & Hk & ->). destruct (decide (n = me)) as [->|Hne].
    + right. congruence.
    + left. rewrite lookup_insert_ne in Hp by congruence. now exists n, p, k'.
  - intros [(n & p & k' & Hp & Hk & ->)| ->].
    + destruct (decide (n = me)) as [->|Hne].
      * exists me, (op, false), k'. rewrite lookup_insert. auto.
      * exists n, p, k'. rewrite lookup_insert_ne by congruence. auto.
    + exists me, (op, false), k. rewrite lookup_insert. auto.
Qed.

(* ---- NICK: after the change the NICK line reaches exactly the sessions that shared a channel before ---------- *)
Lemma nick_recipients sv (k : N * N) s nick s' ids id :
  InvM sv -> sv_sessions sv !! k = Some s -> s_deleted s = false -> s_nick s <> "" ->
  sv_nicks sv !! nick_to_lower nick = None -> s_channels s' = s_channels s ->
  rc_common (nick_state k nick (nick_to_lower (s_nick s)) false sv) s' = Ok ids ->
  (In id ids <-> exists lc c, lc ∈ s_channels s /\ sv_channels sv !! lc = Some c /\ chan_ids sv c id).
Proof.
  intros I Hs Hd Hnn Hfree Hch H. rewrite (rc_common_exact _ _ ids id H), Hch.
  set (lo := nick_to_lower (s_nick s)) in *. set (ln := nick_to_lower nick) in *.
  pose proof (i_idx_complete sv I _ _ Hs Hd Hnn) as Hlok. fold lo in Hlok.
  assert (Hlo_ln : lo <> ln) by congruence.
  assert (Hlo_ne : negb (is_empty lo) && negb false = true).
  { rewrite andb_true_r. apply negb_true_iff, is_empty_false. now apply nick_to_lower_nonempty. }
  assert (Hchs : sv_channels (nick_state k nick lo false sv) = cc_nicks (rename_member lo ln) <$> sv_channels sv).
  { unfold nick_state. rewrite Hlo_ne. reflexivity. }
  assert (Hns : sv_nicks (nick_state k nick lo false sv) = delete lo (<[ln := k]> (sv_nicks sv))).
  { unfold nick_state. rewrite Hlo_ne. reflexivity. }
  assert (Hnomem : forall lc c, sv_channels sv !! lc = Some c -> c_nicks c !! ln = None).
  { intros lc c Hc. destruct (c_nicks c !! ln) as [p|] eqn:E; [|reflexivity].
    destruct (i_memb_c sv I _ _ _ _ Hc E) as (k2 & _ & Hk2 & _). congruence. }
  assert (Hcore : forall lc c, sv_channels sv !! lc = Some c ->
            (chan_ids (nick_state k nick lo false sv) (cc_nicks (rename_member lo ln) c) id <-> chan_ids sv c id)).
  { intros lc c Hc. unfold chan_ids. rewrite Hns. cbn [c_nicks cc_nicks]. split.
    - intros (n & p & k' & Hp & Hk & ->). rewrite (rename_member_lookup lo ln _ n Hlo_ln (Hnomem _ _ Hc)) in Hp.
      apply lookup_delete_Some in Hk. destruct Hk as [Hnlo Hk].
      destruct (decide (n = ln)) as [->|Hnl].
      + rewrite bool_decide_true in Hp by reflexivity. rewrite lookup_insert in Hk. injection Hk as <-. now exists lo, p, k.
      + rewrite bool_decide_false in Hp by assumption. rewrite bool_decide_false in Hp by congruence.
        rewrite lookup_insert_ne in Hk by congruence. now exists n, p, k'.
    - intros (n & p & k' & Hp & Hk & ->). destruct (decide (n = lo)) as [->|Hnlo].
      + exists ln, p, k. rewrite (rename_member_lookup lo ln _ ln Hlo_ln (Hnomem _ _ Hc)), bool_decide_true by reflexivity.
        rewrite lookup_delete_ne, lookup_insert by congruence. split; [exact Hp|]. split; [reflexivity|congruence].
      + assert (n <> ln) by (intros ->; rewrite (Hnomem _ _ Hc) in Hp; discriminate).
        exists n, p, k'. rewrite (rename_member_lookup lo ln _ n Hlo_ln (Hnomem _ _ Hc)), !bool_decide_false by assumption.
        rewrite lookup_delete_ne, lookup_insert_ne by congruence. auto. }
  split.
  - intros (lc & c' & Hlc & Hc' & Hm). rewrite Hchs in Hc'. apply lookup_fmap_Some in Hc'. destruct Hc' as (c & <- & Hc).
    exists lc, c. split; [exact Hlc|]. split; [exact Hc|]. now apply (Hcore lc c Hc).
  - intros (lc & c & Hlc & Hc & Hm). exists lc, (cc_nicks (rename_member lo ln) c). split; [exact Hlc|]. split.
    + rewrite Hchs, lookup_fmap, Hc. reflexivity.
    + now apply (Hcore lc c Hc).
Qed.

Print Assumptions part_event.
Print Assumptions kick_event.
Print Assumptions topic_event.
Print Assumptions quit_event.
Print Assumptions kill_event.
Print Assumptions kill_closes.
Print Assumptions join_recipients.
Print Assumptions nick_recipients.

(* ====================================================================================================== *)
(* Non-vacuity: the hypotheses of the event theorems hold in states of the example history               *)
(* ====================================================================================================== *)
From RV Require Import IrcProofs.Examples.
Definition ex_sv8 : server :=
  match run ex_env (init_server "robustirc.net") (firstn 8 ex_history) with Some sv => sv | None => init_server "" end.
Lemma ex_sv8_SInv : SInv ex_sv8.
Proof.
  eapply (run_SInv ex_env (firstn 8 ex_history)); [apply SInv_init| |vm_compute; reflexivity].
  apply wf_history_b_sound. vm_compute. reflexivity.
Qed.

(* Foo (session 1, channel operator) and bar (session 4) are both in #Chan *)
Example ex_part_hyps :
  exists s c, sv_sessions ex_sv8 !! (4%N, 0%N) = Some s /\ split_on ","%char "#chan" = ["#chan"] /\
    sv_channels ex_sv8 !! chan_to_lower "#chan" = Some c /\ is_Some (c_nicks c !! nick_to_lower (s_nick s)).
Proof.
  eexists _, _. split; [vm_compute; reflexivity|]. split; [vm_compute; reflexivity|]. split; [vm_compute; reflexivity|].
  vm_compute. eexists. reflexivity.
Qed.
Example ex_part_run :
  rcpts_of (apply_entry ex_env ex_sv8 (EMessage 9 9000 4 24 "" "PART #chan")) = Some [[1%N; 4%N]].
Proof. vm_compute. reflexivity. Qed.

Example ex_kick_hyps :
  exists s c v tk, sv_sessions ex_sv8 !! (1%N, 0%N) = Some s /\
    sv_channels ex_sv8 !! chan_to_lower "#chan" = Some c /\ c_nicks c !! nick_to_lower (s_nick s) = Some (true, v) /\
    is_Some (c_nicks c !! nick_to_lower "bar") /\ sv_nicks ex_sv8 !! nick_to_lower "bar" = Some tk.
Proof.
  eexists _, _, _, _. split; [vm_compute; reflexivity|]. split; [vm_compute; reflexivity|]. split; [vm_compute; reflexivity|].
  split; [vm_compute; eexists; reflexivity|vm_compute; reflexivity].
Qed.
Example ex_kick_run :
  rcpts_of (apply_entry ex_env ex_sv8 (EMessage 9 9000 1 14 "" "KICK #chan bar :out")) = Some [[1%N; 4%N]].
Proof. vm_compute. reflexivity. Qed.

Example ex_topic_run :
  rcpts_of (apply_entry ex_env ex_sv8 (EMessage 9 9000 1 14 "" "TOPIC #chan :hello world")) = Some [[1%N; 4%N]; []].
Proof. vm_compute. reflexivity. Qed.

Example ex_quit_hyps :
  exists s, sv_sessions ex_sv8 !! (1%N, 0%N) = Some s /\ s_deleted s = false /\ s_loggedIn s = true.
Proof. eexists. split; [vm_compute; reflexivity|]. split; vm_compute; reflexivity. Qed.
(* QUIT goes to bar only, the ERROR to Foo only *)
Example ex_quit_run :
  rcpts_of (apply_entry ex_env ex_sv8 (EMessage 9 9000 1 14 "" "QUIT :bye")) = Some [[4%N]; [1%N]].
Proof. vm_compute. reflexivity. Qed.
(* NICK reaches both *)
Example ex_nick_run :
  rcpts_of (apply_entry ex_env ex_sv8 (EMessage 9 9000 1 14 "" "NICK Foo2")) = Some [[1%N; 4%N]].
Proof. vm_compute. reflexivity. Qed.

(* an operator kills a user with whom a third session shares a channel *)
Definition ex_cfg : config := Config 1 600000000000 500000000 0 0 "" "" false [("root", "pw")] [] ∅ ∅ ∅.
Definition ex_kill_history : list entry :=
  [ EConfig 1 1000 1 (Some ex_cfg);
    ECreate 2 2000 "0123456789abcdef"; EMessage 3 3000 2 1 "" "NICK Op"; EMessage 4 4000 2 2 "" "USER op 0 * :Op";
    EMessage 5 5000 2 3 "" "OPER root pw";
    ECreate 6 6000 "0123456789abcdef"; EMessage 7 7000 6 1 "" "NICK vic"; EMessage 8 8000 6 2 "" "USER vic 0 * :Vic";
    ECreate 9 9000 "0123456789abcdef"; EMessage 10 10000 9 1 "" "NICK pal"; EMessage 11 11000 9 2 "" "USER pal 0 * :Pal";
    EMessage 12 12000 6 3 "" "JOIN #x"; EMessage 13 13000 9 3 "" "JOIN #x" ].
Definition ex_svk : server :=
  match run ex_env (init_server "robustirc.net") ex_kill_history with Some sv => sv | None => init_server "" end.
Lemma ex_svk_SInv : SInv ex_svk.
Proof.
  eapply (run_SInv ex_env ex_kill_history); [apply SInv_init| |vm_compute; reflexivity].
  apply wf_history_b_sound. vm_compute. reflexivity.
Qed.
Example ex_kill_hyps :
  exists s tk t, sv_sessions ex_svk !! (2%N, 0%N) = Some s /\ s_operator s = true /\
    sv_nicks ex_svk !! nick_to_lower "vic" = Some tk /\ sv_sessions ex_svk !! tk = Some t /\ s_deleted t = false.
Proof.
  eexists _, _, _. split; [vm_compute; reflexivity|]. split; [vm_compute; reflexivity|]. split; [vm_compute; reflexivity|].
  split; vm_compute; reflexivity.
Qed.
(* the QUIT goes to pal (9), KILL and ERROR to vic (6); afterwards session 6 is gone *)
Example ex_kill_run :
  rcpts_of (apply_entry ex_env ex_svk (EMessage 14 14000 2 4 "" "KILL vic :bye")) = Some [[9%N]; [6%N]; [6%N]] /\
  sv_sessions (state_of (apply_entry ex_env ex_svk (EMessage 14 14000 2 4 "" "KILL vic :bye"))) !! (6%N, 0%N) = None.
Proof. split; vm_compute; reflexivity. Qed.
