(* IrcProofs/Misc.v — C17 (lifecycle), C01 (order independence), C03 (save + load) *)
From stdpp Require Import gmap.
From Coq Require Import Strings.String Strings.Ascii ZArith NArith Lia Sorting.Permutation Sorting.Sorted.
From RV Require Import Base.Text Irc.Str Irc.Parse Irc.State Irc.Monad Irc.Cmds Irc.SCmds Irc.Apply.
From RV Require Import IrcProofs.WP IrcProofs.Inv IrcProofs.InvPrims IrcProofs.StrLemmas IrcProofs.Handlers IrcProofs.Top IrcProofs.Outputs.
Local Open Scope string_scope.

(* ================= C17 ================= *)
Lemma get_session_nosuch sv id :
  get_session sv id = LNoSuch <-> sv_sessions sv !! (id, 0%N) = None /\ (id < fst (sv_lastProcessed sv))%N.
Proof.
  unfold get_session. destruct (sv_sessions sv !! (id, 0%N)) as [s|].
  - split; [discriminate|intros [H _]; discriminate].
  - destruct (id <? fst (sv_lastProcessed sv))%N eqn:E.
    + apply N.ltb_lt in E. split; auto.
    + apply N.ltb_ge in E. split; [discriminate|intros [_ H]; lia].
Qed.
Lemma get_session_found sv id : get_session sv id = LFound <-> is_Some (sv_sessions sv !! (id, 0%N)).
Proof.
  unfold get_session. destruct (sv_sessions sv !! (id, 0%N)) as [s|].
  - split; [now eexists|reflexivity].
  - split; [destruct (_ <? _)%N; discriminate|intros [? H]; discriminate].
Qed.

(* ids of a history: the entry ids increase, and the session an entry names was created by an earlier entry *)
Definition entry_ids_ok (hi : N) (en : entry) : Prop :=
  (hi < entry_id en)%N /\
  match en with
  | EDelete id _ session _ | EMessage id _ session _ _ _ | EDeath id _ session _ _ => (session < id)%N
  | _ => True
  end.
Fixpoint history_ids_ok (hi : N) (es : list entry) : Prop :=
  match es with [] => True | en :: r => entry_ids_ok hi en /\ history_ids_ok (entry_id en) r end.
Fixpoint last_id (hi : N) (es : list entry) : N :=
  match es with [] => hi | en :: r => last_id (entry_id en) r end.

(* lastProcessed never runs ahead of what has been applied *)
Theorem lastProcessed_bound e es : forall hi sv sv',
  history_ids_ok hi es -> (fst (sv_lastProcessed sv) <= hi)%N -> run e sv es = Some sv' ->
  (fst (sv_lastProcessed sv') <= last_id hi es)%N.
Proof.
  induction es as [|en es IH]; intros hi sv sv' Hok Hb Hrun; cbn [run last_id] in *.
  - injection Hrun as <-. exact Hb.
  - destruct Hok as [[Hlt Hsess] Hrest].
    destruct (entry_result (apply_entry e sv en)) as [sv1|] eqn:Hr; [|discriminate].
    apply (IH (entry_id en) sv1 sv' Hrest); [|exact Hrun].
    destruct (entry_lastProcessed e sv en sv1 Hr) as [H|[H|H]].
    + rewrite H. lia.
    + rewrite H. cbn. lia.
    + destruct en; try contradiction. rewrite H. cbn in *. lia.
Qed.

(* hence a node never answers "no such session" for a session id beyond what it has applied:
   a lagging follower does not tell a client that its (newer) session is gone *)
Theorem never_nosuch_for_future e net es sv' id :
  history_ids_ok 0 es -> run e (init_server net) es = Some sv' ->
  (last_id 0 es <= id)%N -> get_session sv' id <> LNoSuch.
Proof.
  intros Hok Hrun Hid Hns. apply get_session_nosuch in Hns. destruct Hns as [_ Hlt].
  assert (H0 : (fst (sv_lastProcessed (init_server net)) <= 0)%N) by (cbn; lia).
  pose proof (lastProcessed_bound e es 0 _ sv' Hok H0 Hrun). lia.
Qed.

(* the expiry sweep proposes exactly the client sessions idle for longer than the expiration *)
Lemma expire_sessions_spec sv now id d :
  In (id, d) (expire_sessions sv now) <->
  exists s, sv_sessions sv !! (id, 0%N) = Some s /\
            (g_expiration (sv_config sv) < tsub (Some now) (s_lastActivity s))%Z /\
            d = "Ping timeout (" ++ dur_string (g_expiration (sv_config sv)) ++ ")".
Proof.
  unfold expire_sessions. rewrite in_map_iff. split.
  - intros ([[i rp] s] & Heq & Hin). apply filter_In in Hin. destruct Hin as [Hin Hc]. cbn [fst snd] in *.
    injection Heq as -> <-. apply andb_true_iff in Hc. destruct Hc as [H0 Ht].
    apply N.eqb_eq in H0. subst rp. apply Z.ltb_lt in Ht.
    apply elem_of_list_In, elem_of_map_to_list in Hin. exists s. auto.
  - intros (s & Hs & Ht & ->). exists ((id, 0%N), s). split; [reflexivity|]. apply filter_In. split.
    + apply elem_of_list_In, elem_of_map_to_list. exact Hs.
    + cbn [fst snd]. rewrite N.eqb_refl. apply Z.ltb_lt in Ht. now rewrite Ht.
Qed.

(* pseudo-clients of a services link (Reply <> 0) are never proposed for expiry *)
Corollary expire_never_pseudo sv now id d : In (id, d) (expire_sessions sv now) -> is_Some (sv_sessions sv !! (id, 0%N)).
Proof. intros H. apply expire_sessions_spec in H. destruct H as (s & Hs & _). now exists s. Qed.

(* when a session ends its nickname is free and no channel lists it *)
Lemma delete_frees sv k s :
  InvM sv -> sv_sessions sv !! k = Some s -> s_deleted s = false ->
  let sv' := delete_state k s sv in
  sv_nicks sv' !! nick_to_lower (s_nick s) = None /\
  forall lc c, sv_channels sv' !! lc = Some c -> c_nicks c !! nick_to_lower (s_nick s) = None.
Proof.
  intros I Hs Hd sv'. split.
  - unfold sv', delete_state. cbn [sv_nicks set_sessions set_nicks set_channels]. apply lookup_delete.
  - intros lc c Hc. unfold sv', delete_state in Hc. cbn [sv_channels set_sessions set_nicks set_channels] in Hc.
    apply (delete_channels_lookup sv _ _ _ I) in Hc. destruct Hc as (c0 & _ & -> & _). cbn. apply lookup_delete.
Qed.

(* ================= C01 ================= *)
(* recipient sets and sorted listings do not depend on the order in which Go iterates its maps *)
Lemma sorted_lt_unique l1 l2 :
  StronglySorted N.lt l1 -> StronglySorted N.lt l2 -> (forall x, In x l1 <-> In x l2) -> l1 = l2.
Proof.
  revert l2. induction l1 as [|a l1 IH]; intros l2 H1 H2 Heq.
  - destruct l2 as [|b l2]; [reflexivity|]. exfalso. apply (Heq b). now left.
  - destruct l2 as [|b l2]; [exfalso; apply (Heq a); now left|].
    inversion H1 as [|? ? S1 F1]; subst. inversion H2 as [|? ? S2 F2]; subst.
    rewrite Forall_forall in F1, F2.
    assert (a = b).
    { destruct (proj1 (Heq a) (or_introl eq_refl)) as [->|Ha]; [reflexivity|].
      destruct (proj2 (Heq b) (or_introl eq_refl)) as [->|Hb]; [reflexivity|].
      specialize (F1 _ Hb). specialize (F2 _ Ha). lia. }
    subst b. f_equal. apply IH; auto. intros x. split; intros Hx.
    + destruct (proj1 (Heq x) (or_intror Hx)) as [->|H]; [|exact H]. specialize (F1 _ Hx). lia.
    + destruct (proj2 (Heq x) (or_intror Hx)) as [->|H]; [|exact H]. specialize (F2 _ Hx). lia.
Qed.

Theorem recipients_order_independent l l' : Permutation l l' -> set_of_ids l = set_of_ids l'.
Proof.
  intros Hp. apply sorted_lt_unique; try apply set_of_ids_sorted.
  intros x. rewrite !set_of_ids_In. split; intros H; [eapply Permutation_in; eauto|eapply Permutation_in; [symmetry; eauto|exact H]].
Qed.

(* the model is a function: equal histories give equal outputs and states whatever else differs *)
Theorem model_deterministic e sv es : forall r1 r2, run e sv es = r1 -> run e sv es = r2 -> r1 = r2.
Proof. intros r1 r2 <- <-. reflexivity. Qed.

(* ================= C03 ================= *)
(* save + load rebuilds the nick index from the sessions: under the invariant it is the same index *)
Lemma reload_nicks sv :
  EInv sv -> forall n, sv_nicks (reload sv) !! n = sv_nicks sv !! n.
Proof.
  intros [I L A Lg] n. unfold reload. cbn [sv_nicks].
  set (live := map_to_list (reload_session <$> sv_sessions sv)).
  set (pairs := map (fun kv : N * N * session => (nick_to_lower (s_nick kv.2), kv.1))
                    (List.filter (fun kv : N * N * session => negb (is_empty (s_nick kv.2))) live)).
  (* membership in the rebuilt list *)
  assert (Hin : forall n0 k0, In (n0, k0) pairs <-> exists s, sv_sessions sv !! k0 = Some s /\ s_nick s <> "" /\ nick_to_lower (s_nick s) = n0).
  { intros n0 k0. unfold pairs. rewrite in_map_iff. split.
    - intros ([k1 s1] & Heq & Hf). apply filter_In in Hf. destruct Hf as [Hl Hne]. cbn [fst snd] in *.
      injection Heq as <- <-. unfold live in Hl. apply elem_of_list_In, elem_of_map_to_list in Hl.
      rewrite lookup_fmap in Hl. destruct (sv_sessions sv !! k1) as [s0|] eqn:Hs0; [|discriminate].
      cbn in Hl. injection Hl as <-. exists s0. cbn in *. apply negb_true_iff, is_empty_false in Hne. auto.
    - intros (s0 & Hs0 & Hne & <-). exists (k0, reload_session s0). split; [reflexivity|]. apply filter_In. split.
      + unfold live. apply elem_of_list_In, elem_of_map_to_list. now rewrite lookup_fmap, Hs0.
      + cbn. apply negb_true_iff, is_empty_false. exact Hne. }
  destruct (sv_nicks sv !! n) as [k|] eqn:Hk.
  - destruct (i_idx_sound sv I _ _ Hk) as (Hne & s & Hs & Hd & Hl).
    assert (Hnick : s_nick s <> "") by (intros E; apply Hne; rewrite <- Hl, E; reflexivity).
    apply elem_of_list_to_map_1'.
    + intros k' Hk'. apply elem_of_list_In, Hin in Hk'. destruct Hk' as (s' & Hs' & Hne' & Hl').
      pose proof (i_idx_complete sv I _ _ Hs' (L _ _ Hs') Hne') as C. rewrite Hl' in C. congruence.
    + apply elem_of_list_In, Hin. exists s. auto.
  - apply not_elem_of_list_to_map_1. intros Hcontra. apply elem_of_list_fmap in Hcontra.
    destruct Hcontra as ([n0 k0] & Heq & Hel). cbn in Heq. subst n0.
    apply elem_of_list_In, Hin in Hel. destruct Hel as (s & Hs & Hne & Hl).
    pose proof (i_idx_complete sv I _ _ Hs (L _ _ Hs) Hne) as C. rewrite Hl in C. congruence.
Qed.

Lemma reload_sessions sv k :
  sv_sessions (reload sv) !! k = reload_session <$> (sv_sessions sv !! k).
Proof. unfold reload. cbn [sv_sessions]. apply lookup_fmap. Qed.

(* a session that was created by a log entry with a positive timestamp is reproduced exactly *)
Lemma reload_session_id s :
  (0 < s_created s)%Z -> s_lastNonPing s <> None -> s_deleted s = false -> reload_session s = s.
Proof.
  intros Hc Hl Hd. unfold reload_session. destruct s; cbn in *.
  apply Z.ltb_lt in Hc. rewrite Hc. destruct s_lastNonPing; [|congruence]. subst. reflexivity.
Qed.

Lemma reload_rest sv :
  sv_channels (reload sv) = sv_channels sv /\ sv_svsholds (reload sv) = sv_svsholds sv /\
  sv_lastProcessed (reload sv) = sv_lastProcessed sv /\ sv_netname (reload sv) = sv_netname sv /\
  g_revision (sv_config (reload sv)) = g_revision (sv_config sv) /\
  g_operators (sv_config (reload sv)) = g_operators (sv_config sv) /\
  g_services (sv_config (reload sv)) = g_services (sv_config sv) /\
  g_banned (sv_config (reload sv)) = g_banned (sv_config sv) /\
  g_expiration (sv_config (reload sv)) = g_expiration (sv_config sv) /\
  g_maxSessions (sv_config (reload sv)) = g_maxSessions (sv_config sv) /\
  g_maxChannels (sv_config (reload sv)) = g_maxChannels (sv_config sv) /\
  g_captchaURL (sv_config (reload sv)) = g_captchaURL (sv_config sv) /\
  g_captchaHMAC (sv_config (reload sv)) = g_captchaHMAC (sv_config sv) /\
  g_captchaLogin (sv_config (reload sv)) = g_captchaLogin (sv_config sv) /\
  g_trustedBridges (sv_config (reload sv)) = g_trustedBridges (sv_config sv) /\
  g_cooloff (sv_config (reload sv)) = g_cooloff (sv_config sv).
Proof. repeat split. Qed.

(* the whitelisted origins are part of the snapshot (repaired: snapshot.proto field 12) *)
Lemma reload_keeps_whitelisted_origins sv :
  g_whitelistedOrigins (sv_config (reload sv)) = g_whitelistedOrigins (sv_config sv).
Proof. reflexivity. Qed.

Lemma reload_config sv : sv_config (reload sv) = sv_config sv.
Proof. unfold reload. cbn [sv_config]. destruct (sv_config sv); reflexivity. Qed.

(* save + load keeps the invariant *)
Lemma InvM_sessions_pointwise (sv sv' : server) (f : session -> session) :
  sess_same f -> InvM sv ->
  (forall k, sv_sessions sv' !! k = f <$> (sv_sessions sv !! k)) ->
  sv_nicks sv' = sv_nicks sv -> sv_channels sv' = sv_channels sv -> InvM sv'.
Proof.
  intros Hf I Hs Hn Hc. split; rewrite ?Hn, ?Hc.
  - intros k s'. rewrite Hs. destruct (sv_sessions sv !! k) as [s|] eqn:E; [|discriminate]. cbn. intros [= <-].
    destruct (Hf s) as (-> & _). eapply i_key; eauto.
  - intros n k Hk. destruct (i_idx_sound sv I _ _ Hk) as (Hne & s & Hss & Hd & Hl). split; [exact Hne|].
    exists (f s). rewrite Hs, Hss. split; [reflexivity|]. destruct (Hf s) as (_ & -> & _ & ->). auto.
  - intros k s'. rewrite Hs. destruct (sv_sessions sv !! k) as [s|] eqn:E; [|discriminate]. cbn. intros [= <-].
    destruct (Hf s) as (_ & -> & _ & ->). eapply i_idx_complete; eauto.
  - intros lc c n p Hcl Hm. destruct (i_memb_c sv I _ _ _ _ Hcl Hm) as (k & s & Hk & Hss & Hin).
    exists k, (f s). rewrite Hs, Hss. split; [exact Hk|]. split; [reflexivity|]. destruct (Hf s) as (_ & _ & -> & _). exact Hin.
  - intros k s' lc. rewrite Hs. destruct (sv_sessions sv !! k) as [s|] eqn:E; [|discriminate]. cbn. intros [= <-].
    destruct (Hf s) as (_ & -> & -> & ->). eapply i_memb_s; eauto.
  - apply (i_chan sv I).
Qed.

Theorem reload_EInv sv : EInv sv -> EInv (reload sv).
Proof.
  intros E. pose proof E as [I L A Lg].
  assert (Hn : sv_nicks (reload sv) = sv_nicks sv) by (apply map_eq; intros n; now apply reload_nicks).
  assert (Hsame : forall s, s_deleted s = false -> s_key (reload_session s) = s_key s /\ s_nick (reload_session s) = s_nick s /\
            s_channels (reload_session s) = s_channels s /\ s_deleted (reload_session s) = s_deleted s).
  { intros s Hd. unfold reload_session. cbn. rewrite Hd. repeat split. }
  split.
  - (* reload_session is the identity on the four fields for live sessions; all sessions are live *)
    split; rewrite ?Hn; cbn [reload sv_sessions sv_channels].
    + intros k s'. rewrite lookup_fmap. destruct (sv_sessions sv !! k) as [s|] eqn:Es; [|discriminate]. cbn. intros [= <-].
      cbn. eapply i_key; eauto.
    + intros n k Hk. destruct (i_idx_sound sv I _ _ Hk) as (Hne & s & Hss & Hd & Hl). split; [exact Hne|].
      exists (reload_session s). rewrite lookup_fmap, Hss. split; [reflexivity|]. cbn. auto.
    + intros k s'. rewrite lookup_fmap. destruct (sv_sessions sv !! k) as [s|] eqn:Es; [|discriminate]. cbn. intros [= <-].
      cbn. intros _ Hnn. eapply i_idx_complete; eauto.
    + intros lc c n p Hcl Hm. destruct (i_memb_c sv I _ _ _ _ Hcl Hm) as (k & s & Hk & Hss & Hin).
      exists k, (reload_session s). rewrite lookup_fmap, Hss. auto.
    + intros k s' lc. rewrite lookup_fmap. destruct (sv_sessions sv !! k) as [s|] eqn:Es; [|discriminate]. cbn. intros [= <-].
      cbn. intros _ Hin. eapply i_memb_s; eauto.
    + apply (i_chan sv I).
  - intros k s'. rewrite reload_sessions. destruct (sv_sessions sv !! k) as [s|]; [|discriminate]. cbn. intros [= <-]. reflexivity.
  - intros k s'. rewrite reload_sessions. destruct (sv_sessions sv !! k) as [s|] eqn:Es; [|discriminate]. cbn. intros [= <-] Hk0.
    cbn. eapply A; eauto.
  - intros k s'. rewrite reload_sessions. destruct (sv_sessions sv !! k) as [s|] eqn:Es; [|discriminate]. cbn. intros [= <-].
    unfold login_bit. cbn. eapply Lg; eauto.
Qed.
