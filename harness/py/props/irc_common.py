# irc_common.py — shared check logic of the IRC state machine properties
# (C01 C03 C06 C12 C13 C14 C15 C17): proof obligations, command-table tie, generated histories on
# the real state machine (3 instances + twins, all monitors of irclib) and on the extracted Coq
# model, projected comparison, verdict.
import json, os, re, sys, time
import vlib, irclib, irc_smoke

IRC_TRUSTED = [
    "irclib.py generators/monitors/shrinker and the Go driver ircdrv (harness/go/main/zz_verif_irc_test.go, harness/go/ircserver/zz_verif_export.go), which calls the real (*FSM).applyRobustMessage",
    "regex scan of internal/ircserver/*.go for the command table (names, MinParams, aliases) compared with the model's table",
    "modelled, not verified: vendored irc.v2 parser/encoder (Irc/Parse.v), strings.ToLower/ToUpper on ASCII + 2-byte Latin-1, Go regexp on quoted ban masks (Irc/Cmds.v re_match), fnv64, time arithmetic as Z ns; oracles: HMAC verification of captcha tokens (table shipped with each case), TOML parsing (structured config shipped with each case); captcha URLs and the server-creation text of numeric 003 are masked on both sides",
    "outside the modelled domain (skipped and counted as out_of_domain): non-decimal SVSHOLD durations / services TOPIC timestamps, non-ASCII command words, cased runes above U+00FF",
]
IRC_ASSUMPTIONS = [
    "services lines are protocol-conforming (DESIGN.md Appendix A.4: prefix present, parameter counts, valid fresh nicknames, no FNV-64 collision of pseudo-client nicknames); client lines are arbitrary",
    "session secrets have at least 8 bytes and session ids are fresh (what createsession.go produces)",
]


def scan_cmd_table():
    """translator-lite: Commands[...] registrations of the current source -> {name: minparams}"""
    d = os.path.join(vlib.REPO, "internal", "ircserver")
    table, alias_targets, unrec = {}, {}, []
    for fn in sorted(os.listdir(d)):
        if not fn.endswith(".go") or fn.endswith("_test.go"):
            continue
        src = open(os.path.join(d, fn)).read()
        for m in re.finditer(r'Commands\["([^"]+)"\]\s*=\s*(&ircCommand\{(.*?)\n?\s*\}|Commands\["([^"]+)"\]|(\w+))', src, re.S):
            name = m.group(1)
            if name == "PANIC":
                continue   # test-only, behind ROBUSTIRC_TESTING_ENABLE_PANIC_COMMAND
            if m.group(3) is not None:
                mp = re.search(r"MinParams:\s*(\d+)", m.group(3))
                table[name] = int(mp.group(1)) if mp else 0
            elif m.group(4):
                alias_targets[name] = m.group(4)
            elif m.group(5):
                # a variable such as serviceAlias: find its MinParams
                var = m.group(5)
                vm = re.search(var + r"\s*:=\s*&ircCommand\{(.*?)\n\s*\}", src, re.S)
                if vm:
                    mp = re.search(r"MinParams:\s*(\d+)", vm.group(1))
                    table[name] = int(mp.group(1)) if mp else 0
                else:
                    unrec.append("%s:%s" % (fn, name))
    for name, tgt in alias_targets.items():
        if tgt in table:
            table[name] = table[tgt]
        else:
            unrec.append("alias %s->%s" % (name, tgt))
    return table, unrec


def model_cmd_table():
    line = vlib.run_model("irctable\n")[0]
    out = {}
    for item in line.split(" ", 1)[1].split(","):
        n, mp = item.rsplit(":", 1)
        out[n] = int(mp)
    return out


# ---------------------------------------------------------------- projections
def _msg_fields(tok):
    r, d, rc = tok.split(":")
    return r, d, rc


def _dump_records(tok):
    return tok[3:].split(";") if tok.startswith("st=") else []


def _kv(rec):
    f = rec.split("/")
    return f[0], f[1:], {x.split("=", 1)[0]: x.split("=", 1)[1] for x in f if "=" in x}


def _line_head(datahex):
    try:
        b = bytes.fromhex(datahex) if datahex != "-" else b""
    except ValueError:
        return datahex
    parts = b.split(b" ", 2)
    if parts and parts[0].startswith(b":"):
        return (parts[0] + b" " + (parts[1] if len(parts) > 1 else b"")).hex()
    return parts[0].hex() if parts else ""


def project_step(prop, step):
    """step = one ' | '-separated element of an output line -> canonical projected text"""
    toks = step.split(" ")
    outcome = toks[0]
    if outcome.startswith("panic="):
        # the model names the Go expression that panics, the runtime prints its own text: compare the fact, not the text
        outcome = "panic"
    msgs = [t for t in toks[3:] if not t.startswith("st=")]
    recs = []
    for t in toks[3:]:
        recs += _dump_records(t)
    out = [outcome]
    if prop in ("C01", "C03"):
        out += msgs + recs
    elif prop == "C06":
        out = [outcome.split("=")[0] if outcome.startswith(("panic", "gap")) else "nopanic"]
    elif prop == "C12":
        for t in msgs:
            r, d, rc = _msg_fields(t)
            out.append("%s:%s:%s" % (r, _line_head(d), rc))
    elif prop == "C15":
        for t in msgs:
            r, d, rc = _msg_fields(t)
            out.append("%s:%s" % (r, d))
    elif prop == "C13":
        for rec in recs:
            kind, f, kv = _kv(rec)
            if kind == "S":
                out.append("S/%s/%s/op=%s/srv=%s/modes=%s/ch=%s/inv=%s" % (f[0], f[1], kv.get("op"), kv.get("srv"), kv.get("modes"), kv.get("ch"), kv.get("inv")))
            elif kind == "C":
                out.append("C/%s/topic=%s/tnick=%s/modes=%s/key=%s/bans=%s/m=%s" % (f[0], kv.get("topic"), kv.get("tnick"), kv.get("modes"), kv.get("key"), kv.get("bans"), kv.get("m")))
            elif kind == "G":
                out.append("G/banned=%s" % kv.get("banned"))
    elif prop == "C14":
        for rec in recs:
            kind, f, kv = _kv(rec)
            if kind == "S":
                out.append("S/%s/%s/nick=%s/del=%s/ch=%s" % (f[0], f[1], kv.get("nick"), kv.get("del"), kv.get("ch")))
            elif kind == "N":
                out.append(rec)
            elif kind == "C":
                out.append("C/%s/name=%s/m=%s" % (f[0], kv.get("name"), re.sub(r":[01n][01il]+", "", kv.get("m", ""))))
    elif prop == "C17":
        for rec in recs:
            kind, f, kv = _kv(rec)
            if kind == "S":
                out.append("S/%s/%s/la=%s" % (f[0], f[1], kv.get("la")))
            elif kind in ("N", "L"):
                out.append(rec)
        for t in msgs:
            r, d, rc = _msg_fields(t)
            out.append("%s::%s" % (r, rc))
    return " ".join(out)


def project_line(prop, line):
    steps = line.split(" | ")[1:]
    return [project_step(prop, s) for s in steps]


def strip_go(step):
    """Go prints inv=<codes> and (with dump=each) a state per step; the model run uses dump=end"""
    return re.sub(r" inv=\S+", " inv=-", step)


def out_of_domain(case, mline):
    if " gap=" in (" " + mline) or "gap=" in mline:
        return "model-gap"
    for e in case["entries"]:
        if e["k"] in ("M", "X"):
            data = e.get("data", b"")
            word = data.lstrip(b":").split(b" ", 1)[0] if not data.startswith(b":") else (data.split(b" ", 2)[1] if len(data.split(b" ", 2)) > 1 else b"")
            if any(c >= 0x80 for c in word):
                return "non-ascii-command"
            if e["k"] == "M" and not re.match(rb"^[0-9a-fA-F.:]*\Z", e.get("ra", b"")):
                # a remote address with regular-expression syntax in it: the model's matcher covers quoted masks and plain
                # addresses (RE2's parser is not modelled); such histories still run on the implementation under all monitors
                return "remote-address-outside-model"
    return None


PREFIX_CMDS = {"JOIN", "PART", "KICK", "MODE", "TOPIC", "PRIVMSG", "NOTICE", "INVITE", "SVSJOIN", "SVSPART", "KILL"}


def services_line_conforming(state, data):
    """python rendering of IrcProofs/Top.v `conforming` (DESIGN Appendix A.4) for a line of an authenticated link"""
    m = irclib.go_parse_message(data)
    if m is None:
        return True
    prefix, cmd, params = m
    cmd = cmd.upper() if isinstance(cmd, bytes) else cmd
    cmd = cmd.decode("latin-1") if isinstance(cmd, bytes) else cmd
    if cmd in PREFIX_CMDS and prefix is None:
        return False
    if cmd in ("JOIN", "PART", "MODE") and len(params) < 1:
        return False
    if cmd == "NICK":
        if len(params) == 1:
            return True
        if len(params) < 4 or not irclib.is_valid_nick(params[0]):
            return False
    if cmd == "SVSNICK" and len(params) >= 2:
        if state is not None and state.member_session(irclib.nick_to_lower(params[1])) is not None:
            return False
    if cmd == "TOPIC" and len(params) >= 3 and not re.match(rb"^-?[0-9]+$", params[2]):
        return False
    if cmd == "SVSHOLD" and len(params) >= 2 and not re.match(rb"^[0-9]+$", params[1]):
        return False
    return True


def in_domain_finding(case, step):
    """False if the finding at [step] was caused by a non-conforming line of an authenticated services link"""
    try:
        e = case["entries"][step]
        if e["k"] != "M":
            return True
        trs, _ = irclib.run_cases([case], opts="dump=each", tag="dom")
        tr = trs[0]
        st = tr.pre(step)
        if st is None:
            return True
        sess = st.sessions.get((e["sid"], 0)) if hasattr(st, "sessions") else None
        if sess is None or not sess.get("srv"):
            return True
        return services_line_conforming(st, e["data"])
    except Exception:
        return True


def _codes(step):
    out = []
    for m in step.msgs:
        w = m.data.split(b" ")
        out.append((w[1] if m.data[:1] == b":" and len(w) > 1 else w[0], tuple(sorted(m.rcpt))))
    return (step.outcome.split("=")[0], out)


def time_shift_search(cs, delta=10 * 365 * 86400 * 10 ** 9):
    """run each case as is and with all entry timestamps (and expiry 'now' values) moved by +delta (past today's wall
    clock); returns a replay dict for the first case whose sequences of (command/numeric, recipients) differ."""
    # captcha tokens carry absolute times: drop the lines that present one (what remains is still a history)
    cs = [dict(c, oracles=[], entries=[e for e in c["entries"] if b"captcha=" not in e.get("data", b"").lower()]) for c in cs]
    shifted = []
    for c in cs:
        c2 = dict(c, entries=[dict(e) for e in c["entries"]])
        for e in c2["entries"]:
            if "ts" in e:
                e["ts"] += delta
            if "now" in e:
                e["now"] += delta
        shifted.append(c2)
    tr, _ = irclib.run_cases(cs + shifted, opts="-", tag="tshift")
    n = len(cs)
    for i in range(n):
        a, b = tr[i], tr[n + i]
        if not (a.ok and b.ok):
            continue
        for j, (x, y) in enumerate(zip(a.steps, b.steps)):
            if _codes(x) != _codes(y):
                return {"what": "the same history with every timestamp moved by +10 years answers entry %d differently: %s vs %s — "
                                "the result depends on something outside the entries (wall-clock time)" % (j, _codes(x), _codes(y)),
                        "step": j, "cases": [irclib.case_line(cs[i]), irclib.case_line(shifted[i])],
                        "how_to_replay": "bin/check C01 --replay <this file> (both cases must give the same commands and recipients)"}
    return None


def go_coverage(lines, limit=400):
    """statement coverage of internal/ircserver reached by the correspondence driver on [lines] (the cover tool cannot
    read overlay files, so a copy of the working tree with the harness files written into it is used).  Returns a dict
    for the evidence: total percentage, and the uncovered blocks inside the command handlers."""
    import shutil, subprocess
    wd = os.path.join(vlib.workdir(), "covtree")
    shutil.rmtree(wd, ignore_errors=True)
    shutil.copytree(vlib.REPO, wd, ignore=shutil.ignore_patterns(".git"))
    for k, v in irclib.OVERLAY.items():
        shutil.copy(os.path.join(vlib.HGO, v), os.path.join(wd, k))
    inp, outp, prof = os.path.join(wd, "cov.in"), os.path.join(wd, "cov.out"), os.path.join(wd, "cov.profile")
    open(inp, "w").write("\n".join(lines[:limit]) + "\n")
    env = vlib.go_env()
    env.update({"VERIF_IN": inp, "VERIF_OUT": outp, "VERIF_STATS": outp + ".stats"})
    rc, out = vlib.sh(["go", "test", "-tags", "verif", "-vet=off", "-count=1", "-run", "^TestVerifIrc$", "-coverpkg=./internal/ircserver/",
                       "-coverprofile=" + prof, "."], cwd=wd, env=env, timeout=900)
    res = {"ran": rc == 0 and os.path.exists(prof), "cases": min(limit, len(lines))}
    if res["ran"]:
        tot = cov = 0
        unc = {}
        for l in open(prof).read().split("\n")[1:]:
            m = re.match(r"(.*):(\d+)\.\d+,(\d+)\.\d+ (\d+) (\d+)", l)
            if not m or "zz_verif" in m.group(1):
                continue
            f = m.group(1).split("/")[-1]
            n, c = int(m.group(4)), int(m.group(5))
            handler = f.startswith(("cmd_", "scmd_")) or f in ("commands.go", "server_commands.go", "modes.go")
            if handler:
                tot += n
                cov += n if c else 0
                if not c:
                    unc.setdefault(f, []).append("%s-%s" % (m.group(2), m.group(3)))
        res["handler_statements"] = tot
        res["handler_statements_covered"] = cov
        res["handler_coverage_percent"] = round(100.0 * cov / max(1, tot), 1)
        res["uncovered_handler_blocks"] = {f: v[:12] for f, v in sorted(unc.items())}
    else:
        res["output"] = out[-600:]
    shutil.rmtree(wd, ignore_errors=True)
    return res


def panic_probe_search(case, step, limit=900):
    """directed search for a panic: the history up to [step] (where an invariant monitor or the correspondence saw the
    implementation leave the proved invariant / the model) followed by ONE probing line of every session about every
    channel and nickname seen so far.  Returns a replay dict for the first probe that panics."""
    ents = [e for e in case["entries"][:step + 1]]
    sids, chans, nicks = [], [], []
    for e in ents:
        if e["k"] == "C" and e["id"] not in sids:
            sids.append(e["id"])
        if e["k"] == "M":
            for w in e["data"].replace(b",", b" ").split(b" "):
                w = w.lstrip(b":")
                if w[:1] == b"#" and w.lower() not in [c.lower() for c in chans]:
                    chans.append(w)
            f = e["data"].split(b" ")
            if f and f[0].upper() == b"NICK" and len(f) > 1 and f[1].lstrip(b":") not in nicks:
                nicks.append(f[1].lstrip(b":"))
    # most recent names first: the violating entry talks about them
    chans, nicks, sids = chans[::-1][:6], nicks[::-1][:6], sids[::-1][:12]
    last = max([e.get("id", 0) for e in ents] + [0])
    ts = max([e.get("ts", 0) for e in ents] + [0])
    lines = []
    for c in chans:
        lines += [b"TOPIC %s :probe" % c, b"TOPIC " + c, b"MODE %s +i" % c, b"MODE " + c, b"MODE %s +b" % c, b"NAMES " + c, b"PART " + c,
                  b"JOIN " + c, b"PRIVMSG %s :probe" % c, b"WHO " + c, b"LIST " + c]
        for n in nicks[:3]:
            lines += [b"KICK %s %s" % (c, n), b"INVITE %s %s" % (n, c), b"MODE %s +o %s" % (c, n)]
    for n in nicks:
        lines += [b"WHOIS " + n, b"PRIVMSG %s :probe" % n, b"NICK " + n]
    lines += [b"NICK zzprobe", b"QUIT :probe", b"LIST", b"AWAY :probe", b"WHO *"]
    probes = []
    for sid in sids:
        for ln in lines:
            probes.append({"k": "M", "id": last + 1, "ts": ts + 10 ** 9, "sid": sid, "cmid": 424242, "ra": b"10.9.9.9", "data": ln})
    probes = probes[:limit]
    if not probes:
        return None
    cs = [dict(case, entries=ents + [p]) for p in probes]
    tr, _ = irclib.run_cases(cs, opts="-", tag="probe")
    for c, t in zip(cs, tr):
        if t.steps is None:
            continue
        for j, st in enumerate(t.steps):
            if st.outcome.startswith("panic="):
                where = (t.panics or {}).get(j)
                return {"what": "panic %r at %s while applying %s after the history left the proved invariant at entry %d" % (
                            irclib.unhx(st.outcome[6:])[:120], where, irclib.entry_text(c["entries"][j]) if j < len(c["entries"]) else "?", step),
                        "step": j, "cases": [irclib.case_line(c)], "probes_tried": len(probes),
                        "how_to_replay": "bin/check C06 --replay <this file>"}
    return None


def run_irc_check(ck, prop, prefix, replay, n_quick=120, n_thorough=2500, kinds=None, extra=None):
    ck.cov["trusted_base"] += IRC_TRUSTED
    ck.assumptions += IRC_ASSUMPTIONS
    ok = ck.proof_obligations()
    if not ok:
        ck.violation("proof-broken", {"what": "proof obligations not discharged", "errors": ck.proof_errors,
                                      "obligation": ck.proof_result.get("broken_at", "Properties/%s.v" % prop),
                                      "coq_output": ck.proof_result["output_tail"]}, concrete=False)
    # ---- command table tie
    try:
        src_tab, unrec = scan_cmd_table()
        mod_tab = model_cmd_table()
        same = src_tab == mod_tab
        ck.add_obligation(same, "command table of the source (names, MinParams) equals the model's table")
        ck.notes["cmd_table"] = {"source_commands": len(src_tab), "model_commands": len(mod_tab), "unrecognised": unrec,
                                 "only_in_source": sorted(set(src_tab) - set(mod_tab)), "only_in_model": sorted(set(mod_tab) - set(src_tab)),
                                 "minparams_differ": sorted(k for k in src_tab if k in mod_tab and src_tab[k] != mod_tab[k])}
        if not same:
            ck.violation("cmd-table", {"what": "the command table of the source differs from the model's: a command the model does not know is a hole in every for-all-lines theorem",
                                       "obligation": "command table tie", "detail": ck.notes["cmd_table"]}, concrete=False)
    except Exception as ex:
        ck.add_obligation(False, "command table scan failed: %r" % ex)
        ck.violation("cmd-table-scan", {"what": "command table scan failed", "error": repr(ex), "obligation": "command table tie"}, concrete=False)

    # ---- cases
    san = irc_smoke.detect_sanitize()
    gen = irclib.Gen(ck.rng, sanitize=san)
    if replay:
        rp = json.load(open(replay))
        cases = [irclib.parse_case_line(l) for l in rp.get("cases", [])]
    else:
        n = n_quick if ck.tier == "quick" else n_thorough
        cases = []
        cdir = os.path.join(vlib.ROOT, "corpus", "irc")
        for fn in sorted(os.listdir(cdir)):
            # D16 (SVSNICK that only changes the case) is outside the domain of the properties ("onto free nicknames")
            if fn.endswith(".case") and fn not in ("D16.case",):
                # cases with expiry sweeps were written relative to the wall clock of that moment: re-based to now
                c = irclib.rebase_wallclock(irclib.parse_case_line(open(os.path.join(cdir, fn)).read()))
                if c is not None:
                    cases.append(irclib.apply_sanitizer(c, san))
        ncorp = len(cases)
        ks = kinds or [None]
        while len(cases) < ncorp + n:
            cases.append(gen.history(ks[len(cases) % len(ks)]))
        # every kind of scene in short histories of its own, so that no run depends on which scenes the long histories draw
        for nm in irclib.Gen.SCENES:
            for _ in range(2 if ck.tier == "quick" else 12):
                cases.append(gen.scene_history(nm))
        if extra:
            cases += extra(gen)
        if True:
            # every history is saved and loaded at its end (whatever it built up is compared field by field) and once
            # somewhere in its second half (the continuation is compared with the run without save+load): restore is
            # part of every replica's life, so every property is judged across it (C03 compares the dumps; C06 nil maps
            # after a restore; C13/C14/C17 state that a restore must not grant, break or expire anything)
            for c in cases[ncorp:]:
                n_e = len(c["entries"])
                if n_e > 8:
                    c["entries"].insert(ck.rng.randint(n_e // 2, n_e - 1), {"k": "S"})
                if c["entries"] and c["entries"][-1]["k"] != "S":
                    c["entries"].append({"k": "S"})
    if os.environ.get("VERIF_DUMP_CASES"):
        with open(os.environ["VERIF_DUMP_CASES"], "w") as f:
            f.write("\n".join(irclib.case_line(c) for c in cases) + "\n")
    t0 = time.time()
    findings, infos = irc_smoke.check_cases(cases)
    go_wall = time.time() - t0
    # the model runs the same lines with dump=end (printing a state per step dominates its run time)
    lines_end = [irclib.case_line(c, "dump=end") for c in cases]
    t0 = time.time()
    mlines = vlib.run_model("\n".join(lines_end) + "\n")
    model_wall = time.time() - t0
    traces, _ = irclib.run_cases(cases, opts="dump=end", tag="cmp")
    golines = [t.line if t.line else "" for t in traces]
    if ck.tier == "thorough":
        sample = "\n".join(lines_end[:12]) + "\n"
        try:
            vm = vlib.run_model_vm(sample)
            ck.add_obligation(vm == mlines[:12], "extracted model agrees with vm_compute inside coqc on 12 histories")
        except Exception as ex:
            ck.notes["vm_crosscheck_error"] = repr(ex)[:300]
    mism, ood, compared = [], {}, 0
    for i, c in enumerate(cases):
        ml = mlines[i] if i < len(mlines) else ""
        gl = golines[i]
        why = out_of_domain(c, ml)
        if why:
            ood[why] = ood.get(why, 0) + 1
            continue
        compared += 1
        gp = project_line(prop, " | ".join(["irc"] + [strip_go(s) for s in gl.split(" | ")[1:]]))
        mp = project_line(prop, ml)
        if gp != mp:
            j = next((k for k in range(max(len(gp), len(mp))) if (gp[k] if k < len(gp) else None) != (mp[k] if k < len(mp) else None)), 0)
            mism.append((i, j, gp[j] if j < len(gp) else None, mp[j] if j < len(mp) else None))
    # ---- monitors of this property
    mine, others = {}, {}
    for ci, fs in enumerate(findings):
        for sig, msg, step in fs:
            (mine if sig.startswith(prefix + ":") or sig.startswith("harness:") else others).setdefault(sig, []).append((ci, step, msg))
    nent = sum(len(c["entries"]) for c in cases)
    cmds = {}
    for c in cases:
        for e in c["entries"]:
            if e["k"] in ("M",):
                w = e.get("data", b"").lstrip(b":").split(b" ", 1)
                if e.get("data", b"").startswith(b":"):
                    w = e["data"].split(b" ", 2)[1:2] or [b""]
                k = w[0].upper()[:12].decode("latin-1")
                cmds[k] = cmds.get(k, 0) + 1
            else:
                cmds["<" + e["k"] + ">"] = cmds.get("<" + e["k"] + ">", 0) + 1
    distinct = len(set(irclib.case_line(c) for c in cases if len(c["entries"]) >= 5))
    ck.cov["evaluations"] = len(cases)
    ck.cov["distinct_nontrivial"] = distinct
    ck.cov["disagreements_checked"] = compared
    ck.cov["traces_validated_against_impl"] = compared
    ck.cov["rule"] = ("corpus cases first, then histories from irclib.Gen (3-8 clients, optional operator and services link with "
                      "pseudo-clients, colliding name pools, Config entries, captcha tokens, S/G/P/E probes; malformed stream: every command x "
                      "parameter shapes x roles); each history runs on 3 fresh Go state machines (2 processes) and on the extracted model; "
                      "non-trivial = at least 5 entries; distinct by case text")
    top = sorted(cmds.items(), key=lambda kv: -kv[1])[:40]
    ck.cov["input_distribution"] = {"entries": nent, "commands_top40": dict(top), "out_of_domain_skipped": ood,
                                    "go_wall_s": round(go_wall, 1), "model_wall_s": round(model_wall, 1),
                                    "driver": infos[0].get("stats") if infos else None,
                                    "other_properties_signatures_seen": sorted(others)[:20]}
    ck.cov["samples"] = [{"case": lines_end[i][:600], "impl": golines[i][:400], "model": mlines[i][:400]} for i in range(min(2, len(cases)))]
    # ---- verdict
    nonconf = 0
    for sig in sorted(mine):
        occ = [o for o in mine[sig] if in_domain_finding(cases[o[0]], o[1])] if prop in ("C06", "C14") else mine[sig]
        nonconf += len(mine[sig]) - len(occ)
        if not occ:
            continue
        mine[sig] = occ
        ci, step, msg = occ[0]
        case = cases[ci]
        small = case
        if ck.tier == "quick" and len(mine) <= 3 and not sig.startswith("harness:"):
            try:
                def many(cs, sig=sig):
                    r, _ = irc_smoke.check_cases(cs)
                    return [any(f[0] == sig for f in fs) for fs in r]
                small = irclib.shrink(case, None, many)
            except Exception:
                small = case
        ck.violation(sig, {"what": msg[:800], "step": step, "cases": [irclib.case_line(small)], "entries": len(small["entries"]),
                           "occurrences": len(mine[sig]),
                           "how_to_replay": "bin/check %s --replay <this file>" % prop}, concrete=True)
    ck.notes["findings_on_nonconforming_services_lines_ignored"] = nonconf
    if prop == "C06" and not ck.violations and not replay:
        # the no-panic theorem rests on the invariant: where the implementation leaves it (an invariant monitor fired) or
        # leaves the model (correspondence), search for the panic that now becomes possible
        cand = []
        for sig in sorted(others):
            if sig.startswith("c14:"):
                occ = [o for o in others[sig] if in_domain_finding(cases[o[0]], o[1])]
                if occ:
                    cand.append((occ[0][0], occ[0][1], sig))
        cand += [(i, j, "correspondence") for (i, j, g, m) in mism[:2]]
        tried = 0
        for ci, step, why in cand[:4]:
            tried += 1
            hit = panic_probe_search(cases[ci], step)
            if hit:
                hit["found_after"] = why
                ck.violation("c06:panic:probe", hit, concrete=True)
                break
        ck.notes["panic_probe_searches"] = tried
    if prop == "C06" and not replay:
        try:
            ck.cov["go_statement_coverage_of_handlers"] = go_coverage([irclib.case_line(c, "-") for c in cases])
        except Exception as ex:
            ck.notes["go_coverage_error"] = repr(ex)[:300]
    if mism and not [x for x in ck.violations] and prop == "C01":
        # search for a concrete failing input: the same history with every timestamp moved by the same amount must
        # produce the same replies (all uses of time in the state machine are differences of entry timestamps); a
        # difference means something outside the entries (the wall clock) is consulted
        hit = time_shift_search([cases[i] for i in sorted({x[0] for x in mism})[:8]])
        if hit:
            ck.violation("c01:time-shift", hit, concrete=True)
    if mism and not [x for x in ck.violations]:
        i, j, g, m = mism[0]
        ck.violation("correspondence:irc", {"what": "the Coq model and the implementation disagree on the projection for %s; no monitor of the property flagged an input" % prop,
                                            "obligation": "correspondence ircdrv (Irc/*.v vs internal/ircserver + statemachine.go)",
                                            "cases": [lines_end[i]], "step": j, "impl": (g or "")[:1500], "model": (m or "")[:1500],
                                            "mismatching_cases": len(mism)}, concrete=False)
    elif mism:
        ck.notes["correspondence_mismatches"] = len(mism)
    vlib.cleanup_workdir()
