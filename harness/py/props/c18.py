# C18 — format round-trips: proof obligations + source scan of the reader/writer copies and of
# types.proto + correspondence of the codec models (Store/Wire.v, Proto.v, Batch.v) with
# robust.Message{ProtoMessage,CopyToProtoMessage,NewMessageFromBytes}, the LevelDBStore RaftLog
# writers/readers, raftlog.FromBytes and outputstream's batch codec + Go-only round-trip monitors.
import json, os, re
import vlib

U64 = 1 << 64
S_INDEX = 0x737461626c657374  # bytes "stablest": the index key right before every stablestore- key


# ------------------------------------------------------------------ helpers
def hx(b):
    return b.hex() if b else "-"


def unhx(s):
    return b"" if s == "-" else bytes.fromhex(s)


def go_run(kind, lines, tag):
    """run one of the Go drivers on case lines; returns (list of output lines | None, go output)"""
    cfg = {"codec": ("./internal/robust/", "robust/zz_verif_codec_test.go", "^TestVerifCodec$"),
           "store": ("./internal/raftstore/", "raftstore/zz_verif_store_test.go", "^TestVerifStore$"),
           "batch": ("./internal/outputstream/", "outputstream/zz_verif_batch_test.go", "^TestVerifBatch$"),
           "readers": ("./", "main/zz_verif_readers_test.go", "^TestVerifReaders$")}[kind]
    wd = vlib.workdir()
    inp, outp = os.path.join(wd, tag + ".in"), os.path.join(wd, tag + ".out")
    with open(inp, "w") as f:
        f.write("\n".join(lines) + "\n")
    if os.path.exists(outp):
        os.remove(outp)
    virt = os.path.join(vlib.REPO, cfg[0][2:], os.path.basename(cfg[1]))
    rc, out = vlib.go_test(cfg[0], {virt: os.path.join(vlib.HGO, cfg[1])}, cfg[2],
                           {"VERIF_IN": inp, "VERIF_OUT": outp})
    if rc != 0 or not os.path.exists(outp):
        return None, out
    return open(outp).read().split("\n")[:-1], out


def vm_chunks(lines, limit=9000):
    """vm_compute cross-check in chunks: coqc overflows its stack on string literals of a few 10 kB"""
    out, cur, size = [], [], 0
    for l in lines + [None]:
        if l is None or (cur and size + len(l) > limit):
            out += vlib.run_model_vm("\n".join(cur) + "\n")
            cur, size = [], 0
        if l is not None:
            cur.append(l)
            size += len(l) + 1
    return out


def split_go(line):
    """Go drivers append ' || <go-only data>' to the canonical part"""
    if " || " in line:
        a, b = line.split(" || ", 1)
        return a, b
    return line, ""


# ------------------------------------------------------------------ messages
MSG_FIELDS = ["idid", "idreply", "sid", "sreply", "type", "data", "nano", "servers", "master", "cmid", "rev", "remote"]
TYPE_NAMES = ["create_session", "delete_session", "irc_from_client", "irc_to_client", "ping", "message_of_death",
              "config", "state", "any"]


def text_pool(rng, invalid_ok=False):
    k = rng.random()
    if k < 0.15:
        return b""
    if k < 0.45:
        return rng.choice([b"NICK foo", b"PRIVMSG #chaos-hd :heya", b"JOIN #i3", b"USER blah 0 * :Michael Stapelberg",
                           b"auth", b"127.0.0.1:6667", b"[::1]:13001", b"robustirc.net", b"p", b"pp", b"{", b"\x00", b"a b"])
    if k < 0.65:   # multi-byte UTF-8: 2, 3 and 4 byte sequences, boundaries of the ranges
        cps = [0x80, 0x7ff, 0x800, 0xd7ff, 0xe000, 0xffff, 0x10000, 0x10ffff, 0xfc, 0x4e16, 0x1f600, 0x2028]
        return "".join(chr(rng.choice(cps)) for _ in range(rng.randint(1, 12))).encode("utf-8")
    if k < 0.80:   # lengths around the varint boundaries of the length prefix
        n = rng.choice([126, 127, 128, 129, 255, 256, 16383, 16384, 16385, 70000])
        return bytes(rng.choice(b"abcdefghij #:\x01") for _ in range(n))
    if k < 0.95 or not invalid_ok:
        return bytes(rng.randint(0, 127) for _ in range(rng.randint(1, 40)))
    # invalid UTF-8 (outside the property's domain; both encoders must refuse it)
    return rng.choice([b"\xff", b"\xc0\x80", b"a\xed\xa0\x80", b"\xf4\x90\x80\x80", b"\xe2\x82", b"ok\x80"])


def u64_pool(rng):
    return rng.choice([0, 0, 1, 2, 127, 128, 255, 256, 16383, 16384, (1 << 32) - 1, 1 << 32, (1 << 63) - 1, 1 << 63,
                       U64 - 2, U64 - 1, 1432323893000000000, S_INDEX, S_INDEX + 1, rng.randint(0, U64 - 1),
                       rng.randint(0, 1000)])


def i64_pool(rng):
    return rng.choice([0, 0, 1, -1, 127, 128, -128, (1 << 31) - 1, 1 << 31, -(1 << 31), (1 << 63) - 1, -(1 << 63),
                       1432323893000000000, 1758800000123456789, rng.randint(-(1 << 63), (1 << 63) - 1)])


def gen_msg(rng, invalid_ok=False, types=None):
    k = rng.random()
    if types is not None:
        t = rng.choice(types)
    elif k < 0.85:
        t = rng.randint(0, 8)
    else:
        t = rng.choice([9, 100, (1 << 31) - 1, -1, -(1 << 31)])
    m = {"idid": u64_pool(rng), "idreply": rng.choice([0, 0, 1, 2, U64 - 1]), "sid": u64_pool(rng),
         "sreply": rng.choice([0, 0, 0, 1, U64 - 1]), "type": t, "data": text_pool(rng, invalid_ok),
         "nano": i64_pool(rng), "servers": [], "master": b"", "cmid": 0, "rev": 0, "remote": b""}
    if rng.random() < 0.5:
        m["servers"] = [text_pool(rng, invalid_ok)[:300] for _ in range(rng.randint(0, 4))]
    if rng.random() < 0.4:
        m["master"] = text_pool(rng, invalid_ok)[:300]
    if rng.random() < 0.5:
        m["cmid"] = u64_pool(rng)
    if rng.random() < 0.4:
        m["rev"] = u64_pool(rng)
    if rng.random() < 0.5:
        m["remote"] = text_pool(rng, invalid_ok)[:300]
    if rng.random() < 0.08:   # all-default message
        m.update({"idid": 0, "idreply": 0, "sid": 0, "sreply": 0, "type": 0, "data": b"", "nano": 0})
    return m


def msg_tokens(m):
    servers = "_" if not m["servers"] else "/".join(hx(s) for s in m["servers"])
    return [str(m["idid"]), str(m["idreply"]), str(m["sid"]), str(m["sreply"]), str(m["type"]), hx(m["data"]),
            str(m["nano"]), servers, hx(m["master"]), str(m["cmid"]), str(m["rev"]), hx(m["remote"])]


def show_msg(m):
    return "m:" + ",".join(msg_tokens(m))


def msg_line(m, index):
    return " ".join(["codec", "msg"] + msg_tokens(m) + [str(index)])


def valid_utf8(b):
    try:
        b.decode("utf-8")
        return True
    except UnicodeDecodeError:
        return False


def msg_in_domain(m):
    return (all(valid_utf8(x) for x in [m["data"], m["master"], m["remote"]] + m["servers"])
            and -(1 << 31) <= m["type"] < (1 << 31))


def msg_to_jsonable(m):
    d = dict(m)
    for k in ("data", "master", "remote"):
        d[k] = m[k].hex()
    d["servers"] = [s.hex() for s in m["servers"]]
    return d


def msg_from_jsonable(d):
    m = dict(d)
    for k in ("data", "master", "remote"):
        m[k] = bytes.fromhex(d[k])
    m["servers"] = [bytes.fromhex(s) for s in d["servers"]]
    return m


def json_text(m):
    """legacy JSON for a message, as json.Marshal(robust.Message) lays it out (only used as INPUT
    bytes for the Go code; requires valid UTF-8)"""
    d = {"Id": {"Id": m["idid"], "Reply": m["idreply"]}, "Session": {"Id": m["sid"], "Reply": m["sreply"]},
         "Type": m["type"], "Data": m["data"].decode("utf-8"), "UnixNano": m["nano"]}
    if m["servers"]:
        d["Servers"] = [s.decode("utf-8") for s in m["servers"]]
    if m["master"]:
        d["Currentmaster"] = m["master"].decode("utf-8")
    if m["cmid"]:
        d["ClientMessageId"] = m["cmid"]
    if m["rev"]:
        d["Revision"] = m["rev"]
    if m["remote"]:
        d["RemoteAddr"] = m["remote"].decode("utf-8")
    return json.dumps(d, ensure_ascii=False, separators=(",", ":")).encode("utf-8")


def default_id(m, index):
    r = dict(m)
    if r["idid"] == 0:
        r["idid"] = index
    return r


# ------------------------------------------------------------------ batches
def gen_batch(rng):
    b = {"next": rng.choice([U64 - 1, U64 - 1, 0, 1, rng.randint(0, U64 - 1)]), "msgs": []}
    n = rng.choice([0, 1, 1, 2, 3, 5, 12])
    idv = u64_pool(rng)
    for i in range(n):
        k = rng.random()
        rc = set()
        if k < 0.25:
            rc = set()
        elif k < 0.55:
            rc = {u64_pool(rng)}
        else:
            rc = {u64_pool(rng) for _ in range(rng.choice([2, 3, 5, 20]))}
        b["msgs"].append({"id": idv, "reply": rng.choice([i + 1, 0, U64 - 1]), "data": text_pool(rng)[:2000],
                          "rcpt": sorted(rc)})
    return b


def batch_line(b, order_rng=None):
    toks = []
    for m in b["msgs"]:
        rc = list(m["rcpt"])
        if order_rng:
            order_rng.shuffle(rc)
        toks.append("%d,%d,%s,%s" % (m["id"], m["reply"], hx(m["data"]), "/".join(map(str, rc)) if rc else "_"))
    return " ".join(["codec", "batch", str(b["next"])] + toks)


def show_batch(b):
    parts = [str(b["next"])]
    for m in b["msgs"]:
        parts.append("%d,%d,%s,%s" % (m["id"], m["reply"], hx(m["data"]),
                                      "/".join(map(str, sorted(set(m["rcpt"])))) if m["rcpt"] else "_"))
    return "b:" + ";".join(parts)


# ------------------------------------------------------------------ source-derived obligations
EXPECTED_PROTO = {  # what coq/Store/Proto.v encodes: message -> {field name: (number, type)}
    "RobustId": {"id": (1, "fixed64"), "reply": (2, "fixed64")},
    "RobustMessage": {"id": (1, "RobustId"), "session": (2, "RobustId"), "type": (3, "RobustType"), "data": (4, "string"),
                      "unix_nano": (5, "int64"), "servers": (6, "repeated string"), "current_master": (7, "string"),
                      "client_message_id": (8, "uint64"), "revision": (9, "uint64"), "remote_addr": (10, "string")},
    "RaftLog": {"index": (1, "uint64"), "term": (2, "uint64"), "type": (3, "LogType"), "data": (4, "bytes"),
                "extensions": (5, "bytes"), "appended_at": (6, "google.protobuf.Timestamp")},
}


def parse_proto(src):
    res = {}
    for name in EXPECTED_PROTO:
        m = re.search(r"message\s+%s\s*\{" % name, src)
        if not m:
            continue
        depth, i, body = 1, m.end(), []
        while i < len(src) and depth > 0:   # body without nested enum blocks
            c = src[i]
            if c == "{":
                depth += 1
            elif c == "}":
                depth -= 1
            elif depth == 1:
                body.append(c)
            i += 1
        fields = {}
        for fm in re.finditer(r"(repeated\s+)?([\w.]+)\s+(\w+)\s*=\s*(\d+)\s*;", re.sub(r"//[^\n]*", "", "".join(body))):
            if fm.group(2) == "enum":
                continue
            fields[fm.group(3)] = (int(fm.group(4)), ("repeated " if fm.group(1) else "") + fm.group(2))
        res[name] = fields
    return res


READER_ASSIGN = [r"%s\.Index = %s\.Index", r"%s\.Term = %s\.Term", r"%s\.Type = raft\.LogType\(%s\.Type\)",
                 r"%s\.Data = %s\.Data", r"%s\.Extensions = %s\.Extensions", r"%s\.AppendedAt = %s\.AppendedAt\.AsTime\(\)"]
WRITER_ASSIGN = [r"%s\.Index = %s\.Index", r"%s\.Term = %s\.Term", r"%s\.Type = pb\.RaftLog_LogType\(%s\.Type\)",
                 r"%s\.Extensions = %s\.Extensions", r"%s\.AppendedAt = timestamppb\.New\(%s\.AppendedAt\)"]


def count_blocks(src, pats, dst, srcv):
    """number of places where the assignments occur together, in order, on consecutive statements"""
    rx = r"\s*\n\s*".join(p % (dst, srcv) for p in pats)
    return len(re.findall(rx, src))


def source_facts():
    R = vlib.REPO
    facts = {}
    proto = parse_proto(open(os.path.join(R, "internal/proto/types.proto")).read())
    facts["types_proto_matches_model"] = proto == EXPECTED_PROTO
    if proto != EXPECTED_PROTO:
        facts["types_proto_seen"] = {k: {f: list(v) for f, v in d.items()} for k, d in proto.items()}
    rd = {}
    for rel, dst, srcv in [("internal/raftstore/leveldb.go", "rlog", "msg"), ("internal/raftlog/raftlog.go", "l", "p"),
                           ("statemachine.go", "nlog", "p"), ("logdump.go", "nlog", "p"), ("canary.go", "nlog", "p")]:
        try:
            s = open(os.path.join(R, rel)).read()
        except OSError:
            rd[rel] = -1
            continue
        rd[rel] = count_blocks(s, READER_ASSIGN, dst, srcv)
    facts["reader_copies"] = rd
    # every reader copy present exactly once and identical in shape (six fields, same sources)
    facts["readers_six_fields"] = all(v == 1 for v in rd.values())
    lv = open(os.path.join(R, "internal/raftstore/leveldb.go")).read()
    facts["writer_storelogs"] = count_blocks(lv, [WRITER_ASSIGN[0], WRITER_ASSIGN[1], WRITER_ASSIGN[2],
                                                   r"%s\.Data = %s\.Data", WRITER_ASSIGN[3], WRITER_ASSIGN[4]], "msg", "entry") == 1
    facts["writer_convert"] = len(re.findall(
        r"rlog\.Index = l\.Index\s*\n\s*rlog\.Term = l\.Term\s*\n\s*rlog\.Type = pb\.RaftLog_LogType\(l\.Type\)\s*\n\s*"
        r"rlog\.Extensions = l\.Extensions\s*\n\s*rlog\.AppendedAt = timestamppb\.New\(l\.AppendedAt\)", lv)) == 2
    sm = open(os.path.join(R, "statemachine.go")).read()
    facts["writer_apply"] = bool(re.search(
        r"pb\.RaftLog\{\s*Index:\s*l\.Index,\s*Term:\s*l\.Term,\s*Type:\s*pb\.RaftLog_LogType\(l\.Type\),\s*Data:\s*l\.Data,\s*"
        r"Extensions:\s*l\.Extensions,\s*AppendedAt:\s*timestamppb\.New\(l\.AppendedAt\),\s*\}", sm))
    facts["restore_uses_index_and_data"] = bool(re.search(
        r"NewMessageFromBytes\(entry\.Data, robust\.IdFromRaftIndex\(entry\.Index\)\)", sm)) and bool(re.search(
        r"binary\.BigEndian\.PutUint64\(lenbuf\[:\], entry\.Index\)\s*\n\s*batch\.Put\(lenbuf\[:\], buf\)", sm))
    api = open(os.path.join(R, "internal/api/api.go")).read()
    facts["api_p_prefix"] = bool(re.search(
        r"proto\.Marshal\(msg\.ProtoMessage\(\)\)[^}]*\}\s*msgbytes = append\(\[\]byte\{'p'\}, msgbytes\.\.\.\)", api, re.S))
    return facts


# ------------------------------------------------------------------ mutations for the decode direction
def varint(n):
    out = bytearray()
    while True:
        b = n & 0x7f
        n >>= 7
        if n:
            out.append(b | 0x80)
        else:
            out.append(b)
            return bytes(out)


def mutate(rng, pbytes):
    """variants of a model-produced 'p'+protobuf value that exercise the decoder: unknown fields,
    non-minimal varints, truncation, a repeated scalar (last wins), missing sub-messages"""
    body = pbytes[1:]
    k = rng.randint(0, 6)
    if k == 0:
        return b"p" + body + bytes([15 << 3 | 0]) + varint(rng.randint(0, U64 - 1))      # unknown varint field 15
    if k == 1:
        blob = bytes(rng.randint(0, 255) for _ in range(rng.randint(0, 9)))
        return b"p" + bytes([14 << 3 | 2]) + varint(len(blob)) + blob + body                # unknown bytes field 14 in front
    if k == 2:
        return b"p" + body + bytes([3 << 3 | 0, 0x85, 0x80, 0x00])                           # type=5, non-minimal varint
    if k == 3:
        return b"p" + body[:rng.randint(0, max(0, len(body) - 1))]                            # truncated
    if k == 4:
        return b"p" + body + bytes([8 << 3 | 0]) + varint(7) + bytes([8 << 3 | 0]) + varint(9)  # cmid twice: last wins
    if k == 5:
        return b"p" + bytes([0x0a, 0x00]) + body                                              # extra empty id sub-message: merge
    return b"p" + body + bytes([3 << 3 | 1]) + bytes(8)                                       # field 3 with wire type fixed64: skipped


# ------------------------------------------------------------------ shrinking
def shrink_msg(m, index, still_fails):
    """set fields to their defaults one at a time while the failure persists"""
    cur = dict(m)
    zero = {"idid": 0, "idreply": 0, "sid": 0, "sreply": 0, "type": 0, "data": b"", "nano": 0, "servers": [],
            "master": b"", "cmid": 0, "rev": 0, "remote": b""}
    changed = True
    while changed:
        changed = False
        for k in MSG_FIELDS:
            if cur[k] == zero[k]:
                continue
            cand = dict(cur)
            cand[k] = zero[k]
            if still_fails(cand, index):
                cur, changed = cand, True
                continue
            if isinstance(cur[k], bytes) and len(cur[k]) > 1:
                cand = dict(cur)
                cand[k] = cur[k][:len(cur[k]) // 2]
                if still_fails(cand, index):
                    cur, changed = cand, True
    return cur


def bucket(n):
    for lim, name in [(0, "0"), (1, "1"), (127, "2-127"), (16383, "128-16383")]:
        if n <= lim:
            return name
    return ">=16384"


# ------------------------------------------------------------------ the check
def run(ck, replay):
    ck.cov["trusted_base"] += [
        "python regex scan of types.proto (field numbers/types) and of the five reader copies / three writer copies of the RaftLog field list (translator-lite)",
        "modelled, not verified: protobuf-go's wire behaviour for these three messages (field order, default omission, UTF-8 validation, merge of repeated sub-messages), encoding/binary, Go map iteration (any order)",
        "legacy JSON is abstract in Coq (round-trip + never-starts-with-'p' hypotheses); encoding/json is exercised on the Go side only (jsonrt monitor)",
        "readers inlined in FSM.Snapshot / dumpLogToDisk1 / canary.go are tied by the source scan (six identical assignments) and, when harness/go/main/zz_verif_readers_test.go is present, by driving Snapshot/Persist/Restore/dump on a real store"]
    ck.assumptions += ["strings shorter than 2^64 bytes; string fields valid UTF-8 (property domain); message type within int32",
                       "append times: seconds int64, nanoseconds in [0,1e9)",
                       "recipient maps of output batches only hold `true` values (the only value ircserver ever stores)"]
    ok = ck.proof_obligations()
    facts = source_facts()
    ck.notes["source_facts"] = facts
    for k in ("types_proto_matches_model", "readers_six_fields", "writer_storelogs", "writer_convert", "writer_apply",
              "restore_uses_index_and_data", "api_p_prefix"):
        ck.add_obligation(bool(facts.get(k)), "source: " + k)

    if not getattr(ck, "model_ok", False):
        ck.violation("tie-broken:model", {"what": "model driver could not be built", "output": ck.model_out[-3000:],
                                          "obligation": "extraction of Driver/Main.v"}, concrete=False)
        return
    rng = ck.rng
    quick = ck.tier == "quick"
    monfail, mism = [], []     # (sig, what, case dict) / (kind, case dict, impl, model)
    dist = {"msg_type": {}, "data_len": {}, "id_class": {}, "batch_msgs": {}, "batch_rcpts": {}, "log_type": {}, "kinds": {}}
    samples, nontriv = [], set()
    evals = 0

    # ---------------- corpus / replay / generated message cases
    cases = []
    if replay:
        rp = json.load(open(replay))
        cases = rp.get("cases", [])
    else:
        cdir = os.path.join(vlib.ROOT, "corpus", "C18")
        if os.path.isdir(cdir):
            for fn in sorted(os.listdir(cdir)):
                if fn.endswith(".json"):
                    cases += json.load(open(os.path.join(cdir, fn))).get("cases", [])
        n = 500 if quick else 12000
        for i in range(n):
            cases.append({"kind": "msg", "msg": msg_to_jsonable(gen_msg(rng, invalid_ok=True)), "index": u64_pool(rng)})
        for i in range(150 if quick else 4000):
            b = gen_batch(rng)
            cases.append({"kind": "batch", "batch": {"next": b["next"], "msgs": [dict(m, data=m["data"].hex()) for m in b["msgs"]]}})
        from props import c09
        for i in range(60 if quick else 1500):
            cases.append({"kind": "store", "program": c09.gen_log_program(rng)})

    msgs = [(c, msg_from_jsonable(c["msg"])) for c in cases if c["kind"] == "msg"]
    batches = [c for c in cases if c["kind"] == "batch"]
    stores = [c for c in cases if c["kind"] == "store"]

    # ---------------- messages: encode direction
    if msgs:
        lines = [msg_line(m, c["index"]) for c, m in msgs]
        g, gout = go_run("codec", lines, "c18msg")
        if g is None:
            ck.violation("tie-broken:go-driver", {"what": "Go codec driver did not build/run against the current tree",
                                                  "output": gout[-3000:], "obligation": "correspondence codecdrv (internal/robust)"},
                         concrete=False)
            return
        ml = vlib.run_model("\n".join(lines) + "\n")
        if not quick:
            pick = [i for i in range(len(lines)) if len(lines[i]) < 600][:120]
            vm = vm_chunks([lines[i] for i in pick], limit=2500)   # each case prints ~4x its input (two encodings + decode)
            ck.add_obligation(vm == [ml[i] for i in pick], "extracted model agrees with vm_compute on %d codec cases" % len(pick))
        dec_cases = []
        for i, (c, m) in enumerate(msgs):
            evals += 1
            canon, extra = split_go(g[i] if i < len(g) else "<missing>")
            dom = msg_in_domain(m)
            tn = TYPE_NAMES[m["type"]] if 0 <= m["type"] < 9 else "other"
            dist["msg_type"][tn] = dist["msg_type"].get(tn, 0) + 1
            dist["data_len"][bucket(len(m["data"]))] = dist["data_len"].get(bucket(len(m["data"])), 0) + 1
            ic = "zero" if m["idid"] == 0 else ("max" if m["idid"] == U64 - 1 else "other")
            dist["id_class"][ic] = dist["id_class"].get(ic, 0) + 1
            if dom and " enc=err" not in canon:
                nontriv.add(lines[i])
            if len(samples) < 2:
                samples.append({"case": lines[i][:300], "impl": canon[:300], "model": (ml[i] if i < len(ml) else "")[:300]})
            if i >= len(ml) or canon != ml[i]:
                mism.append(("msg", c, canon, ml[i] if i < len(ml) else None))
            # monitor (implementation only): round trip, encoders agree, JSON round trip, id defaulting
            if dom:
                want = show_msg(default_id(m, c["index"]))
                fm = re.search(r" dec=(\S+)", canon)
                if "rt=ok" not in extra or not fm or fm.group(1) != want:
                    monfail.append(("msg-roundtrip", "decode(encode(m)) != m with id defaulting (protobuf)", c))
                if "encoders=ok" not in extra:
                    monfail.append(("encoders-disagree", "ProtoMessage and CopyToProtoMessage produce different bytes", c))
                if "jsonrt=ok" not in extra:
                    monfail.append(("json-roundtrip", "legacy JSON encoding does not round-trip / starts with 'p'", c))
            fe = re.search(r"enc=([0-9a-f]+) ", ml[i] if i < len(ml) else "")
            if fe:
                dec_cases.append((c, m, bytes.fromhex(fe.group(1))))
        # ---------------- messages: decode direction (Go decodes model-produced bytes, and variants of them)
        dl, dmeta = [], []
        for c, m, pb in dec_cases:
            dl.append("codec msgdec %s %d" % (pb.hex(), c["index"]))
            dmeta.append(("exact", c, m))
            if rng.random() < 0.5:
                dl.append("codec msgdec %s %d" % (mutate(rng, pb).hex(), c["index"]))
                dmeta.append(("mutant", c, m))
        if dl:
            g2, gout2 = go_run("codec", dl, "c18dec")
            m2 = vlib.run_model("\n".join(dl) + "\n")
            for i, (kind, c, m) in enumerate(dmeta):
                evals += 1
                canon, _ = split_go(g2[i] if g2 and i < len(g2) else "<missing>")
                dist["kinds"]["msgdec-" + kind] = dist["kinds"].get("msgdec-" + kind, 0) + 1
                if i >= len(m2) or canon != m2[i]:
                    mism.append(("msgdec", {"kind": "msgdec", "line": dl[i]}, canon, m2[i] if i < len(m2) else None))
                if kind == "exact" and msg_in_domain(m) and canon != "codec msgdec " + show_msg(default_id(m, c["index"])):
                    monfail.append(("msg-decode-of-model-bytes", "Go decodes the model's bytes to a different message", c))

    # ---------------- batches
    if batches:
        bl = []
        for c in batches:
            b = {"next": c["batch"]["next"], "msgs": [dict(m, data=bytes.fromhex(m["data"])) for m in c["batch"]["msgs"]]}
            c["_b"] = b
            bl.append(batch_line(b, rng))
        g, gout = go_run("batch", bl, "c18batch")
        if g is None:
            ck.violation("tie-broken:go-driver", {"what": "Go batch driver did not build/run", "output": gout[-3000:],
                                                  "obligation": "correspondence batch codec (internal/outputstream)"}, concrete=False)
            return
        ml = vlib.run_model("\n".join(bl) + "\n")
        dl, dmeta = [], []
        for i, c in enumerate(batches):
            evals += 1
            b = c["_b"]
            canon, extra = split_go(g[i] if i < len(g) else "<missing>")
            dist["batch_msgs"][str(len(b["msgs"]))] = dist["batch_msgs"].get(str(len(b["msgs"])), 0) + 1
            for m in b["msgs"]:
                kk = str(len(m["rcpt"])) if len(m["rcpt"]) < 3 else ">=3"
                dist["batch_rcpts"][kk] = dist["batch_rcpts"].get(kk, 0) + 1
            if b["msgs"]:
                nontriv.add(bl[i])
            if i >= len(ml) or canon != ml[i]:
                mism.append(("batch", {k: v for k, v in c.items() if k != "_b"}, canon, ml[i] if i < len(ml) else None))
            if "rt=ok" not in extra or (" dec=" + show_batch(b)) not in canon:
                monfail.append(("batch-roundtrip", "unmarshal(marshal(batch)) differs in ids, text or recipient set",
                                {k: v for k, v in c.items() if k != "_b"}))
            fr = re.search(r"raw=([0-9a-f]*)", extra)
            if fr:
                dl.append("codec batchdec " + (fr.group(1) or "-"))
                dmeta.append(("go-bytes", b))
            fe = re.search(r" enc=([0-9a-f]+)", ml[i] if i < len(ml) else "")
            if fe:
                raw = bytes.fromhex(fe.group(1))
                dl.append("codec batchdec " + raw.hex())
                dmeta.append(("model-bytes", b))
                if rng.random() < 0.3 and len(raw) > 1:
                    dl.append("codec batchdec " + (raw[:rng.randint(0, len(raw) - 1)].hex() or "-"))
                    dmeta.append(("truncated", None))
        if dl:
            g2, _ = go_run("batch", dl, "c18bdec")
            m2 = vlib.run_model("\n".join(dl) + "\n")
            for i, (kind, b) in enumerate(dmeta):
                evals += 1
                canon, _ = split_go(g2[i] if g2 and i < len(g2) else "<missing>")
                dist["kinds"]["batchdec-" + kind] = dist["kinds"].get("batchdec-" + kind, 0) + 1
                if i >= len(m2) or canon != m2[i]:
                    mism.append(("batchdec", {"kind": "batchdec", "line": dl[i][:400]}, canon, m2[i] if i < len(m2) else None))
                if b is not None and canon != "codec batchdec " + show_batch(b):
                    monfail.append(("batch-decode", "decoding %s yields a different batch" % kind, {"kind": "batchdec", "line": dl[i][:400]}))

    # ---------------- raft log entries through the real store (writer bytes, all readers reachable from raftstore)
    if stores:
        from props import c09
        res = c09.run_programs(ck, [c["program"] for c in stores], "c18store")
        if res is None:
            return
        for c, r in zip(stores, res):
            evals += 1
            for e in r["entries"]:
                dist["log_type"][str(e["type"])] = dist["log_type"].get(str(e["type"]), 0) + 1
            nontriv.add(r["line"])
            if r["impl"] != r["model"]:
                mism.append(("store", c, r["impl"], r["model"]))
            for sig, what in r["monitor"]:
                if sig == "deleterange-deletes-stable-keys":
                    continue   # C09's finding, not a format property
                monfail.append((sig, what, c))
        # decode direction: the model's stored bytes put back raw into a real store and read by GetLog / FromBytes
        dprog = c09.gen_putraw_programs(rng, [r for r in res if r["impl"] == r["model"]][:80])
        if dprog:
            res2 = c09.run_programs(ck, dprog, "c18raw")
            for p, r in zip(dprog, res2 or []):
                evals += 1
                if r["impl"] != r["model"]:
                    mism.append(("store-putraw", {"kind": "store", "program": p}, r["impl"], r["model"]))

    # ---------------- the decoders inlined in package main (Snapshot loop, Restore, text dump), when reachable
    rdrv = os.path.join(vlib.HGO, "main", "zz_verif_readers_test.go")
    if os.path.exists(rdrv) and not replay:
        from props import c09
        rl = c09.gen_reader_cases(rng, 6 if quick else 60)
        g, gout = go_run("readers", [x["line"] for x in rl], "c18readers")
        if g is None:
            ck.violation("tie-broken:go-driver", {"what": "Go readers driver (package main) did not build/run",
                                                  "output": gout[-3000:], "obligation": "correspondence readers (package main)"},
                         concrete=False)
        else:
            ml = vlib.run_model("\n".join(x["model_line"] for x in rl) + "\n")
            for i, x in enumerate(rl):
                evals += 1
                dist["kinds"]["readers"] = dist["kinds"].get("readers", 0) + 1
                why = c09.check_readers(x, g[i] if i < len(g) else "", ml[i] if i < len(ml) else "")
                for sig, what, concrete in why:
                    if concrete:
                        monfail.append((sig, what, {"kind": "readers", "line": x["line"][:2000]}))
                    else:
                        mism.append(("readers", {"kind": "readers", "line": x["line"][:2000]}, g[i] if i < len(g) else None,
                                     ml[i] if i < len(ml) else None))
    ck.notes["readers_driver"] = os.path.exists(rdrv)

    # ---------------- verdict
    ck.cov["evaluations"] = evals
    ck.cov["distinct_nontrivial"] = len(nontriv)
    ck.cov["disagreements_checked"] = evals
    ck.cov["traces_validated_against_impl"] = evals
    ck.cov["rule"] = ("messages: all 9 types (+ undefined/negative types), ids/cmid/revision/timestamps from {0,1,varint boundaries,2^63,2^64-1,random}, "
                      "text empty/IRC/multi-byte UTF-8/lengths around 127,16383/70000 bytes (5% invalid UTF-8 to check the error path), 0-4 servers; "
                      "each encoded by Go (both encoders, JSON) and by the model, bytes compared, then Go and model decode the model's bytes and mutants "
                      "(unknown fields, non-minimal varints, truncation, repeated fields); batches 0-12 messages x 0-20 recipients in shuffled order, both "
                      "directions incl. Go's own map order; raft log entries of all types through a real LevelDBStore (raw bytes, GetLog, raftlog.FromBytes, put-raw). "
                      "non-trivial = in-domain case that was actually encoded; distinct by case text")
    ck.cov["input_distribution"] = dist
    ck.cov["samples"] = samples
    seen = set()
    for sig, what, c in monfail:
        if sig in seen:
            continue
        seen.add(sig)
        cc = c
        if c.get("kind") == "msg":   # shrink on the implementation alone
            def fails(mm, idx, sig=sig):
                gl, _ = go_run("codec", [msg_line(mm, idx)], "c18shr")
                if not gl:
                    return False
                canon, extra = split_go(gl[0])
                key = {"msg-roundtrip": "rt=ok", "encoders-disagree": "encoders=ok", "json-roundtrip": "jsonrt=ok"}.get(sig)
                return key is not None and msg_in_domain(mm) and key not in extra
            try:
                small = shrink_msg(msg_from_jsonable(c["msg"]), c["index"], fails)
                cc = {"kind": "msg", "msg": msg_to_jsonable(small), "index": c["index"]}
            except Exception:
                pass
        ck.violation(sig, {"what": what, "cases": [cc], "how_to_replay": "bin/check C18 --replay <this file>"}, concrete=True)
    if mism and not monfail:
        kind, c, gi, mo = mism[0]
        ck.violation("correspondence:" + kind,
                     {"what": "model and implementation disagree; the Go-side round-trip monitors found no property violation",
                      "obligation": "correspondence of coq/Store (Wire/Proto/Batch/KV) with the Go codecs, case kind " + kind,
                      "cases": [c], "impl_output": (gi or "")[:2000], "model_output": (mo or "")[:2000], "mismatches": len(mism)},
                     concrete=False)
    if not ok:
        ck.violation("proof-broken", {"what": "proof obligations not discharged", "errors": ck.proof_errors,
                                      "obligation": ck.proof_result.get("broken_at", "Properties/C18.v"),
                                      "coq_output": ck.proof_result["output_tail"]}, concrete=False)
    bad = [o for o in ck.cov.get("extra_obligations", []) if not o["ok"]]
    if bad and not monfail:
        ck.violation("obligation:" + bad[0]["name"].replace(" ", "_").replace(":", ""),
                     {"what": "source-derived obligation failed (a reader/writer copy or types.proto no longer has the modelled shape)",
                      "obligation": bad[0]["name"], "obligations": bad, "source_facts": facts}, concrete=False)
