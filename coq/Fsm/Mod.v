(* Fsm/Mod.v — message of death (C07): the process-level semantics of FSM.Apply/applyProto with its
   deferred recover, on top of M-FSM.

   The abstract machine is refined: [apply_cmd] is applyRobustMessage for every message type except
   MessageOfDeath and may PANIC ([None]); [apply_mod] is the MessageOfDeath case
   (IRCServer.UpdateLastClientMessageID: marker + LastActivity, no reply batch).
   Executable definitions only; proofs in ModProofs.v. *)
From Coq Require Import List ZArith NArith Bool String.
From RV Require Import Fsm.Fsm.
Import ListNotations.
Local Open Scope N_scope.

(* msg.Type = robust.MessageOfDeath; every other field of the message (and of the raft entry) is kept *)
Definition retag (e : entry) : entry :=
  mkEntry (e_idx e) (e_ts e) KMoD (e_exp e) (e_rev e) (e_payload e).

(* fsm.store.StoreLogProto(l): LevelDB Put under key l.Index of the raft log store *)
Definition mark (k : N) (L : list entry) : list entry :=
  map (fun e => if e_idx e =? k then retag e else e) L.

(* the log without entry k (reference for C07_replay) *)
Definition without (k : N) (L : list entry) : list entry :=
  filter (fun e => negb (e_idx e =? k)) L.

Section MOD.
  Variables S O B : Type.
  Variable apply_cmd : S -> entry -> option (S * list O).   (* None: the handler panics *)
  Variable apply_mod : S -> entry -> S.
  Variable exp_of : S -> N.
  Variable rev_of : S -> N.

  (* applyRobustMessage as a total function on runs that do not panic: what M-FSM is instantiated with *)
  Definition apply_total (s : S) (e : entry) : S * list O :=
    match e_kind e with
    | KMoD => (apply_mod s e, [])
    | _ => match apply_cmd s e with Some r => r | None => (s, []) end
    end.

  Inductive outcome :=
  | Continued (f : fsm S O B)
  | Died (k : N) (dlog : list entry).    (* glog.Fatalf after the durable log was rewritten *)

  (* FSM.Apply + applyProto.  [dlog] is the durable raft log (fsm.store).
     - raft-internal entries: return nil.
     - MessageOfDeath: the deferred function returns before recover(); the entry is applied.
     - otherwise: a panic in applyRobustMessage is recovered, the entry is re-stored with
       Type = MessageOfDeath, the process exits. *)
  Definition apply_guarded (dlog : list entry) (f : fsm S O B) (e : entry) : outcome :=
    match e_kind e with
    | KInternal => Continued f
    | KMoD => Continued (apply_entry S O B apply_total exp_of rev_of f e)
    | KCmd =>
        match apply_cmd (server f) e with
        | Some _ => Continued (apply_entry S O B apply_total exp_of rev_of f e)
        | None => Died (e_idx e) (mark (e_idx e) dlog)
        end
    end.

  Inductive result :=
  | Finished (f : fsm S O B)
  | Exited (k : N) (dlog : list entry).

  (* one process lifetime: raft hands the entries [todo] to Apply one after the other *)
  Fixpoint run_process (dlog : list entry) (f : fsm S O B) (todo : list entry) : result :=
    match todo with
    | [] => Finished f
    | e :: r =>
        match apply_guarded dlog f e with
        | Continued f' => run_process dlog f' r
        | Died k d => Exited k d
        end
    end.
End MOD.
