(* C03 — state serialization is complete: save + load is invisible.
   Proved over the model of Marshal followed by Unmarshal (Irc/Apply.v reload): the rebuilt nick index is the
   old one, every session whose timestamps are positive is reproduced field by field, channels, nickname holds,
   lastProcessed and every configuration field except WhitelistedOrigins are unchanged, and the consistency
   invariant is preserved.  Open finding (known_findings.txt, sig c03:field:G.wo): WhitelistedOrigins is not part
   of snapshot.proto and is lost (C03_refuted_whitelisted_origins); no small repair exists here (protoc missing). *)
From stdpp Require Import gmap.
From Coq Require Import Strings.String List ZArith.
From RV Require Import Irc.Str Irc.State Irc.Cmds Irc.Apply.
From RV Require Import IrcProofs.Inv IrcProofs.Top IrcProofs.Misc.

Theorem C03_index_rebuilt : forall sv, EInv sv -> forall n, sv_nicks (reload sv) !! n = sv_nicks sv !! n.
Proof. exact reload_nicks. Qed.
Print Assumptions C03_index_rebuilt.

Theorem C03_sessions : forall sv k, sv_sessions (reload sv) !! k = reload_session <$> (sv_sessions sv !! k).
Proof. exact reload_sessions. Qed.
Print Assumptions C03_sessions.

Theorem C03_session_exact : forall s,
  (0 < s_created s)%Z -> s_lastNonPing s <> None -> s_deleted s = false -> reload_session s = s.
Proof. exact reload_session_id. Qed.
Print Assumptions C03_session_exact.

Theorem C03_invariant_preserved : forall sv, EInv sv -> EInv (reload sv).
Proof. exact reload_EInv. Qed.
Print Assumptions C03_invariant_preserved.

Theorem C03_refuted_whitelisted_origins : forall sv, g_whitelistedOrigins (sv_config (reload sv)) = ∅.
Proof. exact reload_drops_whitelisted_origins. Qed.
Print Assumptions C03_refuted_whitelisted_origins.
