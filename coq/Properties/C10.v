(* C10 — a retried POST (same client message id as the last message applied for the session)
   is acknowledged but not applied again.  Stated PRECONDITION of the property: the retry
   reaches a node that has already applied the first copy ([Inv sid c] holds of that node's
   state; a retry overtaking the first copy on another node — D14 — is outside).
   Statements over Api/Post.v; which sessions die while an entry is processed is an arbitrary
   oracle, so they hold for every IRC semantics. *)
From Coq Require Import List Bool NArith String.
From RV Require Import Base.Text Api.Auth Api.Post Api.PostProofs.
Import ListNotations.
Local Open Scope string_scope.

(* the marker is written BEFORE processing: after an IRCFromClient or MessageOfDeath entry of
   an existing session, the session is gone or carries the entry's client message id *)
Theorem C10_marker : forall o st e,
  is_client_msg e = true -> is_live st (e_session e) = true ->
  is_live (apply o st e) (e_session e) = true ->
  last_post (apply o st e) (e_session e) = e_cmid e.
Proof. exact marker_after_apply. Qed.
Print Assumptions C10_marker.

Theorem C10_marker_inv : forall o st e,
  is_client_msg e = true -> Inv (e_session e) (e_cmid e) (apply o st e).
Proof. exact apply_establishes_inv. Qed.
Print Assumptions C10_marker_inv.

(* the handler acknowledges without proposing *)
Theorem C10_handler : forall json_decode st sid body d c,
  json_decode (stake body_limit body) = Some (d, c) -> last_post st sid = c ->
  post_handler json_decode st sid body = PAck.
Proof. exact handler_ack. Qed.
Print Assumptions C10_handler.

(* exactly when something is proposed, and what (Data cut at the first newline) *)
Theorem C10_handler_propose : forall json_decode st sid body e,
  post_handler json_decode st sid body = PPropose e <->
  exists d c, json_decode (stake body_limit body) = Some (d, c) /\ last_post st sid <> c /\
              st_leader st = true /\ e = mkEntry EIrc 0 sid c (cut_line d) 0.
Proof. exact handler_propose. Qed.
Print Assumptions C10_handler_propose.

(* one repeat: log and state of the handling node are untouched *)
Theorem C10_retry_noop : forall json_decode restore s t hdr b o sid c d,
  Inv sid c (s_node s) -> parse_uint0 t = Some sid ->
  json_decode (stake body_limit b) = Some (d, c) ->
  step json_decode restore s (EvPost t hdr b o) = s.
Proof. exact retry_is_noop. Qed.
Print Assumptions C10_retry_noop.

(* histories: any number of repeats, interleaved with other sessions' traffic, deletes,
   configuration entries and snapshot restores, adds no entry of that session to the log.
   Hypothesis on [restore]: Marshal/Unmarshal keeps sessions and markers (serialize.go). *)
Theorem C10_retries : forall json_decode restore,
  (forall st id, is_live (restore st) id = is_live st id /\ last_post (restore st) id = last_post st id) ->
  forall sid c evs s,
  Inv sid c (s_node s) -> Forall (allowed json_decode sid c) evs ->
  Inv sid c (s_node (run json_decode restore evs s)) /\
  own_entries sid (s_log (run json_decode restore evs s)) = own_entries sid (s_log s).
Proof. exact retries_add_nothing. Qed.
Print Assumptions C10_retries.

(* the precondition is established by the first copy, as a message ... *)
Theorem C10_first_copy : forall json_decode restore s t hdr b o sid d c,
  session_check (s_node s) hdr t = inl sid ->
  json_decode (stake body_limit b) = Some (d, c) ->
  st_leader (s_node s) = true ->
  Inv sid c (s_node (step json_decode restore s (EvPost t hdr b o))).
Proof. exact first_copy_establishes. Qed.
Print Assumptions C10_first_copy.

(* ... and also when the first copy became a message of death *)
Theorem C10_message_of_death : forall json_decode restore s e o,
  e_type e = EMod -> Inv (e_session e) (e_cmid e) (s_node (step json_decode restore s (EvApply e o))).
Proof. exact mod_copy_establishes. Qed.
Print Assumptions C10_message_of_death.

(* any replica of the same log has the same sessions and markers (leadership is node-local) *)
Theorem C10_replicas : forall l st1 st2 id,
  st_sessions st1 = st_sessions st2 ->
  last_post (replay l st1) id = last_post (replay l st2) id /\
  is_live (replay l st1) id = is_live (replay l st2) id.
Proof. exact replicas_markers. Qed.
Print Assumptions C10_replicas.
