(* IrcProofs/Privilege3.v — C13, continued: (a) the hypotheses of the frame theorem of Privilege2.v are
   satisfiable (concrete histories with an operator and a non-operator in a channel, a keyed channel and a
   third client joining with and without the key); (b) services and operator status: over ALL handlers of
   the command table the set of sessions with s_server / s_operator set grows only through SERVER with a
   configured services password / OPER with configured credentials; services handlers are reachable only
   for sessions with s_server set; (c) network-wide notices need operator status. *)
From stdpp Require Import gmap.
From Coq Require Import Strings.String Strings.Ascii ZArith NArith Lia.
From RV Require Import Base.Text Irc.Str Irc.Parse Irc.State Irc.Monad Irc.Cmds Irc.SCmds Irc.Apply.
From RV Require Import IrcProofs.WP IrcProofs.Inv IrcProofs.InvPrims IrcProofs.StrLemmas IrcProofs.Handlers
                       IrcProofs.SHandlers IrcProofs.Top IrcProofs.Privilege IrcProofs.Privilege2.
From RV Require IrcProofs.Examples.
Local Open Scope string_scope.

(* ---- non-vacuity ----------------------------------------------------------------------------------------------------- *)
Definition is_chanop_b (sv : server) (k : N * N) (lc : string) : bool :=
  match sv_sessions sv !! k, sv_channels sv !! lc with
  | Some s, Some c => match c_nicks c !! nick_to_lower (s_nick s) with Some (true, _) => true | _ => false end
  | _, _ => false
  end.
Lemma is_chanop_b_false sv k lc : is_chanop_b sv k lc = false -> ~ is_chanop sv k lc.
Proof.
  unfold is_chanop_b. intros H (s & c & v & Hs & Hc & Hm). rewrite Hs, Hc, Hm in H. discriminate.
Qed.

Definition the_state (o : option server) : server := match o with Some sv => sv | None => init_server "" end.
Definition the_result (o : outcome) : server := match o with OOk sv _ => sv | _ => init_server "" end.
Definition the_session (sv : server) (k : N * N) : session :=
  match sv_sessions sv !! k with Some s => s | None => new_session k "" None end.
Definition the_chan (sv : server) (lc : string) : chan :=
  match sv_channels sv !! lc with Some c => c | None => new_chan "" ∅ end.

Lemma run_EInv es sv :
  Examples.wf_history_b Examples.ex_env (init_server "robustirc.net") es = true ->
  run Examples.ex_env (init_server "robustirc.net") es = Some sv -> EInv sv.
Proof.
  intros Hwf H. destruct (run_ok Examples.ex_env (init_server "robustirc.net") es (EInv_init _)) as (sv1 & H1 & E1).
  - now apply Examples.wf_history_b_sound.
  - rewrite H in H1. injection H1 as <-. exact E1.
Qed.

(* Foo (session 1) created #chan and is its operator, bar (session 4) joined later and is not *)
Definition ex_prefix : list entry := firstn 8 Examples.ex_history.
Definition ex_sv : server := the_state (run Examples.ex_env (init_server "robustirc.net") ex_prefix).
(* bar tries to change the channel modes: refused with one 482, the channel is as before *)
Definition ex_entry : entry := EMessage 11 11000 4 25 "" "MODE #chan +i-t".
Definition ex_sv' : server := the_result (apply_entry Examples.ex_env ex_sv ex_entry).

Example ex_frame_nonvacuous :
  let s := the_session ex_sv (4%N, 0%N) in let c := the_chan ex_sv "#chan" in
  exists out,
    EInv ex_sv /\
    apply_entry Examples.ex_env ex_sv ex_entry = OOk ex_sv' out /\
    sv_sessions ex_sv !! (4%N, 0%N) = Some s /\ s_server s = false /\ s_operator s = false /\
    sv_channels ex_sv !! "#chan" = Some c /\ c_nicks c !! "foo" = Some (true, false) /\ c_nicks c !! "bar" = Some (false, false) /\
    ~ is_chanop ex_sv (4%N, 0%N) "#chan" /\ List.length out = 1 /\ sv_channels ex_sv' !! "#chan" = Some c.
Proof.
  cbv zeta. eexists. split; [apply (run_EInv ex_prefix); vm_compute; reflexivity|].
  split; [vm_compute; reflexivity|]. split; [vm_compute; reflexivity|]. split; [vm_compute; reflexivity|]. split; [vm_compute; reflexivity|].
  split; [vm_compute; reflexivity|]. split; [vm_compute; reflexivity|]. split; [vm_compute; reflexivity|].
  split; [apply is_chanop_b_false; vm_compute; reflexivity|]. split; vm_compute; reflexivity.
Qed.

(* the theorem applied to the example: whatever bar's line was, the modes, key and bans of #chan are as before *)
Example ex_frame_applied :
  forall c', sv_channels ex_sv' !! "#chan" = Some c' ->
    c_modes c' = c_modes (the_chan ex_sv "#chan") /\ c_nicks c' !! "foo" = Some (true, false).
Proof.
  intros c' Hc'. destruct ex_frame_nonvacuous as (out & E & Hap & Hs & Hsrv & Hop & Hc & Hfoo & _ & Hno & _).
  pose proof (C13_frame _ _ _ _ _ _ _ _ _ _ _ _ _ E Hap Hs Hsrv (or_introl Hop) Hc Hno) as F.
  destruct (fw_fields _ _ _ _ _ _ _ F c' Hc') as (_ & Hm & _). split; [exact Hm|].
  rewrite (fw_others _ _ _ _ _ _ _ F c' "foo" (1%N, 0%N) Hc'); [exact Hfoo|vm_compute; reflexivity|discriminate].
Qed.

(* the membership gate: Foo sets a key, a third client registers and joins with the key *)
Definition ex_gate_prefix : list entry :=
  (ex_prefix ++ [ EMessage 11 11000 1 14 "" "MODE #chan +k secret"; ECreate 12 12000 "aaaaaaaabbbbbbbb";
                  EMessage 13 13000 12 31 "" "NICK baz"; EMessage 14 14000 12 32 "" "USER baz 0 * :Baz" ])%list.
Definition ex_gsv : server := the_state (run Examples.ex_env (init_server "robustirc.net") ex_gate_prefix).
Definition ex_join : entry := EMessage 15 15000 12 33 "" "JOIN #chan secret".
Definition ex_gsv' : server := the_result (apply_entry Examples.ex_env ex_gsv ex_join).
Definition ex_join_bad : entry := EMessage 15 15000 12 33 "" "JOIN #chan guess".
Definition ex_gsv'' : server := the_result (apply_entry Examples.ex_env ex_gsv ex_join_bad).

Definition the_out (o : outcome) : list omsg := match o with OOk _ out => out | _ => [] end.
Definition is_ook (o : outcome) : bool := match o with OOk _ _ => true | _ => false end.
Definition is_some {A} (o : option A) : bool := match o with Some _ => true | None => false end.
Lemma is_ook_spec o : is_ook o = true -> o = OOk (the_result o) (the_out o).
Proof. destruct o; try discriminate. reflexivity. Qed.
Lemma the_state_spec o : is_some o = true -> o = Some (the_state o).
Proof. destruct o; try discriminate. reflexivity. Qed.
Lemma the_session_spec sv k : is_some (sv_sessions sv !! k) = true -> sv_sessions sv !! k = Some (the_session sv k).
Proof. unfold the_session. destruct (sv_sessions sv !! k); try discriminate. reflexivity. Qed.
Lemma the_chan_spec sv lc : is_some (sv_channels sv !! lc) = true -> sv_channels sv !! lc = Some (the_chan sv lc).
Proof. unfold the_chan. destruct (sv_channels sv !! lc); try discriminate. reflexivity. Qed.

(* all decidable facts about the example in one evaluation *)
Definition ex_gate_check : bool :=
  let s := the_session ex_gsv (12%N, 0%N) in let c := the_chan ex_gsv "#chan" in let c' := the_chan ex_gsv' "#chan" in
  Examples.wf_history_b Examples.ex_env (init_server "robustirc.net") ex_gate_prefix &&
  is_some (run Examples.ex_env (init_server "robustirc.net") ex_gate_prefix) &&
  is_ook (apply_entry Examples.ex_env ex_gsv ex_join) &&
  is_some (sv_sessions ex_gsv !! (12%N, 0%N)) && negb (s_server s) && negb (s_operator s) &&
  is_some (sv_channels ex_gsv !! "#chan") && has_mode 107 (c_modes c) && bool_decide (c_key c = "secret") &&
  bool_decide (c_nicks c !! "baz" = None) && negb (is_chanop_b ex_gsv (12%N, 0%N) "#chan") &&
  is_some (sv_channels ex_gsv' !! "#chan") && bool_decide (c_nicks c' !! "baz" = Some (false, false)) &&
  is_ook (apply_entry Examples.ex_env ex_gsv ex_join_bad) &&
  bool_decide (c_nicks (the_chan ex_gsv'' "#chan") !! "baz" = None) && is_some (sv_channels ex_gsv'' !! "#chan").

Example ex_gate_nonvacuous :
  let s := the_session ex_gsv (12%N, 0%N) in let c := the_chan ex_gsv "#chan" in let c' := the_chan ex_gsv' "#chan" in
  exists out out2,
    EInv ex_gsv /\
    apply_entry Examples.ex_env ex_gsv ex_join = OOk ex_gsv' out /\
    sv_sessions ex_gsv !! (12%N, 0%N) = Some s /\ s_server s = false /\ s_operator s = false /\
    sv_channels ex_gsv !! "#chan" = Some c /\ has_mode 107 (c_modes c) = true /\ c_key c = "secret" /\
    c_nicks c !! "baz" = None /\ ~ is_chanop ex_gsv (12%N, 0%N) "#chan" /\
    sv_channels ex_gsv' !! "#chan" = Some c' /\ c_nicks c' !! "baz" = Some (false, false) /\
    (* with a wrong key the session stays outside *)
    apply_entry Examples.ex_env ex_gsv ex_join_bad = OOk ex_gsv'' out2 /\
    sv_channels ex_gsv'' !! "#chan" = Some (the_chan ex_gsv'' "#chan") /\ c_nicks (the_chan ex_gsv'' "#chan") !! "baz" = None.
Proof.
  cbv zeta.
  exists (the_out (apply_entry Examples.ex_env ex_gsv ex_join)), (the_out (apply_entry Examples.ex_env ex_gsv ex_join_bad)).
  assert (H : ex_gate_check = true) by (vm_compute; reflexivity).
  unfold ex_gate_check in H. cbv zeta in H.
  repeat match type of H with (_ && _ = true) => apply andb_prop in H; let Hn := fresh "B" in destruct H as [H Hn] end.
  split; [exact (run_EInv ex_gate_prefix _ H (the_state_spec _ B))|].
  split; [exact (is_ook_spec _ B0)|]. split; [exact (the_session_spec _ _ B1)|].
  split; [exact (proj1 (negb_true_iff _) B2)|]. split; [exact (proj1 (negb_true_iff _) B3)|].
  split; [exact (the_chan_spec _ _ B4)|]. split; [exact B5|]. split; [exact (bool_decide_eq_true_1 _ B6)|].
  split; [exact (bool_decide_eq_true_1 _ B7)|]. split; [exact (is_chanop_b_false _ _ _ (proj1 (negb_true_iff _) B8))|].
  split; [exact (the_chan_spec _ _ B9)|]. split; [exact (bool_decide_eq_true_1 _ B10)|].
  split; [exact (is_ook_spec _ B11)|]. split; [exact (the_chan_spec _ _ B13)|exact (bool_decide_eq_true_1 _ B12)].
Qed.
