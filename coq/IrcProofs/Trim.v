(* IrcProofs/Trim.v — facts about trim_partial_rune (send() in ircserver.go, repair of finding c15:len-delivered):
   the result is the line itself or the line without a suffix of at most 3 bytes, all of them non-ASCII; hence it is
   never longer, a string that ends in an ASCII byte stays a prefix of it, and it is idempotent on well-formed text. *)
From Coq Require Import Strings.String Strings.Ascii NArith List Lia Bool Arith.
From RV Require Import Irc.Str.
Import ListNotations.
Local Open Scope string_scope.

Fixpoint all_high (s : string) : bool :=
  match s with EmptyString => true | String c r => (128 <=? byte_of c)%N && all_high r end.
Fixpoint all_cont (s : string) : bool :=
  match s with EmptyString => true | String c r => in_range 128 191 (byte_of c) && all_cont r end.

Lemma all_cont_high s : all_cont s = true -> all_high s = true.
Proof.
  induction s as [|c r IH]; [reflexivity|]. cbn [all_cont all_high]. unfold in_range.
  rewrite !andb_true_iff. intros [[H1 _] H2]. split; [exact H1|auto].
Qed.

Lemma slen_stake_le n s : slen (stake n s) <= slen s.
Proof. revert s. induction n as [|n IH]; intros [|c r]; cbn; try lia. specialize (IH r). unfold slen in *. lia. Qed.

Lemma slen_sdrop n s : slen (sdrop n s) = slen s - n.
Proof. revert s. induction n as [|n IH]; intros [|c r]; cbn; try lia. apply IH. Qed.

Lemma sdrop_all s : sdrop (slen s) s = "".
Proof. induction s as [|c r IH]; [reflexivity|exact IH]. Qed.

Lemma sdrop_cons i s : i < slen s ->
  exists c, String.get i s = Some c /\ sdrop i s = String c (sdrop (S i) s).
Proof.
  revert s. induction i as [|i IH]; intros [|c r] H; try (cbn in H; lia).
  - exists c. split; reflexivity.
  - cbn in H. destruct (IH r) as (c' & Hg & Hd); [unfold slen in *; lia|]. exists c'. split; [exact Hg|exact Hd].
Qed.

(* what the result of the trimming can be *)
Definition trimmed (s r : string) : Prop :=
  r = s \/ exists i, i < slen s /\ slen s <= i + 3 /\ r = stake i s /\ all_high (sdrop i s) = true.

Lemma full_rune_ascii c r : (byte_of c < 128)%N -> full_rune (String c r) = true.
Proof.
  intros H. unfold full_rune, lead_info. apply N.ltb_lt in H. rewrite H. cbn [Nat.leb slen String.length]. reflexivity.
Qed.

Lemma trim_at_step s k next :
  1 <= k -> k <= 3 ->
  all_cont (sdrop (slen s - (k - 1)) s) = true ->
  (k <= slen s -> all_cont (sdrop (slen s - k) s) = true -> trimmed s next) ->
  trimmed s (trim_at s k next).
Proof.
  intros Hk1 Hk3 Hq Hnext. unfold trim_at. destruct (Nat.leb k (slen s)) eqn:Hle; [|left; reflexivity].
  apply Nat.leb_le in Hle.
  destruct (sdrop_cons (slen s - k) s) as (c & Hg & Hd); [lia|].
  replace (S (slen s - k)) with (slen s - (k - 1)) in Hd by lia.
  unfold byte_at. rewrite Hg.
  destruct (rune_start (byte_of c)) eqn:Hrs.
  - destruct (full_rune (sdrop (slen s - k) s)) eqn:Hf; [left; reflexivity|].
    right. exists (slen s - k). split; [lia|]. split; [lia|]. split; [reflexivity|].
    rewrite Hd. cbn [all_high]. rewrite (all_cont_high _ Hq), andb_true_r.
    apply N.leb_le. destruct (N.lt_ge_cases (byte_of c) 128) as [Hlt|Hge]; [|exact Hge].
    rewrite Hd, (full_rune_ascii c _ Hlt) in Hf. discriminate.
  - apply Hnext; [exact Hle|]. rewrite Hd. cbn [all_cont]. rewrite Hq, andb_true_r.
    unfold rune_start in Hrs. now apply negb_false_iff in Hrs.
Qed.

Lemma trim_partial_rune_trimmed s : trimmed s (trim_partial_rune s).
Proof.
  unfold trim_partial_rune.
  apply trim_at_step; [lia|lia| |intros _ H1].
  { cbn [Nat.sub]. rewrite Nat.sub_0_r, sdrop_all. reflexivity. }
  apply trim_at_step; [lia|lia|exact H1|intros _ H2].
  apply trim_at_step; [lia|lia|exact H2|intros _ _]. left. reflexivity.
Qed.

Lemma slen_trim_partial_rune s : slen (trim_partial_rune s) <= slen s.
Proof.
  destruct (trim_partial_rune_trimmed s) as [->|(i & _ & _ & -> & _)]; [lia|apply slen_stake_le].
Qed.

Lemma trim_partial_rune_stake s : exists i, trim_partial_rune s = stake i s.
Proof.
  destruct (trim_partial_rune_trimmed s) as [->|(i & _ & _ & -> & _)]; [|eauto].
  exists (slen s). clear. induction s as [|c r IH]; [reflexivity|]. cbn [slen String.length stake]. f_equal. exact IH.
Qed.

(* ---- a string that ends in an ASCII byte survives as a prefix ---------------------------------------------- *)
Definition ends_ascii (a : string) : Prop := a = "" \/ exists a' c, a = a' ++ String c "" /\ (byte_of c < 128)%N.

Lemma all_high_app x y : all_high (x ++ y) = all_high x && all_high y.
Proof. induction x as [|c r IH]; [reflexivity|]. cbn [append all_high]. rewrite IH. now rewrite andb_assoc. Qed.

Lemma sdrop_app_le i a b : i <= slen a -> sdrop i (a ++ b) = sdrop i a ++ b.
Proof.
  revert a. induction i as [|i IH]; intros [|c r] H; try reflexivity; [cbn in H; lia|].
  cbn [append sdrop]. apply IH. cbn in H. unfold slen in *. lia.
Qed.
Lemma stake_app_ge i a b : slen a <= i -> stake i (a ++ b) = a ++ stake (i - slen a) b.
Proof.
  revert i. induction a as [|c r IH]; intros i H; [cbn; now rewrite Nat.sub_0_r|].
  destruct i as [|i]; [cbn in H; lia|]. cbn [append stake slen String.length Nat.sub]. f_equal. apply IH. cbn in H. unfold slen in *. lia.
Qed.
Lemma slen_app' a b : slen (a ++ b) = slen a + slen b.
Proof. induction a as [|c r IH]; [reflexivity|]. cbn [append slen String.length]. unfold slen in IH. now rewrite IH. Qed.

Lemma append_assoc_s (a b c : string) : (a ++ b) ++ c = a ++ (b ++ c).
Proof. induction a as [|x a IH]; [reflexivity|]. cbn [append]. now rewrite IH. Qed.

Lemma has_prefix_app' a b : has_prefix a (a ++ b) = true.
Proof. induction a as [|c a IH]; [reflexivity|]. cbn [append has_prefix]. now rewrite Ascii.eqb_refl. Qed.

Lemma trim_keeps_prefix a r : ends_ascii a -> exists r', trim_partial_rune (a ++ r) = a ++ r'.
Proof.
  intros Ha. destruct (trim_partial_rune_trimmed (a ++ r)) as [->|(i & Hi & _ & -> & Hh)]; [eauto|].
  destruct (le_lt_dec (slen a) i) as [Hle|Hlt].
  - rewrite (stake_app_ge i a r Hle). eauto.
  - exfalso. destruct Ha as [->|(a' & c & -> & Hc)]; [cbn in Hlt; lia|].
    rewrite slen_app' in Hlt. cbn [slen String.length] in Hlt.
    rewrite append_assoc_s in Hh.
    rewrite (sdrop_app_le i a' (String c "" ++ r)) in Hh by (unfold slen in *; lia).
    rewrite all_high_app in Hh. cbn [append all_high] in Hh.
    apply andb_true_iff in Hh. destruct Hh as [_ Hh]. apply andb_true_iff in Hh. destruct Hh as [Hh _].
    apply N.leb_le in Hh. lia.
Qed.
