(* Out/ResumeProofs.v — C04: exactly-once, in-order delivery across reconnects (M-RESUME).
   Invariant: what the client received = the interesting messages of the stream between its
   first resume point and the id of the last message it received; what the handler pipeline
   still holds = the interesting messages between that id and the handler's position. *)
From Coq Require Import NArith List String Lia Sorted.
From stdpp Require Import gmap.
From RV Require Import Out.OutSeq Out.OutProofs Out.Resume.
Import ListNotations.
Local Open Scope N_scope.

(* ================================================================================== *)
(** * 1. Lexicographic order on message ids, intervals of a sorted message list *)

Definition lt2 (a b : N * N) : Prop := fst a < fst b \/ (fst a = fst b /\ snd a < snd b).
Definition le2 (a b : N * N) : Prop := fst a < fst b \/ (fst a = fst b /\ snd a <= snd b).
Definition ltb2 (a b : N * N) : bool := (fst a <? fst b) || ((fst a =? fst b) && (snd a <? snd b)).
Definition leb2 (a b : N * N) : bool := negb (ltb2 b a).

Lemma ltb2_spec a b : ltb2 a b = true <-> lt2 a b.
Proof.
  unfold ltb2, lt2. rewrite orb_true_iff, andb_true_iff, !N.ltb_lt, N.eqb_eq. tauto.
Qed.
Lemma ltb2_false a b : ltb2 a b = false <-> le2 b a.
Proof.
  unfold ltb2, le2. rewrite orb_false_iff, andb_false_iff, !N.ltb_ge, N.eqb_neq. lia.
Qed.
Lemma leb2_spec a b : leb2 a b = true <-> le2 a b.
Proof. unfold leb2. rewrite negb_true_iff. apply ltb2_false. Qed.
Lemma leb2_false a b : leb2 a b = false <-> lt2 b a.
Proof. unfold leb2. rewrite negb_false_iff. apply ltb2_spec. Qed.

(* the half-open interval (a, c] *)
Definition inb (a c : N * N) (m : omsg) : bool := ltb2 a (mid m) && leb2 (mid m) c.
Definition between (a c : N * N) (l : list omsg) : list omsg := List.filter (inb a c) l.
Lemma inb_spec a c m : inb a c m = true <-> lt2 a (mid m) /\ le2 (mid m) c.
Proof. unfold inb. rewrite andb_true_iff, ltb2_spec, leb2_spec. tauto. Qed.
Lemma inb_false a c m : inb a c m = false <-> le2 (mid m) a \/ lt2 c (mid m).
Proof. unfold inb. rewrite andb_false_iff, ltb2_false, leb2_false. tauto. Qed.

(* upper bound "every message of the batches with id <= pos" (reply numbers are >= 1) *)
Definition hp (pos : N) : N * N := (pos + 1, 0).

Ltac lex := unfold lt2, le2, hp, mid in *; cbn [fst snd o_id o_reply] in *; lia.

Definition mlt (x y : omsg) : Prop := lt2 (mid x) (mid y).

Lemma between_app a c l1 l2 : between a c (l1 ++ l2) = between a c l1 ++ between a c l2.
Proof. apply List.filter_app. Qed.

Lemma filter_none {A} (f : A -> bool) l : (forall x, List.In x l -> f x = false) -> List.filter f l = [].
Proof.
  induction l as [|x r IH]; intros H; simpl; [reflexivity|].
  rewrite (H x (or_introl eq_refl)). apply IH. intros y Hy. apply H. right. exact Hy.
Qed.
Lemma filter_all {A} (f : A -> bool) l : (forall x, List.In x l -> f x = true) -> List.filter f l = l.
Proof.
  induction l as [|x r IH]; intros H; simpl; [reflexivity|].
  rewrite (H x (or_introl eq_refl)). f_equal. apply IH. intros y Hy. apply H. right. exact Hy.
Qed.

Lemma between_empty a c l : le2 c a -> between a c l = [].
Proof.
  intros Hca. apply filter_none. intros m _. apply inb_false.
  destruct (ltb2 a (mid m)) eqn:E; [apply ltb2_spec in E | apply ltb2_false in E].
  - right. lex.
  - left. exact E.
Qed.

Lemma SS_app {A} (R : A -> A -> Prop) l1 l2 :
  StronglySorted R l1 -> StronglySorted R l2 ->
  (forall x y, List.In x l1 -> List.In y l2 -> R x y) -> StronglySorted R (l1 ++ l2).
Proof.
  induction l1 as [|x r IH]; intros H1 H2 H; simpl; [exact H2|].
  apply StronglySorted_inv in H1 as [H1r H1x]. constructor.
  - apply IH; [exact H1r|exact H2|]. intros a b Ha Hb. apply H; [right; exact Ha|exact Hb].
  - apply List.Forall_forall. intros y Hy. apply List.in_app_iff in Hy as [Hy|Hy].
    + rewrite List.Forall_forall in H1x. exact (H1x y Hy).
    + apply H; [left; reflexivity|exact Hy].
Qed.

Lemma SS_app_inv {A} (R : A -> A -> Prop) l1 l2 :
  StronglySorted R (l1 ++ l2) ->
  StronglySorted R l1 /\ StronglySorted R l2 /\ forall x y, List.In x l1 -> List.In y l2 -> R x y.
Proof.
  induction l1 as [|x r IH]; simpl; intros H.
  - split; [constructor|]. split; [exact H|]. intros x y [].
  - apply StronglySorted_inv in H as [Hr Hx]. destruct (IH Hr) as (H1 & H2 & H12).
    rewrite List.Forall_forall in Hx. split; [|split; [exact H2|]].
    + constructor; [exact H1|]. apply List.Forall_forall. intros y Hy. apply Hx. apply List.in_app_iff. left. exact Hy.
    + intros a b [<-|Ha] Hb; [apply Hx; apply List.in_app_iff; right; exact Hb|exact (H12 a b Ha Hb)].
Qed.

Lemma SS_filter {A} (R : A -> A -> Prop) (f : A -> bool) l :
  StronglySorted R l -> StronglySorted R (List.filter f l).
Proof.
  induction 1 as [|x r Hr IH Hx]; simpl; [constructor|].
  destruct (f x); [|exact IH]. constructor; [exact IH|].
  apply List.Forall_forall. intros y Hy. apply List.filter_In in Hy as [Hy _].
  rewrite List.Forall_forall in Hx. exact (Hx y Hy).
Qed.

(* splitting an interval of a sorted list *)
Lemma between_split a b c l :
  StronglySorted mlt l -> le2 a b -> le2 b c ->
  between a c l = between a b l ++ between b c l.
Proof.
  intros Hs Hab Hbc. induction Hs as [|m r Hr IH Hm]; [reflexivity|].
  unfold between in *. simpl.
  destruct (inb a b m) eqn:E1.
  - apply inb_spec in E1 as [E1a E1b].
    assert (E2 : inb a c m = true) by (apply inb_spec; split; [exact E1a|lex]).
    assert (E3 : inb b c m = false) by (apply inb_false; left; exact E1b).
    rewrite E2, E3. simpl. f_equal. exact IH.
  - destruct (inb b c m) eqn:E3.
    + apply inb_spec in E3 as [E3a E3b].
      assert (E2 : inb a c m = true) by (apply inb_spec; split; [lex|exact E3b]).
      rewrite E2.
      assert (Hnone : List.filter (inb a b) r = []).
      { apply filter_none. intros y Hy. apply inb_false. right.
        rewrite List.Forall_forall in Hm. specialize (Hm y Hy). unfold mlt in Hm. lex. }
      rewrite Hnone in *. simpl in *. f_equal. exact IH.
    + assert (E2 : inb a c m = false).
      { apply inb_false. apply inb_false in E1 as [E1|E1]; [left; exact E1|].
        apply inb_false in E3 as [E3|E3]; [lex|right; exact E3]. }
      rewrite E2. exact IH.
Qed.

Lemma filter_head_split {A} (f : A -> bool) l m X :
  List.filter f l = m :: X ->
  exists l1 l2, l = l1 ++ m :: l2 /\ List.filter f l1 = [] /\ f m = true /\ List.filter f l2 = X.
Proof.
  induction l as [|x r IH]; simpl; [discriminate|].
  destruct (f x) eqn:Hx.
  - intros [= -> <-]. exists [], r. simpl. tauto.
  - intros H. destruct (IH H) as (l1 & l2 & -> & H1 & Hm & H2).
    exists (x :: l1), l2. simpl. rewrite Hx. tauto.
Qed.

(* the first interesting message of an interval of a sorted list *)
Lemma first_interesting (f : omsg -> bool) a c l m X :
  StronglySorted mlt l ->
  List.filter f (between a c l) = m :: X ->
  lt2 a (mid m) /\ le2 (mid m) c /\
  List.filter f (between a (mid m) l) = [m] /\ List.filter f (between (mid m) c l) = X.
Proof.
  intros Hs Hf.
  destruct (filter_head_split f _ m X Hf) as (G1 & G2 & HG & HG1 & Hfm & HG2).
  assert (Hin : List.In m (between a c l)) by (rewrite HG; apply List.in_app_iff; right; left; reflexivity).
  apply List.filter_In in Hin as [_ Hin]. apply inb_spec in Hin as [Ham Hmc].
  split; [exact Ham|]. split; [exact Hmc|].
  assert (HGs : StronglySorted mlt (G1 ++ m :: G2)) by (rewrite <- HG; apply SS_filter; exact Hs).
  apply SS_app_inv in HGs as (_ & HmG2 & H12).
  apply StronglySorted_inv in HmG2 as [_ HmG2]. rewrite List.Forall_forall in HmG2.
  assert (Hall : forall x, List.In x (G1 ++ m :: G2) -> lt2 a (mid x) /\ le2 (mid x) c).
  { intros x Hx. rewrite <- HG in Hx. apply List.filter_In in Hx as [_ Hx]. apply inb_spec. exact Hx. }
  (* both sub-intervals are filters of the interval (a, c] *)
  assert (Hsub1 : between a (mid m) l = List.filter (inb a (mid m)) (between a c l)).
  { unfold between. clear -Hmc. induction l as [|x r IH]; simpl; [reflexivity|].
    destruct (inb a c x) eqn:E; simpl.
    - destruct (inb a (mid m) x); [f_equal|]; exact IH.
    - assert (E' : inb a (mid m) x = false).
      { apply inb_false. apply inb_false in E as [E|E]; [left; exact E|right; lex]. }
      rewrite E'. exact IH. }
  assert (Hsub2 : between (mid m) c l = List.filter (inb (mid m) c) (between a c l)).
  { unfold between. clear -Ham. induction l as [|x r IH]; simpl; [reflexivity|].
    destruct (inb a c x) eqn:E; simpl.
    - destruct (inb (mid m) c x); [f_equal|]; exact IH.
    - assert (E' : inb (mid m) c x = false).
      { apply inb_false. apply inb_false in E as [E|E]; [left; lex|right; exact E]. }
      rewrite E'. exact IH. }
  rewrite Hsub1, Hsub2, HG, !List.filter_app. simpl.
  assert (E1 : List.filter (inb a (mid m)) G1 = G1).
  { apply filter_all. intros x Hx. apply inb_spec.
    destruct (Hall x (proj2 (List.in_app_iff _ _ _) (or_introl Hx))) as [Hax _].
    split; [exact Hax|]. specialize (H12 x m Hx (or_introl eq_refl)). unfold mlt in H12. lex. }
  assert (E2 : List.filter (inb a (mid m)) G2 = []).
  { apply filter_none. intros x Hx. apply inb_false. right. exact (HmG2 x Hx). }
  assert (E3 : List.filter (inb (mid m) c) G1 = []).
  { apply filter_none. intros x Hx. apply inb_false. left.
    specialize (H12 x m Hx (or_introl eq_refl)). unfold mlt in H12. lex. }
  assert (E4 : List.filter (inb (mid m) c) G2 = G2).
  { apply filter_all. intros x Hx. apply inb_spec. split; [exact (HmG2 x Hx)|].
    apply (Hall x). apply List.in_app_iff. right. right. exact Hx. }
  assert (E5 : inb a (mid m) m = true) by (apply inb_spec; split; [exact Ham|lex]).
  assert (E6 : inb (mid m) c m = false) by (apply inb_false; left; lex).
  rewrite E1, E2, E3, E4, E5, E6. simpl. rewrite HG1, Hfm. simpl.
  split; [reflexivity|exact HG2].
Qed.

(* ================================================================================== *)
(** * 2. The output stream as a sorted list of messages *)

(* reply numbers of a batch: k, k+1, ... (ircserver numbers the replies to one input 1, 2, ...) *)
Fixpoint replies_ok (k : N) (b : batch) : Prop :=
  match b with
  | [] => True
  | m :: r => m_reply m = k /\ replies_ok (k + 1) r
  end.
Definition wf_batch (b : batch) : Prop := b <> [] /\ replies_ok 1 b.
(* ids strictly increasing, between 1 and MaxUint64-1, batches non-empty *)
Definition wf_stream (S : list (N * batch)) : Prop :=
  StronglySorted N.lt (map fst S) /\
  List.Forall (fun p => 0 < fst p /\ fst p < MAXID /\ wf_batch (snd p)) S.

Definition flat (S : list (N * batch)) : list omsg := flat_map (fun p => tag (fst p) (snd p)) S.

Lemma wf_stream_cons p S : wf_stream (p :: S) ->
  wf_stream S /\ 0 < fst p /\ fst p < MAXID /\ wf_batch (snd p) /\
  forall q, List.In q S -> fst p < fst q.
Proof.
  intros [Hs Hf]. simpl in Hs. apply StronglySorted_inv in Hs as [Hs Hp].
  apply List.Forall_cons_iff in Hf as [Hp' Hf].
  split; [split; assumption|]. destruct Hp' as (H1 & H2 & H3).
  split; [exact H1|]. split; [exact H2|]. split; [exact H3|].
  intros q Hq. rewrite List.Forall_forall in Hp. apply Hp. apply List.in_map. exact Hq.
Qed.

Lemma tag_id id b y : List.In y (tag id b) -> o_id y = id.
Proof. unfold tag. intros H. apply List.in_map_iff in H as (m & <- & _). reflexivity. Qed.

Lemma tag_props id b : forall k, replies_ok k b ->
  StronglySorted mlt (tag id b) /\ forall y, List.In y (tag id b) -> k <= o_reply y.
Proof.
  induction b as [|m r IH]; intros k Hk; simpl.
  - split; [constructor|]. intros y [].
  - destruct Hk as [Hm Hr]. destruct (IH (k + 1) Hr) as [Hs Hge]. split.
    + constructor; [exact Hs|]. apply List.Forall_forall. intros y Hy.
      pose proof (tag_id _ _ _ Hy). specialize (Hge y Hy). unfold mlt. lex.
    + intros y [<-|Hy]; [simpl; lia|]. specialize (Hge y Hy). lia.
Qed.

Lemma in_flat S y : List.In y (flat S) -> exists id b, List.In (id, b) S /\ List.In y (tag id b).
Proof.
  unfold flat. intros H. apply List.in_flat_map in H as ([id b] & Hin & Hy). eauto.
Qed.

Lemma flat_props S y : wf_stream S -> List.In y (flat S) ->
  1 <= o_reply y /\ exists b, List.In (o_id y, b) S.
Proof.
  intros [_ Hf] Hy. apply in_flat in Hy as (id & b & Hin & Hy).
  rewrite List.Forall_forall in Hf. destruct (Hf _ Hin) as (_ & _ & _ & Hr). simpl in Hr.
  destruct (tag_props id b 1 Hr) as [_ Hge]. split; [exact (Hge y Hy)|].
  rewrite (tag_id _ _ _ Hy). eauto.
Qed.

Lemma flat_sorted S : wf_stream S -> StronglySorted mlt (flat S).
Proof.
  induction S as [|[id b] r IH]; intros Hwf; simpl; [constructor|].
  destruct (wf_stream_cons _ _ Hwf) as (Hwr & _ & _ & [_ Hrep] & Hlt). simpl in *.
  apply SS_app.
  - exact (proj1 (tag_props id b 1 Hrep)).
  - exact (IH Hwr).
  - intros x y Hx Hy. apply in_flat in Hy as (id' & b' & Hin & Hy).
    pose proof (tag_id _ _ _ Hx). pose proof (tag_id _ _ _ Hy). specialize (Hlt _ Hin). simpl in Hlt.
    unfold mlt. lex.
Qed.

Lemma filter_id_tag_same i b : List.filter (fun m => o_id m =? i) (tag i b) = tag i b.
Proof. apply filter_all. intros x Hx. apply N.eqb_eq. exact (tag_id _ _ _ Hx). Qed.
Lemma filter_id_tag_other i id b : id <> i -> List.filter (fun m => o_id m =? i) (tag id b) = [].
Proof. intros Hne. apply filter_none. intros x Hx. apply N.eqb_neq. rewrite (tag_id _ _ _ Hx). exact Hne. Qed.

Lemma filter_id_flat S i b : wf_stream S -> List.In (i, b) S ->
  List.filter (fun m => o_id m =? i) (flat S) = tag i b.
Proof.
  induction S as [|[id b0] r IH]; intros Hwf Hin; [destruct Hin|]. simpl.
  destruct (wf_stream_cons _ _ Hwf) as (Hwr & _ & _ & _ & Hlt). simpl in Hlt.
  rewrite List.filter_app. destruct Hin as [[= -> ->]|Hin].
  - rewrite filter_id_tag_same.
    assert (Hnone : List.filter (fun m => o_id m =? i) (flat r) = []).
    { apply filter_none. intros x Hx. apply N.eqb_neq.
      apply in_flat in Hx as (id' & b' & Hin' & Hx). rewrite (tag_id _ _ _ Hx).
      specialize (Hlt _ Hin'). simpl in Hlt. lia. }
    rewrite Hnone. apply app_nil_r.
  - rewrite filter_id_tag_other; [apply (IH Hwr Hin)|].
    specialize (Hlt _ Hin). simpl in Hlt. lia.
Qed.

Lemma filter_and {A} (f g : A -> bool) l :
  List.filter (fun x => f x && g x) l = List.filter g (List.filter f l).
Proof.
  induction l as [|x r IH]; simpl; [reflexivity|].
  destruct (f x); simpl; [destruct (g x); [f_equal|]; exact IH|exact IH].
Qed.

Lemma filter_reply_skip i b r : forall k, replies_ok k b ->
  List.filter (fun m => r <? o_reply m) (tag i b) = skipn (N.to_nat (r + 1 - k)) (tag i b).
Proof.
  induction b as [|m b' IH]; intros k Hk; simpl.
  - destruct (N.to_nat (r + 1 - k)); reflexivity.
  - destruct Hk as [Hm Hr]. specialize (IH (k + 1) Hr). rewrite Hm.
    destruct (r <? k) eqn:E; [apply N.ltb_lt in E | apply N.ltb_ge in E].
    + replace (r + 1 - k) with 0 by lia. simpl. f_equal.
      rewrite IH. replace (r + 1 - (k + 1)) with 0 by lia. reflexivity.
    + replace (N.to_nat (r + 1 - k)) with (S (N.to_nat (r + 1 - (k + 1)))) by lia.
      simpl. exact IH.
Qed.

(* the messages between a position just below batch [id] and the end of batch [id] *)
Lemma between_batch S id b pos a :
  wf_stream S -> List.In (id, b) S ->
  (forall id' b', List.In (id', b') S -> id' < id -> id' <= pos) ->
  le2 (hp pos) a -> lt2 a (id, 1) ->
  between a (hp id) (flat S) = tag id b.
Proof.
  intros Hwf Hin Hgap Hpa Haid. rewrite <- (filter_id_flat S id b Hwf Hin).
  unfold between. apply List.filter_ext_in. intros m Hm.
  destruct (flat_props S m Hwf Hm) as [Hrep [b' Hb']].
  destruct (inb a (hp id) m) eqn:E1; destruct (o_id m =? id) eqn:E2; try reflexivity; exfalso.
  - apply inb_spec in E1 as [E1a E1b]. apply N.eqb_neq in E2.
    assert (Hlt : o_id m < id) by lex.
    specialize (Hgap _ _ Hb' Hlt). lex.
  - apply N.eqb_eq in E2. apply inb_false in E1 as [E1|E1]; lex.
Qed.

(* the rest of batch [i] after reply r *)
Lemma between_skip S i b r :
  wf_stream S -> List.In (i, b) S ->
  between (i, r) (hp i) (flat S) = skipn (N.to_nat r) (tag i b).
Proof.
  intros Hwf Hin.
  assert (Hrep : replies_ok 1 b).
  { destruct Hwf as [_ Hf]. rewrite List.Forall_forall in Hf. destruct (Hf _ Hin) as (_ & _ & _ & H). exact H. }
  transitivity (List.filter (fun m => (o_id m =? i) && (r <? o_reply m)) (flat S)).
  - unfold between. apply List.filter_ext_in. intros m Hm.
    destruct (flat_props S m Hwf Hm) as [Hge _].
    destruct (inb (i, r) (hp i) m) eqn:E1.
    + apply inb_spec in E1 as [E1a E1b]. symmetry. apply andb_true_iff.
      rewrite N.eqb_eq, N.ltb_lt. lex.
    + symmetry. apply andb_false_iff. rewrite N.eqb_neq, N.ltb_ge.
      apply inb_false in E1 as [E1|E1]; lex.
  - rewrite filter_and, (filter_id_flat S i b Hwf Hin), (filter_reply_skip i b r 1 Hrep).
    replace (r + 1 - 1) with r by lia. reflexivity.
Qed.

Lemma SS_lt_prefix_closed (S : list (N * batch)) n id b id' b' :
  StronglySorted N.lt (map fst S) ->
  List.In (id, b) (firstn n S) -> List.In (id', b') S -> id' < id -> List.In (id', b') (firstn n S).
Proof.
  intros Hs Hin Hin' Hlt. rewrite <- (firstn_skipn n S) in Hin', Hs.
  apply List.in_app_iff in Hin' as [H|H]; [exact H|exfalso].
  rewrite List.map_app in Hs. apply SS_app_inv in Hs as (_ & _ & H12).
  specialize (H12 id id' (List.in_map fst _ _ Hin) (List.in_map fst _ _ H)). simpl in H12. lia.
Qed.

Lemma wf_stream_ids_unique S id b1 b2 :
  wf_stream S -> List.In (id, b1) S -> List.In (id, b2) S -> b1 = b2.
Proof.
  induction S as [|p r IH]; intros Hwf H1 H2; [destruct H1|].
  destruct (wf_stream_cons _ _ Hwf) as (Hwr & _ & _ & _ & Hlt).
  destruct H1 as [->|H1], H2 as [H2|H2].
  - congruence.
  - specialize (Hlt _ H2). simpl in Hlt. lia.
  - subst p. specialize (Hlt _ H1). simpl in Hlt. lia.
  - exact (IH Hwr H1 H2).
Qed.

Lemma nth_error_in_skipn {A} (l : list A) n x : nth_error l n = Some x -> List.In x (skipn n l).
Proof.
  revert n. induction l as [|y r IH]; intros [|n]; simpl; try discriminate.
  - intros [= ->]. left. reflexivity.
  - apply IH.
Qed.
Lemma firstn_S_nth {A} (l : list A) n x : nth_error l n = Some x -> firstn (S n) l = firstn n l ++ [x].
Proof.
  revert n. induction l as [|y r IH]; intros [|n]; simpl; try discriminate.
  - intros [= ->]. reflexivity.
  - intros H. f_equal. exact (IH n H).
Qed.
Lemma SS_lt_firstn_nth (S : list (N * batch)) n id b id' b' :
  StronglySorted N.lt (map fst S) -> nth_error S n = Some (id, b) ->
  List.In (id', b') (firstn n S) -> id' < id.
Proof.
  intros Hs Hn Hin. rewrite <- (firstn_skipn n S), List.map_app in Hs.
  apply SS_app_inv in Hs as (_ & _ & H12).
  exact (H12 id' id (List.in_map fst _ _ Hin) (List.in_map fst _ _ (nth_error_in_skipn _ _ _ Hn))).
Qed.

(* ================================================================================== *)
(** * 3. The invariant of M-RESUME *)
Section Resume.
Variable STR : list (N * batch).
Variable sess : N.
Hypothesis Hwf : wf_stream STR.
Variable ls0 : N * N.

Notation F := (flat STR).
Notation int := (interesting sess).

(* a node holds a prefix of the stream, complete from the client's resume point upwards *)
Definition NInv (last : N * N) (nd : node) : Prop :=
  Inv (n_out nd) /\
  (forall id b, msgs_of (db (n_out nd)) !! id = Some b ->
     id = 0 \/ List.In (id, b) (firstn (n_applied nd) STR)) /\
  (forall id b, List.In (id, b) (firstn (n_applied nd) STR) -> fst last <= id ->
     msgs_of (db (n_out nd)) !! id = Some b).

(* the interesting messages after the client's position up to the handler's position are
   exactly the interesting ones among the messages in the pipeline *)
Definition Hgen (last : N * N) (infl : list omsg) (pos : N) (res : N * N) (out : list omsg) : Prop :=
  List.filter int (between last (hp pos) F) = List.filter int (infl ++ out) /\
  ((le2 last (hp pos) /\ fst res <= pos) \/
   (res = last /\ infl = [] /\ out = [] /\ fst res = pos + 1)).

Definition HInv (last : N * N) (infl : list omsg) (h : hstate) : Prop :=
  match h with
  | HInit ls => ls = last /\ infl = []
  | HCall pos res => Hgen last infl pos res []
  | HBackoff pos res => Hgen last infl pos res []
  | HSend pos res out => Hgen last infl pos res out
  end.

Record RInv (st : rstate) : Prop := {
  ri_nodes : forall k nd, r_nodes st !! k = Some nd -> NInv (r_last st) nd;
  ri_ls0 : le2 ls0 (r_last st);
  ri_recv : r_recv st = List.filter int (between ls0 (r_last st) F);
  ri_conn : match r_conn st with
            | None => r_inflight st = []
            | Some (k, h) => is_Some (r_nodes st !! k) /\ HInv (r_last st) (r_inflight st) h
            end }.

Lemma NInv_mono last last' nd : fst last <= fst last' -> NInv last nd -> NInv last' nd.
Proof.
  intros Hle (HI & H1 & H2). split; [exact HI|]. split; [exact H1|].
  intros id b Hin Hid. apply H2; [exact Hin|lia].
Qed.

Lemma NInv_same_db last o o' n :
  NInv last (Node o n) -> Inv o' -> db o' = db o -> NInv last (Node o' n).
Proof. intros (HI & H1 & H2) HI' Hdb. unfold NInv. simpl in *. rewrite Hdb. tauto. Qed.

Lemma NInv_fresh last : NInv last fresh_node.
Proof.
  split; [exact init_inv|]. simpl. split.
  - intros id b H. rewrite msgs_of_lookup in H. left.
    destruct (decide (id = 0)) as [->|Hne]; [reflexivity|].
    rewrite lookup_singleton_ne in H by congruence. discriminate.
  - intros id b [].
Qed.

Lemma NInv_apply last nd id b o' :
  NInv last nd -> nth_error STR (n_applied nd) = Some (id, b) -> add (n_out nd) id b = Ok o' ->
  NInv last (Node o' (S (n_applied nd))).
Proof.
  intros (HI & H1 & H2) Hnth Hadd.
  assert (Hin : List.In (id, b) STR) by (eapply nth_error_In; exact Hnth).
  destruct Hwf as [Hsorted Hall]. rewrite List.Forall_forall in Hall.
  destruct (Hall _ Hin) as (Hpos & Hmax & Hne & _). simpl in *.
  destruct (add_ok (n_out nd) id b HI Hne Hmax) as (o'' & Hadd' & HI' & Habs).
  { intros k e Hk.
    assert (Hm : msgs_of (db (n_out nd)) !! k = Some (e_msgs e)) by (rewrite msgs_of_lookup, Hk; reflexivity).
    destruct (H1 _ _ Hm) as [->|Hk']; [exact Hpos|].
    exact (SS_lt_firstn_nth STR _ _ _ _ _ Hsorted Hnth Hk'). }
  rewrite Hadd in Hadd'. injection Hadd' as <-.
  split; [exact HI'|]. simpl. rewrite Habs, (firstn_S_nth _ _ _ Hnth). split.
  - intros id1 b1 H. destruct (decide (id1 = id)) as [->|Hne1].
    + rewrite lookup_insert in H. injection H as <-. right. apply List.in_app_iff. right. left. reflexivity.
    + rewrite lookup_insert_ne in H by congruence. destruct (H1 _ _ H) as [->|Hk']; [left; reflexivity|].
      right. apply List.in_app_iff. left. exact Hk'.
  - intros id1 b1 H Hid. apply List.in_app_iff in H as [H|[[= <- <-]|[]]].
    + pose proof (SS_lt_firstn_nth STR _ _ _ _ _ Hsorted Hnth H).
      rewrite lookup_insert_ne by lia. exact (H2 _ _ H Hid).
    + apply lookup_insert.
Qed.

Lemma NInv_compact last nd x o' :
  NInv last nd -> x < fst last -> delete_op (n_out nd) x = Ok o' -> NInv last (Node o' (n_applied nd)).
Proof.
  intros (HI & H1 & H2) Hx Hdel. destruct (delete_inv _ _ _ HI Hdel) as [HI' Habs].
  split; [exact HI'|]. simpl. rewrite Habs. split.
  - intros id b H. apply lookup_delete_Some in H as [_ H]. exact (H1 _ _ H).
  - intros id b H Hid. rewrite lookup_delete_ne by lia. exact (H2 _ _ H Hid).
Qed.

(* all messages of the stream carry an id >= 1 *)
Lemma flat_id_pos m : List.In m F -> 1 <= o_id m.
Proof.
  intros Hm. destruct (flat_props STR m Hwf Hm) as [_ [b Hb]].
  destruct Hwf as [_ Hall]. rewrite List.Forall_forall in Hall.
  destruct (Hall _ Hb) as (Hpos & _). simpl in Hpos. lia.
Qed.

(* what a successful lookup on a node means in terms of the stream *)
Lemma node_successor last nd pos id b :
  NInv last nd -> fst last <= pos + 1 ->
  is_successor (msgs_of (db (n_out nd))) pos id b ->
  List.In (id, b) STR /\ pos < id /\
  forall id' b', List.In (id', b') STR -> id' < id -> id' <= pos.
Proof.
  intros (HI & H1 & H2) Hlast (Hk & Hlt & Hmin).
  assert (Hin : List.In (id, b) (firstn (n_applied nd) STR)).
  { destruct (H1 _ _ Hk) as [->|H]; [lia|exact H]. }
  split; [rewrite <- (firstn_skipn (n_applied nd) STR); apply List.in_app_iff; left; exact Hin|].
  split; [exact Hlt|].
  intros id' b' Hin' Hlt'. destruct (N.le_gt_cases id' pos) as [Hle|Hgt]; [exact Hle|exfalso].
  pose proof (SS_lt_prefix_closed STR _ _ _ _ _ (proj1 Hwf) Hin Hin' Hlt') as Hpre.
  assert (Hd : msgs_of (db (n_out nd)) !! id' = Some b') by (apply H2; [exact Hpre|lia]).
  specialize (Hmin id' (ex_intro _ _ Hd) Hgt). lia.
Qed.

Lemma skipN_eq r l : skipN r l = skipn (N.to_nat r) l.
Proof.
  unfold skipN. destruct (N.of_nat (length l) <=? r) eqn:E; [|reflexivity].
  apply N.leb_le in E. symmetry. apply skipn_all2. lia.
Qed.

Lemma filter_int_app l1 l2 : List.filter int (l1 ++ l2) = List.filter int l1 ++ List.filter int l2.
Proof. apply List.filter_app. Qed.

(* ---- the handler's lookup step ---- *)
Lemma Hgen_lookup last infl pos res nd id b :
  NInv last nd -> Hgen last infl pos res [] ->
  is_successor (msgs_of (db (n_out nd))) pos id b ->
  Hgen last infl id res
       (if id =? fst res then skipN (snd res) (tag id b) else tag id b).
Proof.
  rewrite skipN_eq. intros HN [Heq Hcase] Hsucc.
  assert (Hlast : fst last <= pos + 1).
  { destruct Hcase as [[Hle _]|(-> & _ & _ & ->)]; [lex|lex]. }
  destruct (node_successor last nd pos id b HN Hlast Hsucc) as (Hin & Hlt & Hgap).
  destruct Hcase as [[Hle Hres]|(-> & -> & _ & Hres)].
  - (* later iterations *)
    assert (E : id =? fst res = false) by (apply N.eqb_neq; lia). rewrite E.
    split; [|left; split; [lex|lex]].
    rewrite (between_split last (hp pos) (hp id) F (flat_sorted STR Hwf) Hle) by lex.
    rewrite (between_batch STR id b pos (hp pos) Hwf Hin Hgap) by lex.
    rewrite filter_int_app, Heq, app_nil_r, <- filter_int_app. reflexivity.
  - (* first iteration: pos = resume.Id - 1, nothing delivered on this connection yet *)
    destruct last as [i r]. cbn [fst snd] in *. subst i.
    destruct (id =? pos + 1) eqn:E; [apply N.eqb_eq in E | apply N.eqb_neq in E].
    + subst id. split; [|left; split; [lex|lex]].
      rewrite (between_skip STR (pos + 1) b r Hwf Hin). reflexivity.
    + split; [|left; split; [lex|lex]].
      rewrite (between_batch STR id b pos (pos + 1, r) Hwf Hin Hgap) by lex. reflexivity.
Qed.

Lemma Hgen_init last :
  Hgen last [] (if fst last =? 0 then 0 else fst last - 1) last [].
Proof.
  destruct last as [i r]. simpl.
  destruct (i =? 0) eqn:E; [apply N.eqb_eq in E | apply N.eqb_neq in E].
  - subst i. split; [|left; split; [lex|simpl; lia]].
    simpl. assert (Hnone : between (0, r) (hp 0) F = []).
    { apply filter_none. intros m Hm. apply inb_false. right.
      pose proof (flat_id_pos m Hm). destruct (flat_props STR m Hwf Hm) as [Hr _]. lex. }
    rewrite Hnone. reflexivity.
  - split; [|right; simpl; repeat split; lia].
    rewrite between_empty by lex. reflexivity.
Qed.

Lemma set_node_lookup (nodes : gmap nat node) k nd k' nd' :
  <[k := nd]> nodes !! k' = Some nd' -> (k' = k /\ nd' = nd) \/ (k' <> k /\ nodes !! k' = Some nd').
Proof.
  destruct (decide (k' = k)) as [->|Hne].
  - rewrite lookup_insert. intros [= <-]. left. tauto.
  - rewrite lookup_insert_ne by congruence. right. tauto.
Qed.

Lemma is_Some_insert (nodes : gmap nat node) k nd k' :
  is_Some (nodes !! k') -> is_Some (<[k := nd]> nodes !! k').
Proof.
  intros H. destruct (decide (k' = k)) as [->|Hne]; [rewrite lookup_insert; eauto|].
  rewrite lookup_insert_ne by congruence. exact H.
Qed.

Lemma RInv_set_node st k nd :
  RInv st -> NInv (r_last st) nd -> RInv (set_node st k nd).
Proof.
  intros [Hn Hl Hr Hc] HN. split; simpl; try assumption.
  - intros k' nd' H. apply set_node_lookup in H as [[_ ->]|[_ H]]; [exact HN|exact (Hn _ _ H)].
  - destruct (r_conn st) as [[k0 h]|]; [|exact Hc]. destruct Hc as [Hs Hh].
    split; [apply is_Some_insert; exact Hs|exact Hh].
Qed.

Lemma handler_step_inv st st' : RInv st -> handler_step st = Some st' -> RInv st'.
Proof.
  intros [Hn Hl Hr Hc]. unfold handler_step.
  destruct (r_conn st) as [[k h]|] eqn:Hconn; [|discriminate].
  destruct (r_nodes st !! k) as [nd|] eqn:Hk; [|discriminate].
  destruct Hc as [_ Hh]. pose proof (Hn k nd Hk) as HN.
  destruct (hstep (n_out nd) h (r_inflight st)) as [[[o' h'] infl']|] eqn:Hs; [|discriminate].
  intros [= <-].
  assert (Hgoal : NInv (r_last st) (Node o' (n_applied nd)) /\ HInv (r_last st) infl' h').
  { destruct nd as [o n]. simpl in *. destruct h as [[i r]|pos res|pos res|pos res out]; simpl in Hs, Hh.
    - injection Hs as <- <- <-. split; [exact HN|]. destruct Hh as [<- ->]. simpl.
      exact (Hgen_init (i, r)).
    - pose proof (next_unlocked_spec o pos (proj1 HN)) as Hspec.
      pose proof (next_unlocked_frame o pos (proj1 HN)) as [HI' Hdb].
      destruct (next_unlocked o pos) as [[[id b]|] o1]; [|discriminate]. simpl in Hspec, HI', Hdb.
      assert (HN' : NInv (r_last st) (Node o1 n)) by (exact (NInv_same_db _ _ _ _ HN HI' Hdb)).
      destruct (id <=? pos).
      + injection Hs as <- <- <-. split; [exact HN'|exact Hh].
      + pose proof (Hgen_lookup _ _ _ _ _ _ _ HN Hh Hspec) as Hg. simpl in Hg.
        destruct (if id =? fst res then skipN (snd res) (tag id b) else tag id b) as [|m0 out0];
          injection Hs as <- <- <-; (split; [exact HN'|exact Hg]).
    - injection Hs as <- <- <-. split; [exact HN|exact Hh].
    - destruct (r_inflight st) as [|m0 rest] eqn:Hinfl; [|discriminate].
      injection Hs as <- <- <-. split; [exact HN|]. simpl.
      destruct Hh as [Heq Hcase]. split.
      + rewrite app_nil_r. exact Heq.
      + destruct Hcase as [Hc|(H1 & _ & -> & H4)]; [left; exact Hc|right; tauto]. }
  destruct Hgoal as [HN' Hh']. split; simpl; try assumption.
  - intros k' nd' H. apply set_node_lookup in H as [[_ ->]|[_ H]]; [exact HN'|exact (Hn _ _ H)].
  - split; [rewrite lookup_insert; eauto|exact Hh'].
Qed.

Lemma client_recv_inv st st' : RInv st -> client_recv sess st = Some st' -> RInv st'.
Proof.
  intros [Hn Hl Hr Hc]. unfold client_recv.
  destruct (r_inflight st) as [|m rest] eqn:Hinfl; [discriminate|].
  destruct (r_conn st) as [[k h]|] eqn:Hconn; [|discriminate].
  destruct Hc as [Hs Hh].
  assert (Hg : exists pos res out, Hgen (r_last st) (m :: rest) pos res out /\
               (forall last' infl', Hgen last' infl' pos res out -> HInv last' infl' h)).
  { destruct h as [ls|pos res|pos res|pos res out]; simpl in Hh.
    - destruct Hh as [_ H]. discriminate.
    - exists pos, res, []. split; [exact Hh|]. intros. assumption.
    - exists pos, res, []. split; [exact Hh|]. intros. assumption.
    - exists pos, res, out. split; [exact Hh|]. intros. assumption. }
  destruct Hg as (pos & res & out & [Heq Hcase] & Hback).
  destruct Hcase as [[Hle Hres]|(_ & H & _)]; [|discriminate].
  destruct (int m) eqn:Hint; intros [= <-].
  - simpl in Heq. rewrite Hint in Heq.
    destruct (first_interesting int _ _ _ _ _ (flat_sorted STR Hwf) Heq)
      as (Hlm & Hmc & H1 & H2).
    split; simpl.
    + intros k' nd' H. apply (NInv_mono (r_last st)); [lex|exact (Hn _ _ H)].
    + lex.
    + rewrite (between_split ls0 (r_last st) (mid m) F (flat_sorted STR Hwf) Hl) by lex.
      rewrite filter_int_app, <- Hr, H1. reflexivity.
    + split; [exact Hs|]. apply Hback. split; [exact H2|]. left. split; [exact Hmc|exact Hres].
  - split; simpl; try assumption.
    split; [exact Hs|]. apply Hback. split; [|left; tauto].
    simpl in Heq. rewrite Hint in Heq. exact Heq.
Qed.

Lemma rstep_inv st st' : RInv st -> rstep STR sess st st' -> RInv st'.
Proof.
  intros HR Hstep. destruct Hstep.
  - apply RInv_set_node; [exact HR|]. eapply NInv_apply; eauto. exact (ri_nodes _ HR _ _ H).
  - apply RInv_set_node; [exact HR|]. eapply NInv_compact; eauto. exact (ri_nodes _ HR _ _ H).
  - apply RInv_set_node; [exact HR|]. pose proof (ri_nodes _ HR _ _ H) as HN.
    destruct nd as [o n]. simpl. apply (NInv_same_db _ o); [exact HN|apply evict_inv; exact (proj1 HN)|reflexivity].
  - apply RInv_set_node; [exact HR|]. apply NInv_fresh.
  - destruct HR as [Hn Hl Hr Hc]. split; simpl; try assumption.
    split; [eauto|]. split; reflexivity.
  - destruct HR as [Hn Hl Hr Hc]. split; simpl; try assumption. reflexivity.
  - eapply handler_step_inv; eauto.
  - destruct HR as [Hn Hl Hr Hc]. split; simpl; try assumption.
    rewrite H in Hc. destruct Hc as [Hs Hh]. split; [exact Hs|exact Hh].
  - eapply client_recv_inv; eauto.
Qed.

(* ---- executions ---- *)
Inductive reach : rstate -> Prop :=
| reach_init nodes0 :
    (forall k nd, nodes0 !! k = Some nd -> nd = fresh_node) -> reach (rinit nodes0 ls0)
| reach_step st st' : reach st -> rstep STR sess st st' -> reach st'.

Lemma reach_inv st : reach st -> RInv st.
Proof.
  induction 1 as [nodes0 Hfresh|st st' _ IH Hstep].
  - split; simpl.
    + intros k nd H. rewrite (Hfresh _ _ H). apply NInv_fresh.
    + lex.
    + rewrite between_empty by lex. reflexivity.
    + reflexivity.
  - exact (rstep_inv _ _ IH Hstep).
Qed.

(** * 4. The C04 theorems *)

(* exactly once, in order: at every moment, over any number of connections, disconnect points
   and node lags, what the client has received is exactly the sequence of the messages addressed
   to its session between its first resume point and the last message it received *)
Theorem exactly_once st :
  reach st -> r_recv st = List.filter int (between ls0 (r_last st) F).
Proof. intros H. exact (ri_recv _ (reach_inv _ H)). Qed.

(* nothing is missing at quiescence: when the handler is blocked in GetNext on a node that has
   applied the whole stream and nothing is in flight, the client has received every message
   addressed to its session after its first resume point *)
Theorem complete_at_quiescence st k nd pos res :
  reach st -> r_conn st = Some (k, HCall pos res) -> r_nodes st !! k = Some nd ->
  n_applied nd = length STR -> r_inflight st = [] -> handler_step st = None ->
  r_recv st = List.filter int (List.filter (fun m => ltb2 ls0 (mid m)) F).
Proof.
  intros Hreach Hconn Hk Happ Hinfl Hblocked.
  destruct (reach_inv _ Hreach) as [Hn Hl Hr Hc]. rewrite Hconn in Hc. destruct Hc as [_ [Heq Hcase]].
  pose proof (Hn _ _ Hk) as HN.
  (* blocked: no successor of pos on the node *)
  assert (Hnone : no_successor (msgs_of (db (n_out nd))) pos).
  { unfold handler_step in Hblocked. rewrite Hconn, Hk in Hblocked. simpl in Hblocked.
    pose proof (next_unlocked_spec (n_out nd) pos (proj1 HN)) as Hspec.
    destruct (next_unlocked (n_out nd) pos) as [[[id b]|] o1]; simpl in *; [|exact Hspec].
    destruct (id <=? pos); [discriminate|].
    destruct (if id =? fst res then skipN (snd res) (tag id b) else tag id b); discriminate. }
  assert (Hlast : fst (r_last st) <= pos + 1).
  { destruct Hcase as [[Hle _]|(-> & _ & _ & ->)]; [lex|lia]. }
  (* every batch of the stream has an id <= pos *)
  assert (Hall : forall m, List.In m F -> le2 (mid m) (hp pos)).
  { intros m Hm. destruct (flat_props STR m Hwf Hm) as [Hrep [b Hb]].
    assert (o_id m <= pos); [|lex].
    destruct (N.le_gt_cases (o_id m) pos) as [H|H]; [exact H|exfalso].
    destruct HN as (_ & _ & H2). rewrite Happ, firstn_all in H2.
    assert (Hd : msgs_of (db (n_out nd)) !! o_id m = Some b) by (apply H2; [exact Hb|lia]).
    specialize (Hnone _ (ex_intro _ _ Hd)). lia. }
  rewrite Hr. rewrite Hinfl in Heq. simpl in Heq.
  destruct Hcase as [[Hle _]|(Hres & _ & _ & Hfst)].
  - transitivity (List.filter int (between ls0 (hp pos) F)).
    + rewrite (between_split ls0 (r_last st) (hp pos) F (flat_sorted STR Hwf) Hl Hle).
      rewrite filter_int_app, Heq, app_nil_r. reflexivity.
    + f_equal. unfold between. apply List.filter_ext_in. intros m Hm. unfold inb.
      rewrite (proj2 (leb2_spec _ _) (Hall m Hm)). apply andb_true_r.
  - f_equal. unfold between. apply List.filter_ext_in. intros m Hm. unfold inb.
    assert (Hle : le2 (mid m) (r_last st)).
    { specialize (Hall m Hm). rewrite <- Hres. lex. }
    rewrite (proj2 (leb2_spec _ _) Hle). apply andb_true_r.
Qed.

(* The fact behind the open finding `ended-session-tail-not-served`: let d be (an upper bound of)
   the id of the last batch with a message addressed to the session - e.g. the batch of the
   message that ended it (ERROR :Closing Link).  A reader that keeps following the stream until its
   handler has passed d, with nothing left in flight, has received the session's whole filtered
   stream.  handleGetMessages does NOT keep following: once the session is gone it returns after the
   batch in flight (modelled by the disconnect step RS_disconnect, which may fire at any moment),
   and api.session() refuses the reconnect (there is no RS_connect for an ended session in the real
   system) - so a reader that was behind when its session ended never reaches this state. *)
Lemma filter_int_ext (f g : omsg -> bool) l :
  (forall m, List.In m l -> int m = true -> f m = g m) ->
  List.filter int (List.filter f l) = List.filter int (List.filter g l).
Proof.
  induction l as [|x r IH]; intros H; simpl; [reflexivity|].
  assert (IH' : List.filter int (List.filter f r) = List.filter int (List.filter g r)).
  { apply IH. intros m Hm. apply H. right. exact Hm. }
  destruct (int x) eqn:Hx.
  - rewrite (H x (or_introl eq_refl) Hx). destruct (g x); simpl; rewrite ?Hx, IH'; reflexivity.
  - destruct (f x), (g x); simpl; rewrite ?Hx; exact IH'.
Qed.

Theorem complete_once_passed st k pos res d :
  reach st -> r_conn st = Some (k, HCall pos res) -> r_inflight st = [] ->
  (forall m, List.In m F -> int m = true -> o_id m <= d) -> d <= pos ->
  r_recv st = List.filter int (List.filter (fun m => ltb2 ls0 (mid m)) F).
Proof.
  intros Hreach Hconn Hinfl Hd Hdp.
  destruct (reach_inv _ Hreach) as [_ Hl Hr Hc]. rewrite Hconn in Hc. destruct Hc as [_ [Heq Hcase]].
  rewrite Hinfl in Heq. simpl in Heq. rewrite Hr.
  destruct Hcase as [[Hle _]|(Hres & _ & _ & Hfst)].
  - transitivity (List.filter int (between ls0 (hp pos) F)).
    + rewrite (between_split ls0 (r_last st) (hp pos) F (flat_sorted STR Hwf) Hl Hle).
      rewrite filter_int_app, Heq, app_nil_r. reflexivity.
    + unfold between. apply filter_int_ext. intros m Hm Hi. unfold inb.
      assert (Hle' : le2 (mid m) (hp pos)) by (specialize (Hd m Hm Hi); lex).
      rewrite (proj2 (leb2_spec _ _) Hle'). apply andb_true_r.
  - unfold between. apply filter_int_ext. intros m Hm Hi. unfold inb.
    assert (Hle' : le2 (mid m) (r_last st)) by (specialize (Hd m Hm Hi); rewrite <- Hres; lex).
    rewrite (proj2 (leb2_spec _ _) Hle'). apply andb_true_r.
Qed.

End Resume.

(* ================================================================================== *)
(** * 5. Non-vacuity: a concrete execution with a disconnect inside a batch and a reconnect
      to a node that has not yet applied the batch the client saw last (the D4a/D4b shape) *)

Inductive raction :=
| AApply (k : nat) | ACompact (k : nat) (x : N) | ANew (k : nat) | AConnect (k : nat)
| ADisconnect | AHandler | AClient.

Definition ract (STR : list (N * batch)) (sess : N) (st : rstate) (a : raction) : option rstate :=
  match a with
  | AApply k =>
      match r_nodes st !! k with
      | Some nd =>
          match nth_error STR (n_applied nd) with
          | Some (id, b) =>
              match add (n_out nd) id b with
              | Ok o' => Some (set_node st k (Node o' (S (n_applied nd))))
              | Panic _ => None
              end
          | None => None
          end
      | None => None
      end
  | ACompact k x =>
      match r_nodes st !! k with
      | Some nd =>
          if x <? fst (r_last st) then
            match delete_op (n_out nd) x with
            | Ok o' => Some (set_node st k (Node o' (n_applied nd)))
            | Panic _ => None
            end
          else None
      | None => None
      end
  | ANew k => match r_nodes st !! k with None => Some (set_node st k fresh_node) | Some _ => None end
  | AConnect k =>
      match r_conn st, r_nodes st !! k with
      | None, Some _ => Some (connect st k)
      | _, _ => None
      end
  | ADisconnect => Some (disconnect st)
  | AHandler => handler_step st
  | AClient => client_recv sess st
  end.

Lemma ract_rstep STR sess st a st' : ract STR sess st a = Some st' -> rstep STR sess st st'.
Proof.
  destruct a as [k|k x|k|k| | | ]; simpl.
  - destruct (r_nodes st !! k) as [nd|] eqn:Hk; [|discriminate].
    destruct (nth_error STR (n_applied nd)) as [[id b]|] eqn:Hn; [|discriminate].
    destruct (add (n_out nd) id b) as [o'|] eqn:Ha; [|discriminate].
    intros [= <-]. eapply RS_apply; eauto.
  - destruct (r_nodes st !! k) as [nd|] eqn:Hk; [|discriminate].
    destruct (x <? fst (r_last st)) eqn:Hx; [apply N.ltb_lt in Hx|discriminate].
    destruct (delete_op (n_out nd) x) as [o'|] eqn:Hd; [|discriminate].
    intros [= <-]. eapply RS_compact; eauto.
  - destruct (r_nodes st !! k) eqn:Hk; [discriminate|]. intros [= <-]. apply RS_newnode. exact Hk.
  - destruct (r_conn st) eqn:Hc; [discriminate|].
    destruct (r_nodes st !! k) as [nd|] eqn:Hk; [|discriminate].
    intros [= <-]. eapply RS_connect; eauto.
  - intros [= <-]. apply RS_disconnect.
  - apply RS_handler.
  - apply RS_client.
Qed.

Fixpoint rrun (STR : list (N * batch)) (sess : N) (st : rstate) (acts : list raction) : option rstate :=
  match acts with
  | [] => Some st
  | a :: r => match ract STR sess st a with Some st' => rrun STR sess st' r | None => None end
  end.

Lemma rrun_reach STR sess ls0 acts : forall st st',
  reach STR sess ls0 st -> rrun STR sess st acts = Some st' -> reach STR sess ls0 st'.
Proof.
  induction acts as [|a r IH]; intros st st' Hr; simpl.
  - intros [= <-]. exact Hr.
  - destruct (ract STR sess st a) as [st1|] eqn:Ha; [|discriminate].
    apply IH. eapply reach_step; [exact Hr|]. apply (ract_rstep _ _ _ a). exact Ha.
Qed.

Definition ex_stream : list (N * batch) :=
  [(5, [Msg 1 "a" [1]; Msg 2 "b" [1; 2]; Msg 3 "c" [1]]); (7, [Msg 1 "d" [2]; Msg 2 "e" [1]])].
Definition ex_acts : list raction :=
  [ANew 0; ANew 1; AApply 0; AConnect 0; AHandler; AHandler; AHandler; AClient; AClient;
   ADisconnect;                                   (* inside batch 5, after 5.2 *)
   AConnect 1; AHandler;                          (* node 1 has applied nothing yet *)
   AApply 1; AHandler; AHandler; AClient;         (* it catches up: the rest of batch 5 *)
   ACompact 0 4; AApply 1; AHandler; AHandler; AClient; AClient].

Lemma ex_stream_wf : wf_stream ex_stream.
Proof.
  split.
  - simpl. repeat constructor; lia.
  - repeat constructor; simpl; try lia; try (unfold MAXID; lia); try discriminate.
Qed.

Example exactly_once_premises_met :
  exists st, reach ex_stream 1 (4, 0) st /\
             map mid (r_recv st) = [(5, 1); (5, 2); (5, 3); (7, 2)] /\
             r_last st = (7, 2).
Proof.
  assert (Hp : option_map (fun st => (map mid (r_recv st), r_last st))
                 (rrun ex_stream 1 (rinit ∅ (4, 0)) ex_acts)
               = Some ([(5, 1); (5, 2); (5, 3); (7, 2)], (7, 2))) by (vm_compute; reflexivity).
  destruct (rrun ex_stream 1 (rinit ∅ (4, 0)) ex_acts) as [st|] eqn:Hrun; [|discriminate Hp].
  simpl in Hp. injection Hp as H1 H2. exists st. split; [|split; assumption].
  eapply rrun_reach; [|exact Hrun]. apply reach_init. intros k nd H. rewrite lookup_empty in H. discriminate.
Qed.

Example complete_at_quiescence_premises_met :
  exists st k nd pos res,
    reach ex_stream 1 (4, 0) st /\ r_conn st = Some (k, HCall pos res) /\ r_nodes st !! k = Some nd /\
    n_applied nd = length ex_stream /\ r_inflight st = [] /\ handler_step st = None.
Proof.
  assert (Hp : option_map (fun st => (r_conn st, n_applied <$> (r_nodes st !! 1%nat), r_inflight st,
                                      match handler_step st with None => true | Some _ => false end))
                 (rrun ex_stream 1 (rinit ∅ (4, 0)) ex_acts)
               = Some (Some (1%nat, HCall 7 (5, 2)), Some 2%nat, [], true)) by (vm_compute; reflexivity).
  destruct (rrun ex_stream 1 (rinit ∅ (4, 0)) ex_acts) as [st|] eqn:Hrun; [|discriminate Hp].
  simpl in Hp. injection Hp as H1 H2 H3 H4.
  destruct (r_nodes st !! 1%nat) as [nd|] eqn:Hnd; [|discriminate H2]. simpl in H2. injection H2 as H2.
  exists st, 1%nat, nd, 7, (5, 2). split; [|repeat split; try assumption].
  - eapply rrun_reach; [|exact Hrun]. apply reach_init. intros k nd' H. rewrite lookup_empty in H. discriminate.
  - destruct (handler_step st); [discriminate H4|reflexivity].
Qed.
