(* C18 — every writer/reader pair of the on-disk and on-wire formats round-trips. *)
From Coq Require Import List NArith ZArith Bool.
From Coq Require Import Strings.String Strings.Ascii.
From RV Require Import Store.Wire Store.Proto Store.Batch.
From RV Require Import Store.WireProofs Store.ProtoProofs Store.BatchProofs.
Import ListNotations.
Local Open Scope N_scope.

(* base-128 varint below 2^64: decode consumes exactly what encode wrote, whatever follows *)
Theorem C18_varint_roundtrip : forall n rest,
  n < 18446744073709551616 -> dec_varint (enc_varint n ++ rest) = Some (n, rest).
Proof. exact dec_enc_varint. Qed.
Print Assumptions C18_varint_roundtrip.

Theorem C18_varint_fits_uint64 : forall s v r, dec_varint s = Some (v, r) -> v < 18446744073709551616.
Proof. exact dec_varint_bound. Qed.
Print Assumptions C18_varint_fits_uint64.

Theorem C18_fixed64_roundtrip : forall n rest,
  n < 18446744073709551616 -> dec_le 8 (enc_le 8 n ++ rest) = Some (n, rest).
Proof. exact dec_enc_fixed64. Qed.
Print Assumptions C18_fixed64_roundtrip.

(* a message body written as a sequence of fields (tags, varints, fixed64, length prefixes)
   parses back to exactly that sequence *)
Theorem C18_fields_roundtrip : forall l, Forall field_ok l -> parse_message (enc_fields l) = Some l.
Proof. exact parse_message_enc_fields. Qed.
Print Assumptions C18_fields_roundtrip.

(* ProtoMessage encoder: decode_msg (encode_msg m) = m, all ten fields, no panic *)
Theorem C18_msg_roundtrip : forall m, wf_msg m -> decode_msg (encode_msg m) = ROk m.
Proof. exact decode_encode_msg. Qed.
Print Assumptions C18_msg_roundtrip.

(* CopyToProtoMessage into any allocated destination produces the same bytes as ProtoMessage
   (so decoding either gives the same message); an unallocated destination panics *)
Theorem C18_encoders_agree : forall m dst i0 s0,
  pm_id dst = Some i0 -> pm_session dst = Some s0 -> encode_msg_copy dst m = ROk (encode_msg m).
Proof. exact encoders_agree. Qed.
Print Assumptions C18_encoders_agree.

Theorem C18_copy_roundtrip : forall m dst i0 s0 b,
  wf_msg m -> pm_id dst = Some i0 -> pm_session dst = Some s0 ->
  encode_msg_copy dst m = ROk b -> decode_msg b = ROk m.
Proof. exact decode_encode_msg_copy. Qed.
Print Assumptions C18_copy_roundtrip.

(* what api.applyMessageWait proposes ('p' ++ protobuf) decodes on every node to the same
   message, the id taken from the raft index exactly when the encoded id is 0 *)
Theorem C18_from_bytes_proto : forall json_dec_msg m idx,
  wf_msg m -> from_bytes json_dec_msg (encode_for_raft m) idx = ROk (default_id m idx).
Proof. exact from_bytes_proto. Qed.
Print Assumptions C18_from_bytes_proto.

(* legacy JSON as an abstract codec: round trip + "never starts with p" suffice *)
Theorem C18_from_bytes_json : forall json_dec_msg (json_enc_msg : msg -> string) m idx,
  json_dec_msg (json_enc_msg m) = Some m -> starts_p (json_enc_msg m) = false ->
  from_bytes json_dec_msg (json_enc_msg m) idx = ROk (default_id m idx).
Proof. exact from_bytes_json. Qed.
Print Assumptions C18_from_bytes_json.

Theorem C18_id_default : forall m idx,
  fst (m_id (default_id m idx)) = (if fst (m_id m) =? 0 then idx else fst (m_id m)) /\
  (fst (m_id m) <> 0 -> default_id m idx = m) /\
  snd (m_id (default_id m idx)) = snd (m_id m) /\ m_session (default_id m idx) = m_session m /\
  m_type (default_id m idx) = m_type m /\ m_data (default_id m idx) = m_data m /\
  m_unixnano (default_id m idx) = m_unixnano m /\ m_servers (default_id m idx) = m_servers m /\
  m_master (default_id m idx) = m_master m /\ m_cmid (default_id m idx) = m_cmid m /\
  m_revision (default_id m idx) = m_revision m /\ m_remote (default_id m idx) = m_remote m.
Proof. exact default_id_spec. Qed.
Print Assumptions C18_id_default.

(* RaftLog: all six fields, at the protobuf level and through the store's reader *)
Theorem C18_pblog_roundtrip : forall l, wf_pb_log l -> unmarshal_log (marshal_log l) = Some l.
Proof. exact unmarshal_marshal_log. Qed.
Print Assumptions C18_pblog_roundtrip.

Theorem C18_log_roundtrip : forall json_dec_log l,
  wf_log l -> read_store json_dec_log (encode_log l) = ROk l.
Proof. exact read_store_encode_log. Qed.
Print Assumptions C18_log_roundtrip.

(* every copy of the reader decodes every stored value identically *)
Theorem C18_readers_agree : forall json_dec_log v,
  read_snapshot json_dec_log v = read_store json_dec_log v /\
  read_dump json_dec_log v = read_store json_dec_log v /\
  read_canary json_dec_log v = read_store json_dec_log v /\
  (v <> EmptyString -> read_frombytes json_dec_log v = read_store json_dec_log v).
Proof. exact readers_agree. Qed.
Print Assumptions C18_readers_agree.

Theorem C18_restore_agrees : forall json_dec_log v,
  starts_p v = true ->
  match read_restore v, read_store json_dec_log v with
  | ROk (i, d, (k, v')), ROk l => i = l_index l /\ d = l_data l /\ k = be8 (l_index l) /\ v' = v
  | RErr, RErr => True
  | _, _ => False
  end.
Proof. exact restore_agrees. Qed.
Print Assumptions C18_restore_agrees.

(* the protobuf snapshot stream (8-byte big-endian length prefixes) *)
Theorem C18_snapshot_stream_roundtrip : forall l,
  Forall str_ok l -> restore_stream (persist_stream l) = Some l.
Proof. exact restore_persist_stream. Qed.
Print Assumptions C18_snapshot_stream_roundtrip.

(* the hand-written batch codec: exactly, and therefore up to the recipient set for whatever
   order the Go map iteration wrote the keys in *)
Theorem C18_batch_roundtrip : forall b rest,
  wf_batch b -> unmarshal_batch (marshal_batch b ++ rest) = Some b.
Proof. exact unmarshal_marshal_batch. Qed.
Print Assumptions C18_batch_roundtrip.

Theorem C18_batch_roundtrip_set : forall b written,
  batch_equiv b written -> wf_batch written ->
  exists b', unmarshal_batch (marshal_batch written) = Some b' /\ batch_equiv b b'.
Proof. exact batch_roundtrip_set. Qed.
Print Assumptions C18_batch_roundtrip_set.
