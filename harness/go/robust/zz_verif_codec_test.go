//go:build verif

package robust

// Correspondence driver for property C18 (robust.Message codecs), injected by `go test
// -overlay`, never part of /repo.  Reads case lines from $VERIF_IN:
//   codec msg <idid> <idreply> <sid> <sreply> <type> <datahex> <nano> <servers> <masterhex> <cmid> <rev> <remotehex> <index>
//   codec msgdec <hex> <index>
// and writes one line per case to $VERIF_OUT in the canonical form of
// coq/Store/StoreDriver.v, followed by " || " and Go-only monitor verdicts
// (decode(encode(x)) == x for protobuf and for legacy JSON, the two encoders byte-equal).

import (
	"bufio"
	"encoding/hex"
	"encoding/json"
	"fmt"
	"io"
	"log"
	"os"
	"reflect"
	"strconv"
	"strings"
	"testing"

	"github.com/golang/protobuf/proto"

	pb "github.com/robustirc/robustirc/internal/proto"
)

func verifUnhex(s string) string {
	if s == "-" {
		return ""
	}
	b, err := hex.DecodeString(s)
	if err != nil {
		panic(err)
	}
	return string(b)
}

func verifHex(s string) string {
	if s == "" {
		return "-"
	}
	return hex.EncodeToString([]byte(s))
}

func verifU(s string) uint64 {
	n, err := strconv.ParseUint(s, 10, 64)
	if err != nil {
		panic(err)
	}
	return n
}

func verifI(s string) int64 {
	n, err := strconv.ParseInt(s, 10, 64)
	if err != nil {
		panic(err)
	}
	return n
}

func verifParseMsg(f []string) Message {
	var m Message
	m.Id.Id, m.Id.Reply = verifU(f[0]), verifU(f[1])
	m.Session.Id, m.Session.Reply = verifU(f[2]), verifU(f[3])
	m.Type = Type(verifI(f[4]))
	m.Data = verifUnhex(f[5])
	m.UnixNano = verifI(f[6])
	if f[7] != "_" {
		for _, s := range strings.Split(f[7], "/") {
			m.Servers = append(m.Servers, verifUnhex(s))
		}
	}
	m.Currentmaster = verifUnhex(f[8])
	m.ClientMessageId = verifU(f[9])
	m.Revision = verifU(f[10])
	m.RemoteAddr = verifUnhex(f[11])
	return m
}

func verifShowMsg(m *Message) string {
	servers := "_"
	if len(m.Servers) > 0 {
		var l []string
		for _, s := range m.Servers {
			l = append(l, verifHex(s))
		}
		servers = strings.Join(l, "/")
	}
	return fmt.Sprintf("m:%d,%d,%d,%d,%d,%s,%d,%s,%s,%d,%d,%s", m.Id.Id, m.Id.Reply, m.Session.Id, m.Session.Reply,
		int64(m.Type), verifHex(m.Data), m.UnixNano, servers, verifHex(m.Currentmaster), m.ClientMessageId, m.Revision,
		verifHex(m.RemoteAddr))
}

// verifDecode runs NewMessageFromBytes, turning a panic into the outcome "panic".
func verifDecode(b []byte, index uint64) (res string, msg Message) {
	defer func() {
		if r := recover(); r != nil {
			res = "panic"
		}
	}()
	msg = NewMessageFromBytes(b, index)
	return verifShowMsg(&msg), msg
}

// same message up to what the formats can carry (nil vs empty Servers, InterestingFor not serialised)
func verifSameMsg(a, b Message) bool {
	if len(a.Servers) == 0 {
		a.Servers = nil
	}
	if len(b.Servers) == 0 {
		b.Servers = nil
	}
	a.InterestingFor, b.InterestingFor = nil, nil
	return reflect.DeepEqual(a, b)
}

func verifCodecMsg(f []string) string {
	m := verifParseMsg(f[2:14])
	index := verifU(f[14])
	want := m
	if want.Id.Id == 0 {
		want.Id.Id = index
	}

	enc, dec, rt := "err", "-", "n/a"
	b, err := proto.Marshal(m.ProtoMessage())
	if err == nil {
		pbytes := append([]byte{'p'}, b...)
		enc = hex.EncodeToString(pbytes)
		var got Message
		dec, got = verifDecode(pbytes, index)
		rt = "ok"
		if dec == "panic" || !verifSameMsg(got, want) {
			rt = "FAIL"
		}
	}

	dst := &pb.RobustMessage{
		Id: &pb.RobustId{Id: 7, Reply: 9}, Session: &pb.RobustId{Id: 3, Reply: 4},
		Type: 5, Data: "x", UnixNano: 6, Servers: []string{"y", "yy"}, CurrentMaster: "z",
		ClientMessageId: 1, Revision: 2, RemoteAddr: "w",
	}
	cp := "err"
	func() {
		defer func() {
			if r := recover(); r != nil {
				cp = "panic"
			}
		}()
		m.CopyToProtoMessage(dst)
		if b2, err := proto.Marshal(dst); err == nil {
			cp = hex.EncodeToString(append([]byte{'p'}, b2...))
		}
	}()
	agree := "ok"
	if cp != enc {
		agree = "FAIL"
	}

	// legacy JSON, Go side only: encode as api.applyMessageWait does without -pre1.0_protobuf
	jrt := "n/a"
	if jb, err := json.Marshal(&m); err == nil {
		if len(jb) > 0 && jb[0] == 'p' {
			jrt = "FAIL-starts-with-p"
		} else if res, got := verifDecode(jb, index); res == "panic" || !verifSameMsg(got, want) {
			jrt = "FAIL"
		} else {
			jrt = "ok"
		}
	}
	return fmt.Sprintf("codec msg enc=%s copy=%s dec=%s || rt=%s encoders=%s jsonrt=%s", enc, cp, dec, rt, agree, jrt)
}

func verifCodecMsgdec(f []string) string {
	res, _ := verifDecode([]byte(verifUnhex(f[2])), verifU(f[3]))
	return "codec msgdec " + res + " || -"
}

func TestVerifCodec(t *testing.T) {
	in, err := os.Open(os.Getenv("VERIF_IN"))
	if err != nil {
		t.Fatal(err)
	}
	defer in.Close()
	out, err := os.Create(os.Getenv("VERIF_OUT"))
	if err != nil {
		t.Fatal(err)
	}
	defer out.Close()
	w := bufio.NewWriter(out)
	defer w.Flush()
	log.SetOutput(io.Discard)
	defer log.SetOutput(os.Stderr)
	sc := bufio.NewScanner(in)
	sc.Buffer(make([]byte, 1<<20), 1<<28)
	for sc.Scan() {
		f := strings.Fields(sc.Text())
		line := "codec unknown || -"
		func() {
			defer func() {
				if r := recover(); r != nil {
					line = fmt.Sprintf("codec driver-panic %v || -", r)
				}
			}()
			switch {
			case len(f) >= 15 && f[0] == "codec" && f[1] == "msg":
				line = verifCodecMsg(f)
			case len(f) >= 4 && f[0] == "codec" && f[1] == "msgdec":
				line = verifCodecMsgdec(f)
			}
		}()
		fmt.Fprintln(w, line)
	}
}
