# C02 — compaction / snapshot / restore invisible:
#   proof obligations (Properties/C02.v) + source facts + correspondence of M-FSM (digest machine) with the
#   real FSM (fsmdrv) + model-independent monitor (plain replay, exactness, horizon).
import json, os, re, subprocess, concurrent.futures
import vlib
import irclib

S = 10 ** 9
MIN = 60 * S
T0 = 1700000000 * S
TEN_MIN = 600 * S
INTERVAL = 10 * S
VARIANTS = ["11", "00", "10", "01"]          # fix_d3 fix_d15 (+ third character: fix_d18, follows main())
DUMPS = {"on": False}                        # full field dumps in the driver output (diagnosis re-runs only)
D18 = {"flag": "0"}                          # "1" when main() of the tree under test re-creates irclog at start-up
GEN_VERSION = 1


def hx(s):
    return s.encode().hex() or "-"


# ----------------------------------------------------------------------------- cases
def entry_tok(e):
    tok = "%d:%s:%d:%s:%d:%s" % (e["idx"], e["kind"], e["ts"], "-" if e["exp"] is None else str(e["exp"]), e.get("rev", 0), hx(e["spec"]))
    if e.get("mid"):
        tok += ":%d" % e["mid"]      # explicit robust.Message.Id (read by the Go driver only; the model keys everything by raft index)
    return tok


def config_in_force(entries):
    """(revision, SessionExpiration) in force after applying `entries`: applyRobustMessage takes a Config message
    only if it parses (exp is not None) and carries revision in force + 1; anything else is skipped"""
    rev, exp = 0, 0
    for e in entries:
        if e["kind"] == "c" and e["exp"] is not None and e.get("rev", 0) == rev + 1:
            rev, exp = e["rev"], e["exp"]
    return rev, exp


def pick_revision(rng, rev, p_consecutive):
    """revision for a generated Config entry when `rev` is in force: mostly rev+1; otherwise a duplicate of the
    revision in force, a stale one, or a future one (rev+2) - those must have no effect at all"""
    if rng.random() < p_consecutive:
        return rev + 1
    return rng.choice([rev, rev, max(rev - 1, 0), 0, rev + 2, rev + 2, rev + 5])


def case_line(c, variant="11", queries=()):
    sink = c["sink"] + ("@%d" % c["offset"] if c.get("offset") else "")     # @n: robust.MessageOffset = n
    f = ["fsm", str(c["id"]), (variant + D18["flag"])[:3], str(c["proto"]), sink, "L"]
    f += [entry_tok(e) for e in c["entries"]]
    f.append("S")
    f += list(c["steps"])
    f += ["Q" + q for q in queries]
    return " ".join(f)


DUR = {"5m": 5 * MIN, "10m": 10 * MIN, "15m": 15 * MIN, "30m": 30 * MIN, "1h": 60 * MIN, "0s": 0, "11m": 11 * MIN}


def simple_entries(rng, tier):
    """the small hand-rolled histories: timestamp patterns and Config/expiration shapes are the point"""
    n = rng.randint(10, 60 if tier == "thorough" else 36)
    pattern = rng.choice(["allold", "allnew", "mixed", "mixed", "nonmono", "boundary", "boundary"])
    big = rng.random() < 0.45            # configs above 10 minutes (D15)
    entries, sessions, logged = [], [], set()
    chans = ["#a", "#B", "#c"]
    idx = 0
    now = T0
    rev = 0
    jump_at = rng.randint(2, n - 1)
    # message ids: the output stream is keyed by MESSAGE id = explicit Id if the message carries one (legacy pre-#150
    # UNIX-nanosecond ids), else robust.MessageOffset + raft index
    LEG = 1420000000 * S
    idmode = rng.choices(["index", "offset", "legacy", "legacy-then-offset"], [55, 15, 15, 15])[0]
    offset = {"index": 0, "offset": rng.choice([1000, 7804071725000000000]), "legacy": 0, "legacy-then-offset": LEG + 10 ** 15}[idmode]
    nlegacy = {"index": 0, "offset": 0, "legacy": 10 ** 9, "legacy-then-offset": rng.randint(3, max(3, n - 2))}[idmode]

    def mid_of(i):
        return LEG + i * 1000 + 7 if i <= nlegacy else 0

    def R(i):
        """the id under which the state machine knows the session created by entry i"""
        return mid_of(i) or offset + i

    for k in range(n):
        idx += 1
        if rng.random() < 0.15 and k > 0:
            entries.append({"idx": idx, "kind": "i", "ts": 0, "exp": None, "spec": ""})
            continue
        # timestamps
        if pattern == "allold":
            now += rng.randint(1, S)
        elif pattern == "allnew":
            now += rng.randint(1, S)
        elif pattern in ("mixed", "boundary"):
            now += rng.randint(1, 30 * S)
            if k == jump_at:
                now += rng.choice([20, 45, 90, 200]) * MIN
        else:
            now = T0 + rng.randint(0, 120) * MIN + rng.randint(0, S)
        ts = now
        kind = "c"
        exp = None
        erev = 0
        r = rng.random()
        live = [s for s in sessions]
        if not live or (r < 0.12 and len(live) < 4):
            spec = "C"
            sessions.append(idx)
        elif r < 0.22:
            d = rng.choice(["30m", "1h", "15m", "11m"] if big else ["5m", "10m", "0s", "15m"])
            spec, exp = "G" + d, DUR[d]
            erev = pick_revision(rng, rev, 0.75)
            if erev == rev + 1:
                rev = erev
        elif r < 0.26 and len(live) > 1:
            sid = rng.choice(live)
            spec = "D%d bye" % R(sid)
            sessions.remove(sid)
            logged.discard(sid)
        else:
            sid = rng.choice(live)
            if sid not in logged:
                step = rng.random()
                if step < 0.5:
                    spec = "I%d NICK n%d" % (R(sid), sid)
                else:
                    spec = "I%d USER u%d 0 * :User %d" % (R(sid), sid, sid)
                    if rng.random() < 0.8:
                        logged.add(sid)   # approximation; only drives the distribution
            else:
                c = rng.choice(chans)
                spec = "I%d " % R(sid) + rng.choice([
                    "JOIN " + c, "PRIVMSG " + c + " :hello %d" % idx, "PART " + c, "TOPIC " + c + " :t%d" % idx,
                    "PING x", "AWAY :gone", "NICK m%d" % idx, "MODE " + c + " +t", "NAMES " + c, "WHOIS n%d" % rng.choice(live)])
            if rng.random() < 0.04:
                kind = "m"
        if kind == "m" and exp is not None:
            kind = "c"
        entries.append({"idx": idx, "kind": kind, "ts": ts, "exp": exp, "rev": erev, "spec": spec, "mid": mid_of(idx)})
    # behavioural tail: every surviving session acts once more after the last restore
    for sid in sessions[:4]:
        idx += 1
        now += rng.randint(1, S)
        c = rng.choice(chans)
        entries.append({"idx": idx, "kind": "c", "ts": now, "exp": None,
                        "mid": mid_of(idx),
                        "spec": "I%d " % R(sid) + rng.choice(["JOIN " + c, "PRIVMSG " + c + " :probe", "WHOIS n%d" % sid, "NICK p%d" % idx])})
    ntail = min(4, len(sessions))
    return entries, len(entries) - ntail, {"pattern": pattern, "big_exp": big, "kind": "simple", "idmode": idmode, "offset": offset}


class RichGen(irclib.Gen):
    """irclib's history generator (the one the IRC properties use: operators, a services link with pseudo-clients,
    +i/+k/+x/+b channels with bans by host and by robust/0x<id>, invitations, captchas, SVSHOLD, AWAY, GLINE ...)
    with more CaptchaRequiredForLogin, and without WhitelistedOrigins unless that finding is listed (see ALLOW_WO)"""
    allow_wo = False

    def _config(self, expire=None):
        cfg = irclib.Gen._config(self, expire)
        if not self.allow_wo:
            cfg.pop("wo", None)
        return cfg

    def _F(self, cfg=None, invalid=False):
        """inside the generator's world every Config entry follows the revision in force, so that its idea of the
        configuration (operators, services passwords, captcha) is the log's; rich_entries() numbers them and adds
        the Config entries that must be skipped (duplicate / stale / future revisions)"""
        self._tick()
        if invalid:
            self.entries.append({"k": "F", "id": self.id, "ts": self.ts, "rev": self.rev + 1,
                                 "toml": self.rng.choice(irclib.INVALID_TOMLS), "cfg": "invalid"})
            return
        cfg = cfg or self._config()
        toml, tok = irclib.config_render(cfg, self.rng)
        self.rev += 1
        self.entries.append({"k": "F", "id": self.id, "ts": self.ts, "rev": self.rev, "toml": toml, "cfg": tok})
        self.cfg = cfg
        self.opers = list(cfg.get("ops", []))
        self.svcpw = list(cfg.get("svc", []))


def rich_entries(rng, tier, allow_wo=False):
    r = rng
    g = RichGen(rng, sanitize="crlfnul", ctl=0.01)
    g.allow_wo = allow_wo
    g._reset()
    big = r.random() < 0.4
    expire = r.choice([1800, 3600, 900, 660]) * S if big else None
    g._setup(r.randint(3, 6), r.random() < 0.55, r.random() < 0.5, expire=expire)
    M = g._M
    shapes = []
    if r.random() < 0.65:
        # login captcha required: sessions that stop half way through the registration
        cfg = dict(g.cfg or g._config(expire))
        cfg["caphmac"], cfg["capurl"], cfg["caplogin"] = g.secret, cfg.get("capurl") or b"http://captcha.example", True
        g._F(cfg)
        for shape in r.sample(["nick+user", "nick+user", "nick", "user", "wrongpass", "goodpass", "replayedpass"], r.randint(2, 4)):
            s = g._C()
            if s is None:
                continue
            shapes.append(shape)
            nick = b"P%d" % s.sid
            user = b"USER u%d 0 * :Pending %d" % (s.sid, s.sid)
            if shape == "nick":
                M(s, b"NICK " + nick)
            elif shape == "user":
                M(s, user)
            else:
                if shape.endswith("pass"):
                    kind = {"wrongpass": r.choice(["mutated", "expired", "garbage"]), "goodpass": "ok", "replayedpass": "replayed"}[shape]
                    M(s, b"PASS captcha=" + g._token(kind, b"login"))
                M(s, b"NICK " + nick)
                M(s, user)
                if shape == "goodpass":
                    s.reg, s.user = True, b"u"
            s.nick = nick
        if r.random() < 0.3:
            cfg = dict(cfg)
            cfg["caplogin"] = False
            g._F(cfg)
    n = r.randint(10, 70 if tier == "thorough" else 30)
    scenes = r.sample(["topic", "captcha", "gates", "gates", "privs", "oper", "services", "limits", "holds", "quitlink"], r.randint(1, 3))
    at = sorted(r.randint(0, n) for _ in scenes)
    for k in range(n):
        while at and at[0] <= k:
            at.pop(0)
            g.scene(scenes.pop(0))
        g._action()
        if r.random() < 0.04:
            live = [x for x in g.sess if x.alive and not x.is_link and x.reg]
            if live:
                M(r.choice(live), r.choice([b"AWAY :gone fishing", b"AWAY"]))
    main = len([e for e in g.entries if e["k"] in "CDMXF"])
    # behavioural tail: every surviving session (registered or pending) acts after the last restore
    for s in [x for x in g.sess if x.alive][:8]:
        c = r.choice(g.chans)
        if s.is_link:
            if g.pseudo:
                M(s, b":%s PRIVMSG %s :probe" % (r.choice(g.pseudo), c))
            continue
        for line in r.sample([b"JOIN " + c, b"PRIVMSG %s :probe" % c, b"WHOIS " + (r.choice(g.nicks)), b"NICK Q%d" % s.sid,
                              b"MODE " + c, b"NAMES " + c, b"INVITE %s %s" % (r.choice(g.nicks), c)], 2):
            M(s, line)
    entries = []
    prev = 0
    rev = 0
    last_ts = 0
    skipped = 0
    links = set(x.sid for x in list(g.sess) + list(g.dead) if getattr(x, "is_link", False))
    for e in g.entries:
        k = e["k"]
        if k not in "CDMXF":
            continue
        for gap in range(prev + 1, e["id"]):
            k2 = r.random()
            if k2 < 0.4:
                entries.append({"idx": gap, "kind": "i", "ts": 0, "exp": None, "spec": ""})
            elif k2 < 0.55 and entries and last_ts:
                # a Config entry that does NOT follow the revision in force: must be skipped by every node
                d = r.choice([60, 300, 420, 7200])
                last_ts += 1
                srev = r.choice([rev, rev, max(rev - 1, 0), 0, rev + 2, rev + 2, rev + 7])
                toml = ('SessionExpiration = "%ds"\nPostMessageCooloff = "0s"\nMaxChannels = 1\n' % d).encode()
                entries.append({"idx": gap, "kind": "c", "ts": last_ts, "exp": d * S, "rev": srev, "extra": True,
                                "spec": "J" + json.dumps({"T": "F", "Rev": srev, "Toml": toml.hex()}, separators=(",", ":"))})
                skipped += 1
        prev = e["id"]
        exp = None
        if k == "C":
            j = {"T": "C", "Auth": e["auth"].hex()}
        elif k == "D":
            j = {"T": "D", "S": e["sid"], "D": e["data"].hex()}
        elif k in "MX":
            data = e["data"]
            if e["sid"] in links and data.upper().startswith(b"NICK") and len(data.split()) < 6:
                # services lines stay inside conforming_server_line (DESIGN A.4, IRCFORMAT E6): an introduction has at
                # least 4 parameters.  A shorter NICK from an authenticated link panics cmdServerNick - C06's domain.
                data = b"PING conforming"
            j = {"T": "M", "S": e["sid"], "C": e["cmid"], "Ra": e.get("ra", b"").hex(), "D": data.hex()}
        else:
            toml = e["toml"]
            try:
                toml.decode("utf-8")
            except UnicodeDecodeError:
                toml = b"SessionExpiration = [not valid"   # the API cannot propose invalid UTF-8 (proto.Marshal refuses it)
            m = re.match(r"exp=(\d+)", e["cfg"])
            exp = int(m.group(1)) if m else None
            # revisions are assigned here (independent of irclib's numbering): revision in force + 1; the skipped kinds
            # (duplicate / stale / future) are extra entries in index gaps, see above
            erev = rev + 1
            if exp is not None:
                rev = erev
            j = {"T": "F", "Rev": erev, "Toml": toml.hex()}
        entries.append({"idx": e["id"], "kind": "m" if k == "X" else "c", "ts": e["ts"], "exp": exp,
                        "rev": erev if k == "F" else 0, "spec": "J" + json.dumps(j, separators=(",", ":"))})
        last_ts = e["ts"]
    nmain = len([x for x in entries if x["kind"] != "i"])
    # position (in entries) right after the main-th command
    cnt, pos = 0, len(entries)
    for i, x in enumerate(entries):
        if x["kind"] != "i" and not x.get("extra"):
            cnt += 1
            if cnt == main:
                pos = i + 1
                break
    return entries, pos, {"pattern": "rich", "big_exp": big, "kind": "rich", "pending": shapes,
                          "link": bool(g.link), "caplogin": bool((g.cfg or {}).get("caplogin"))}


def make_schedule(rng, entries, pattern, allow_d18, d18_window):
    """random schedule over `entries` (the main part of the log)"""
    cmd_ts = [e["ts"] for e in entries if e["kind"] != "i"]
    tmax, tmin = max(cmd_ts), min(cmd_ts)

    def eff(d):
        return TEN_MIN if not d else d

    steps = []
    applied = 0
    persisted = 0
    cur_exp = 0
    cur_rev = 0
    extra = rng.randint(2, 5)
    while applied < len(entries) or extra > 0:
        r = rng.random()
        if applied < len(entries) and r < 0.62:
            e = entries[applied]
            if e["kind"] == "c" and e["exp"] is not None and e.get("rev", 0) == cur_rev + 1:
                cur_rev, cur_exp = e["rev"], e["exp"]
            applied += 1
            steps.append("A")
            continue
        if applied >= len(entries):
            extra -= 1
        if r < 0.86:
            # snapshot: pick the compaction time relative to an applied entry
            app = [e for e in entries[:applied] if e["kind"] != "i"]
            mode = rng.random()
            if not app or mode < 0.15:
                t = tmax + 3 * 3600 * S                       # everything older than any horizon
            elif mode < 0.3:
                t = tmin                                       # nothing older
            elif mode < 0.5:
                t = max(e["ts"] for e in app) + 12 * MIN       # 10m-old w.r.t. default, new w.r.t. >10m configs
            else:
                e = rng.choice(app)
                delta = rng.choice([-1, 0, 1]) if pattern == "boundary" or rng.random() < 0.5 else rng.randint(-MIN, MIN)
                t = e["ts"] + eff(cur_exp) + INTERVAL + delta    # horizon = e.ts + delta
            ok = rng.random() < 0.75
            res = "ok" if ok else "fail%d" % (1 if rng.random() < 0.5 else rng.choice([1, 2, 3]))
            if ok:
                persisted += 1
            if rng.random() < 0.3 and applied < len(entries):
                # Snapshot() now, Persist() after raft applied k more entries
                kk = rng.randint(2, 4)
                for e in entries[applied:applied + kk]:
                    if e["kind"] == "c" and e["exp"] is not None and e.get("rev", 0) == cur_rev + 1:
                        cur_rev, cur_exp = e["rev"], e["exp"]
                applied = min(len(entries), applied + kk)
                steps.append("SP%d:%d:%s" % (t, kk, res))
            else:
                steps.append("S%d:%s" % (t, res))
        elif r < 0.93:
            steps.append("R")
            # raft's contract: the model/driver reset the applied pointer; mirror it here only roughly
            # (the driver is authoritative; A steps beyond the end print A:end on both sides)
        else:
            if persisted == 0 and not allow_d18:
                continue
            steps.append("X")
    if d18_window:
        k = rng.randint(3, min(8, len(entries)))
        j = rng.randint(1, k - 1)
        steps = ["A"] * k + ["X"] + ["A"] * j + ["S%d:ok" % (tmax + 3 * 3600 * S)] + ["A"] * (len(entries) - j) + steps[len(entries):]
    return steps


def gen_case(rng, cid, tier, allow_d18=False, d18_window=False, rich=False, allow_wo=False):
    if rich:
        entries, nmain, meta = rich_entries(rng, tier, allow_wo)
    else:
        entries, nmain, meta = simple_entries(rng, tier)
    nmain = max(nmain, 1)
    steps = make_schedule(rng, entries[:nmain], meta["pattern"], allow_d18, d18_window)
    proto = 1 if rng.random() < 0.8 else 0
    if proto == 0:
        # JSON snapshots: the first Write carries the state message
        steps = [re.sub(r"fail\d", "fail1", s) for s in steps]
    cmd_ts = [e["ts"] for e in entries if e["kind"] != "i"]
    k = rng.random()
    tail_t = max(cmd_ts) + 3 * 3600 * S if k < 0.6 else min(cmd_ts) if k < 0.8 else max(cmd_ts[:max(1, len(cmd_ts) // 2)]) + TEN_MIN + INTERVAL
    c = {"id": cid, "proto": proto, "sink": "F" if rng.random() < 0.12 else "M", "offset": meta.get("offset", 0), "entries": entries, "steps": steps,
         "meta": dict(meta, main=nmain, tail_t=tail_t, finalized=False)}
    return c


def finalize(cases, model_ok):
    """complete every generated schedule: apply the rest of the main part (Restore/Restart rewind raft's pointer; how
    far is read off the model's run of the schedule - generator aid only), then Snapshot + Restart, then the
    behavioural tail of the log on the restored node, a last Snapshot + Restart and the idle steps"""
    todo = [c for c in cases if c.get("meta", {}).get("finalized") is False]
    if not todo:
        return
    ns = {}
    if model_ok:
        ml = vlib.run_model("\n".join(case_line(c, "11") for c in todo) + "\n")
        for c, l in zip(todo, ml):
            m = re.findall(r" n=(\d+)", l)
            ns[id(c)] = int(m[-1]) if m else 0
    for c in todo:
        meta = c["meta"]
        n = ns.get(id(c), 0)
        rest = max(0, meta["main"] - n)
        tail = len(c["entries"]) - meta["main"]
        tmax = max(e["ts"] for e in c["entries"] if e["kind"] != "i")
        late = ((sum(map(ord, str(c["id"]))) + tail) % 2 == 0) and tail >= 2
        c["steps"] = c["steps"] + ["A"] * rest + [("SP%d:2:ok" if late else "S%d:ok") % meta["tail_t"], "X"] + ["A"] * tail + \
            ["S%d:ok" % (tmax + 3 * 3600 * S), "X", "A", "A"]
        meta["finalized"] = True


# ----------------------------------------------------------------------------- running both sides
OVERLAY = None


def overlay():
    return {vlib.REPO + "/zz_verif_fsm_test.go": vlib.HGO + "/main/zz_verif_fsm_test.go",
            vlib.REPO + "/zz_verif_mod_test.go": vlib.HGO + "/main/zz_verif_mod_test.go",
            vlib.REPO + "/internal/ircserver/zz_verif_export.go": vlib.HGO + "/ircserver/zz_verif_export.go"}


def build_go(tag="fsm"):
    """build the test binary once; returns (path, build output)"""
    wd = vlib.workdir()
    ov = os.path.join(wd, "overlay-main.json")
    with open(ov, "w") as f:
        json.dump({"Replace": overlay()}, f)
    exe = os.path.join(wd, "main-%s.test" % tag)
    env = vlib.go_env()
    env["TMPDIR"] = wd
    rc, out = vlib.sh(["go", "test", "-tags", "verif", "-vet=off", "-overlay", ov, "-c", "-o", exe, "."],
                      cwd=vlib.REPO, env=env, timeout=900)
    if rc != 0 or not os.path.exists(exe):
        return None, out
    return exe, out


def run_go_chunk(args):
    exe, lines, k, test = args
    wd = vlib.workdir()
    inp, outp = os.path.join(wd, "%s-%d.in" % (test, k)), os.path.join(wd, "%s-%d.out" % (test, k))
    with open(inp, "w") as f:
        f.write("\n".join(lines) + "\n")
    if os.path.exists(outp):
        os.remove(outp)
    env = vlib.go_env()
    env.update({"TMPDIR": wd, "VERIF_IN": inp, "VERIF_OUT": outp, "VERIF_WIPE_IRCLOG": D18["flag"],
                "VERIF_FSM_DUMPS": "1" if DUMPS["on"] else "0"})
    env.pop("ROBUSTIRC_TESTING_ENABLE_PANIC_COMMAND", None)
    try:
        p = subprocess.run([exe, "-test.run", "^%s$" % test, "-test.timeout", "1500s"], cwd=vlib.REPO, env=env,
                           stdout=subprocess.PIPE, stderr=subprocess.STDOUT, timeout=1600)
        out = p.stdout.decode("utf-8", "replace")
        rc = p.returncode
    except subprocess.TimeoutExpired:
        return None, "timeout"
    if rc != 0 or not os.path.exists(outp):
        return None, out[-3000:]
    res = open(outp).read().split("\n")[:-1]
    if len(res) != len(lines):
        return None, "driver printed %d lines for %d cases\n%s" % (len(res), len(lines), out[-2000:])
    return res, out


def run_go(exe, lines, test="TestVerifFsm", workers=8):
    if not lines:
        return [], ""
    k = max(1, min(workers, len(lines) // 4 or 1))
    chunks = [lines[i::k] for i in range(k)]
    with concurrent.futures.ThreadPoolExecutor(max_workers=k) as ex:
        results = list(ex.map(run_go_chunk, [(exe, ch, i, test) for i, ch in enumerate(chunks)]))
    out = [None] * len(lines)
    for i, (res, log) in enumerate(results):
        if res is None:
            return None, log
        for j, l in enumerate(res):
            out[i + j * k] = l
    return out, ""


# ----------------------------------------------------------------------------- parsing driver lines
def parse_kv(tok):
    """'k=v,k=v' or '-' -> list of (k, v)"""
    if tok == "-" or tok == "":
        return []
    res = []
    for x in tok.split(","):
        k, _, v = x.partition("=")
        res.append((k, v))
    return res


def parse_rec(rec):
    t = rec.split(" ")
    d = {"op": t[0], "raw": rec}
    for x in t[1:]:
        k, _, v = x.partition("=")
        d[k] = v
    if "st" in d:
        a = d["st"].split(":")
        d["first"], d["last"] = a[0], a[1]
        d["stored"] = [] if a[2] == "-" else a[2].split(",")
        d["outs"] = parse_kv(d.get("out", "-"))
        d["keyl"] = parse_kv(d.get("keys", "-"))
    if d["op"].startswith("S:") and d["op"] not in ("S:err",):
        a = d["op"].split(":")
        # S:first:last:key=STATE:ok:key=STATE:idxs | S:first:last:key=STATE:fail
        d["snap"] = {"first": a[1], "last": a[2], "state": a[3], "result": a[4] if len(a) > 4 else "?"}
        if len(a) > 6:
            d["snap"]["pstate"] = a[5]
            d["snap"]["retained"] = [] if a[6] == "-" else a[6].split(",")
    return d


def parse_line(l):
    parts = (l or "").split(" | ")
    res = {"head": parts[0], "recs": [], "plain": None, "queries": {}, "raw": l}
    for p in parts[1:]:
        if p.startswith("plain "):
            res["plain"] = [x.split("=") for x in p[6:].split(",")]
        elif p.startswith("pdumps "):
            res["pdumps"] = dict(x.split("=", 1) for x in p[7:].split(","))
        elif p.startswith("queries "):
            for q in p[8:].split(" "):
                m = re.match(r"Q([^=]*)=([^=]*)=?(.*)", q)
                if m:
                    res["queries"][m.group(1)] = (m.group(2), m.group(3))
        else:
            res["recs"].append(parse_rec(p))
    return res


def tok_of(e):
    return "%d%s" % (e["idx"], "!" if e["kind"] == "m" else "")


class Tables:
    """descriptor -> digest, built from the Go side's own replays (plain + queries)"""

    def __init__(self, case, g):
        self.state, self.out = {}, {}
        self.need = set()
        cmds = [e for e in case["entries"] if e["kind"] != "i"]
        pl = {p[0]: (p[1], p[2]) for p in (g["plain"] or [])}
        self.plain = pl
        if "0" in pl:
            self.state["-"] = pl["0"][0]
        pre = []
        for e in cmds:
            before = ".".join(pre) or "-"
            pre.append(tok_of(e))
            p = pl.get(str(e["idx"]))
            if p:
                self.state[".".join(pre)] = p[0]
                self.out[(before, str(e["idx"]))] = p[1]
        for q, (sd, od) in g["queries"].items():
            if sd in ("bad", "err"):
                continue
            self.state[q or "-"] = sd
            toks = q.split(".")
            last = toks[-1].rstrip("!")
            self.out[(".".join(toks[:-1]) or "-", last)] = od or "-"

    def st(self, desc):
        if desc in self.state:
            return self.state[desc]
        self.need.add(desc)
        return "?" + desc

    def ou(self, before, idx, case):
        if (before, idx) in self.out:
            return self.out[(before, idx)]
        e = [x for x in case["entries"] if str(x["idx"]) == idx]
        tok = idx + ("!" if e and e[0]["kind"] == "m" else "")
        self.need.add(tok if before == "-" else before + "." + tok)
        return "?" + before + ">" + idx


def translate_model_rec(m, tb, case):
    """model record -> comparable tuple with descriptors replaced by digests"""
    r = parse_rec(m)
    out = [re.sub(r"=[^:]*", "", r["op"]) if r["op"].startswith("S:") else r["op"]]
    if "snap" in r:
        sn = r["snap"]
        k, _, d = sn["state"].partition("=")
        out.append("state:%s=%s" % (k, tb.st(d)))
        out.append("result:" + sn["result"])
        if "pstate" in sn:
            k, _, d = sn["pstate"].partition("=")
            out.append("pstate:%s=%s" % (k, tb.st(d)))
            out.append("retained:" + ",".join(sn["retained"]))
    if "st" in r:
        out.append("st:%s:%s:%s" % (r["first"], r["last"], ",".join(r["stored"])))
        outs = []
        for i, before in r["outs"]:
            d = tb.ou(before, i, case)
            if d != "-":
                outs.append("%s=%s" % (i, d))
        out.append("out:" + ",".join(outs))
        keys = []
        for k, v in r["keyl"]:
            desc, _, lii = v.partition("@")
            keys.append("%s=%s%s" % (k, tb.st(desc), "@" + lii if lii else ""))
        out.append("keys:" + ",".join(keys))
        out.append("exp:" + r.get("exp", ""))
        out.append("rev:" + r.get("rev", ""))
        out.append("srv:" + tb.st(r.get("srv", "")))
        out.append("n:" + r.get("n", ""))
    return out


def canon_go_rec(r):
    out = [re.sub(r"=[^:]*", "", r["op"]) if r["op"].startswith("S:") else r["op"]]
    if "snap" in r:
        sn = r["snap"]
        out.append("state:" + sn["state"])
        out.append("result:" + sn["result"])
        if "pstate" in sn:
            out.append("pstate:" + sn["pstate"])
            out.append("retained:" + ",".join(sn["retained"]))
    if "st" in r:
        out.append("st:%s:%s:%s" % (r["first"], r["last"], ",".join(r["stored"])))
        out.append("out:" + ",".join("%s=%s" % kv for kv in r["outs"]))
        out.append("keys:" + ",".join("%s=%s" % kv for kv in r["keyl"]))
        out.append("exp:" + r.get("exp", ""))
        out.append("rev:" + r.get("rev", ""))
        out.append("srv:" + r.get("srv", ""))
        out.append("n:" + r.get("n", ""))
    return out


def compare(case, g, mline):
    """returns (list of mismatch descriptions, needed query descriptors)"""
    tb = Tables(case, g)
    mrecs = (mline or "").split(" | ")[1:]
    mism = []
    if len(mrecs) != len(g["recs"]):
        mism.append("record count: model %d impl %d" % (len(mrecs), len(g["recs"])))
    for k in range(min(len(mrecs), len(g["recs"]))):
        a = translate_model_rec(mrecs[k], tb, case)
        b = canon_go_rec(g["recs"][k])
        if a != b:
            diff = [(x, y) for x, y in zip(a, b) if x != y][:3]
            mism.append("step %d (%s): model/impl %s" % (k, g["recs"][k]["op"], diff))
    return mism, tb.need


def state_sig(sig, got, want):
    """state tokens are <marshal>.<field dump without wo>.<wo>: a difference confined to Config.WhitelistedOrigins
    (absent from snapshot.proto) gets its own signature"""
    a, b = got.split("."), want.split(".")
    if len(a) == 3 and len(b) == 3 and a[:2] == b[:2] and a[2] != b[2]:
        return "c02:field:G.wo"
    return sig


# ----------------------------------------------------------------------------- the monitor
def monitor(case, g):
    """The property, checked on the implementation's observations only (no Coq model involved).
    Returns None or (signature, text, failing step index)."""
    if g["plain"] is None:
        return ("driver-output", "no plain replay in driver output: " + (g["raw"] or "")[:200], 0)
    ents = case["entries"]
    pl = {p[0]: (p[1], p[2]) for p in g["plain"]}
    last_restart_none = False
    for k, r in enumerate(g["recs"]):
        op = r["op"]
        if op.startswith("panic") or "st" not in r:
            return ("driver-panic", "driver record without dump: " + r["raw"][:200], k)
        if op.startswith("X:"):
            last_restart_none = (op == "X:none")
        if op in ("R:err", "X:err", "X:booterr", "R:listerr", "X:listerr") or op.endswith(":sinkerr") or op.endswith(":lost"):
            return ("restore-error", "step %d: %s" % (k, op), k)
        n = int(r["n"])
        applied = ents[:n]
        cmds = [e for e in applied if e["kind"] != "i"]
        cmd_idx = [str(e["idx"]) for e in cmds]
        stored = r["stored"]
        # D18: after a restart without a persisted snapshot the irclog (persistent LevelDB) still holds entries
        # raft has not handed to Apply in this process.  Harmless while raft catches up; a Snapshot in that
        # window folds/retains entries the live server has not applied.
        stale = [s for s in stored if s.rstrip("~?") not in cmd_idx]
        pstale = []
        if k > 0 and "stored" in g["recs"][k - 1]:
            pstale = [s for s in g["recs"][k - 1]["stored"] if s.rstrip("~?") not in cmd_idx]
        if (stale or pstale) and last_restart_none:
            stale = stale or pstale
            if op.startswith("S:") and op != "S:err":
                return ("restart-without-snapshot-stale-irclog",
                        "step %d (%s): Snapshot after a restart without any persisted snapshot while the irclog still holds %s, "
                        "which this process has not applied yet (n=%d): the snapshot covers entries beyond raft's applied index"
                        % (k, op, stale[:5], n), k)
            want = pl[str(applied[-1]["idx"])][0] if applied else pl["0"][0]
            if r["srv"] != want:
                return ("state-differs-from-replay", "step %d (%s): live state digest %s, plain replay of the %d applied entries %s"
                        % (k, op, r["srv"], n, want), k)
            want_out = [(i, pl[i][1]) for i in stored if i in cmd_idx and pl[i][1] != "-"]
            if r["outs"] != want_out:
                return ("output-differs-from-replay", "step %d (%s): output store serves %s, plain replay says %s"
                        % (k, op, r["outs"][:6], want_out[:6]), k)
            continue
        # (state) live server == plain replay of the applied prefix
        want = pl[str(applied[-1]["idx"])][0] if applied else pl["0"][0]
        if r["srv"] != want:
            return (state_sig("state-differs-from-replay", r["srv"], want),
                    "step %d (%s): live state %s (digest of canonical Marshal . digest of the field dump . digest of WhitelistedOrigins), "
                    "plain replay of the %d applied entries %s" % (k, op, r["srv"], n, want), k)
        # the revision in force and the FSM's horizon copy follow the accepted Config messages only
        want_rev, want_exp = config_in_force(applied)
        if r.get("rev") is not None and r["rev"] != str(want_rev):
            return ("config-revision-differs", "step %d (%s): Config.Revision in force is %s, the applied prefix puts revision %d in force "
                    "(a Config message takes effect iff it parses and carries revision in force + 1)" % (k, op, r["rev"], want_rev), k)
        if r.get("exp") is not None and r["exp"] != str(want_exp or TEN_MIN):
            return ("horizon-not-from-live-config", "step %d (%s): the FSM's expiration copy is %s ns, the configuration in force says %d ns"
                    % (k, op, r["exp"], want_exp or TEN_MIN), k)
        # (exactness) the log copy is a suffix of the applied commands, byte-identical
        if any(s.endswith("~") or s.endswith("?") for s in stored):
            return ("stored-entry-modified", "step %d (%s): stored entries differ from the log: %s" % (k, op, stored), k)
        if stored != cmd_idx[len(cmd_idx) - len(stored):] or len(stored) > len(cmd_idx):
            return ("log-copy-not-a-suffix", "step %d (%s): stored %s is not a suffix of the applied commands %s"
                    % (k, op, stored, cmd_idx), k)
        if stored and (r["first"], r["last"]) != (stored[0], stored[-1]) or (not stored and (r["first"], r["last"]) != ("0", "0")):
            return ("first-last-index", "step %d (%s): First/LastIndex %s:%s vs stored %s" % (k, op, r["first"], r["last"], stored), k)
        # (output) retained batches are exactly those of the plain replay; nothing else is served
        want_out = [(i, pl[i][1]) for i in stored if pl[i][1] != "-"]
        if r["outs"] != want_out:
            return ("output-differs-from-replay", "step %d (%s): output store serves %s, plain replay says %s"
                    % (k, op, r["outs"][:6], want_out[:6]), k)
        # Snapshot steps: content and horizon
        if "snap" in r:
            sn = r["snap"]
            prev = g["recs"][k - 1]["stored"] if k > 0 else []
            folded = [i for i in prev if i not in stored]
            gone = cmd_idx[:len(cmd_idx) - len(stored)]
            want_state = pl[gone[-1]][0] if gone else pl["0"][0]
            sk, _, sd = sn["state"].partition("=")
            if sd != want_state:
                return (state_sig("snapshot-state-not-replay-of-folded", sd, want_state),
                        "step %d (%s): snapshot state %s is not the plain replay of the %d entries no longer stored (%s)"
                        % (k, op, sd, len(gone), want_state), k)
            if sn["result"] == "ok":
                # the persisted snapshot holds the state message and the entries firstIndex..lastIndex as captured by
                # Snapshot() - nothing that was applied between Snapshot() and Persist() (SP steps)
                want_ret = [i for i in stored if int(i) <= int(sn["last"])]
                if sn.get("pstate") != sn["state"] or sn.get("retained") != want_ret:
                    return ("persisted-content", "step %d (%s): persisted %s / %s, expected %s / %s"
                            % (k, op, sn.get("pstate"), sn.get("retained"), sn["state"], want_ret), k)
            elif sn["result"] != "fail":
                return ("persist-result", "step %d: %s" % (k, op), k)
            # horizon: t - (SessionExpiration of the last applied valid Config + 10 s)
            t = int(case["steps"][k].lstrip("SP").split(":")[0]) if case["steps"][k].startswith("S") else None
            if t is not None:
                n_snap = int(g["recs"][k - 1]["n"]) if k > 0 and "n" in g["recs"][k - 1] else 0   # applied when Snapshot() ran
                _, exp = config_in_force(ents[:n_snap])
                hz = t - ((exp or TEN_MIN) + INTERVAL)
                ts = {str(e["idx"]): e["ts"] for e in ents}
                want_fold = []
                for i in prev:
                    if ts[i] > hz:
                        break
                    want_fold.append(i)
                if folded != want_fold:
                    return ("horizon-not-from-live-config",
                            "step %d (%s): compacted %s, but with SessionExpiration=%dns the entries not newer than t-(exp+10s) are %s"
                            % (k, op, folded, exp or TEN_MIN, want_fold), k)
        elif k > 0 and op.startswith("A") and "stored" in g["recs"][k - 1]:
            pass
    return None


# ----------------------------------------------------------------------------- source facts
def source_facts():
    facts = {}
    try:
        cfg = open(os.path.join(vlib.REPO, "internal/config/config.go")).read()
        sm = open(os.path.join(vlib.REPO, "statemachine.go")).read()
        main = open(os.path.join(vlib.REPO, "robustirc.go")).read()
    except OSError as ex:
        return {"error": str(ex)}
    facts["default_expiration_10m"] = bool(re.search(r"DefaultConfig\s*=\s*Network\{[^}]*SessionExpiration:\s*Duration\(10 \* time\.Minute\)", cfg, re.S))
    facts["snapshot_default_10m"] = bool(re.search(r"if exp == 0 \{[^}]*exp = 10 \* time\.Minute", sm, re.S))
    facts["interval_10s"] = bool(re.search(r"expireSessionsInterval\s*=\s*10 \* time\.Second", main)) and "exp += expireSessionsInterval" in sm
    facts["canary_flag_used"] = "*canaryCompactionStart > 0" in sm
    # D18 repair: irclog removed before it is (re-)opened, unless bootstrapping
    code = re.sub(r"//[^\n]*", "", main)
    m = re.search(r'if !bootstrapping \{\s*if err := os\.RemoveAll\(filepath\.Join\(\*raftDir, "irclog"\)\)', code)
    p_open = code.find('raftstore.NewLevelDBStore(filepath.Join(*raftDir, "irclog")')
    facts["irclog_wiped_at_start"] = bool(m) and 0 <= m.start() < p_open
    return facts


# ----------------------------------------------------------------------------- corpus
def corpus_cases():
    d = os.path.join(vlib.ROOT, "corpus", "C02")
    res = []
    if os.path.isdir(d):
        for fn in sorted(os.listdir(d)):
            if fn.endswith(".json"):
                for c in json.load(open(os.path.join(d, fn))).get("cases", []):
                    c = dict(c)
                    c["id"] = "corpus-" + fn[:-5] + "-" + str(c.get("id", len(res)))
                    res.append(c)
    return res


def shrink(case, sig, exe, k_fail):
    """truncate after the failing step, then drop schedule steps (one batch of candidates per round, all run in
    one parallel driver invocation) and unapplied trailing entries while the same signature is reported"""
    def failing(cands):
        gl, _ = run_go(exe, [case_line(c) for c in cands])
        res = []
        for c, l in zip(cands, gl or []):
            m = monitor(c, parse_line(l))
            res.append(m is not None and m[0] == sig)
        return res + [False] * (len(cands) - len(res))

    cur = dict(case, steps=list(case["steps"][:k_fail + 1]))
    if not failing([cur])[0]:
        return case
    for _ in range(10):
        idxs = [i for i in range(len(cur["steps"]) - 1) if cur["steps"][i] != "A"]
        if not idxs:
            break
        cands = [dict(cur, steps=cur["steps"][:i] + cur["steps"][i + 1:]) for i in idxs]
        ok = failing(cands)
        hit = [c for c, f in zip(cands, ok) if f]
        if not hit:
            break
        cur = hit[-1]          # prefer dropping early steps last: candidates are ordered by position
    napp = sum(1 for s in cur["steps"] if s == "A")
    if napp < len(cur["entries"]):
        cand = dict(cur, entries=cur["entries"][:max(napp, 1)])
        if failing([cand])[0]:
            cur = cand
    return cur


VM_ERRORS = []


def vm_lines(lines, expected, limit=9000):
    """vm_compute cross-check of the extracted model, in chunks whose OUTPUT stays below `limit` characters
    (vlib.run_model_vm hex-encodes the result inside coqc; beyond ~15k characters coqc overflows its stack).
    Cases whose own output is larger are skipped.  Returns (number of cases compared, all equal?)."""
    n, ok = 0, True
    cur, want, size = [], [], 0

    def flush():
        nonlocal cur, want, size, n, ok
        if cur:
            try:
                got = vlib.run_model_vm("\n".join(cur) + "\n")
            except RuntimeError as ex:
                got = None
                VM_ERRORS.append(str(ex)[-400:])
            ok = ok and got == want
            n += len(cur)
            cur, want, size = [], [], 0
    for l, e in zip(lines, expected):
        if len(e) + len(l) > limit:
            continue
        if size + len(e) + len(l) > limit:
            flush()
        cur.append(l)
        want.append(e)
        size += len(e) + len(l)
    flush()
    return n, ok


def _dump_state(hexdump):
    try:
        return irclib.State(bytes.fromhex(hexdump).decode("latin-1"))
    except Exception:
        return None


def diagnose(case, exe, k, what="srv"):
    """re-run one case with full field dumps (harness/go/ircserver VerifDump) and name the fields in which the
    node's state (what='srv': live server after step k; 'snap': the loaded snapshot state of step k) differs from
    the plainly replayed server.  Returns a list of (label, detail) from irclib._state_diff."""
    DUMPS["on"] = True
    try:
        gl, _ = run_go(exe, [case_line(case)], workers=1)
    finally:
        DUMPS["on"] = False
    if not gl:
        return []
    g = parse_line(gl[0])
    if k >= len(g["recs"]) or "pdumps" not in g:
        return []
    r = g["recs"][k]
    ents = case["entries"]
    n = int(r.get("n", 0))
    if what == "snap":
        stored = r.get("stored", [])
        cmd_idx = [str(e["idx"]) for e in ents[:n] if e["kind"] != "i"]
        gone = cmd_idx[:len(cmd_idx) - len(stored)]
        ref = g["pdumps"].get(gone[-1] if gone else "0")
        got = r.get("dsnap")
    else:
        ref = g["pdumps"].get(str(ents[n - 1]["idx"]) if n else "0")
        got = r.get("dsrv")
    if not ref or not got:
        return []
    P, Q = _dump_state(ref), _dump_state(got)
    if P is None or Q is None:
        return [("undecodable-dump", "")]
    return irclib._state_diff(P, Q)


def sanitize(cases):
    """generator aid only: drop Restart steps that would happen before any snapshot is persisted (D18 is an open
    finding and gets its own, flagged, cases); 'persisted' is decided by running the model on the schedule"""
    for _ in range(8):
        todo = [c for c in cases if not c.get("meta", {}).get("d18")]
        if not todo:
            return
        ml = vlib.run_model("\n".join(case_line(c, "11") for c in todo) + "\n")
        changed = False
        for c, l in zip(todo, ml):
            recs = l.split(" | ")[1:]
            steps = [s for s in c["steps"] if not s.startswith("Q")]
            for k, r in enumerate(recs):
                if r.startswith("X:none") and k < len(steps):
                    del c["steps"][k]
                    changed = True
                    break
        if not changed:
            return


# ----------------------------------------------------------------------------- main
def run(ck, replay):
    ck.cov["trusted_base"] += [
        "fsmdrv (harness/go/main/zz_verif_fsm_test.go): drives the real FSM.Apply/Snapshot/Persist/Restore with real LevelDB stores and a real output stream; start-up sequence of main() re-enacted by the driver (irclog re-opened, tmp-outputstream deleted)",
        "state equality is observed three ways: canonicalised IRCServer.Marshal bytes, the independent field dump of internal/ircserver (harness/go/ircserver/zz_verif_export.go VerifDump: every field of sessions/nick index/channels/holds/config, read by reflection) and behaviour (the tail of every log is applied on the restored node and its reply batches compared with the plain replay's); serialized states (lastSnapshotState, snapshot state message) are judged by what they MEAN when loaded (Unmarshal onto a fresh server, then dump)",
        "projections: RPL_CREATED (003) text masked in batch digests (ServerCreation is per-process wall clock); recipient sets restricted to sessions {id,0} that exist after the entry in the plain replay (a services link that quit stays in serverSessions until the next save+load: DESIGN D13 / IRCFORMAT E1); Config.WhitelistedOrigins is generated in every configuration (part of the snapshot since /repo baa91ab)",
        "hashicorp/raft's contract (Apply in log order on one goroutine; Restore(latest) then exactly the later entries; Persist reads only indexes <= last) is an assumption of the model, not checked",
        "LevelDB (goleveldb) as an ordered key/value store with consistent iterators",
        "the IRC state machine is a black box: the model instance is the digest machine (state = list of applied entries); the hypotheses roundtrip (C03) / exp_frame / exp_init of the abstract theorems are assumptions about it (exp_init checked by source scan)"]
    ck.assumptions += [
        "raft hands entries to FSM.Apply in log order; after Restore/restart exactly the entries after the snapshot's index (schedule_ok)",
        "a process restart finds a persisted snapshot, unless main() re-creates irclog at start-up (source fact irclog_wiped_at_start = fixes/D18-wipe-irclog-on-start.diff); excludes D18: stale irclog after a restart without snapshot; refuted otherwise: C02_refuted_restart_without_snapshot",
        "Marshal/Unmarshal round trip (C03), only Config messages change SessionExpiration, DefaultConfig.SessionExpiration = 10 min",
        "between FSM.Snapshot() and Persist() of that snapshot raft only hands further entries to Apply (steps SP<t>:<k>: k applies in the window; no second Snapshot, no Restore in the window: raft serialises snapshots and a Restore closes the store Persist reads from); the snapshot is filed under the index raft had when Snapshot() ran"]
    ok = ck.proof_obligations()
    facts = source_facts()
    ck.notes["source_facts"] = facts
    for k in ("default_expiration_10m", "snapshot_default_10m", "interval_10s", "canary_flag_used"):
        ck.add_obligation(facts.get(k, False), "source: " + k)
    D18["flag"] = "1" if facts.get("irclog_wiped_at_start") else "0"

    if replay:
        cases = json.load(open(replay)).get("cases", [])
        for i, c in enumerate(cases):
            c.setdefault("id", "replay%d" % i)
    else:
        cases = corpus_cases()
        n = 150 if ck.tier == "quick" else 2400
        # Config.WhitelistedOrigins used to be absent from snapshot.proto (repaired in /repo baa91ab, `fixed:` in
        # known_findings.txt for C02 and C03): it is always generated, a restored node must keep it.
        allow_wo = True
        ck.notes["whitelisted_origins_generated"] = allow_wo
        gen = []
        for i in range(n):
            c = gen_case(ck.rng, "g%d" % i, ck.tier, allow_d18=(i % 25 == 24 or D18["flag"] == "1"), d18_window=(i % 25 == 24),
                         rich=(i % 5 >= 2), allow_wo=allow_wo)
            c["meta"]["d18"] = (i % 25 == 24)
            gen.append(c)
        if D18["flag"] == "1":
            for c in gen:                 # restarts before the first persisted snapshot are in the theorems' domain
                c["meta"]["d18"] = True
        elif getattr(ck, "model_ok", False):
            sanitize(gen)
        finalize(gen, getattr(ck, "model_ok", False))
        cases += gen
    exe, bout = build_go()
    if exe is None:
        ck.violation("tie-broken:go-driver", {"what": "Go correspondence driver did not build against the current tree",
                                              "output": bout[-3000:], "obligation": "correspondence fsmdrv"}, concrete=False)
        return
    glines, gerr = run_go(exe, [case_line(c) for c in cases])
    if glines is None:
        ck.violation("tie-broken:go-driver", {"what": "Go correspondence driver failed to run", "output": gerr[-3000:],
                                              "obligation": "correspondence fsmdrv"}, concrete=False)
        return
    if not getattr(ck, "model_ok", False):
        ck.violation("tie-broken:model", {"what": "model driver could not be built", "output": ck.model_out[-3000:],
                                          "obligation": "extraction of Fsm/FsmDriver.v"}, concrete=False)
        return
    parsed = [parse_line(l) for l in glines]
    # logs whose PLAIN replay panics contain a message of death (C06/C07): no reference exists for them
    outside = [i for i, l in enumerate(glines) if " | plainpanic:" in l]
    if outside:
        ck.notes["logs_outside_domain_plain_replay_panics"] = {
            "count": len(outside),
            "examples": [{"case_line": case_line(cases[i])[:4000], "driver": glines[i],
                          "panic": bytes.fromhex(glines[i].rsplit(":", 1)[1]).decode("utf-8", "replace"),
                          "entries_applied_before_the_panic": glines[i].split("plainpanic:")[1].split(":")[0]} for i in outside[:3]]}
        keep = [i for i in range(len(cases)) if i not in set(outside)]
        cases = [cases[i] for i in keep]
        glines = [glines[i] for i in keep]
        parsed = [parsed[i] for i in keep]

    # ---- monitor (implementation only)
    monfail = {}
    dist = {"steps": 0, "A": 0, "S_ok": 0, "S_fail": 0, "S_err": 0, "R_ok": 0, "R_none": 0, "X_snap": 0, "X_none": 0,
            "all_folded_snapshots": 0, "json_cases": 0, "file_sink_cases": 0, "patterns": {}}
    nontriv = set()
    for i, c in enumerate(cases):
        g = parsed[i]
        m = monitor(c, g)
        if m:
            monfail[i] = m
        folded_any = restored = False
        for r in g["recs"]:
            dist["steps"] += 1
            op = r["op"]
            if op.startswith("A"):
                dist["A"] += 1
            elif op == "S:err":
                dist["S_err"] += 1
            elif op.startswith("S:"):
                dist["S_ok" if r.get("snap", {}).get("result") == "ok" else "S_fail"] += 1
                if r.get("stored") and r.get("snap", {}).get("last") and int(r["stored"][-1]) > int(r["snap"]["last"]):
                    dist["S_persisted_late_with_newer_entries_in_store"] = dist.get("S_persisted_late_with_newer_entries_in_store", 0) + 1
                if r.get("stored") == []:
                    dist["all_folded_snapshots"] += 1
                folded_any = folded_any or r.get("snap", {}).get("state", "").split("=")[0] not in ("0", "")
            elif op in ("R:ok", "X:snap"):
                dist["R_ok" if op == "R:ok" else "X_snap"] += 1
                restored = True
            elif op in ("R:none", "X:none"):
                dist["R_none" if op == "R:none" else "X_none"] += 1
        if folded_any and restored:
            nontriv.add(case_line(c))
        dist["json_cases"] += 1 if c["proto"] == 0 else 0
        dist["file_sink_cases"] += 1 if c["sink"] == "F" else 0
        p = c.get("meta", {}).get("pattern", "corpus")
        dist["patterns"][p] = dist["patterns"].get(p, 0) + 1
        im = c.get("meta", {}).get("idmode") or ("legacy" if any(e.get("mid") for e in c["entries"]) else "offset" if c.get("offset") else "index")
        dist.setdefault("message_ids", {})[im] = dist.setdefault("message_ids", {}).get(im, 0) + 1
        cf = dist.setdefault("config_entries", {"taking_effect": 0, "skipped_revision_not_consecutive": 0, "not_parsing": 0})
        rv = 0
        for e in c["entries"]:
            if e["kind"] == "c" and (e["spec"].startswith("G") or '"T":"F"' in e["spec"]):
                if e["exp"] is None:
                    cf["not_parsing"] += 1
                elif e.get("rev", 0) == rv + 1:
                    rv = e["rev"]
                    cf["taking_effect"] += 1
                else:
                    cf["skipped_revision_not_consecutive"] += 1
        meta = c.get("meta", {})
        if meta.get("kind") == "rich":
            rf = dist.setdefault("rich", {"cases": 0, "with_services_link": 0, "caplogin_at_end": 0, "pending_shapes": {}, "entries": 0})
            rf["cases"] += 1
            rf["entries"] += len(c["entries"])
            rf["with_services_link"] += 1 if meta.get("link") else 0
            rf["caplogin_at_end"] += 1 if meta.get("caplogin") else 0
            for sh in meta.get("pending", []):
                rf["pending_shapes"][sh] = rf["pending_shapes"].get(sh, 0) + 1

    # ---- correspondence: which model variant does the implementation match?
    def model_lines(variant, cs, queries=None):
        txt = "\n".join(case_line(c, variant) for c in cs) + "\n"
        return vlib.run_model(txt)

    best = None
    results = {}
    subset = None           # other variants are judged on (at most 40 of) the cases the first one mismatches
    for v in VARIANTS:
        ml = model_lines(v, cases)
        mism = {}
        need = {}
        for i, c in enumerate(cases):
            if subset is not None and i not in subset:
                continue
            if i in monfail:
                continue        # the monitor already has a property violation for this case; its trace is not a witness for the tie
            mm, nd = compare(c, parsed[i], ml[i] if i < len(ml) else None)
            if mm:
                mism[i] = mm
                if nd:
                    need[i] = nd
        # second pass: descriptors that are not plain prefixes are evaluated by the Go side (Q steps)
        if need:
            idxs = sorted(need)
            ql, _ = run_go(exe, [case_line(cases[i], "11", sorted(need[i])) for i in idxs])
            if ql:
                for j, i in enumerate(idxs):
                    g2 = parse_line(ql[j])
                    g2["recs"] = parsed[i]["recs"]       # same case, same records; only the query table is new
                    g2["plain"] = parsed[i]["plain"]
                    mm, _ = compare(cases[i], g2, ml[i])
                    if mm:
                        mism[i] = mm
                    else:
                        del mism[i]
        results[v] = (mism, ml)
        if best is None:
            best = v
            subset = set(sorted(mism)[:40])
            if not mism:
                break
        elif not mism:
            # v explains every case the first variant could not
            best = v
            break
    mism, mlines = results[best]
    ck.notes["impl_matches_model_variant"] = {"variant(fix_d3,fix_d15)": best, "mismatching_cases": len(mism),
                                              "tried": {v: len(results[v][0]) for v in results},
                                              "cases_compared": len(cases) - len(monfail),
                                              "note": "cases with a monitor failure are not used for the correspondence; variants after the first are judged on at most 40 of the cases the first one mismatches"}
    if ck.tier == "thorough" and not replay:
        sample = [case_line(c, best) for c in cases[:60]]
        nvm, vmok = vm_lines(sample, mlines[:len(sample)])
        ck.add_obligation(vmok and nvm >= 10, "extracted model agrees with vm_compute on %d cases" % nvm)
        if VM_ERRORS:
            ck.notes["vm_compute_errors"] = VM_ERRORS[:3]

    ck.cov["evaluations"] = len(cases)
    ck.cov["distinct_nontrivial"] = len(nontriv)
    ck.cov["disagreements_checked"] = len(cases)
    ck.cov["traces_validated_against_impl"] = len(cases)
    ck.cov["rule"] = ("40% small hand-rolled logs, 60% histories of irclib.Gen (operators, services link with pseudo-clients, +i/+k/+x/+b channels with bans by "
                      "host and robust/0x<id>, invitations, join captchas, SVSHOLD, AWAY, GLINE, Config with CaptchaRequiredForLogin and sessions that stop "
                      "after NICK / USER / NICK+USER / PASS with a wrong, replayed or good captcha), every log ending in a behavioural tail (each surviving "
                      "session acts once more) that is applied after a Snapshot + Restart. 30% of the snapshot steps are SP steps: FSM.Snapshot() now, 2-4 more "
                      "entries applied, then Persist() of that snapshot (raft persists from another goroutine), followed by restores that replay from the index "
                      "captured by Snapshot(). Small logs: logs of 10-60 entries (15% raft-internal gaps, CreateSession/NICK/USER/JOIN/PRIVMSG/PART/TOPIC/PING/AWAY/MODE/"
                      "DeleteSession/Config with SessionExpiration 0s..1h, 4% pre-marked messages of death), timestamp patterns allold/allnew/"
                      "mixed/nonmono/boundary(+-1ns around t-(exp+10s)); schedules mixing Apply / Snapshot(ok|fail, t far future, far past, "
                      "10-minute window, boundary) / Restore / Restart; 20% JSON encoding, 12% FileSnapshotStore; 4% of the cases may restart "
                      "before any snapshot is persisted (D18). non-trivial = a snapshot folded at least one entry AND a restore/restart "
                      "from a snapshot happened; distinct by case text")
    ck.cov["input_distribution"] = dist
    ck.cov["samples"] = [{"case": case_line(cases[i], best)[:600], "impl": glines[i][:600], "model": mlines[i][:600]} for i in range(min(2, len(cases)))]

    # ---- verdicts
    seen = set()
    order = sorted(monfail, key=lambda i: (len(cases[i]["entries"]) * (monfail[i][2] + 1), i))
    for i in order:
        sig, text, kf = monfail[i]
        if sig in seen:
            continue
        seen.add(sig)
        c = cases[i]
        small = c
        if not replay and sig not in ("driver-output",):
            try:
                small = shrink(c, sig, exe, kf)
            except Exception:
                small = c
        gl, _ = run_go(exe, [case_line(small)], workers=1)
        mm = monitor(small, parse_line(gl[0])) if gl else None
        fields = []
        if mm and (sig.startswith("state-") or sig.startswith("snapshot-state") or sig.startswith("c02:field")):
            try:
                fields = diagnose(small, exe, mm[2], "snap" if sig.startswith("snapshot-state") else "srv")
            except Exception:
                fields = []
        ck.violation(sig, {"what": (mm or (sig, text, kf))[1] + ("; fields differing from the plainly replayed server: " +
                                                                   "; ".join("%s (%s)" % f for f in fields[:6]) if fields else ""),
                           "field_diff": [list(f) for f in fields[:40]],
                           "cases": [small], "case_line": case_line(small),
                           "impl_output": gl[0] if gl else glines[i],
                           "expected": "live state / outputs / log copy / snapshot content equal to the plain replay of the applied prefix (see impl_output 'plain')",
                           "occurrences_in_this_run": sum(1 for x in monfail.values() if x[0] == sig),
                           "how_to_replay": "bin/check C02 --replay <this file>"}, concrete=True)
    ck.notes["monitor_failures_by_signature"] = {s: sum(1 for x in monfail.values() if x[0] == s) for s in seen}
    if mism and not monfail:
        i = sorted(mism)[0]
        ck.violation("correspondence:fsm", {"what": "model and implementation disagree; the monitor found no input violating the property",
                                            "obligation": "correspondence fsmdrv (Fsm/Fsm.v vs statemachine.go/compaction.go), closest variant " + best,
                                            "cases": [cases[i]], "case_line": case_line(cases[i], best), "differences": mism[i][:5],
                                            "impl_output": glines[i], "model_output": mlines[i], "mismatches": len(mism)}, concrete=False)
    elif mism:
        ck.notes["correspondence_mismatches_with_monitor_failures"] = {"count": len(mism), "first": mism[sorted(mism)[0]][:3]}
    if not ok:
        ck.violation("proof-broken", {"what": "proof obligations not discharged", "errors": ck.proof_errors,
                                      "obligation": ck.proof_result.get("broken_at", "Properties/C02.v"),
                                      "coq_output": ck.proof_result["output_tail"]}, concrete=False)
    bad = [o for o in ck.cov.get("extra_obligations", []) if not o["ok"]]
    if bad and not monfail:
        ck.violation("obligation:" + bad[0]["name"].replace(" ", "_"), {"what": "source-derived obligation failed", "obligations": bad,
                                                                         "source_facts": facts}, concrete=False)
