# C07 — message of death contained:
#   proof obligations (Properties/C07.v) + source facts about applyProto's deferred recover + correspondence of
#   Fsm/Mod.v with real child processes (PANIC command enabled) + replay monitors on the durable log.
import json, os, re
import vlib
from props import c02

S = 10 ** 9
T0 = 1700000000 * S


def case_line(c):
    return " ".join(["fsm", "mod", str(c["id"]), str(c["proto"]), "L"] + [c02.entry_tok(e) for e in c["entries"]])


def gen_case(rng, cid, tier):
    n = rng.randint(8, 40 if tier == "thorough" else 22)
    entries = []
    sessions = {}     # sid -> {"nick": bool, "user": bool}
    dead = []
    idx = 0
    now = T0
    npanic = 0
    nrev = 0
    last_ts = {}
    nonmono = [0]
    maxp = rng.choice([1, 1, 2, 3])
    for k in range(n):
        idx += 1
        if k > 0 and rng.random() < 0.12:
            entries.append({"idx": idx, "kind": "i", "ts": 0, "exp": None, "spec": ""})
            continue
        now += rng.randint(1, 20 * S)
        kind, exp, erev = "c", None, 0
        live = sorted(sessions)
        logged = [s for s in live if sessions[s]["nick"] and sessions[s]["user"]]
        r = rng.random()
        if not live or (r < 0.12 and len(live) < 4):
            spec = "C"
            sessions[idx] = {"nick": False, "user": False}
        elif r < 0.17:
            spec, exp = "G30m", 30 * 60 * S
            nrev += 1 if rng.random() < 0.8 else 0      # consecutive revision (takes effect) or a duplicate (skipped)
            erev = nrev
        elif r < 0.21 and len(live) > 1:
            sid = rng.choice(live)
            spec = "D%d bye" % sid
            del sessions[sid]
            dead.append(sid)
        elif r < 0.45 and npanic < maxp and k > 2:
            role = rng.random()
            arg = rng.choice(["PANIC", "PANIC", "PANIC now", "PANIC :a b"])
            if logged and role < 0.7:
                spec = "P%d %s" % (rng.choice(logged), arg)          # handler reached: panics
                npanic += 1
            elif [s for s in live if s not in logged] and role < 0.85:
                spec = "I%d %s" % (rng.choice([s for s in live if s not in logged]), arg)   # 451 not registered
            elif dead:
                spec = "I%d %s" % (rng.choice(dead), arg)            # session gone: not processed
            else:
                spec = "I%d PING x" % rng.choice(live)
        else:
            sid = rng.choice(live)
            st = sessions[sid]
            if not st["nick"]:
                spec = "I%d NICK n%d" % (sid, sid)
                st["nick"] = True
            elif not st["user"]:
                spec = "I%d USER u%d 0 * :User %d" % (sid, sid, sid)
                st["user"] = True
            else:
                ch = rng.choice(["#a", "#b"])
                spec = "I%d " % sid + rng.choice(["JOIN " + ch, "PRIVMSG " + ch + " :m%d" % idx, "PART " + ch, "TOPIC " + ch + " :t%d" % idx,
                                                   "PING x", "AWAY :gone", "MODE " + ch + " +t", "NAMES " + ch])
            if rng.random() < 0.06 and spec.startswith("I") and " NICK " not in spec and " USER " not in spec:
                kind = "m"      # already marked in the log
        ts = now
        m = re.match(r"[IP](\d+) ", spec)
        if m:
            # timestamps are assigned by the leader that accepted the message: after a leader change they can be equal
            # to or older than the previous message of the same session (small skew, or a badly set clock)
            sid = int(m.group(1))
            if sid in last_ts and rng.random() < 0.3:
                ts = max(1, last_ts[sid] - rng.choice([0, 1, 5 * S, 90 * S, 2 * 3600 * S]))
                nonmono[0] += 1
            last_ts[sid] = ts
        entries.append({"idx": idx, "kind": kind, "ts": ts, "exp": exp, "rev": erev, "spec": spec})
    if entries[0]["kind"] == "i":
        entries[0] = {"idx": 1, "kind": "c", "ts": T0, "exp": None, "spec": "C"}
    return {"id": cid, "proto": 1 if rng.random() < 0.65 else 0, "entries": entries}


def expected_runs(c):
    """model-independent expectation: run r dies at the r-th entry whose handler panics; then a clean run"""
    kinds = [e["kind"] for e in c["entries"]]
    res = []
    for k, e in enumerate(c["entries"]):
        if e["kind"] == "c" and e["spec"].startswith("P"):
            kinds[k] = "m"
            res.append("exit@%d %s" % (e["idx"], "".join(kinds)))
    res.append("done " + "".join(kinds))
    return res


def monitor(c, gline):
    parts = (gline or "").split(" | ")
    if len(parts) < 2 or not parts[0].startswith("fsm mod"):
        return ("driver-output", "unparsable driver line: %r" % (gline or "")[:200])
    runs = [p for p in parts[1:] if p.startswith("exit@") or p.startswith("done") or p in ("never-finished", "store-error")]
    mons = [p for p in parts[1:] if p.startswith("mon ")]
    other = [p for p in parts[1:] if p not in runs and p not in mons]
    if other:
        return ("driver-output", "unexpected record %r" % other[0][:200])
    for r in runs:
        if "!" in r:
            a = re.search(r"!([a-z-]+)", r).group(1)
            return ("mod-marking:" + a, "durable log after a run is not 'same log with exactly the crashing entry re-tagged': %s" % r)
    want = expected_runs(c)
    if runs != want:
        return ("mod-exit-sequence", "process lifetimes %s, expected %s (each run must die at the next unmarked panicking entry, "
                                     "mark exactly it, and the last run must apply the whole log)" % (runs, want))
    if not mons:
        return ("driver-output", "no replay monitors in %r" % gline[:200])
    for tok in mons[0].split(" ")[1:]:
        name, _, verdict = tok.partition("=")
        if verdict != "ok" and name == "conv":
            return ("mod-replay:" + re.sub(r"[^A-Za-z-]", "", verdict.split(":")[0]),
                    "JSON -> protobuf conversion of the durable raft log (LevelDBStore.ConvertToProto, the restart with -pre1.0_protobuf=true): "
                    "%s - an entry no longer decodes to the same robust.Message (type, session, data, ClientMessageId, ...)" % verdict)
        if verdict != "ok":
            return ("mod-replay:" + re.sub(r"[^A-Za-z-]", "", verdict.split(":")[0]),
                    "replay of the durable log (%s) vs. replay of the log without the marked entries: %s" % (name, verdict))
    return None


def strip_model(l):
    return re.sub(r" srv=\S+", "", l or "")


def strip_go(l):
    return " | ".join(p for p in (l or "").split(" | ") if not p.startswith("mon "))


def source_facts():
    facts = {}
    try:
        sm = open(os.path.join(vlib.REPO, "statemachine.go")).read()
        cmds = open(os.path.join(vlib.REPO, "internal/ircserver/commands.go")).read()
    except OSError as ex:
        return {"error": str(ex)}
    sm = re.sub(r"//[^\n]*", "", sm)          # comments do not count
    m = re.search(r"func \(fsm \*FSM\) applyProto\(.*?\n}\n", sm, re.S)
    body = m.group(0) if m else ""
    p_skip = body.find("if msg.Type == robust.MessageOfDeath {")
    p_rec = body.find("recover()")
    p_tag = body.find("msg.Type = robust.MessageOfDeath")
    p_store = body.find("fsm.store.StoreLogProto(l)")
    p_fatal = body.rfind('glog.Fatalf("%v", r)')
    p_apply = body.find("fsm.applyRobustMessage(msg, ircServer, outputStream)")
    facts["deferred_order"] = 0 <= p_skip < p_rec < p_tag < p_store < p_fatal < p_apply
    m2 = re.search(r"case robust\.MessageOfDeath:(.*?)case robust\.CreateSession:", sm, re.S)
    modcase = m2.group(1) if m2 else ""
    calls = re.findall(r"\b(i\.[A-Za-z]+|sendMessages|fsm\.[A-Za-z]+)\(", modcase)
    facts["mod_case_only_updates_marker"] = calls == ["i.UpdateLastClientMessageID"]
    facts["apply_stores_before_applying"] = 0 <= sm.find("fsm.ircstore.StoreLogProto(&p)") < sm.find("return fsm.applyProto(&p, &msg)")
    facts["panic_command_behind_env"] = bool(re.search(r'os\.Getenv\("ROBUSTIRC_TESTING_ENABLE_PANIC_COMMAND"\) == "1" \{\s*Commands\["PANIC"\]', cmds))
    return facts


def corpus_cases():
    d = os.path.join(vlib.ROOT, "corpus", "C07")
    res = []
    if os.path.isdir(d):
        for fn in sorted(os.listdir(d)):
            if fn.endswith(".json"):
                for c in json.load(open(os.path.join(d, fn))).get("cases", []):
                    c = dict(c)
                    c["id"] = "corpus-" + fn[:-5] + "-" + str(c.get("id", len(res)))
                    res.append(c)
    return res


def shrink(c, sig, exe):
    def fails(x):
        gl, _ = c02.run_go(exe, [case_line(x)], test="TestVerifMod", workers=1)
        m = monitor(x, gl[0]) if gl else None
        return m is not None and m[0] == sig
    cur = c
    n = len(cur["entries"])
    while n > 2:
        n -= 1
        cand = dict(cur, entries=cur["entries"][:n])
        if fails(cand):
            cur = cand
        else:
            break
    return cur


def run(ck, replay):
    ck.cov["trusted_base"] += [
        "sysdrv (harness/go/main/zz_verif_mod_test.go): child processes of the test binary with ROBUSTIRC_TESTING_ENABLE_PANIC_COMMAND=1 feed a real LevelDB raft log store to the real FSM.Apply; the parent re-opens the store",
        "the parent emulates raft's restart (replay of the durable log from index 1 / from a snapshot) instead of running hashicorp/raft",
        "state equality through IRCServer.Marshal with LastActivity/LastNonPing/LastClientMessageId of the affected sessions masked; LastPostMessage compared separately",
        "python regex scan of applyProto / applyRobustMessage / commands.go (translator-lite)"]
    ck.assumptions += [
        "glog.Fatalf terminates the process before another entry is applied (runtime; not in the model)",
        "the state machine never reads the marker fields of another session in a way that changes replies (hypothesis apply_respects of C07_replay; the generator issues no WHOIS after a PANIC)",
        "apply_mod (UpdateLastClientMessageID) itself does not panic",
        "C02's assumptions for the snapshot variants (raft contract, round trip)"]
    ok = ck.proof_obligations()
    facts = source_facts()
    ck.notes["source_facts"] = facts
    for k in ("deferred_order", "mod_case_only_updates_marker", "apply_stores_before_applying", "panic_command_behind_env"):
        ck.add_obligation(facts.get(k, False), "source: " + k)

    if replay:
        cases = json.load(open(replay)).get("cases", [])
        for i, c in enumerate(cases):
            c.setdefault("id", "replay%d" % i)
    else:
        cases = corpus_cases()
        n = 60 if ck.tier == "quick" else 900
        for i in range(n):
            cases.append(gen_case(ck.rng, "m%d" % i, ck.tier))
    exe, bout = c02.build_go("mod")
    if exe is None:
        ck.violation("tie-broken:go-driver", {"what": "Go driver did not build against the current tree", "output": bout[-3000:],
                                              "obligation": "correspondence sysdrv"}, concrete=False)
        return
    lines = [case_line(c) for c in cases]
    glines, gerr = c02.run_go(exe, lines, test="TestVerifMod", workers=12)
    if glines is None:
        ck.violation("tie-broken:go-driver", {"what": "Go driver failed to run", "output": gerr[-3000:],
                                              "obligation": "correspondence sysdrv"}, concrete=False)
        return
    if not getattr(ck, "model_ok", False):
        ck.violation("tie-broken:model", {"what": "model driver could not be built", "output": ck.model_out[-3000:],
                                          "obligation": "extraction of Fsm/FsmDriver.v"}, concrete=False)
        return
    mlines = vlib.run_model("\n".join(lines) + "\n")
    if ck.tier == "thorough" and not replay:
        nvm, vmok = c02.vm_lines(lines[:60], mlines[:60])
        ck.add_obligation(vmok and nvm >= 10, "extracted model agrees with vm_compute on %d cases" % nvm)
    monfail, mism = {}, []
    dist = {"children": 0, "panics": 0, "cases_without_panic": 0, "json_cases": 0, "premarked": 0, "panic_not_reached": 0,
            "panic_position": {"first_third": 0, "middle": 0, "last_third": 0}}
    nontriv = set()
    for i, c in enumerate(cases):
        m = monitor(c, glines[i])
        if m:
            monfail[i] = m
        if strip_go(glines[i]) != strip_model(mlines[i] if i < len(mlines) else None):
            mism.append(i)
        runs = [p for p in glines[i].split(" | ") if p.startswith("exit@") or p.startswith("done")]
        dist["children"] += len(runs)
        np = sum(1 for p in runs if p.startswith("exit@"))
        dist["panics"] += np
        dist["cases_without_panic"] += 1 if np == 0 else 0
        dist["json_cases"] += 1 if c["proto"] == 0 else 0
        dist["premarked"] += sum(1 for e in c["entries"] if e["kind"] == "m")
        dist["panic_not_reached"] += sum(1 for e in c["entries"] if e["spec"].startswith("I") and "PANIC" in e["spec"])
        seen_ts = {}
        for e in c["entries"]:
            m = re.match(r"[IP](\d+) ", e["spec"])
            if m:
                sid = m.group(1)
                if sid in seen_ts and e["ts"] <= seen_ts[sid]:
                    key = "crashing_entries_not_newer_than_previous_of_session" if e["spec"].startswith("P") else "ordinary_entries_not_newer_than_previous_of_session"
                    dist[key] = dist.get(key, 0) + 1
                seen_ts[sid] = e["ts"]
        for k, e in enumerate(c["entries"]):
            if e["spec"].startswith("P"):
                f = k / max(1, len(c["entries"]))
                dist["panic_position"]["first_third" if f < 1 / 3 else "middle" if f < 2 / 3 else "last_third"] += 1
        if np > 0:
            nontriv.add(lines[i])
    ck.cov["evaluations"] = len(cases)
    ck.cov["distinct_nontrivial"] = len(nontriv)
    ck.cov["disagreements_checked"] = len(cases)
    ck.cov["traces_validated_against_impl"] = len(cases)
    ck.cov["rule"] = ("logs of 8-40 entries (12% raft-internal gaps, 2-4 sessions, Config, DeleteSession, 4% entries already marked), 0-3 PANIC "
                      "entries at random positions from a logged-in session (handler reached), an unregistered session or a deleted session "
                      "(handler not reached); 30% of the client messages carry a timestamp equal to or older than the previous message of their session "
                      "(0, 1 ns, 5 s, 90 s, 2 h); protobuf (65%) and legacy JSON encoding; every case: child processes until a clean run, then "
                      "replays of the durable log (plain; snapshot+restart before/after the marked entries with fold-all and fold-nothing "
                      "horizons; JSON cases also after the JSON->protobuf conversion of the raft log) against the replay of the log without the marked entries. non-trivial = at least one child died; distinct by case text")
    ck.cov["input_distribution"] = dist
    ck.cov["samples"] = [{"case": lines[i][:500], "impl": glines[i], "model": mlines[i]} for i in range(min(2, len(lines)))]
    seen = set()
    for i in sorted(monfail):
        sig, text = monfail[i]
        if sig in seen:
            continue
        seen.add(sig)
        small = cases[i]
        if not replay and sig != "driver-output":
            try:
                small = shrink(cases[i], sig, exe)
            except Exception:
                pass
        gl, _ = c02.run_go(exe, [case_line(small)], test="TestVerifMod", workers=1)
        mm = monitor(small, gl[0]) if gl else None
        ck.violation(sig, {"what": (mm or (sig, text))[1], "cases": [small], "case_line": case_line(small),
                           "impl_output": gl[0] if gl else glines[i], "expected_runs": expected_runs(small),
                           "occurrences_in_this_run": sum(1 for x in monfail.values() if x[0] == sig),
                           "how_to_replay": "bin/check C07 --replay <this file>"}, concrete=True)
    if mism and not monfail:
        i = mism[0]
        ck.violation("correspondence:mod", {"what": "model and implementation disagree; the monitor found no input violating the property",
                                            "obligation": "correspondence sysdrv (Fsm/Mod.v vs applyProto)", "cases": [cases[i]],
                                            "case_line": lines[i], "impl_output": glines[i], "model_output": mlines[i],
                                            "mismatches": len(mism)}, concrete=False)
    if not ok:
        ck.violation("proof-broken", {"what": "proof obligations not discharged", "errors": ck.proof_errors,
                                      "obligation": ck.proof_result.get("broken_at", "Properties/C07.v"),
                                      "coq_output": ck.proof_result["output_tail"]}, concrete=False)
    bad = [o for o in ck.cov.get("extra_obligations", []) if not o["ok"]]
    if bad and not monfail:
        ck.violation("obligation:" + bad[0]["name"].replace(" ", "_"), {"what": "source-derived obligation failed", "obligations": bad,
                                                                         "source_facts": facts}, concrete=False)
