# C14 — IRC state consistency
from props import irc_common


def run(ck, replay):
    irc_common.run_irc_check(ck, "C14", "c14", replay)
