//go:build verif

package outputstream

// Explicit-schedule driver for property C08.  Only compiled in the run whose overlay replaces
// outputstream.go by a copy importing schedsync instead of sync (see harness/py/props/c08.py).
//
//   outs <step>*   steps are the labels of the small-step model (coq/Out/OutConc.v):
//     a:<id>:<batch> d:<id> g:<id> n:<id> l i   operations of the driver goroutine (one section each)
//     s:<t>:<x>    create reader t = GetNext(ctx_t, x); it stops before its read-locked lookup
//     r:<t>        reader t executes its next lock-protected section (r=disabled if it is parked
//                  in Cond.Wait without a pending wake-up, has returned, or does not exist)
//     c:<t>        cancel ctx_t          e:<k>  evict cache entry k          j:<t>  report reader t

import (
	"bufio"
	"context"
	"fmt"
	"os"
	"strconv"
	"strings"
	"testing"
	"time"

	"github.com/robustirc/robustirc/internal/outputstream/schedsync"
	"github.com/robustirc/robustirc/internal/robust"
)

func verifSchedRunCase(f []string, tmp string) string {
	ctl := schedsync.NewController()
	schedsync.Ctl = ctl
	defer func() { schedsync.Ctl = nil }()
	o, err := NewOutputStream(tmp)
	if err != nil {
		return "outs harness-error:" + err.Error()
	}
	out := []string{"outs"}
	type rd struct {
		cancel context.CancelFunc
		result string
		done   bool
	}
	readers := map[int]*rd{}
	var order []int
	poisoned := false
loop:
	for _, tok := range f[1:] {
		p := strings.SplitN(tok, ":", 3)
		switch p[0] {
		case "s":
			t, _ := strconv.Atoi(p[1])
			if _, ok := readers[t]; ok {
				out = append(out, "s=disabled")
				break
			}
			ctx, cancel := context.WithCancel(context.Background())
			r := &rd{cancel: cancel}
			readers[t] = r
			order = append(order, t)
			x := verifOutU64(p[2])
			ev := ctl.Spawn(t, func() {
				r.result = verifOutShowBatch(o.GetNext(ctx, robust.Id{Id: x}))
				r.done = true
			})
			if ev.Kind == "panic" {
				out = append(out, "s=panic")
				poisoned = true
				break loop
			}
			out = append(out, "s=ok")
		case "r":
			t, _ := strconv.Atoi(p[1])
			ev := ctl.Step(t)
			switch ev.Kind {
			case "disabled":
				out = append(out, "r=disabled")
			case "panic", "stuck":
				out = append(out, "r="+ev.Kind)
				poisoned = true
				break loop
			default:
				out = append(out, "r=ok")
			}
		case "c":
			t, _ := strconv.Atoi(p[1])
			if r, ok := readers[t]; ok {
				r.cancel()
				out = append(out, "c=ok")
			} else {
				out = append(out, "c=disabled")
			}
		case "e":
			k := verifOutU64(p[1])
			o.cacheMu.Lock()
			delete(o.messagesCache, k)
			o.cacheMu.Unlock()
			out = append(out, "e=ok")
		case "j":
			t, _ := strconv.Atoi(p[1])
			r, ok := readers[t]
			switch {
			case !ok:
				out = append(out, "j"+p[1]+"=unknown")
			case r.done:
				out = append(out, "j"+p[1]+"="+r.result)
			default:
				out = append(out, "j"+p[1]+"=blocked")
			}
		default:
			res, panicked := verifOutMainOp(o, tok)
			out = append(out, res)
			if panicked {
				break loop
			}
		}
	}
	if !poisoned {
		for _, r := range readers {
			r.cancel()
		}
		if !verifOutGuard(verifOutWait(10*time.Second), func() { o.InterruptGetNext() }) {
			return strings.Join(out, " ")
		}
	cleanup:
		for _, t := range order {
			for i := 0; i < 8 && ctl.Enabled(t); i++ {
				if ev := ctl.Step(t); ev.Kind == "panic" || ev.Kind == "stuck" {
					// a reader died inside GetNext holding the mutex: nothing else can run
					poisoned = true
					break cleanup
				}
			}
		}
		if !poisoned {
			o.Close()
		}
	}
	return strings.Join(out, " ")
}

func TestVerifOutSched(t *testing.T) {
	in, err := os.Open(os.Getenv("VERIF_IN"))
	if err != nil {
		t.Fatal(err)
	}
	defer in.Close()
	out, err := os.Create(os.Getenv("VERIF_OUT"))
	if err != nil {
		t.Fatal(err)
	}
	defer out.Close()
	w := bufio.NewWriter(out)
	defer w.Flush()
	tmp := t.TempDir()
	sc := bufio.NewScanner(in)
	sc.Buffer(make([]byte, 1<<20), 1<<26)
	for sc.Scan() {
		f := strings.Fields(sc.Text())
		if len(f) == 0 {
			continue
		}
		if f[0] != "outs" {
			fmt.Fprintln(w, "unknown-case-kind")
			continue
		}
		fmt.Fprintln(w, verifSchedRunCase(f, tmp))
	}
}
