(* C19 — a node whose clock could be off by >= the election timeout refuses to join. *)
From Coq Require Import ZArith List Permutation.
From RV Require Import Tsg.Safeguard Tsg.SafeguardProofs.
Import ListNotations.
Local Open Scope Z_scope.

Theorem C19_sound : forall ET ms,
  decide ET false ms = Accept ->
  forall st en r theta, In (Meas st en (Some r)) ms -> explains theta (st, en, r) ->
  Z.abs theta < ET.
Proof. exact sound. Qed.
Print Assumptions C19_sound.

Theorem C19_refuse : forall ET ms,
  (exists x, In x (answered ms) /\ ET <= worst3 x) ->
  decide ET false ms = Refuse (offenders ET (answered ms)) /\
  (forall x, In x (offenders ET (answered ms)) <-> In x (answered ms) /\ ET <= worst3 x).
Proof. exact refuse. Qed.
Print Assumptions C19_refuse.

Theorem C19_refuse_only_with_reason : forall ET d ms off,
  decide ET d ms = Refuse off -> d = false /\ exists x, In x (answered ms) /\ ET <= worst3 x.
Proof. exact refuse_only_with_reason. Qed.
Print Assumptions C19_refuse_only_with_reason.

Theorem C19_ignore_silent : forall ET d ms st en,
  decide ET d (Meas st en None :: ms) = decide ET d ms /\
  (forall ms', decide ET d (ms ++ Meas st en None :: ms') = decide ET d (ms ++ ms')).
Proof. exact ignore_silent. Qed.
Print Assumptions C19_ignore_silent.

Theorem C19_disabled : forall ET ms off, decide ET true ms <> Refuse off.
Proof. exact disabled_never_refuses. Qed.
Print Assumptions C19_disabled.

(* the title, literally: a clock that COULD be off by >= ET (an offset of that magnitude is
   consistent with what was measured against some answering peer) makes the node refuse *)
Theorem C19_could_be_off_refuses : forall ET ms st en r theta,
  In (Meas st en (Some r)) ms -> explains theta (st, en, r) -> ET <= Z.abs theta ->
  decide ET false ms = Refuse (offenders ET (answered ms)) /\ In (st, en, r) (offenders ET (answered ms)).
Proof. exact could_be_off_refuses. Qed.
Print Assumptions C19_could_be_off_refuses.

(* schedules: the order in which the peers' answers were collected does not matter *)
Theorem C19_order_irrelevant : forall ET d ms ms',
  Permutation ms ms' -> same_verdict (decide ET d ms) (decide ET d ms').
Proof. exact order_irrelevant. Qed.
Print Assumptions C19_order_irrelevant.
