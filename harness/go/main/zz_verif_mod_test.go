//go:build verif

package main

// `sysdrv` (message-of-death part) — property C07.  Injected together with zz_verif_fsm_test.go.
//
// Input ($VERIF_IN):  fsm mod <id> <proto 0|1> L <entry>*      (entry syntax of zz_verif_fsm_test.go;
//   payload spec "P<sid> PANIC" = the generator predicts that the real handler is reached and panics,
//   "I<sid> PANIC" = PANIC from a session for which the handler is not reached)
// For every case the parent writes the log into a real raft log store (LevelDB), then repeatedly
// re-executes the test binary as a CHILD process with ROBUSTIRC_TESTING_ENABLE_PANIC_COMMAND=1 that
// opens the store and feeds every entry to the real FSM.Apply, as raft does after a start.  A panic is
// recovered by applyProto's deferred function, which rewrites the entry and calls glog.Fatalf.
// After each child the parent reopens the store and prints `exit@<k> <kinds>` (k = the entry whose stored
// type changed) or `done <kinds>`; every other entry must be byte-identical, entry k must decode to the
// original message with Type = MessageOfDeath (both encodings).
// Monitors (parent, PANIC command not registered): replay of the durable log through a fresh FSM —
// plain, and with Snapshot+restart before / after the marked entries (fold-all and fold-nothing horizons)
// — against the replay of the log WITHOUT the marked entries, modulo the marker fields
// (LastActivity/LastNonPing/LastClientMessageId of the affected sessions); LastPostMessage compared separately.
// JSON cases additionally go through the JSON -> protobuf conversion of the raft log (the 1.0 upgrade path):
// every entry must decode to the same message afterwards and the replay of the converted log is judged like the others.

import (
	"bufio"
	"bytes"
	"fmt"
	"io"
	"log"
	"os"
	"os/exec"
	"path/filepath"
	"sort"
	"strconv"
	"strings"
	"testing"

	"github.com/golang/protobuf/proto"
	"github.com/hashicorp/raft"
	"github.com/robustirc/robustirc/internal/ircserver"
	"github.com/robustirc/robustirc/internal/outputstream"
	"github.com/robustirc/robustirc/internal/raftstore"
	"github.com/robustirc/robustirc/internal/robust"
	protov2 "google.golang.org/protobuf/proto"

	pb "github.com/robustirc/robustirc/internal/proto"
)

// ---- child ------------------------------------------------------------------------------

func TestVerifModChild(t *testing.T) {
	dir := os.Getenv("VERIF_MOD_CHILD")
	if dir == "" {
		return
	}
	log.SetOutput(io.Discard)
	useProto := os.Getenv("VERIF_MOD_PROTO") == "1"
	run := os.Getenv("VERIF_MOD_RUN")
	logstore, err := raftstore.NewLevelDBStore(filepath.Join(dir, "raftlog"), false, useProto)
	if err != nil {
		fmt.Fprintf(os.Stderr, "child: %v\n", err)
		os.Exit(3)
	}
	cdir := filepath.Join(dir, "child-"+run)
	if err := os.MkdirAll(cdir, 0700); err != nil {
		os.Exit(3)
	}
	*raftDir = cdir
	*useProtobuf = useProto
	*network = vfNetwork
	vfFreshBanned()
	w := &vfWorld{dir: cdir, useProto: useProto, logstore: logstore, byIdx: map[uint64]*vfEntry{}}
	if err := w.boot(true); err != nil {
		fmt.Fprintf(os.Stderr, "child: %v\n", err)
		os.Exit(3)
	}
	first, _ := logstore.FirstIndex()
	last, _ := logstore.LastIndex()
	for i := first; i <= last && first > 0; i++ {
		var l raft.Log
		if err := logstore.GetLog(i, &l); err != nil {
			continue // index gap
		}
		w.fsm.Apply(&l) // a panic ends in glog.Fatalf => exit status 255
	}
	os.WriteFile(filepath.Join(dir, "child.done"), []byte(vfServerDigest(ircServer)), 0600)
	w.close()
	logstore.Close()
	os.Exit(0)
}

// ---- parent -----------------------------------------------------------------------------

func vmReadStore(dir string, useProto bool) (map[uint64]*raft.Log, []uint64, error) {
	s, err := raftstore.NewLevelDBStore(filepath.Join(dir, "raftlog"), false, useProto)
	if err != nil {
		return nil, nil, err
	}
	defer s.Close()
	res := map[uint64]*raft.Log{}
	var idxs []uint64
	first, _ := s.FirstIndex()
	last, _ := s.LastIndex()
	for i := first; i <= last && first > 0; i++ {
		var l raft.Log
		if err := s.GetLog(i, &l); err != nil {
			continue
		}
		cp := l
		res[i] = &cp
		idxs = append(idxs, i)
	}
	return res, idxs, nil
}

func vmKind(l *raft.Log) byte {
	if l.Type != raft.LogCommand {
		return 'i'
	}
	m := robust.NewMessageFromBytes(l.Data, l.Index)
	if m.Type == robust.MessageOfDeath {
		return 'm'
	}
	return 'c'
}

// vmSameButType: stored entry decodes to the original message with only the type changed
func vmSameButType(orig, now *raft.Log) bool {
	if orig.Index != now.Index || orig.Term != now.Term || orig.Type != now.Type {
		return false
	}
	a := robust.NewMessageFromBytes(orig.Data, orig.Index)
	b := robust.NewMessageFromBytes(now.Data, now.Index)
	if b.Type != robust.MessageOfDeath {
		return false
	}
	b.Type = a.Type
	return a.Id == b.Id && a.Session == b.Session && a.Data == b.Data && a.UnixNano == b.UnixNano &&
		a.ClientMessageId == b.ClientMessageId && a.Revision == b.Revision && a.RemoteAddr == b.RemoteAddr &&
		len(a.Servers) == len(b.Servers) && a.Currentmaster == b.Currentmaster &&
		(len(orig.Data) > 0 && orig.Data[0] == 'p') == (len(now.Data) > 0 && now.Data[0] == 'p')
}

// vmMaskedDigest: state digest with the marker fields of the given sessions cleared
func vmMaskedDigest(srv *ircserver.IRCServer, sessions map[uint64]bool) string {
	b, err := srv.Marshal(0)
	if err != nil {
		return "marshal-error"
	}
	var s pb.Snapshot
	if err := proto.Unmarshal(b, &s); err != nil {
		return "undecodable"
	}
	for _, ss := range s.Sessions {
		if sessions[ss.Id.GetId()] {
			ss.LastActivity = nil
			ss.LastNonPing = nil
			ss.LastClientMessageId = 0
		}
	}
	out, err := protov2.MarshalOptions{Deterministic: true}.Marshal(&s)
	if err != nil {
		return "unmarshalable"
	}
	d, _ := vfStateDigest(out)
	// ... and the independent field dump (VerifDump), same three fields of the same sessions masked
	dump, _ := vfDumpParts(srv)
	recs := strings.Split(dump, ";")
	for k, rec := range recs {
		f := strings.Split(rec, "/")
		if len(f) < 4 || f[0] != "S" || f[2] != "0" {
			continue
		}
		id, err := strconv.ParseUint(f[1], 10, 64)
		if err != nil || !sessions[id] {
			continue
		}
		for n, fld := range f {
			if strings.HasPrefix(fld, "la=") || strings.HasPrefix(fld, "lnp=") || strings.HasPrefix(fld, "cmid=") {
				f[n] = fld[:strings.Index(fld, "=")+1] + "masked"
			}
		}
		recs[k] = strings.Join(f, "/")
	}
	return d + "." + vfShort([]byte(strings.Join(recs, ";")))[:10]
}

// vmMarkerSessions: every session that received a client message in the case (LastPostMessage is read for all of them)
var vmMarkerSessions = map[uint64]bool{}

type vmReplayResult struct {
	masked string
	outs   map[uint64]string
	marker map[uint64]uint64
}

// vmFsmReplay feeds the entries to a fresh real FSM (world), optionally taking a snapshot at time t
// after `snapAfter` entries and restarting from it.
func vmFsmReplay(dir string, useProto bool, entries []*vfEntry, snapAfter int, t int64, sessions map[uint64]bool) (res vmReplayResult, err error) {
	defer func() {
		if r := recover(); r != nil {
			err = fmt.Errorf("panic: %v", r)
		}
	}()
	if err := os.MkdirAll(dir, 0700); err != nil {
		return res, err
	}
	w, err := vfNewWorld(dir, useProto, false, entries)
	if err != nil {
		return res, err
	}
	defer w.close()
	for i := range entries {
		if snapAfter >= 0 && i == snapAfter {
			if r := w.snapshot(t, 0, 0); !strings.Contains(r, ":ok:") {
				return res, fmt.Errorf("snapshot: %s", r)
			}
			if r := w.restart(); r != "X:snap" {
				return res, fmt.Errorf("restart: %s", r)
			}
			if w.applied != i {
				return res, fmt.Errorf("applied %d after restart, want %d", w.applied, i)
			}
		}
		w.applyNext()
	}
	res.masked = vmMaskedDigest(ircServer, sessions)
	res.outs = map[uint64]string{}
	for _, e := range entries {
		if msgs, ok := outputStream.Get(robust.Id{Id: e.idx}); ok {
			res.outs[e.idx] = vfBatchDigest(msgs, e.idx)
		}
	}
	res.marker = map[uint64]uint64{}
	for sid := range vmMarkerSessions {
		res.marker[sid] = ircServer.LastPostMessage(robust.Id{Id: sid})
	}
	return res, nil
}

func vmRunCase(line string, base string, n int) (result string) {
	f := strings.Fields(line)
	if len(f) < 5 || f[0] != "fsm" || f[1] != "mod" || f[4] != "L" {
		return "bad-case"
	}
	id := f[2]
	useProto := f[3] == "1"
	vfAliveAfter = map[uint64]map[uint64]bool{}
	out := []string{"fsm mod " + id}
	defer func() {
		if r := recover(); r != nil {
			out = append(out, fmt.Sprintf("panic:%x", fmt.Sprint(r)))
			result = strings.Join(out, " | ")
		}
	}()
	var entries []*vfEntry
	for _, tok := range f[5:] {
		if tok == "S" {
			break
		}
		e, err := vfParseEntry(tok, useProto)
		if err != nil {
			return "fsm mod " + id + " | bad-entry"
		}
		entries = append(entries, e)
	}
	dir := filepath.Join(base, fmt.Sprintf("m%d", n))
	if err := os.MkdirAll(dir, 0700); err != nil {
		return "fsm mod " + id + " | mkdir-error"
	}
	defer os.RemoveAll(dir)
	// the durable raft log
	{
		s, err := raftstore.NewLevelDBStore(filepath.Join(dir, "raftlog"), true, useProto)
		if err != nil {
			return "fsm mod " + id + " | store-error"
		}
		var logs []*raft.Log
		for _, e := range entries {
			logs = append(logs, e.log)
		}
		if err := s.StoreLogs(logs); err != nil {
			return "fsm mod " + id + " | store-error"
		}
		s.Close()
	}
	orig, idxs, err := vmReadStore(dir, useProto)
	if err != nil {
		return "fsm mod " + id + " | store-error"
	}
	prev := orig
	marked := map[uint64]bool{}
	finished := false
	for run := 0; run <= len(entries)+1 && !finished; run++ {
		os.Remove(filepath.Join(dir, "child.done"))
		cmd := exec.Command(os.Args[0], "-test.run=^TestVerifModChild$")
		cmd.Env = append(os.Environ(),
			"VERIF_MOD_CHILD="+dir, "VERIF_MOD_RUN="+strconv.Itoa(run),
			"VERIF_MOD_PROTO="+f[3], "ROBUSTIRC_TESTING_ENABLE_PANIC_COMMAND=1")
		var stderr bytes.Buffer
		cmd.Stdout = io.Discard
		cmd.Stderr = &stderr
		cerr := cmd.Run()
		os.RemoveAll(filepath.Join(dir, "child-"+strconv.Itoa(run)))
		now, _, err := vmReadStore(dir, useProto)
		if err != nil {
			out = append(out, "store-error")
			break
		}
		var kinds []byte
		var changed []uint64
		anomalies := ""
		for _, i := range idxs {
			l, ok := now[i]
			if !ok {
				anomalies += " !lost" + strconv.FormatUint(i, 10)
				continue
			}
			kinds = append(kinds, vmKind(l))
			p := prev[i]
			if p.Type == l.Type && p.Term == l.Term && bytes.Equal(p.Data, l.Data) {
				continue
			}
			changed = append(changed, i)
			if !vmSameButType(orig[i], l) {
				anomalies += " !diff" + strconv.FormatUint(i, 10)
			}
		}
		if len(now) != len(idxs) {
			anomalies += " !count"
		}
		if strings.Contains(anomalies, "!lost") {
			// an entry of the durable log can no longer be read back: raft could not replay its log
			out = append(out, "exit@? "+string(kinds)+anomalies)
			return strings.Join(out, " | ")
		}
		prev = now
		if cerr == nil {
			if _, err := os.Stat(filepath.Join(dir, "child.done")); err != nil {
				anomalies += " !nodone"
			}
			if len(changed) > 0 {
				anomalies += " !changed-on-clean-exit"
			}
			out = append(out, "done "+string(kinds)+anomalies)
			finished = true
			break
		}
		k := "?"
		if len(changed) == 1 {
			k = strconv.FormatUint(changed[0], 10)
			marked[changed[0]] = true
		} else if len(changed) > 1 {
			anomalies += " !changed" + strconv.Itoa(len(changed))
		}
		if _, err := os.Stat(filepath.Join(dir, "child.done")); err == nil {
			anomalies += " !done-but-nonzero"
		}
		if len(changed) == 0 && !strings.Contains(stderr.String(), "PANIC called") {
			s := stderr.String()
			if len(s) > 200 {
				s = s[len(s)-200:]
			}
			anomalies += fmt.Sprintf(" !child-error:%x", s)
		}
		out = append(out, "exit@"+k+" "+string(kinds)+anomalies)
	}
	if !finished {
		out = append(out, "never-finished")
		return strings.Join(out, " | ")
	}

	// ---- monitors: replay from the durable log vs. replay of the log without the marked entries
	var durable, without []*vfEntry
	sessions := map[uint64]bool{}
	lastCMI := map[uint64]uint64{}
	var maxTs, minTs int64
	for _, e := range entries {
		l := prev[e.idx]
		ne := &vfEntry{idx: e.idx, kind: vmKind(l), ts: e.ts, exp: e.exp, spec: e.spec, msg: e.msg, log: l}
		durable = append(durable, ne)
		if marked[e.idx] {
			sessions[e.msg.Session.Id] = true
		} else {
			without = append(without, e)
		}
		if e.kind != 'i' {
			if maxTs == 0 || e.ts > maxTs {
				maxTs = e.ts
			}
			if minTs == 0 || e.ts < minTs {
				minTs = e.ts
			}
		}
	}
	// the duplicate-detection marker of a session that is alive at the end is the client message id of its LAST message
	// in the log - whether that message crashed (marked), was an ordinary one, or carried an older timestamp
	vmMarkerSessions = map[uint64]bool{}
	for _, e := range entries {
		if e.kind != 'i' && (e.msg.Type == robust.IRCFromClient || e.msg.Type == robust.MessageOfDeath) {
			lastCMI[e.msg.Session.Id] = e.msg.ClientMessageId
			vmMarkerSessions[e.msg.Session.Id] = true
		}
	}
	ref, err := vmFsmReplay(filepath.Join(dir, "ref"), useProto, without, -1, 0, sessions)
	if err != nil {
		out = append(out, "mon ref-error:"+err.Error())
		return strings.Join(out, " | ")
	}
	firstMarked, lastMarked := -1, -1
	for i, e := range durable {
		if marked[e.idx] {
			if firstMarked < 0 {
				firstMarked = i
			}
			lastMarked = i
		}
	}
	type variantT struct {
		name      string
		snapAfter int
		t         int64
	}
	foldAll := maxTs + int64(3600e9)
	foldNone := minTs
	variants := []variantT{{"plain", -1, 0}}
	if firstMarked >= 0 {
		if firstMarked > 0 {
			variants = append(variants, variantT{"snapb-all", firstMarked, foldAll}, variantT{"snapb-none", firstMarked, foldNone})
		}
		if lastMarked+1 <= len(durable) {
			variants = append(variants, variantT{"snapa-all", lastMarked + 1, foldAll}, variantT{"snapa-none", lastMarked + 1, foldNone})
		}
	}
	var mon []string
	judge := func(vi int, v variantT, proto bool, durable []*vfEntry) {
		got, err := vmFsmReplay(filepath.Join(dir, fmt.Sprintf("v%d", vi)), proto, durable, v.snapAfter, v.t, sessions)
		verdict := "ok"
		switch {
		case err != nil:
			verdict = "error:" + strings.ReplaceAll(err.Error(), " ", "_")
		case got.masked != ref.masked:
			verdict = "STATE-DIFF"
		default:
			// outputs: every entry other than the marked ones keeps its batch (where it is still served)
			for i, d := range got.outs {
				if marked[i] {
					verdict = "MARKED-HAS-OUTPUT"
				} else if ref.outs[i] != d {
					verdict = "OUT-DIFF"
				}
			}
			if v.snapAfter < 0 && len(got.outs) != len(ref.outs) {
				verdict = "OUT-DIFF"
			}
			var sids []uint64
			for sid := range vmMarkerSessions {
				sids = append(sids, sid)
			}
			sort.Slice(sids, func(a, b int) bool { return sids[a] < sids[b] })
			for _, sid := range sids {
				if _, alive := ircServer.GetSession(robust.Id{Id: sid}); alive == nil && got.marker[sid] != lastCMI[sid] {
					if sessions[sid] {
						verdict = "MARKER-NOT-ADVANCED"
					} else if verdict == "ok" {
						verdict = "MARKER-STALE-ORDINARY-SESSION"
					}
				}
			}
		}
		mon = append(mon, v.name+"="+verdict)
	}
	for vi, v := range variants {
		judge(vi, v, useProto, durable)
	}
	if !useProto {
		// the JSON -> protobuf transition (restart with -pre1.0_protobuf=true): opening the store converts it
		// (LevelDBStore.ConvertToProto).  Every entry must still decode to the same robust.Message - the marked
		// ones included - and the replay of the converted log must still equal the replay without them.
		verdict := "ok"
		if cs, err := raftstore.NewLevelDBStore(filepath.Join(dir, "raftlog"), false, true); err != nil {
			verdict = "open-error"
		} else {
			cs.Close()
			conv, _, err := vmReadStore(dir, true)
			if err != nil {
				verdict = "read-error"
			} else {
				var upgraded []*vfEntry
				for _, e := range durable {
					c, ok := conv[e.idx]
					if !ok {
						verdict = "LOST" + strconv.FormatUint(e.idx, 10)
						break
					}
					if e.log.Type != c.Type || e.log.Term != c.Term {
						verdict = "CONV-DIFF" + strconv.FormatUint(e.idx, 10)
						break
					}
					if e.kind != 'i' {
						a := robust.NewMessageFromBytes(e.log.Data, e.idx)
						b := robust.NewMessageFromBytes(c.Data, e.idx)
						if a.Id != b.Id || a.Session != b.Session || a.Type != b.Type || a.Data != b.Data || a.UnixNano != b.UnixNano ||
							a.ClientMessageId != b.ClientMessageId || a.Revision != b.Revision || a.RemoteAddr != b.RemoteAddr ||
							a.Currentmaster != b.Currentmaster || len(a.Servers) != len(b.Servers) {
							verdict = "CONV-DIFF" + strconv.FormatUint(e.idx, 10)
							break
						}
					}
					ne := *e
					ne.log = c
					upgraded = append(upgraded, &ne)
				}
				if verdict == "ok" {
					judge(len(variants), variantT{"upgraded-plain", -1, 0}, true, upgraded)
					if lastMarked >= 0 {
						judge(len(variants)+1, variantT{"upgraded-snapa-none", lastMarked + 1, foldNone}, true, upgraded)
					}
				}
			}
		}
		mon = append(mon, "conv="+verdict)
	}
	out = append(out, "mon "+strings.Join(mon, " "))
	return strings.Join(out, " | ")
}

func TestVerifMod(t *testing.T) {
	if os.Getenv("VERIF_MOD_CHILD") != "" {
		return
	}
	in, err := os.Open(os.Getenv("VERIF_IN"))
	if err != nil {
		t.Fatal(err)
	}
	defer in.Close()
	outf, err := os.Create(os.Getenv("VERIF_OUT"))
	if err != nil {
		t.Fatal(err)
	}
	defer outf.Close()
	wr := bufio.NewWriter(outf)
	defer wr.Flush()
	log.SetOutput(io.Discard)
	defer log.SetOutput(os.Stderr)
	base, err := os.MkdirTemp("", "verif-mod-")
	if err != nil {
		t.Fatal(err)
	}
	defer os.RemoveAll(base)
	sc := bufio.NewScanner(in)
	sc.Buffer(make([]byte, 1<<20), 1<<26)
	n := 0
	for sc.Scan() {
		line := strings.TrimSpace(sc.Text())
		if line == "" {
			continue
		}
		n++
		fmt.Fprintln(wr, vmRunCase(line, base, n))
	}
	_ = outputstream.Message{}
}
