(* Fsm/ModProofs.v — C07: a message of death is marked durably (exactly that entry), the process
   exits, marked entries are skipped on every replay without reaching the recover path, and the
   replay of the marked log equals the replay of the log without the entry modulo the marker —
   also across any snapshot/restore schedule (through the C02 theorems). *)
From Coq Require Import List ZArith NArith Bool String Lia ZifyN ZifyNat ZifyBool.
From RV Require Import Fsm.Fsm Fsm.Mod Fsm.FsmProofs.
Import ListNotations.
Local Open Scope N_scope.

Lemma retag_fields : forall e,
  e_idx (retag e) = e_idx e /\ e_ts (retag e) = e_ts e /\ e_exp (retag e) = e_exp e /\ e_rev (retag e) = e_rev e /\
  e_payload (retag e) = e_payload e /\ e_kind (retag e) = KMoD.
Proof. intros e. repeat split. Qed.

(* the rewrite touches exactly the entries stored under key k, and only their type *)
Lemma mark_nth : forall k L n e, nth_error L n = Some e ->
  nth_error (mark k L) n = Some (if e_idx e =? k then retag e else e).
Proof. intros k L n e H. unfold mark. rewrite nth_error_map, H. reflexivity. Qed.
Lemma mark_length : forall k L, List.length (mark k L) = List.length L.
Proof. intros. unfold mark. apply map_length. Qed.
Lemma mark_idxs : forall k L, idxs (mark k L) = idxs L.
Proof.
  intros k L. unfold idxs, mark. rewrite map_map. apply map_ext. intros e.
  destruct (e_idx e =? k); reflexivity.
Qed.
Lemma mark_firstn : forall k L n, firstn n (mark k L) = mark k (firstn n L).
Proof. intros. unfold mark. apply firstn_map. Qed.
Lemma mark_log_ok : forall k L, log_ok L -> log_ok (mark k L).
Proof.
  intros k L [Hs Hge]. split.
  - unfold sorted. rewrite mark_idxs. exact Hs.
  - unfold mark. rewrite Forall_map. rewrite Forall_forall in *. intros e He.
    specialize (Hge e He). destruct (e_idx e =? k); exact Hge.
Qed.

Section ModProofs.
  Variables S O B : Type.
  Variable apply_cmd : S -> entry -> option (S * list O).
  Variable apply_mod : S -> entry -> S.
  Variable exp_of : S -> N.
  Variable rev_of : S -> N.

  Notation tot := (apply_total S O apply_cmd apply_mod).
  Notation ag := (apply_guarded S O B apply_cmd apply_mod exp_of rev_of).
  Notation ae := (apply_entry S O B tot exp_of rev_of).
  Notation rp := (run_process S O B apply_cmd apply_mod exp_of rev_of).

  (* C07_mark: the process dies at an entry iff the handler panics on a not-yet-marked command; then
     the durable log is the old one with exactly that entry re-tagged *)
  Theorem mod_mark : forall dlog f e k d, ag dlog f e = Died S O B k d ->
    e_kind e = KCmd /\ apply_cmd (server f) e = None /\ k = e_idx e /\ d = mark (e_idx e) dlog.
  Proof.
    intros dlog f e k d H. unfold apply_guarded in H. destruct (e_kind e) eqn:Hk; try discriminate.
    destruct (apply_cmd (server f) e) eqn:Ha; [discriminate|]. injection H as <- <-. tauto.
  Qed.
  Theorem mod_mark_conv : forall dlog f e, e_kind e = KCmd -> apply_cmd (server f) e = None ->
    ag dlog f e = Died S O B (e_idx e) (mark (e_idx e) dlog).
  Proof. intros dlog f e Hk Ha. unfold apply_guarded. rewrite Hk, Ha. reflexivity. Qed.

  (* C07_skip: a marked entry only moves the marker: no reply batch, expiration copy untouched *)
  Theorem mod_skip : forall f e, e_kind e = KMoD ->
    ae f e = mkFsm S O B (put (e_idx e) e (ircstore f)) (outstore f) (lss f) (expdur f)
                   (apply_mod (server f) e).
  Proof.
    intros f e Hk. unfold apply_entry, stored_kind, sets_exp, apply_total. rewrite Hk. reflexivity.
  Qed.
  (* ... and never reaches the recover path *)
  Theorem mod_no_recover : forall dlog f e, e_kind e = KMoD -> ag dlog f e = Continued S O B (ae f e).
  Proof. intros dlog f e Hk. unfold apply_guarded. rewrite Hk. reflexivity. Qed.

  (* one process lifetime *)
  Theorem process_exit : forall dlog todo f k d, rp dlog f todo = Exited S O B k d ->
    exists e, In e todo /\ e_kind e = KCmd /\ e_idx e = k /\ d = mark k dlog.
  Proof.
    intros dlog todo. induction todo as [|e todo IH]; intros f k d H; [discriminate|].
    cbn [run_process] in H. destruct (ag dlog f e) as [f'|k' d'] eqn:Hag.
    - destruct (IH _ _ _ H) as (x & Hx & Hr). exists x. split; [right; exact Hx|exact Hr].
    - injection H as <- <-. destruct (mod_mark _ _ _ _ _ Hag) as (Hk & _ & -> & ->).
      exists e. split; [left; reflexivity|]. tauto.
  Qed.

  (* after the restart the marked entry does not kill the process again *)
  Theorem process_progress : forall L k L' f f' k' L'',
    rp L f L = Exited S O B k L' -> rp L' f' L' = Exited S O B k' L'' -> k' <> k.
  Proof.
    intros L k L' f f' k' L'' H1 H2.
    destruct (process_exit _ _ _ _ _ H1) as (e1 & _ & _ & _ & ->).
    destruct (process_exit _ _ _ _ _ H2) as (e2 & Hin & Hk2 & Hi2 & _).
    unfold mark in Hin. apply in_map_iff in Hin. destruct Hin as (x & Hx & _).
    destruct (e_idx x =? k) eqn:Hc.
    - subst e2. cbn in Hk2. discriminate.
    - subst e2. lia.
  Qed.

  (* a lifetime without panic applies every entry with the total semantics *)
  Theorem process_finish : forall dlog todo f f', rp dlog f todo = Finished S O B f' ->
    f' = fold_left ae todo f.
  Proof.
    intros dlog todo. induction todo as [|e todo IH]; intros f f' H.
    - injection H as <-. reflexivity.
    - cbn [run_process] in H. cbn [fold_left]. destruct (ag dlog f e) as [f1|k' d'] eqn:Hag; [|discriminate].
      rewrite (IH _ _ H). f_equal. unfold apply_guarded in Hag. destruct (e_kind e) eqn:Hk.
      + destruct (apply_cmd (server f) e); [|discriminate]. injection Hag as <-. reflexivity.
      + injection Hag as <-. reflexivity.
      + injection Hag as <-. unfold apply_entry, stored_kind. rewrite Hk. reflexivity.
  Qed.

  (* ---- replay of the marked log vs. the log without the entry -------------------------- *)
  Variable eqm : S -> S -> Prop.                      (* equal up to the duplicate-detection marker *)
  Hypothesis eqm_refl : forall s, eqm s s.
  Hypothesis eqm_trans : forall a b c, eqm a b -> eqm b c -> eqm a c.
  Hypothesis mod_only_marker : forall s e, eqm (apply_mod s e) s.
  (* the state machine does not read the marker: to be discharged by M-IRC / checked by the monitor *)
  Hypothesis apply_respects : forall s1 s2 e, eqm s1 s2 ->
    eqm (fst (tot s1 e)) (fst (tot s2 e)) /\ snd (tot s1 e) = snd (tot s2 e).

  Theorem mod_replay : forall L k s1 s2, eqm s1 s2 ->
    (forall e, In e L -> e_idx e = k -> stored_kind e = true) ->
    eqm (run_state S O tot s1 (cmds (mark k L))) (run_state S O tot s2 (cmds (without k L))) /\
    run_out S O tot s1 (cmds (mark k L)) = run_out S O tot s2 (cmds (without k L)).
  Proof.
    induction L as [|e L IH]; intros k s1 s2 Heq Hcmd.
    - split; [exact Heq|reflexivity].
    - assert (Hcmd' : forall x, In x L -> e_idx x = k -> stored_kind x = true).
      { intros x Hx. apply Hcmd. right. exact Hx. }
      unfold mark, without, cmds. cbn [map filter]. destruct (e_idx e =? k) eqn:Hc; cbn [negb].
      + (* the marked entry: applied as message of death on the left, absent on the right *)
        change (stored_kind (retag e)) with true. cbn [filter run_state run_out].
        assert (Ht : tot s1 (retag e) = (apply_mod s1 (retag e), [])) by reflexivity.
        rewrite Ht. cbn [fst]. apply IH; [|exact Hcmd'].
        apply (eqm_trans _ s1); [apply mod_only_marker|exact Heq].
      + cbn [filter]. destruct (stored_kind e) eqn:Hk; cbn [filter run_state run_out]; rewrite ?Hk.
        * destruct (apply_respects s1 s2 e Heq) as [Hs Ho].
          destruct (tot s1 e) as [s1' o1]. destruct (tot s2 e) as [s2' o2]. cbn [fst snd] in *. subst o2.
          destruct (IH k s1' s2' Hs Hcmd') as [IHs IHo]. unfold mark, without, cmds in IHs, IHo.
          split; [exact IHs|]. destruct o1; [exact IHo|]. f_equal. exact IHo.
        * apply IH; assumption.
  Qed.

  (* ... also across every snapshot / restore / restart schedule over the marked log (C02) *)
  Variable init : S.
  Variable marshal : S -> N -> B.
  Variable unmarshal : B -> option (S * N).
  Hypothesis roundtrip : forall s k, unmarshal (marshal s k) = Some (s, k).
  Hypothesis exp_frame : forall s e, sets_exp (rev_of s) e = false -> exp_of (fst (tot s e)) = exp_of s.
  Hypothesis exp_init : eff_exp (exp_of init) = ten_minutes.

  Variable vr : variant.
  Hypothesis Hd3 : fix_d3 vr = true.
  Hypothesis Hd15 : fix_d15 vr = true.

  Theorem mod_replay_sched : forall L k sigma, log_ok L ->
    (forall e, In e L -> e_idx e = k -> stored_kind e = true) ->
    schedule_ok S O B init tot marshal unmarshal exp_of rev_of vr (mark k L) sigma (world0 S O B init) ->
    let w := run S O B init tot marshal unmarshal exp_of rev_of vr (mark k L) sigma (world0 S O B init) in
    eqm (server (w_fsm w)) (replay S O init tot (without k (firstn (w_applied w) L))).
  Proof.
    intros L k sigma HL Hcmd Hok w.
    pose proof (fsm_state S O B init tot marshal unmarshal exp_of rev_of roundtrip exp_frame exp_init vr Hd3 Hd15
                          (mark k L) sigma (mark_log_ok k L HL) Hok) as Hst.
    unfold reached in Hst. fold w in Hst. rewrite Hst. unfold replay. rewrite mark_firstn.
    apply mod_replay; [apply eqm_refl|].
    intros e He. apply Hcmd. rewrite <- (firstn_skipn (w_applied w) L). apply in_or_app. left. exact He.
  Qed.
End ModProofs.

(* ================================================================================== *)
(* a small concrete machine: the hypotheses are satisfiable, the statements not vacuous *)
(* ================================================================================== *)
Definition tS := (list N * N)%type.                       (* applied indexes, marker *)
Definition t_panics (e : entry) : bool := String.eqb (e_payload e) "PANIC".
Definition t_apply_cmd (s : tS) (e : entry) : option (tS * list (list N)) :=
  if t_panics e then None else Some ((fst s ++ [e_idx e], e_idx e), [fst s]).
Definition t_apply_mod (s : tS) (e : entry) : tS := (fst s, e_idx e).
Definition t_eqm (a b : tS) : Prop := fst a = fst b.
Definition t_exp_of (s : tS) : N := 0.

Lemma t_mod_only_marker : forall s e, t_eqm (t_apply_mod s e) s.
Proof. reflexivity. Qed.
Lemma t_apply_respects : forall s1 s2 e, t_eqm s1 s2 ->
  t_eqm (fst (apply_total tS (list N) t_apply_cmd t_apply_mod s1 e))
        (fst (apply_total tS (list N) t_apply_cmd t_apply_mod s2 e)) /\
  snd (apply_total tS (list N) t_apply_cmd t_apply_mod s1 e) =
  snd (apply_total tS (list N) t_apply_cmd t_apply_mod s2 e).
Proof.
  intros [l1 m1] [l2 m2] e H. unfold t_eqm in *. cbn [fst] in H. subst l2.
  unfold apply_total, t_apply_cmd, t_apply_mod. destruct (e_kind e); destruct (t_panics e); cbn; auto.
Qed.

Definition t_c (i : N) : entry := mkEntry i (Z.of_N i) KCmd None 0 "x".
Definition t_p (i : N) : entry := mkEntry i (Z.of_N i) KCmd None 0 "PANIC".
Definition t_log : list entry := [t_c 1; t_p 2; t_c 3; t_p 4; t_c 5].
Definition t_f0 := fresh_fsm tS (list N) unit (([], 0) : tS) [].

Example t_first_life :
  run_process tS (list N) unit t_apply_cmd t_apply_mod t_exp_of t_exp_of t_log t_f0 t_log
  = Exited tS (list N) unit 2 (mark 2 t_log).
Proof. vm_compute. reflexivity. Qed.
Example t_second_life :
  run_process tS (list N) unit t_apply_cmd t_apply_mod t_exp_of t_exp_of (mark 2 t_log) t_f0 (mark 2 t_log)
  = Exited tS (list N) unit 4 (mark 4 (mark 2 t_log)).
Proof. vm_compute. reflexivity. Qed.
Example t_third_life : exists f,
  run_process tS (list N) unit t_apply_cmd t_apply_mod t_exp_of t_exp_of (mark 4 (mark 2 t_log)) t_f0 (mark 4 (mark 2 t_log))
  = Finished tS (list N) unit f /\ server f = ([1; 3; 5], 5) /\ map fst (outstore f) = [1; 3; 5].
Proof. eexists. split; [vm_compute; reflexivity|]. split; reflexivity. Qed.
Example t_marked_only_k : map e_kind (mark 2 t_log) = [KCmd; KMoD; KCmd; KCmd; KCmd] /\
  map e_payload (mark 2 t_log) = map e_payload t_log /\ map e_ts (mark 2 t_log) = map e_ts t_log.
Proof. repeat split. Qed.
