#!/usr/bin/env python3
# seedtest.py — confirm a seeded change (patch + demonstration) in a scratch worktree and run our checks against it.
#   seedtest.py confirm <srcdir> <name>     verify build / repo tests / demo both ways; copy to /verif/seeded/<name>/
#   seedtest.py run <name> [Cxx ...]        run bin/check (quick) for the property (or the given ones) against the change
import json, os, shutil, subprocess, sys, time

GOENV = dict(os.environ, GOFLAGS="-mod=mod", GOPROXY="off", GOSUMDB="off", GOTOOLCHAIN="local")
SEEDED = "/verif/seeded"


def sh(cmd, cwd=None, env=None, timeout=1800):
    p = subprocess.run(cmd, shell=True, cwd=cwd, env=env or GOENV, stdout=subprocess.PIPE, stderr=subprocess.STDOUT, timeout=timeout)
    return p.returncode, p.stdout.decode("utf-8", "replace")


def worktree(name):
    wt = "/tmp/seed-%s-%d" % (name, os.getpid())
    sh("git -C /repo worktree add -q --detach %s HEAD" % wt)
    return wt


def drop(wt):
    sh("git -C /repo worktree remove --force %s" % wt)


def demo_files(d):
    return [f for f in os.listdir(d) if f.endswith(".go")]


def confirm(src, name):
    meta = json.load(open(os.path.join(src, "meta.json")))
    wt = worktree(name)
    res = {"confirmed_at": time.strftime("%Y-%m-%dT%H:%M:%S"), "repo_head": sh("git -C /repo rev-parse --short HEAD")[1].strip()}
    try:
        # where do the demo files go?  next to the code named in meta["demo"] (package path)
        demo = meta.get("demo", "")
        pkg = "."
        for tok in demo.split():
            if tok.startswith("./") or tok == ".":
                pkg = tok
        rc, out = sh("git apply %s" % os.path.join(src, "patch.diff"), cwd=wt)
        res["patch_applies"] = rc == 0
        rc, out = sh("go build ./...", cwd=wt)
        res["builds"] = rc == 0
        rc, out = sh("go test -vet=off -count=1 ./... 2>&1 | grep -v '^ok\\|no test files'", cwd=wt)
        bad = [l for l in out.split("\n") if l.startswith("--- FAIL") and "TestMessageOfDeath" not in l]
        res["existing_tests_pass"] = not bad
        res["existing_tests_failures"] = bad[:5]
        for f in demo_files(src):
            shutil.copy(os.path.join(src, f), os.path.join(wt, pkg, f))
        runpat = ""
        toks = demo.split()
        if "-run" in toks:
            runpat = toks[toks.index("-run") + 1]
        race = "-race" if "-race" in toks else ""
        cmd = "go test -vet=off -count=1 %s %s -run '%s'" % (race, pkg, runpat or "Demo")
        rc1, out1 = sh(cmd, cwd=wt)
        res["demo_cmd"] = cmd
        res["demo_fails_with_patch"] = rc1 != 0
        sh("git apply -R %s" % os.path.join(src, "patch.diff"), cwd=wt)
        rc2, out2 = sh(cmd, cwd=wt)
        res["demo_passes_without_patch"] = rc2 == 0
        res["demo_output_with_patch_tail"] = out1[-600:]
    finally:
        drop(wt)
    dst = os.path.join(SEEDED, name)
    os.makedirs(dst, exist_ok=True)
    for f in os.listdir(src):
        if os.path.isfile(os.path.join(src, f)):
            shutil.copy(os.path.join(src, f), os.path.join(dst, f))
    meta["confirmation"] = res
    json.dump(meta, open(os.path.join(dst, "meta.json"), "w"), indent=1)
    print(json.dumps(res, indent=1))
    return res


def run(name, props):
    dst = os.path.join(SEEDED, name)
    meta = json.load(open(os.path.join(dst, "meta.json")))
    props = props or [meta["property"]]
    wt = worktree(name)
    out_all = {}
    try:
        rc, out = sh("git apply %s" % os.path.join(dst, "patch.diff"), cwd=wt)
        if rc != 0:
            print("patch does not apply:", out)
            return
        for p in props:
            evd = "/tmp/seed-evid-%s-%d" % (name, os.getpid())
            os.makedirs(evd + "/replays", exist_ok=True)
            env = dict(GOENV, VERIF_REPO=wt, VERIF_EVIDENCE_DIR=evd, VERIF_REUSE_PROOFS="1")
            t0 = time.time()
            rc, out = sh("bin/check %s --tier quick" % p, cwd="/verif", env=env, timeout=3000)
            lines = [l for l in out.split("\n") if l.startswith(("VIOLATION", "KNOWN-FINDING", "PASS", "FAIL"))]
            sigs = []
            for l in lines:
                if l.startswith("VIOLATION"):
                    path = l.split("replay=")[1].split()[0]
                    try:
                        r = json.load(open(path))
                        sigs.append({"sig": r.get("signature"), "concrete": r.get("concrete_failing_input"), "what": str(r.get("what"))[:200]})
                    except Exception:
                        pass
            out_all[p] = {"exit": rc, "lines": lines, "violations": sigs, "wall_s": round(time.time() - t0, 1)}
            print(p, "exit", rc, lines[-1] if lines else out[-300:])
            for s_ in sigs:
                print("   ", s_)
            shutil.rmtree(evd, ignore_errors=True)
    finally:
        drop(wt)
    meta.setdefault("detection", {}).update(out_all)
    meta["detected_by"] = sorted(p for p, v in meta["detection"].items() if v["exit"] == 1)
    json.dump(meta, open(os.path.join(dst, "meta.json"), "w"), indent=1)


def harvest(name, seeds):
    """run the property's check against the seeded change with several seeds until it reports a concrete violation whose
    replay is an `irc` case; keep the (shrunk) case(s) as corpus/irc/seeded-<name>-<k>.case — corpus cases run first on
    every run of every IRC-based check, so the detection no longer depends on what the generator happens to produce."""
    dst = os.path.join(SEEDED, name)
    meta = json.load(open(os.path.join(dst, "meta.json")))
    prop = meta["property"]
    wt = worktree(name)
    kept = []
    try:
        rc, out = sh("git apply %s" % os.path.join(dst, "patch.diff"), cwd=wt)
        if rc != 0:
            print("patch does not apply")
            return
        for seed in seeds:
            evd = "/tmp/seed-evid-%s-%d" % (name, os.getpid())
            shutil.rmtree(evd, ignore_errors=True)
            os.makedirs(evd + "/replays", exist_ok=True)
            env = dict(GOENV, VERIF_REPO=wt, VERIF_EVIDENCE_DIR=evd, VERIF_SEED=str(seed), VERIF_REUSE_PROOFS="1")
            rc, out = sh("bin/check %s --tier quick" % prop, cwd="/verif", env=env, timeout=3000)
            for fn in sorted(os.listdir(evd + "/replays")):
                r = json.load(open(os.path.join(evd, "replays", fn)))
                if not r.get("concrete_failing_input"):
                    continue
                for c in r.get("cases", []):
                    if isinstance(c, str) and c.startswith("irc ") and c not in kept:
                        kept.append(c)
            shutil.rmtree(evd, ignore_errors=True)
            if kept:
                break
    finally:
        drop(wt)
    for k, c in enumerate(kept[:3]):
        path = "/verif/corpus/irc/seeded-%s-%d.case" % (name, k)
        open(path, "w").write(c + "\n")
        print("kept", path, len(c))
    if not kept:
        print("nothing harvested for", name)
    meta["corpus_cases"] = ["corpus/irc/seeded-%s-%d.case" % (name, k) for k in range(len(kept[:3]))]
    json.dump(meta, open(os.path.join(dst, "meta.json"), "w"), indent=1)


if __name__ == "__main__":
    if sys.argv[1] == "confirm":
        confirm(sys.argv[2], sys.argv[3])
    elif sys.argv[1] == "harvest":
        harvest(sys.argv[2], [int(x) for x in sys.argv[3:]] or [20250925, 1, 2, 3, 4, 5, 6, 7])
    else:
        run(sys.argv[2], sys.argv[3:])
