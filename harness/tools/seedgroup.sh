#!/bin/sh
# usage: seedgroup.sh <n>   confirm + run all out/* of /tmp/mutb-<n>
n=$1
cd /verif
for d in /tmp/mut${R:-b}-$n/out/C*; do
  id=$(basename $d)
  python3 harness/py/seedtest.py confirm $d $id-${R:-b}$n > /tmp/confirm-$id.log 2>&1
  ok=$(python3 -c "
import json;c=json.load(open('/verif/seeded/$id-${R:-b}$n/meta.json'))['confirmation']
print(all(c[k] for k in ('patch_applies','builds','existing_tests_pass','demo_fails_with_patch','demo_passes_without_patch')))")
  echo "$id confirmed=$ok"
  if [ "$ok" = "True" ]; then python3 harness/py/seedtest.py run $id-${R:-b}$n 2>&1 | grep -v "^$" | cut -c1-330; fi
done
