(* C20 — data-race freedom of concurrent API use (partial: the Go memory model itself, atomics
   inside goleveldb/raft, channel- and WaitGroup-based synchronisation are outside).

   C20_discipline_sound is the abstract theorem: in every well-formed execution (any length, any
   number of threads, sync.RWMutex semantics) whose accesses are instances of a summary table that
   satisfies [discipline_ok], any two conflicting accesses (same field, different threads, at least
   one write) are ordered by the lock-induced happens-before, i.e. there is no data race.

   The instance obligation  C20_instance : discipline_ok guard_map gen_lock_summary = true /\
   fields_classified guard_map gen_declared_fields = true  is stated and proved (vm_compute) in
   Gen/GenOKLocks.v, which is regenerated from the current source by lockscan and compiled on every
   run of bin/check C20.  It is deliberately NOT imported here: this file is part of the shared
   `make`, and an obligation that is broken by the tree under test must fail the C20 check, not the
   build of every other property.  C20_guarded_race_free is the theorem the instance plugs into. *)
From Coq Require Import String List.
From RV Require Import Conc.Lockset Conc.LocksetProofs Conc.GuardMap.

Theorem C20_discipline_sound : forall (gm : guard_map_t) (S : list entry) (tr : trace),
  discipline_ok gm S = true -> wf tr -> follows S tr ->
  forall i j, i < j -> conflict tr i j -> hb tr i j.
Proof. exact discipline_sound. Qed.
Print Assumptions C20_discipline_sound.

(* with RobustIRC's guard map: any table passing the obligation admits no race *)
Theorem C20_guarded_race_free : forall (S : list entry),
  discipline_ok guard_map S = true ->
  forall tr, wf tr -> follows S tr -> forall i j, i < j -> conflict tr i j -> hb tr i j.
Proof. intros S H tr. exact (discipline_sound guard_map S tr H). Qed.
Print Assumptions C20_guarded_race_free.

(* RWMutex semantics of the trace model: an exclusive holder excludes every other holder *)
Theorem C20_exclusive : forall tr n t1 t2 l m,
  wf tr -> n <= length tr ->
  In (t1, l, Ex) (state_at tr n) -> In (t2, l, m) (state_at tr n) -> t1 = t2.
Proof. exact wf_exclusive. Qed.
Print Assumptions C20_exclusive.

(* non-vacuity and the refutation of the weakened discipline (write under a shared lock) *)
Theorem C20_nonvacuous :
  discipline_ok ex_gm ex_table = true /\ wf ex_trace /\ follows ex_table ex_trace /\
  conflict ex_trace 1 5 /\ hb ex_trace 1 5.
Proof. exact discipline_nonvacuous. Qed.
Print Assumptions C20_nonvacuous.

Theorem C20_shared_write_refuted :
  discipline_ok ex_gm bad_table = false /\
  wf bad_trace /\ follows bad_table bad_trace /\ conflict bad_trace 2 3 /\ ~ hb bad_trace 2 3.
Proof. exact write_under_shared_lock_races. Qed.
Print Assumptions C20_shared_write_refuted.
