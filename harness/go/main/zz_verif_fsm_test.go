//go:build verif

package main

// `fsmdrv` — correspondence + monitor driver for the FSM bookkeeping (properties C02, C07).
// Injected into /repo's package main by `go test -overlay`; never part of /repo.
//
// Everything below drives the REAL code: (*FSM).Apply, (*FSM).Snapshot, (*robustSnapshot).Persist,
// (*FSM).Restore, real raftstore.LevelDBStore instances and a real outputstream.OutputStream under
// $TMPDIR; the compaction time is injected through the -canary_compaction_start flag variable.
// The monitor side (`plain`) replays the log on a fresh ircserver with (*FSM).applyRobustMessage on
// a zero FSM — no ircstore, no snapshot — and is independent of the Coq model.
//
// Input ($VERIF_IN), one case per line:
//   fsm <id> <variant> <proto 0|1> <sink M|F> L <entry>* S <step>*
//   <sink> = M | F, optionally followed by @<robust.MessageOffset>
//   entry = <idx>:<kind c|i|m>:<ts ns>:<exp ns|->:<rev>:<hex of payload spec>[:<explicit message id>]
//           rev = robust.Message.Revision of a Config entry (applyRobustMessage skips it unless rev = revision in force + 1)
//           kind c = command, i = raft-internal (LogNoop), m = command already tagged MessageOfDeath
//           payload spec: "C" CreateSession | "D<sid> <quitmsg>" | "I<sid> <irc line>" | "G<duration>"
//                         | "P<sid> PANIC" (like I; the generator predicts that the handler panics)
//                         | "J{json}" generic: {"T":"C|D|M|F","S":sid,"C":cmid,"Rev":n,"D":hex,"Ra":hex,"Auth":hex,"Toml":hex}
//   step  = A | S<t>:ok | S<t>:fail<n> | SP<t>:<k>:ok | SP<t>:<k>:fail<n> | R | X | Q<tok.tok...>
//           (SP = Snapshot now, k more entries applied, then Persist; tok = idx or idx! (applied as MoD))
// <variant> is only read by the model.  Output ($VERIF_OUT), one line per case, see vfDump.

import (
	"bufio"
	"bytes"
	"crypto/sha256"
	"encoding/base64"
	"encoding/binary"
	"encoding/hex"
	"encoding/json"
	"errors"
	"fmt"
	"io"
	"log"
	"math"
	"os"
	"path/filepath"
	"runtime/debug"
	"sort"
	"strconv"
	"strings"
	"testing"
	"time"

	"github.com/golang/protobuf/proto"
	"github.com/hashicorp/raft"
	"github.com/robustirc/robustirc/internal/config"
	"github.com/robustirc/robustirc/internal/ircserver"
	"github.com/robustirc/robustirc/internal/outputstream"
	"github.com/robustirc/robustirc/internal/raftstore"
	"github.com/robustirc/robustirc/internal/robust"
	protov2 "google.golang.org/protobuf/proto"

	pb "github.com/robustirc/robustirc/internal/proto"
)

const vfNetwork = "robustirc.net"

type vfEntry struct {
	idx  uint64
	kind byte
	ts   int64
	exp  string
	spec string
	msg  robust.Message // as the API would propose it (Id unset unless mid != 0)
	log  *raft.Log
	mid  uint64
}

// msgID is the id under which the output stream files the reply batch of the entry: the explicit message id if
// the message carries one, otherwise robust.MessageOffset + raft index (robust.NewMessageFromBytes)
func (e *vfEntry) msgID() robust.Id {
	if e.mid != 0 {
		return robust.Id{Id: e.mid}
	}
	return robust.Id{Id: robust.IdFromRaftIndex(e.idx)}
}

func vfEncode(m *robust.Message, useProto bool) []byte {
	if useProto {
		b, err := proto.Marshal(m.ProtoMessage())
		if err != nil {
			panic(err)
		}
		return append([]byte{'p'}, b...)
	}
	b, err := json.Marshal(m)
	if err != nil {
		panic(err)
	}
	return b
}

func vfParseEntry(tok string, useProto bool) (*vfEntry, error) {
	f := strings.Split(tok, ":")
	if (len(f) != 6 && len(f) != 7) || len(f[1]) != 1 {
		return nil, fmt.Errorf("bad entry %q", tok)
	}
	var mid uint64 // explicit robust.Message.Id.Id (legacy pre-#150 UNIX-nanosecond ids); 0 = absent, i.e. MessageOffset+index
	if len(f) == 7 {
		var err error
		if mid, err = strconv.ParseUint(f[6], 10, 64); err != nil {
			return nil, err
		}
	}
	rev, err := strconv.ParseUint(f[4], 10, 64)
	if err != nil {
		return nil, err
	}
	idx, err := strconv.ParseUint(f[0], 10, 64)
	if err != nil {
		return nil, err
	}
	ts, err := strconv.ParseInt(f[2], 10, 64)
	if err != nil {
		return nil, err
	}
	specb, err := hex.DecodeString(strings.TrimPrefix(f[5], "-"))
	if err != nil {
		return nil, err
	}
	e := &vfEntry{idx: idx, kind: f[1][0], ts: ts, exp: f[3], spec: string(specb), mid: mid}
	if e.kind == 'i' {
		e.log = &raft.Log{Type: raft.LogNoop, Index: idx, Term: 1}
		return e, nil
	}
	m := robust.Message{UnixNano: ts}
	rest := ""
	if len(e.spec) > 0 {
		rest = e.spec[1:]
	}
	sidAnd := func() (uint64, string) {
		p := strings.SplitN(rest, " ", 2)
		sid, _ := strconv.ParseUint(p[0], 10, 64)
		if len(p) == 2 {
			return sid, p[1]
		}
		return sid, ""
	}
	switch {
	case strings.HasPrefix(e.spec, "C"):
		m.Type = robust.CreateSession
		m.Data = fmt.Sprintf("auth-%d", idx)
		m.RemoteAddr = "192.0.2." + strconv.FormatUint(idx%250, 10)
	case strings.HasPrefix(e.spec, "D"):
		sid, q := sidAnd()
		m.Type = robust.DeleteSession
		m.Session = robust.Id{Id: sid}
		m.Data = q
	case strings.HasPrefix(e.spec, "I"), strings.HasPrefix(e.spec, "P"):
		sid, l := sidAnd()
		m.Type = robust.IRCFromClient
		m.Session = robust.Id{Id: sid}
		m.Data = l
		m.ClientMessageId = idx*1000 + 7
	case strings.HasPrefix(e.spec, "G"):
		m.Type = robust.Config
		m.Data = "SessionExpiration = \"" + rest + "\"\nPostMessageCooloff = \"0s\"\n"
		m.Revision = rev
	case strings.HasPrefix(e.spec, "J"):
		// generic form (histories of harness/py/irclib.py): every byte field hex-encoded
		var j struct {
			T                 string
			S, C, Rev         uint64
			D, Ra, Auth, Toml string
		}
		if err := json.Unmarshal([]byte(rest), &j); err != nil {
			return nil, err
		}
		unhex := func(h string) string {
			b, err := hex.DecodeString(h)
			if err != nil {
				panic("verif: bad hex in J spec")
			}
			return string(b)
		}
		switch j.T {
		case "C":
			m.Type = robust.CreateSession
			m.Data = unhex(j.Auth)
		case "D":
			m.Type = robust.DeleteSession
			m.Session = robust.Id{Id: j.S}
			m.Data = unhex(j.D)
		case "M":
			m.Type = robust.IRCFromClient
			m.Session = robust.Id{Id: j.S}
			m.Data = unhex(j.D)
			m.ClientMessageId = j.C
			m.RemoteAddr = unhex(j.Ra)
		case "F":
			m.Type = robust.Config
			m.Data = unhex(j.Toml)
			m.Revision = rev // the entry's <rev> field is authoritative (j.Rev is informative)
		default:
			return nil, fmt.Errorf("bad J spec type %q", j.T)
		}
	default:
		return nil, fmt.Errorf("bad payload spec %q", e.spec)
	}
	if e.kind == 'm' {
		m.Type = robust.MessageOfDeath
	}
	if mid != 0 {
		m.Id = robust.Id{Id: mid}
	}
	e.msg = m
	e.log = &raft.Log{Type: raft.LogCommand, Index: idx, Term: 1, Data: vfEncode(&m, useProto)}
	return e, nil
}

// ---------------------------------------------------------------- canonical digests

func vfShort(b []byte) string {
	h := sha256.Sum256(b)
	return hex.EncodeToString(h[:8])
}

// vfStateDigest canonicalises a serialized pb.Snapshot (Marshal iterates Go maps, so the order of
// the repeated fields is not deterministic) and returns a digest plus the LastIncludedIndex.
func vfStateDigest(b []byte) (string, uint64) {
	var s pb.Snapshot
	if err := proto.Unmarshal(b, &s); err != nil {
		return "undecodable", 0
	}
	lii := s.LastIncludedIndex
	s.LastIncludedIndex = 0
	sort.Slice(s.Sessions, func(a, b int) bool {
		x, y := s.Sessions[a].Id, s.Sessions[b].Id
		if x.GetId() != y.GetId() {
			return x.GetId() < y.GetId()
		}
		return x.GetReply() < y.GetReply()
	})
	for _, ss := range s.Sessions {
		sort.Strings(ss.Channels)
		sort.Strings(ss.InvitedTo)
	}
	sort.Slice(s.Channels, func(a, b int) bool { return s.Channels[a].Name < s.Channels[b].Name })
	out, err := protov2.MarshalOptions{Deterministic: true}.Marshal(&s)
	if err != nil {
		return "unmarshalable", lii
	}
	return vfShort(out), lii
}

func vfMarshalDigest(i *ircserver.IRCServer) string {
	b, err := i.Marshal(0)
	if err != nil {
		return "marshal-error"
	}
	d, _ := vfStateDigest(b)
	return d
}

// vfDumpParts: the independent field dump of internal/ircserver (VerifDump, injected by overlay:
// harness/go/ircserver/zz_verif_export.go, format harness/IRCFORMAT.md), split into everything but
// Config.WhitelistedOrigins and that one field (absent from snapshot.proto: C03's open finding).
func vfDumpParts(i *ircserver.IRCServer) (string, string) {
	d := ircserver.VerifDump(i)
	wo := ""
	if k := strings.LastIndex(d, "/wo="); k >= 0 {
		end := strings.IndexAny(d[k+1:], ";/")
		if end < 0 {
			wo, d = d[k+4:], d[:k]
		} else {
			wo, d = d[k+4:k+1+end], d[:k]+d[k+1+end:]
		}
	}
	return d, wo
}

var vfFullDumps = os.Getenv("VERIF_FSM_DUMPS") == "1"

// vfServerDigest is the state token of a live server: <digest of canonicalised Marshal>.<digest of the
// field dump without wo>.<digest of wo>.  Two servers are "the same state" iff the tokens are equal.
func vfServerDigest(i *ircserver.IRCServer) string {
	d, wo := vfDumpParts(i)
	return vfMarshalDigest(i)[:10] + "." + vfShort([]byte(d))[:10] + "." + vfShort([]byte(wo))[:4]
}

// vfBytesToken is the state token of a serialized state: what it MEANS when it is loaded
// (Unmarshal onto a fresh server, then the same token as for a live server) — a field that Marshal drops
// or normalises shows up as a difference to the plainly replayed server.
func vfBytesToken(b []byte) (string, uint64, *ircserver.IRCServer) {
	_, lii := vfStateDigest(b)
	srv := ircserver.NewIRCServer(vfNetwork, time.Unix(0, 1481144012969203276))
	if _, err := srv.Unmarshal(b); err != nil {
		return "load-error", lii, nil
	}
	return vfServerDigest(srv), lii, srv
}

func vfDumpHex(i *ircserver.IRCServer) string {
	if i == nil {
		return "-"
	}
	return hex.EncodeToString([]byte(ircserver.VerifDump(i)))
}

func vfBatchDigest(msgs []outputstream.Message, idx uint64) string {
	return vfShort([]byte(vfBatchText(msgs, idx)))
}

// vfAliveAfter[idx] = ids of the sessions {id,0} that exist right after entry idx in the PLAIN replay of the
// case (filled by the plain replay, which runs first).  Recipient sets are projected to it: a services link that
// has quit stays in IRCServer.serverSessions (and so in InterestingFor) until the next save+load — nobody can fetch
// messages for a session that no longer exists (DESIGN.md D13, IRCFORMAT.md E1).
var vfAliveAfter = map[uint64]map[uint64]bool{}

func vfAliveSet(srv *ircserver.IRCServer) map[uint64]bool {
	res := map[uint64]bool{}
	for id := range srv.GetSessions() {
		if id.Reply == 0 {
			res[id.Id] = true
		}
	}
	return res
}

func vfBatchText(msgs []outputstream.Message, idx uint64) string {
	alive, project := vfAliveAfter[idx]
	var buf bytes.Buffer
	for _, m := range msgs {
		var ids []uint64
		for id, ok := range m.InterestingFor {
			if ok && (!project || alive[id]) {
				ids = append(ids, id)
			}
		}
		sort.Slice(ids, func(a, b int) bool { return ids[a] < ids[b] })
		data := m.Data
		// RPL_CREATED carries IRCServer.ServerCreation, which is the wall-clock time at which this
		// process (or the last Restore) created the server object: per node, not replicated state.
		const created = " :This server was created "
		if i := strings.Index(data, created); i >= 0 && strings.Contains(data[:i], " 003 ") {
			data = data[:i+len(created)] + "<masked>"
		}
		fmt.Fprintf(&buf, "%d.%d %q %v\n", m.Id.Id, m.Id.Reply, data, ids)
	}
	return buf.String()
}

// ---------------------------------------------------------------- snapshot sinks

type vfMemSink struct {
	buf       bytes.Buffer
	writes    int
	failAt    int // fail at the n-th Write (1-based); 0 = never
	cancelled bool
	closed    bool
}

func (s *vfMemSink) Write(p []byte) (int, error) {
	s.writes++
	if s.failAt > 0 && s.writes >= s.failAt {
		return 0, errors.New("verif: injected snapshot write failure")
	}
	return s.buf.Write(p)
}
func (s *vfMemSink) Close() error  { s.closed = true; return nil }
func (s *vfMemSink) ID() string    { return "verif-mem" }
func (s *vfMemSink) Cancel() error { s.cancelled = true; return nil }

type vfFailWrap struct {
	raft.SnapshotSink
	writes, failAt int
}

func (s *vfFailWrap) Write(p []byte) (int, error) {
	s.writes++
	if s.failAt > 0 && s.writes >= s.failAt {
		return 0, errors.New("verif: injected snapshot write failure")
	}
	return s.SnapshotSink.Write(p)
}

type vfPersisted struct {
	data    []byte
	applied int
}

// ---------------------------------------------------------------- the world

type vfWorld struct {
	dir          string
	useProto     bool
	fileSink     bool
	entries      []*vfEntry
	byIdx        map[uint64]*vfEntry
	fsm          *FSM
	logstore     *raftstore.LevelDBStore // only for C07
	applied      int
	persisted    []vfPersisted
	fss          raft.SnapshotStore
	fssN         int
	lastSnapDump string
}

func vfFreshBanned() {
	// config.DefaultConfig.Banned is one map shared by every server of the process
	config.DefaultConfig.Banned = make(map[string]string)
}

func vfNewWorld(dir string, useProto, fileSink bool, entries []*vfEntry) (*vfWorld, error) {
	w := &vfWorld{dir: dir, useProto: useProto, fileSink: fileSink, entries: entries, byIdx: map[uint64]*vfEntry{}}
	for _, e := range entries {
		w.byIdx[e.idx] = e
	}
	*raftDir = dir
	*useProtobuf = useProto
	*network = vfNetwork
	vfFreshBanned()
	if fileSink {
		fss, err := raft.NewFileSnapshotStore(dir, 5, io.Discard)
		if err != nil {
			return nil, err
		}
		w.fss = fss
	}
	return w, w.boot(true)
}

// boot mirrors what main() does at process start for the parts the FSM touches.
func (w *vfWorld) boot(first bool) error {
	if err := outputstream.DeleteOldDatabases(w.dir); err != nil {
		return err
	}
	ircServer = ircserver.NewIRCServer(vfNetwork, time.Unix(0, 1481144012969203276))
	var err error
	outputStream, err = outputstream.NewOutputStream(w.dir)
	if err != nil {
		return err
	}
	if !first && os.Getenv("VERIF_WIPE_IRCLOG") == "1" {
		// main() of the tree under test re-creates irclog at start-up (fixes/D18-wipe-irclog-on-start.diff;
		// the python side sets the variable when it finds that code in robustirc.go)
		if err := os.RemoveAll(filepath.Join(w.dir, "irclog")); err != nil {
			return err
		}
	}
	ircStore, err = raftstore.NewLevelDBStore(filepath.Join(w.dir, "irclog"), first, w.useProto)
	if err != nil {
		return err
	}
	w.fsm = &FSM{
		store:             w.logstore,
		ircstore:          ircStore,
		lastSnapshotState: make(map[uint64][]byte),
		ReplaceState: func(*ircserver.IRCServer, *raftstore.LevelDBStore, *outputstream.OutputStream) {
		},
	}
	w.applied = 0
	return nil
}

func (w *vfWorld) close() {
	if w.fsm != nil && w.fsm.ircstore != nil {
		func() {
			defer func() { recover() }()
			w.fsm.ircstore.Close()
		}()
	}
	if outputStream != nil {
		outputStream.Close()
	}
}

func (w *vfWorld) applyNext() string {
	if w.applied >= len(w.entries) {
		return "A:end"
	}
	e := w.entries[w.applied]
	w.applied++
	cp := *e.log
	w.fsm.Apply(&cp)
	return "A" + strconv.FormatUint(e.idx, 10)
}

func (w *vfWorld) latest() (*vfPersisted, error) {
	if w.fileSink {
		snaps, err := w.fss.List()
		if err != nil {
			return nil, err
		}
		if len(snaps) == 0 {
			return nil, nil
		}
		meta, rc, err := w.fss.Open(snaps[0].ID)
		if err != nil {
			return nil, err
		}
		defer rc.Close()
		b, err := io.ReadAll(rc)
		if err != nil {
			return nil, err
		}
		return &vfPersisted{data: b, applied: int(meta.Index)}, nil
	}
	if len(w.persisted) == 0 {
		return nil, nil
	}
	return &w.persisted[len(w.persisted)-1], nil
}

// vfDescribeSnapshot parses what Persist wrote: the state message and the retained entries.
func (w *vfWorld) describeSnapshot(b []byte) string {
	st := "nostate"
	var idxs []string
	add := func(data []byte, index uint64) {
		m := robust.NewMessageFromBytes(data, index)
		if m.Type == robust.State {
			raw, err := decodeBase64(m.Data)
			if err != nil {
				st = "badstate"
				return
			}
			d, lii, _ := vfBytesToken(raw)
			st = strconv.FormatUint(lii, 10) + "=" + d
			return
		}
		tok := strconv.FormatUint(index, 10)
		if e, ok := w.byIdx[index]; !ok || !bytes.Equal(e.log.Data, data) {
			tok += "~"
		}
		idxs = append(idxs, tok)
	}
	if len(b) > 0 && b[0] == 'p' {
		r := bytes.NewReader(b[1:])
		var lenbuf [8]byte
		for {
			if _, err := io.ReadFull(r, lenbuf[:]); err != nil {
				break
			}
			buf := make([]byte, binary.BigEndian.Uint64(lenbuf[:]))
			if _, err := io.ReadFull(r, buf); err != nil || len(buf) == 0 {
				return "truncated"
			}
			var l pb.RaftLog
			if err := proto.Unmarshal(buf[1:], &l); err != nil {
				return "undecodable"
			}
			add(l.Data, l.Index)
		}
	} else {
		dec := json.NewDecoder(bytes.NewReader(b))
		for {
			var l raft.Log
			if err := dec.Decode(&l); err != nil {
				break
			}
			add(l.Data, l.Index)
		}
	}
	return st + ":" + vfList(idxs)
}

// snapshot: FSM.Snapshot() now; `late` more log entries are handed to FSM.Apply (raft keeps applying while its
// snapshot goroutine has not called Persist yet); then Persist of THAT snapshot object.  Like raft, the driver
// files the snapshot under the position it had when Snapshot() was called: a later Restore is followed by the
// log entries after that position.
func (w *vfWorld) snapshot(t int64, failAt int, late int) string {
	*canaryCompactionStart = t
	snap, err := w.fsm.Snapshot()
	if err != nil {
		return "S:err"
	}
	captured := w.applied
	rs, ok := snap.(*robustSnapshot)
	if !ok {
		return "S:badtype"
	}
	d, lii, loaded := vfBytesToken(rs.state)
	head := fmt.Sprintf("S:%d:%d:%d=%s", rs.firstIndex, rs.lastIndex, lii, d)
	w.lastSnapDump = ""
	if vfFullDumps {
		w.lastSnapDump = vfDumpHex(loaded)
	}
	var sink raft.SnapshotSink
	var mem *vfMemSink
	if w.fileSink {
		w.fssN++
		// raft names snapshots term-index-millis; keep the names distinct and ordered
		_, tr := raft.NewInmemTransport("")
		s, err := w.fss.Create(1, uint64(captured), uint64(w.fssN), raft.Configuration{}, 0, tr)
		if err != nil {
			return head + ":sinkerr"
		}
		sink = &vfFailWrap{SnapshotSink: s, failAt: failAt}
	} else {
		mem = &vfMemSink{failAt: failAt}
		sink = mem
	}
	for k := 0; k < late && w.applied < len(w.entries); k++ {
		w.applyNext()
	}
	if err := snap.Persist(sink); err != nil {
		sink.Cancel()
		snap.Release()
		return head + ":fail"
	}
	sink.Close()
	snap.Release()
	var data []byte
	if mem != nil {
		data = append([]byte(nil), mem.buf.Bytes()...)
		w.persisted = append(w.persisted, vfPersisted{data: data, applied: captured})
	} else {
		p, err := w.latest()
		if err != nil || p == nil {
			return head + ":lost"
		}
		data = p.data
		if p.applied != captured {
			return head + ":notlatest"
		}
	}
	return head + ":ok:" + w.describeSnapshot(data)
}

func (w *vfWorld) restore() string {
	p, err := w.latest()
	if err != nil {
		return "R:listerr"
	}
	if p == nil {
		return "R:none"
	}
	if err := w.fsm.Restore(io.NopCloser(bytes.NewReader(p.data))); err != nil {
		return "R:err"
	}
	w.applied = p.applied
	return "R:ok"
}

func (w *vfWorld) restart() string {
	w.close()
	if err := w.boot(false); err != nil {
		return "X:booterr"
	}
	p, err := w.latest()
	if err != nil {
		return "X:listerr"
	}
	if p == nil {
		return "X:none"
	}
	if err := w.fsm.Restore(io.NopCloser(bytes.NewReader(p.data))); err != nil {
		return "X:err"
	}
	w.applied = p.applied
	return "X:snap"
}

func vfList(l []string) string {
	if len(l) == 0 {
		return "-"
	}
	return strings.Join(l, ",")
}

// vfDump prints the observable bookkeeping:
//
//	st=<FirstIndex>:<LastIndex>:<stored idx,...>  (idx~ = stored data differs from the log entry)
//	out=<idx=batchdigest,...>   keys=<key=statedigest[@lastIncludedIndex if != key],...>
//	exp=<effective expiration ns>  srv=<live state digest>  n=<entries passed to Apply>
func (w *vfWorld) dump() string {
	first, _ := w.fsm.ircstore.FirstIndex()
	last, _ := w.fsm.ircstore.LastIndex()
	var stored []string
	it := w.fsm.ircstore.GetBulkIterator(0, math.MaxUint64)
	for ok := it.First(); ok; ok = it.Next() {
		i := binary.BigEndian.Uint64(it.Key())
		tok := strconv.FormatUint(i, 10)
		var l raft.Log
		if err := w.fsm.ircstore.GetLog(i, &l); err != nil {
			tok += "?"
		} else if e, ok := w.byIdx[i]; !ok || !bytes.Equal(e.log.Data, l.Data) || l.Type != e.log.Type {
			tok += "~"
		}
		stored = append(stored, tok)
	}
	it.Release()
	var outs, douts []string
	for _, e := range w.entries {
		if msgs, ok := outputStream.Get(e.msgID()); ok {
			outs = append(outs, strconv.FormatUint(e.idx, 10)+"="+vfBatchDigest(msgs, e.idx))
			if vfFullDumps {
				douts = append(douts, strconv.FormatUint(e.idx, 10)+"="+hex.EncodeToString([]byte(vfBatchText(msgs, e.idx))))
			}
		}
	}
	var keys []uint64
	for k := range w.fsm.lastSnapshotState {
		keys = append(keys, k)
	}
	sort.Slice(keys, func(a, b int) bool { return keys[a] < keys[b] })
	var ks []string
	for _, k := range keys {
		d, lii, _ := vfBytesToken(w.fsm.lastSnapshotState[k])
		tok := strconv.FormatUint(k, 10) + "=" + d
		if lii != k {
			tok += "@" + strconv.FormatUint(lii, 10)
		}
		ks = append(ks, tok)
	}
	exp := w.fsm.sessionExpiration()
	if exp == 0 {
		exp = 10 * time.Minute
	}
	extra := ""
	if vfFullDumps {
		extra = " dsrv=" + vfDumpHex(ircServer) + " douts=" + vfList(douts)
		if w.lastSnapDump != "" {
			extra += " dsnap=" + w.lastSnapDump
			w.lastSnapDump = ""
		}
	}
	ircServer.ConfigMu.RLock()
	rev := ircServer.Config.Revision
	ircServer.ConfigMu.RUnlock()
	return fmt.Sprintf("st=%d:%d:%s out=%s keys=%s exp=%d rev=%d srv=%s n=%d%s", first, last, vfList(stored), vfList(outs),
		vfList(ks), int64(exp), rev, vfServerDigest(ircServer), w.applied, extra)
}

// ---------------------------------------------------------------- model-independent replay

// vfReplay applies the given (entry, asMoD) sequence to a fresh server through applyRobustMessage on a
// zero FSM with a private output stream; returns per element the state digest after it and the digest
// of its output batch ("-" if none).
var vfLastReplayDumps []string
var vfRecordAlive bool
var vfLastReplayOuts = map[uint64]string{}

type vfTok struct {
	e     *vfEntry
	asMoD bool
}

func vfReplay(dir string, toks []vfTok) (states []string, outs []string, srv *ircserver.IRCServer, err error) {
	vfFreshBanned()
	srv = ircserver.NewIRCServer(vfNetwork, time.Unix(0, 1481144012969203276))
	pdir := filepath.Join(dir, "plain")
	if err := os.MkdirAll(pdir, 0700); err != nil {
		return nil, nil, nil, err
	}
	o, err := outputstream.NewOutputStream(pdir)
	if err != nil {
		return nil, nil, nil, err
	}
	defer o.Close()
	pf := &FSM{}
	seen := map[uint64]bool{}
	vfLastReplayDumps = nil
	vfLastReplayOuts = map[uint64]string{}
	if vfFullDumps {
		vfLastReplayDumps = append(vfLastReplayDumps, vfDumpHex(srv))
	}
	for _, t := range toks {
		if t.e.kind == 'i' {
			states = append(states, vfServerDigest(srv))
			outs = append(outs, "-")
			if vfFullDumps {
				vfLastReplayDumps = append(vfLastReplayDumps, vfDumpHex(srv))
			}
			continue
		}
		if seen[t.e.idx] {
			// the same index applied twice (only in query sequences): the batch of the earlier
			// application must not be mistaken for this one's
			o.Delete(t.e.msgID())
		}
		seen[t.e.idx] = true
		m := robust.NewMessageFromBytes(t.e.log.Data, robust.IdFromRaftIndex(t.e.idx))
		if t.asMoD {
			m.Type = robust.MessageOfDeath
		}
		pf.applyRobustMessage(&m, srv, o)
		if vfRecordAlive {
			vfAliveAfter[t.e.idx] = vfAliveSet(srv)
		}
		if vfFullDumps {
			vfLastReplayDumps = append(vfLastReplayDumps, vfDumpHex(srv))
		}
		states = append(states, vfServerDigest(srv))
		if msgs, ok := o.Get(t.e.msgID()); ok {
			if vfFullDumps {
				vfLastReplayOuts[t.e.idx] = hex.EncodeToString([]byte(vfBatchText(msgs, t.e.idx)))
			}
			outs = append(outs, vfBatchDigest(msgs, t.e.idx))
		} else {
			outs = append(outs, "-")
		}
	}
	return states, outs, srv, nil
}

func (w *vfWorld) query(spec string) string {
	var toks []vfTok
	if spec != "" && spec != "-" {
		for _, t := range strings.Split(spec, ".") {
			mod := strings.HasSuffix(t, "!")
			i, err := strconv.ParseUint(strings.TrimSuffix(t, "!"), 10, 64)
			e, ok := w.byIdx[i]
			if err != nil || !ok {
				return "Q" + spec + "=bad"
			}
			toks = append(toks, vfTok{e, mod})
		}
	}
	qdir := filepath.Join(w.dir, "q")
	states, outs, srv, err := vfReplay(qdir, toks)
	if err != nil {
		return "Q" + spec + "=err"
	}
	o := "-"
	if len(outs) > 0 {
		o = outs[len(outs)-1]
	}
	_ = states
	return "Q" + spec + "=" + vfServerDigest(srv) + "=" + o
}

// ---------------------------------------------------------------- case runner

func vfRunCase(line string, base string, n int) (res string) {
	f := strings.Fields(line)
	if len(f) < 7 || f[0] != "fsm" {
		return "bad-case"
	}
	id := f[1]
	useProto := f[3] == "1"
	fileSink := strings.HasPrefix(f[4], "F")
	// <sink>@<n>: robust.MessageOffset = n for this case (ids of messages without explicit id are n + raft index)
	robust.MessageOffset = 0
	if k := strings.Index(f[4], "@"); k >= 0 {
		robust.MessageOffset, _ = strconv.ParseUint(f[4][k+1:], 10, 64)
	}
	defer func() { robust.MessageOffset = 0 }()
	var out []string
	out = append(out, "fsm "+id)
	defer func() {
		if r := recover(); r != nil {
			if os.Getenv("VERIF_FSM_STACK") == "1" {
				fmt.Fprintf(os.Stderr, "verif: panic in case %s: %v\n%s\n", id, r, debug.Stack())
			}
			msg := fmt.Sprint(r)
			if len(msg) > 80 {
				msg = msg[:80]
			}
			out = append(out, "panic:"+hex.EncodeToString([]byte(msg)))
			res = strings.Join(out, " | ")
		}
	}()
	i := 5
	if f[i] != "L" {
		return "bad-case"
	}
	i++
	var entries []*vfEntry
	for ; i < len(f) && f[i] != "S"; i++ {
		e, err := vfParseEntry(f[i], useProto)
		if err != nil {
			return "fsm " + id + " | bad-entry"
		}
		entries = append(entries, e)
	}
	dir := filepath.Join(base, fmt.Sprintf("c%d", n))
	if err := os.MkdirAll(dir, 0700); err != nil {
		return "fsm " + id + " | mkdir-error"
	}
	defer os.RemoveAll(dir)
	// monitor side FIRST: plain replay of the whole log, no FSM bookkeeping involved (it also yields the
	// alive-after-entry sets the recipient projection refers to)
	var toks []vfTok
	for _, e := range entries {
		toks = append(toks, vfTok{e, false})
	}
	vfAliveAfter = map[uint64]map[uint64]bool{}
	vfRecordAlive = true
	var states, outs []string
	var perr error
	plainPanic := ""
	func() {
		// a panic while the log is replayed PLAINLY (no FSM bookkeeping involved) means the log contains a message
		// of death: that is C06/C07's business; there is no reference to compare a snapshot schedule with
		defer func() {
			if r := recover(); r != nil {
				plainPanic = fmt.Sprint(r)
				if os.Getenv("VERIF_FSM_STACK") == "1" {
					fmt.Fprintf(os.Stderr, "verif: panic in plain replay of case %s: %v\n%s\n", id, r, debug.Stack())
				}
			}
		}()
		states, outs, _, perr = vfReplay(dir, toks)
	}()
	vfRecordAlive = false
	if plainPanic != "" {
		if len(plainPanic) > 100 {
			plainPanic = plainPanic[:100]
		}
		return "fsm " + id + " | plainpanic:" + strconv.Itoa(len(vfAliveAfter)) + ":" + hex.EncodeToString([]byte(plainPanic))
	}
	plainDumps, plainOuts := vfLastReplayDumps, vfLastReplayOuts
	w, err := vfNewWorld(dir, useProto, fileSink, entries)
	if err != nil {
		return "fsm " + id + " | boot-error"
	}
	defer w.close()
	var queries []string
	for i++; i < len(f); i++ {
		s := f[i]
		var rec string
		switch {
		case s == "A":
			rec = w.applyNext()
		case s == "R":
			rec = w.restore()
		case s == "X":
			rec = w.restart()
		case strings.HasPrefix(s, "Q"):
			queries = append(queries, s[1:])
			continue
		case strings.HasPrefix(s, "S"):
			// S<t>:ok|fail<n>  or  SP<t>:<late>:ok|fail<n>
			late := 0
			body := s[1:]
			if strings.HasPrefix(s, "SP") {
				q := strings.SplitN(s[2:], ":", 3)
				if len(q) != 3 {
					rec = "S:badstep"
					break
				}
				late, _ = strconv.Atoi(q[1])
				body = q[0] + ":" + q[2]
			}
			p := strings.SplitN(body, ":", 2)
			t, err := strconv.ParseInt(p[0], 10, 64)
			if err != nil || len(p) != 2 {
				rec = "S:badstep"
				break
			}
			failAt := 0
			if strings.HasPrefix(p[1], "fail") {
				failAt, _ = strconv.Atoi(p[1][4:])
				if failAt == 0 {
					failAt = 1
				}
			}
			rec = w.snapshot(t, failAt, late)
		default:
			rec = "badstep"
		}
		out = append(out, rec+" "+w.dump())
	}
	if perr != nil {
		out = append(out, "plain:err")
	} else {
		var pl []string
		{
			vfFreshBanned()
			pl = append(pl, "0="+vfServerDigest(ircserver.NewIRCServer(vfNetwork, time.Unix(0, 1481144012969203276)))+"=-")
		}
		for k, e := range entries {
			pl = append(pl, fmt.Sprintf("%d=%s=%s", e.idx, states[k], outs[k]))
		}
		out = append(out, "plain "+vfList(pl))
		if vfFullDumps && len(plainDumps) == len(entries)+1 {
			pd := []string{"0=" + plainDumps[0]}
			for k, e := range entries {
				pd = append(pd, fmt.Sprintf("%d=%s", e.idx, plainDumps[k+1]))
			}
			out = append(out, "pdumps "+vfList(pd))
			var po []string
			for _, e := range entries {
				if h, ok := plainOuts[e.idx]; ok {
					po = append(po, fmt.Sprintf("%d=%s", e.idx, h))
				}
			}
			out = append(out, "pouts "+vfList(po))
		}
	}
	if len(queries) > 0 {
		var qs []string
		for _, q := range queries {
			qs = append(qs, w.query(q))
		}
		out = append(out, "queries "+strings.Join(qs, " "))
	}
	return strings.Join(out, " | ")
}

func decodeBase64(s string) ([]byte, error) {
	return base64.StdEncoding.DecodeString(s)
}

func TestVerifFsm(t *testing.T) {
	in, err := os.Open(os.Getenv("VERIF_IN"))
	if err != nil {
		t.Fatal(err)
	}
	defer in.Close()
	outf, err := os.Create(os.Getenv("VERIF_OUT"))
	if err != nil {
		t.Fatal(err)
	}
	defer outf.Close()
	wr := bufio.NewWriter(outf)
	defer wr.Flush()
	log.SetOutput(io.Discard)
	defer log.SetOutput(os.Stderr)
	base, err := os.MkdirTemp("", "verif-fsm-")
	if err != nil {
		t.Fatal(err)
	}
	defer os.RemoveAll(base)
	sc := bufio.NewScanner(in)
	sc.Buffer(make([]byte, 1<<20), 1<<26)
	n := 0
	for sc.Scan() {
		line := strings.TrimSpace(sc.Text())
		if line == "" {
			continue
		}
		n++
		fmt.Fprintln(wr, vfRunCase(line, base, n))
	}
}
