(* IrcProofs/Recipients.v — C12: who receives a relayed PRIVMSG/NOTICE, and under which prefix. *)
From stdpp Require Import gmap.
From Coq Require Import Strings.String Strings.Ascii ZArith NArith Lia.
From RV Require Import Base.Text Irc.Str Irc.Parse Irc.State Irc.Monad Irc.Cmds Irc.SCmds Irc.Apply.
From RV Require Import IrcProofs.WP IrcProofs.Inv IrcProofs.InvPrims IrcProofs.StrLemmas IrcProofs.Handlers.
Local Open Scope string_scope.

Lemma ids_of_members_spec sv l ids id :
  ids_of_members sv l = Ok ids ->
  (In id ids <-> exists n k', In n l /\ sv_nicks sv !! n = Some k' /\ id = fst k').
Proof.
  revert ids. induction l as [|n l IH]; intros ids H; cbn [ids_of_members] in H.
  - injection H as <-. split; [intros []|intros (n & k' & [] & _)].
  - destruct (sv_nicks sv !! n) as [k0|] eqn:Hk; [|discriminate].
    destruct (ids_of_members sv l) as [ids'| |] eqn:Hl; try discriminate. injection H as <-.
    specialize (IH ids' eq_refl). split.
    + intros [<-|Hin]; [exists n, k0; split; [now left|auto]|].
      apply IH in Hin. destruct Hin as (n' & k' & Hn' & Hk' & ->). exists n', k'. split; [now right|auto].
    + intros (n' & k' & [<-|Hn'] & Hk' & ->).
      * rewrite Hk in Hk'. injection Hk' as <-. now left.
      * right. apply IH. exists n', k'. auto.
Qed.

Lemma ids_of_members_but_spec sv but l ids id :
  ids_of_members_but sv but l = Ok ids ->
  (forall n, In n l -> is_Some (sv_nicks sv !! n)) ->
  (In id ids <-> exists n k', In n l /\ sv_nicks sv !! n = Some k' /\ k' <> but /\ id = fst k').
Proof.
  revert ids. induction l as [|n l IH]; intros ids H Hall; cbn [ids_of_members_but] in H.
  - injection H as <-. split; [intros []|intros (n & k' & [] & _)].
  - destruct (Hall n (or_introl eq_refl)) as [k0 Hk]. rewrite Hk in H.
    destruct (ids_of_members_but sv but l) as [ids'| |] eqn:Hl; try discriminate. injection H as <-.
    assert (Hall' : forall n0, In n0 l -> is_Some (sv_nicks sv !! n0)) by (intros n0 Hn0; apply Hall; now right).
    specialize (IH ids' eq_refl Hall'). split.
    + case_bool_decide as Hb.
      * intros Hin. apply IH in Hin. destruct Hin as (n' & k' & Hn' & Hk' & Hne & ->). exists n', k'. split; [now right|auto].
      * intros [<-|Hin]; [exists n, k0; split; [now left|auto]|].
        apply IH in Hin. destruct Hin as (n' & k' & Hn' & Hk' & Hne & ->). exists n', k'. split; [now right|auto].
    + intros (n' & k' & [<-|Hn'] & Hk' & Hne & ->).
      * rewrite Hk in Hk'. injection Hk' as <-. rewrite bool_decide_false by assumption. now left.
      * case_bool_decide; [|right]; apply IH; exists n', k'; auto.
Qed.

Lemma set_of_ids_In' y l : In y (set_of_ids l) <-> In y l.
Proof. apply set_of_ids_In. Qed.

(* a channel message is delivered to exactly the other members, under the sender's stored prefix *)
Theorem privmsg_channel k m sv r s target rest c :
  InvM sv -> sv_sessions sv !! k = Some s -> m_params m = target :: rest -> rest <> [] ->
  has_prefix "#" target = true -> sv_channels sv !! chan_to_lower target = Some c ->
  (is_Some (c_nicks c !! nick_to_lower (s_nick s)) \/ has_mode 110 (c_modes c) = false) ->
  exists o, cmd_privmsg k m sv r = Ok (tt, sv, RCtx (r_msgid r) (o :: r_out r)) /\
    o_data o = msg_bytes (usrmsg (s_prefix s) (m_cmd m) [target; trailing m]) /\
    (forall id, In id (o_rcpt o) <->
       exists n p k', c_nicks c !! n = Some p /\ sv_nicks sv !! n = Some k' /\ k' <> k /\ id = fst k').
Proof.
  intros I Hs Hps Hrest Hpre Hc Hallowed.
  destruct (rc_channel_but_ok sv _ c k I Hc) as [ids Hids].
  unfold cmd_privmsg, bindM, sessM, getS, retM. cbn [bindM]. unfold bindM. rewrite Hs. rewrite Hps.
  destruct rest as [|x rest']; [congruence|]. rewrite Hpre, Hc.
  assert (Hguard : negb (bool_decide (is_Some (c_nicks c !! nick_to_lower (s_nick s)))) && has_mode 110 (c_modes c) = false).
  { destruct Hallowed as [Hm|Hn]; [rewrite bool_decide_true by exact Hm; reflexivity|rewrite Hn; apply andb_false_r]. }
  rewrite Hguard. unfold liftR. rewrite Hids. unfold emit.
  eexists. split; [reflexivity|]. cbn [o_data o_rcpt]. split; [reflexivity|].
  intros id. rewrite set_of_ids_In'.
  unfold rc_channel_but in Hids.
  assert (Hall : forall n, In n (members c) -> is_Some (sv_nicks sv !! n)).
  { intros n Hn. apply members_spec in Hn. destruct Hn as [p Hp]. eapply inv_member_indexed; eauto. }
  destruct (ids_of_members_ok sv _ Hall) as [ids0 H0]. rewrite H0 in Hids.
  rewrite (ids_of_members_but_spec sv k (members c) ids id Hids Hall). split.
  - intros (n & k' & Hn & Hk' & Hne & ->). apply members_spec in Hn. destruct Hn as [p Hp]. exists n, p, k'. auto.
  - intros (n & p & k' & Hp & Hk' & Hne & ->). exists n, k'. split; [apply members_spec; now exists p|auto].
Qed.

(* a private message is delivered to exactly the session owning the target nickname; the only other
   message the handler may add is the away notice back to the sender *)
Theorem privmsg_private (k : N * N) m sv r s target rest (tk : N * N) t :
  sv_sessions sv !! k = Some s -> m_params m = target :: rest -> rest <> [] ->
  has_prefix "#" target = false -> has_prefix "$" target = false ->
  sv_nicks sv !! nick_to_lower target = Some tk -> sv_sessions sv !! tk = Some t ->
  (has_mode 71 (s_modes t) = false \/ s_channels t ∩ s_channels s <> ∅) ->
  exists r' o away, cmd_privmsg k m sv r = Ok (tt, sv, r') /\
    r_out r' = (away ++ o :: r_out r)%list /\
    o_data o = msg_bytes (usrmsg (s_prefix s) (m_cmd m) [target; trailing m]) /\ o_rcpt o = [fst tk] /\
    (forall a, In a away -> o_rcpt a = [fst k]).
Proof.
  intros Hs Hps Hrest Hp1 Hp2 Hk Ht Hg.
  unfold cmd_privmsg, bindM, sessM, getS, retM. cbn [bindM]. unfold bindM. rewrite Hs, Hps.
  destruct rest as [|x rest']; [congruence|]. rewrite Hp1, Hp2, Hk, Ht.
  assert (Hguard : has_mode 71 (s_modes t) && bool_decide (s_channels t ∩ s_channels s = ∅) = false).
  { destruct Hg as [Hg|Hg]; [now rewrite Hg|]. rewrite bool_decide_false by exact Hg. apply andb_false_r. }
  rewrite Hguard. unfold emit at 1.
  destruct (negb (is_empty (s_away t)) && String.eqb (m_cmd m) "PRIVMSG"); cbn [whenM].
  - unfold reply_num, bindM, getS, emit. eexists _, _, [_]. split; [reflexivity|]. cbn [r_out app].
    split; [reflexivity|]. split; [reflexivity|]. split; [reflexivity|].
    intros a [<-|[]]. reflexivity.
  - eexists _, _, []. split; [reflexivity|]. cbn [r_out app]. split; [reflexivity|]. split; [reflexivity|]. split; [reflexivity|].
    intros a [].
Qed.
