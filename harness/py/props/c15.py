# C15 — every line sent to clients is a single well-formed IRC line.
#   part 1 (irc_common): proofs + correspondence of the IRC model on entry histories + line monitor on every output
#   part 2 (here): the same property at the place the property names — what a client POSTs through the real HTTP handler.
#     The sanitising step of the handler is Api/Post.v's cut_line (theorem C15_sanitised_partial); here the real handler
#     (single-node raft, real FSM, real api.HTTP) is fed bodies with CR/LF/NUL at every kind of position (start, inside
#     the first 512 bytes, beyond 512 bytes behind ignored middle parameters, at the very end of a 2048-byte body), the
#     committed entry is compared with the model's (correspondence of cut_line), and the line monitor of the property is
#     run on the output batch stored for the entry (op Y of the driver).
import json, os, time
import vlib
from props import irc_common
import irclib
from props import c11 as api
from props import c10
from props.c11 import hx, unhx

CTL = ["\r", "\n", "\x00", "\r\n", "\n\r", "\x00\n"]
FORGED = ":evil!e@e PRIVMSG #c :forged"


def gen_case(rng, ci, quick):
    ns = 3
    chan = "#c%d" % ci
    nick = lambda k: "p%dx%d" % (ci, k)
    ops, cm = [], [rng.randint(1, 1 << 40)]
    def I(k, line): return "I:%d:%s" % (k, hx(line))
    def fresh():
        cm[0] += rng.randint(1, 1000)
        return cm[0]
    for k in range(ns):
        ops += ["C:%d" % k, I(k, "NICK " + nick(k)), I(k, "USER u%d 0 * :U %d" % (k, k)), I(k, "JOIN " + chan)]
    steps = rng.randint(4, 8) if quick else rng.randint(8, 30)
    for _ in range(steps):
        k = rng.randrange(ns)
        other = nick((k + 1) % ns)
        ctl = rng.choice(CTL)
        tail = ctl + FORGED
        shape = rng.random()
        if shape < 0.25:       # control character early
            pos_text = "x" * rng.randint(0, 40)
            line = rng.choice(["PRIVMSG %s :" % chan, "NOTICE %s :" % other, "TOPIC %s :" % chan, "AWAY :", "PART %s :" % chan,
                               "PRIVMSG %s :" % other, "KICK %s %s :" % (chan, other), "QUIT :"]) + pos_text + tail
        elif shape < 0.45:     # around the 510/512 byte marks
            n = rng.choice([440, 470, 480, 495, 500, 505, 509, 510, 511, 512, 513, 520, 600])
            head = "PRIVMSG %s :" % chan
            fill = rng.choice(["y", "y", "\u00fc", "\u20ac", "\U0001f600"])   # the 510-byte cut may fall inside a multi-byte character
            line = head + "y" * rng.randint(0, 3) + fill * max(0, (n - len(head)) // len(fill.encode("utf-8")) + 2) + tail
        elif shape < 0.75:     # ignored middle parameters push the trailing parameter past 512 bytes, the reply stays short
            n = rng.choice([200, 250, 260, 270, 300, 400, 700, 900])
            cmd = rng.choice(["PRIVMSG %s" % chan, "NOTICE %s" % chan, "PRIVMSG %s" % other, "TOPIC %s" % chan])
            line = cmd + " x" * n + " :hello" + tail
        elif shape < 0.85:     # control character inside a middle parameter / the command / the target
            line = rng.choice(["PRIV%sMSG %s :a" % (ctl, chan), "PRIVMSG %s%s :a" % (chan, ctl), "NICK new%s%d" % (ctl, ci),
                               "JOIN #d%d%s,#e" % (ci, ctl), "MODE %s +b %sm!*@*" % (chan, ctl), "USER a%sb 0 * :r" % ctl])
        elif shape < 0.93:     # several control characters, the first one late
            line = "PRIVMSG %s :" % chan + "z" * rng.randint(0, 1500) + ctl + "mid" + rng.choice(CTL) + "end" + rng.choice(CTL)
        else:                  # as long as the body limit allows
            line = "PRIVMSG %s" % chan + " q" * 300 + " :" + "w" * rng.randint(1000, 1400) + tail
        b = c10.body(line, fresh())
        if rng.random() < 0.12:
            # a body that is not valid UTF-8 (raw bytes inside the JSON string): the decoder substitutes U+FFFD, so what is
            # committed to the log is well-formed text all the same (hypothesis of C15_outputs_utf8 and of C03_marshal_total)
            raw = rng.choice([b"\xff", b"\xc3", b"\xf0\x9f\x98", b"\xed\xa0\x80", b"\xc0\xaf", b"\x80\x80"])
            b = ('{"Data":"PRIVMSG %s :bytes ' % chan).encode() + raw + b' end' + raw + ('","ClientMessageId":%d}' % fresh()).encode()
        ops += ["P:%d:%s" % (k, hx(b)), "Y"]
        if rng.random() < 0.2:
            ops += ["T:%d" % k]
    # DELETE with a quit message carrying control characters (deletesession.go cuts it the same way)
    # (no body limit in that handler: quit messages beyond 2048 bytes are decoded; a non-string Quitmessage answers 500)
    slots = list(range(ns))
    rng.shuffle(slots)
    for k in slots[:rng.choice([1, 2])]:
        qm = rng.choice(["bye" + rng.choice(CTL) + FORGED, rng.choice(CTL) + "x", "q" * rng.randint(400, 700) + rng.choice(CTL) + FORGED,
                         "bye\x00" + FORGED, "\x00", "\r\n\x00", rng.choice(CTL) * rng.randint(2, 5),        # NUL in particular; only control characters
                         "q" * rng.randint(2100, 5000) + rng.choice(CTL) + FORGED, "q" * 3000,                 # beyond the POST handler's 2048-byte limit
                         "ä€😀" + rng.choice(CTL) + "tail", "plain quit", ""])
        body = json.dumps({"Quitmessage": qm})
        if rng.random() < 0.12:
            body = rng.choice(['{"Quitmessage": 5}', '{"Quitmessage": ["a"]}', '{"Quitmessage": {"x": "y"}}', '{"Quitmessage": "unterminated'])   # -> 500
        ops += ["D:%d:%s" % (k, hx(body)), "Y"]
    ops.append("Z")
    return "post c%d " % ci + " ".join(ops)


def line_faults(data):
    """the property on one delivered line"""
    f = []
    if len(data) > 510:
        f.append(("toolong", "%d bytes" % len(data)))
    elif len(irclib.go_json_delivered(data)) > 510:
        f.append(("len-delivered", "%d bytes stored, %d bytes once the JSON encoder of GET /messages has replaced the bytes of an incomplete "
                  "UTF-8 sequence at the cut" % (len(data), len(irclib.go_json_delivered(data)))))
    for c, nm in ((b"\n", "LF"), (b"\r", "CR"), (b"\x00", "NUL")):
        if c in data:
            f.append(("ctl:" + nm, "contains %s at offset %d" % (nm, data.index(c))))
    import re
    cmd_re = re.compile(rb"^([A-Za-z]+|[0-9]{3})\Z")
    if not data.startswith(b":"):
        # RFC 1459: the prefix is optional; the server omits it only on ERROR (same rule as irclib.mon_c15)
        cmd = data.split(b" ", 1)[0]
        if not cmd_re.match(cmd):
            f.append(("nocommand", "line does not start with a command"))
        elif cmd != b"ERROR":
            f.append(("noprefix", "line without prefix delivered to a client"))
    else:
        w = data.split(b" ")
        if len(w[0]) < 2:
            f.append(("emptyprefix", "empty prefix"))
        if len(w) < 2 or not cmd_re.match(w[1]):
            f.append(("nocommand", "no command after the prefix"))
    return f


def monitor(ops, obs):
    fails, lines_seen = [], 0
    last_post = None
    for tok, o in zip(ops, obs):
        if "panic" in o:
            fails.append(("driver-op-failed", "op %s failed: %s" % (tok[:80], o)))
            continue
        if o["op"] in ("P", "I", "D"):
            last_post = tok
        if o["op"] == "Y" and o.get("out", "-") != "-":
            for m in o["out"].split(";"):
                f = m.split(":")
                data = unhx(f[1])
                lines_seen += 1
                for sig, text in line_faults(data):
                    fails.append(("c15:api:" + sig, "output %s of the entry committed for POST body %r: %s; line = %r" % (
                        f[0], (unhx(last_post.split(":")[2])[:120] if last_post else b""), text, data[:200])))
        if o["op"] in ("P", "I", "T", "D") and o.get("grew") == "1":
            ent = o["ent"].split(".")
            if len(ent) > 5:
                data = unhx(ent[5])
                if any(c in data for c in (b"\r", b"\n", b"\x00")):
                    fails.append(("c15:api:entry-not-sanitised", "the entry committed for %s carries CR/LF/NUL: %r" % (tok[:60], data[:120])))
                try:
                    data.decode("utf-8")
                except UnicodeDecodeError:
                    fails.append(("c15:api:entry-not-utf8", "the entry committed for %s is not well-formed UTF-8: %r (the theorems about serialisation "
                                  "and delivered length assume that the API only commits well-formed text)" % (tok[:60], data[:120])))
    return fails, lines_seen


def shrink(case_line, wiring, sig, prefix):
    f = case_line.split(" ")
    head, ops = f[:2], f[2:]
    def fails(cand):
        res, _ = api.run_go([" ".join(head + prefix.split(" ") + cand)], wiring, "c15shrink", timeout=600)
        if not res:
            return False
        fl, _ = monitor(prefix.split(" ") + cand, res[0][2:])
        return any(s == sig for s, _ in fl)
    i = len(ops) - 1
    budget = 40
    while i >= 0 and budget > 0:
        if ops[i].startswith(("P:", "I:", "Y", "T:", "Z")) and not ops[i].startswith(("I:0:", "I:1:", "I:2:")) or ops[i] == "Z":
            cand = ops[:i] + ops[i + 1:]
            budget -= 1
            if fails(cand):
                ops = cand
        i -= 1
    return ops


def run_api_part(ck, replay):
    quick = ck.tier == "quick"
    facts, _, slog = api.scan_routes()
    wiring = api.wiring_of(facts)
    prefix = "N F:%s:%s:ok" % (hx("0"), hx(api.BASE_CFG))
    if replay:
        rp = json.load(open(replay))
        lines = [l for l in rp.get("cases", []) if l.startswith("post ")]
        if not lines:
            return
    else:
        lines = []
        corpus = os.path.join(vlib.ROOT, "corpus", "C15api")
        if os.path.isdir(corpus):
            for fn in sorted(os.listdir(corpus)):
                if fn.endswith(".case"):
                    lines += [l for l in open(os.path.join(corpus, fn)).read().split("\n") if l and not l.startswith("#")]
        lines += [gen_case(ck.rng, i, quick) for i in range(30 if quick else 400)]
    f = lines[0].split(" ")
    if "N" not in f[2:4]:
        lines[0] = " ".join(f[:2] + prefix.split(" ") + f[2:])
    t0 = time.time()
    res, goout = api.run_go(lines, wiring, "c15api", timeout=3000)
    ck.notes["api_go_wall_s"] = round(time.time() - t0, 1)
    if res is None:
        ck.violation("tie-broken:go-driver-api", {"what": "Go API driver did not build/run against the current tree", "output": goout[-4000:],
                                                  "obligation": "correspondence apidrv (package main) for C15", "cases": lines[:1]}, concrete=False)
        return
    mins, wants, monfail, nlines, posts = [], [], [], 0, 0
    for ci, case in enumerate(res):
        ops = lines[ci].split(" ")[2:]
        obs = case[2:]
        fl, n = monitor(ops, obs)
        nlines += n
        posts += sum(1 for o in obs if o["op"] == "P")
        monfail += [(ci, s, t) for s, t in fl]
        mi, w = c10.model_case(obs)
        mins.append(mi); wants.append(w)
    mism = []
    if getattr(ck, "model_ok", False):
        mout = vlib.run_model("\n".join(mins) + "\n")
        mism = [i for i in range(len(mins)) if i >= len(mout) or mout[i] != wants[i]]
    else:
        mout = []
    ck.cov["api_model_disagreements"] = len(mism)      # Api/Post.v (post_handler, delete_handler) vs the committed entries
    ck.cov["api_histories"] = len(lines)
    ck.cov["api_posts_with_control_characters"] = posts
    ck.cov["api_output_lines_monitored"] = nlines
    ck.cov["evaluations"] = ck.cov.get("evaluations", 0) + len(lines)
    ck.cov["distinct_nontrivial"] = ck.cov.get("distinct_nontrivial", 0) + len(set(lines))
    ck.cov["rule"] = ck.cov.get("rule", "") + (" | API part: histories of 3 registered sessions in one channel on a single-node raft + real api.HTTP; each POSTs bodies whose Data "
                                              "holds CR/LF/NUL (single and pairs) early, around bytes 440-600, beyond byte 512 behind 200-900 ignored middle parameters, inside "
                                              "command/target/middle parameters, and in bodies close to the 2048-byte limit; after each POST the output batch of the newest entry is "
                                              "monitored (<=510 bytes, no CR/LF/NUL, prefix + command) and the committed entry is compared with Api/Post.v (post_handler / cut_line); "
                                              "1-2 DELETE requests per history with quit messages holding CR/LF/NUL (first, only, late, beyond 2048 bytes — that handler has no body "
                                              "limit), non-string Quitmessage (500); the committed DeleteSession entry is compared with Api/Post.v (delete_handler)")
    seen = set()
    for ci, sig, text in monfail:
        if sig in seen:
            continue
        seen.add(sig)
        ops = lines[ci].split(" ")[2:]
        if not replay:
            ops = [o for o in ops if o != "N" and not o.startswith("F:")]
            try:
                ops = shrink("post s " + " ".join(ops), wiring, sig, prefix)
            except Exception:
                pass
            ops = prefix.split(" ") + ops
        ck.violation(sig, {"what": text, "cases": ["post replay " + " ".join(ops)],
                           "expected": "every delivered line is at most 510 bytes, has no CR/LF/NUL, starts with a prefix and a command",
                           "how_to_replay": "bin/check C15 --replay <this file>"}, concrete=True)
    if mism and not monfail:
        i = mism[0]
        ck.violation("correspondence:post", {"what": "model (Api/Post.v, cut_line) and the POST handler disagree on the committed entry; the line monitor found no malformed output",
                                             "obligation": "correspondence apidrv (Api/Post.v vs postmessage.go)", "model_input": mins[i][:3000],
                                             "model_output": mout[i] if i < len(mout) else None, "impl_output": wants[i][:3000], "mismatches": len(mism),
                                             "cases": [lines[i] if " N " in lines[i] else "post replay " + prefix + " " + lines[i].split(" ", 2)[2]]}, concrete=False)


def line_samples(rng, n):
    """byte strings around the 510-byte cut: ASCII fill + multi-byte characters at every alignment, ill-formed sequences
    (lone continuation bytes, truncated sequences, overlong forms, surrogates, > U+10FFFF), and short strings"""
    chars = ["\u00fc", "\u20ac", "\U0001f600", "\u0800", "\ud7ff", "\ue000", "\U00010000", "\U0010ffff", "\u007f", "\u0080", "\u07ff"]
    bad = [b"\x80", b"\xbf", b"\xc0\xaf", b"\xc1\xbf", b"\xc2", b"\xe0\x80\x80", b"\xe0\xa0", b"\xed\xa0\x80", b"\xed\x9f\xbf", b"\xf0\x80\x80\x80",
           b"\xf0\x90\x80", b"\xf4\x8f\xbf", b"\xf4\x90\x80\x80", b"\xf5\x80\x80\x80", b"\xff", b"\xfe", b"\xe2\x28\xa1", b"\xf0\x9f\x98", b"\xf0\x9f", b"\xf0"]
    out = [b"", b"a", b"\xc3", b"\xc3\xbc", b"\xf0\x9f\x98\x80", b"\xf0\x9f\x98", b"\x80\x80\x80", b"a" * 510, b"a" * 511]
    for c in chars:                       # every alignment of the cut inside a character, valid text
        e = c.encode("utf-8")
        for pad in range(0, 5):
            out.append(b"x" * (504 + pad) + e * 4)
            out.append(b"y" * pad + e * 200)
    for b in bad:                         # ill-formed text at the cut and in the middle
        for pad in (0, 1, 2, 3):
            out.append(b"z" * (507 + pad - len(b)) + b + b"tail")
            out.append(b"q" * pad + b + b"mid" + b)
    while len(out) < n:
        k = rng.random()
        if k < 0.5:
            t = "".join(rng.choice(chars + ["a", "b", " "]) for _ in range(rng.randint(1, 400))).encode("utf-8")
        elif k < 0.8:
            t = b"".join(rng.choice([c.encode("utf-8") for c in chars] + bad + [b"a", b" :"]) for _ in range(rng.randint(1, 300)))
        else:
            t = bytes(rng.randrange(256) for _ in range(rng.randint(1, 600)))
        out.append(t)
    return out


def run_line_part(ck):
    """stake 510 / trim_partial_rune / json_delivered of the model against Message.Bytes / send() / encoding/json"""
    wd = vlib.workdir()
    inp, outp = os.path.join(wd, "lines.in"), os.path.join(wd, "lines.out")
    samples = line_samples(ck.rng, 400 if ck.tier == "quick" else 6000)
    with open(inp, "w") as f:
        f.write("".join((s.hex() or "-") + "\n" for s in samples))
    if os.path.exists(outp):
        os.remove(outp)
    ov = {os.path.join(vlib.REPO, "internal/ircserver/zz_verif_line_test.go"): os.path.join(vlib.HGO, "ircserver/zz_verif_line_test.go")}
    rc, out = vlib.go_test("./internal/ircserver/", ov, "^TestVerifLines$", {"VERIF_IN": inp, "VERIF_OUT": outp}, timeout=900)
    if rc != 0 or not os.path.exists(outp):
        ck.add_obligation(False, "line driver (Message.Bytes + send + encoding/json) ran")
        ck.violation("tie-broken:go-driver-lines", {"what": "the line driver did not build/run against the current tree", "output": out[-3000:],
                                                    "obligation": "correspondence of stake 510 / trim_partial_rune / json_delivered"}, concrete=False)
        return
    ck.add_obligation(True, "line driver (Message.Bytes + send + encoding/json) ran")
    got = [l for l in open(outp).read().split("\n") if l]
    mout = vlib.run_model("".join("ircline %s\n" % (s.hex() or "-") for s in samples)) if getattr(ck, "model_ok", False) else []
    unh = lambda h: b"" if h == "-" else bytes.fromhex(h)
    mism, toolong, pyd = [], [], 0
    for k, s in enumerate(samples):
        g = got[k].split(" ") if k < len(got) else []
        if len(g) != 5:
            mism.append((k, "driver output malformed"))
            continue
        stored, d_full, d_cut, d_stored = (unh(x) for x in g[1:])
        for name, data, dd in (("uncut", s, d_full), ("cut", s[:510], d_cut), ("stored", stored, d_stored)):
            if irclib.go_json_delivered(data) != dd:
                pyd += 1
                mism.append((k, "python emulation of the JSON encoder differs from encoding/json on the %s line" % name))
        if mout and (k >= len(mout) or mout[k] != got[k]):
            mism.append((k, "model: %s / implementation: %s" % ((mout[k] if k < len(mout) else "")[:200], got[k][:200])))
        try:
            s.decode("utf-8")
            valid = True
        except UnicodeDecodeError:
            valid = False
        if valid and len(d_stored) > 510:
            toolong.append((k, len(stored), len(d_stored)))
    ck.cov["line_samples"] = len(samples)
    ck.cov["line_samples_cut_inside_a_character"] = sum(1 for s in samples if len(s) > 510 and irclib.go_json_delivered(s[:510]) != s[:510])
    ck.cov["evaluations"] = ck.cov.get("evaluations", 0) + len(samples)
    ck.cov["rule"] = ck.cov.get("rule", "") + (" | line part: byte strings (valid text with 1-4 byte characters at every alignment of the 510-byte cut, "
                                              "ill-formed sequences, random bytes) rendered by Message.Bytes, stored by send(), JSON-encoded and decoded; "
                                              "compared with the model (stake 510, trim_partial_rune, json_delivered) and the python emulation used by the monitors")
    for k, ln, dl in toolong[:1]:
        ck.violation("c15:len-delivered", {"what": "a line of well-formed text of %d bytes is stored as %d bytes and delivered (after JSON encoding) as %d bytes" % (len(samples[k]), ln, dl),
                                           "line_hex": samples[k].hex(), "expected": "at most 510 bytes reach the client",
                                           "how_to_replay": "bin/check C15 (the line part is deterministic)"}, concrete=True)
    if mism and not toolong:
        k, why = mism[0]
        ck.violation("correspondence:lines", {"what": "model and implementation disagree on what is stored / delivered for a rendered line: " + why,
                                              "line_hex": samples[k].hex(), "mismatches": len(mism),
                                              "obligation": "correspondence of stake 510 / trim_partial_rune / json_delivered (Irc/Str.v) with Message.Bytes / send / encoding/json"},
                     concrete=False)


def run(ck, replay):
    irc_only = False
    if replay:
        try:
            rp = json.load(open(replay))
            irc_only = not any(l.startswith("post ") for l in rp.get("cases", []))
        except Exception:
            pass
    if not replay or irc_only:
        irc_common.run_irc_check(ck, "C15", "c15", replay)
    else:
        ck.proof_obligations()
    if not irc_only:
        run_api_part(ck, replay)
    if not replay:
        run_line_part(ck)
