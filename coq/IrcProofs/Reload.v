(* IrcProofs/Reload.v — save + load is invisible in every reachable state (property C03).

   [reload] (Irc/Apply.v) models IRCServer.Marshal followed by Unmarshal into a fresh instance.  For every state
   [sv] that a well-formed history with positive timestamps reaches:

   (1) reachable_sessions      every session has Created > 0, a non-zero LastNonPing and is not marked deleted, hence
                               is reproduced field by field (reachable_reload_session);
   (2) reload_fixpoint         reload sv = normal sv, where [normal] applies exactly ONE normalisation:
                               sv_serverSessions becomes the sorted duplicate-free list of the listed ids that still
                               name a services link; every other component — sessions, nick index, channels, holds,
                               network name, lastProcessed and the WHOLE configuration including WhitelistedOrigins
                               (part of the snapshot since the repair of snapshot.proto) — is unchanged.
                               The normalisation is the identity iff the list is sorted and has no stale id
                               (normal_serverSessions_id_iff); neither is an invariant of the implementation:
                               links may register out of id order (ex_order) and the id of a link that quit stays
                               listed (ex_stale — D13 of DESIGN.md, same in ircserver.go: nothing ever removes an
                               element of i.serverSessions; Unmarshal rebuilds the slice from the sessions);
   (3) reload_invisible        for EVERY continuation (well-formed or not, panicking or not) the run from [reload sv]
                               and the run from [sv] produce, entry by entry, the same kind of outcome, the same
                               output messages (reply number, text, recipients) up to recipients that are stale
                               ids of [sv], and successor states that agree in every field except the
                               representation of sv_serverSessions;
       reload_invisible_exact  if sv_serverSessions has no stale id the outputs are literally equal and the states
                               differ only in the order of sv_serverSessions;
       reload_commutes         running a continuation and then saving + loading gives the same state whether or not
                               the state was saved + loaded before the continuation. *)
From stdpp Require Import gmap.
From Coq Require Import Strings.String Strings.Ascii ZArith NArith Lia Sorting.Sorted.
From RV Require Import Base.Text Irc.Str Irc.Parse Irc.State Irc.Monad Irc.Cmds Irc.SCmds Irc.Apply.
From RV Require Import IrcProofs.StrLemmas IrcProofs.Inv IrcProofs.Top IrcProofs.Outputs IrcProofs.Misc IrcProofs.Examples.
From RV Require Import IrcProofs.ReloadInv IrcProofs.ReloadSim.
Local Open Scope string_scope.

(* ---- reachable states -------------------------------------------------------------------------------------- *)
(* a state reached from the empty server by a history that is well-formed (Top.wf_history: what the HTTP API can
   put into the log) and whose stored timestamps are positive (ReloadInv.ts_pos: UnixNano > 0, or UnixNano = 0 and
   a positive message id) *)
Definition reachable (e : env) (net : string) (sv : server) : Prop :=
  exists es, wf_history e (init_server net) es /\ Forall ts_pos es /\ run e (init_server net) es = Some sv.

Lemma reachable_EInv e net sv : reachable e net sv -> EInv sv.
Proof.
  intros (es & Hwf & _ & Hrun). destruct (run_ok e _ es (EInv_init net) Hwf) as (sv' & Hrun' & E).
  rewrite Hrun in Hrun'. injection Hrun' as <-. exact E.
Qed.

Lemma reachable_TInv e net sv : reachable e net sv -> TInv sv.
Proof. intros (es & _ & Hts & Hrun). eapply run_TInv; [apply TInv_init|exact Hts|exact Hrun]. Qed.

(* what raft and the wall clock give: ids (log indices) increase from 1, UnixNano is not negative *)
Lemma history_ids_ts_pos es : forall hi,
  history_ids_ok hi es -> Forall (fun en => (0 <= entry_un en)%Z) es -> Forall ts_pos es.
Proof.
  induction es as [|en es IH]; intros hi Hok Hun; [constructor|].
  destruct Hok as [[Hlt _] Hrest]. inversion Hun as [|? ? H0 Hr]; subst. constructor.
  - apply ts_pos_of_ids; [lia|exact H0].
  - eapply IH; eauto.
Qed.

(* ---- (1) the side conditions of Misc.reload_session_id are invariants ------------------------------------------ *)
Theorem reachable_sessions e net sv :
  reachable e net sv ->
  forall (k : N * N) s, sv_sessions sv !! k = Some s ->
    (0 < s_created s)%Z /\ s_lastNonPing s <> None /\ s_deleted s = false.
Proof.
  intros Hr k s Hs. destruct (t_sess sv (reachable_TInv _ _ _ Hr) k s Hs) as [C _ L].
  split; [exact C|]. split; [exact L|]. eapply (e_live sv (reachable_EInv _ _ _ Hr)); eauto.
Qed.

Corollary reachable_reload_session e net sv :
  reachable e net sv -> forall (k : N * N) s, sv_sessions sv !! k = Some s -> reload_session s = s.
Proof. intros Hr k s Hs. destruct (reachable_sessions e net sv Hr k s Hs) as (C & L & Dl). now apply reload_session_id. Qed.

(* the stamps of services pseudo-clients are those of their link: all of them are positive times *)
Corollary reachable_last_activity e net sv :
  reachable e net sv -> forall (k : N * N) s, sv_sessions sv !! k = Some s ->
    exists z, s_lastActivity s = Some z /\ (0 < z)%Z.
Proof. intros Hr k s Hs. apply (si_la s (t_sess sv (reachable_TInv _ _ _ Hr) k s Hs)). Qed.

(* a session flagged as services link is a top-level session and its id is listed *)
Corollary reachable_links_listed e net sv :
  reachable e net sv -> forall (k : N * N) s, sv_sessions sv !! k = Some s -> s_server s = true ->
    snd k = 0%N /\ In (fst k) (sv_serverSessions sv).
Proof. intros Hr. apply (t_srv sv (reachable_TInv _ _ _ Hr)). Qed.

(* ---- (2) the fixpoint -------------------------------------------------------------------------------------------- *)
Definition is_server_id (sv : server) (id : N) : bool :=
  match sv_sessions sv !! (id, 0%N) with Some s => s_server s | None => false end.

(* the normalisation *)
Definition normal (sv : server) : server :=
  Server (sv_sessions sv)
         (set_of_ids (List.filter (is_server_id sv) (sv_serverSessions sv)))
         (sv_nicks sv) (sv_channels sv) (sv_svsholds sv) (sv_netname sv) (sv_lastProcessed sv) (sv_config sv).

Lemma normal_patch sv :
  normal sv = patch (set_of_ids (List.filter (is_server_id sv) (sv_serverSessions sv))) sv.
Proof. reflexivity. Qed.

(* everything but the list of services links is untouched *)
Lemma normal_fields sv :
  sv_sessions (normal sv) = sv_sessions sv /\ sv_nicks (normal sv) = sv_nicks sv /\ sv_channels (normal sv) = sv_channels sv /\
  sv_svsholds (normal sv) = sv_svsholds sv /\ sv_netname (normal sv) = sv_netname sv /\
  sv_lastProcessed (normal sv) = sv_lastProcessed sv /\ sv_config (normal sv) = sv_config sv.
Proof. repeat split. Qed.

Lemma server_ext (a b : server) :
  sv_sessions a = sv_sessions b -> sv_serverSessions a = sv_serverSessions b -> sv_nicks a = sv_nicks b ->
  sv_channels a = sv_channels b -> sv_svsholds a = sv_svsholds b -> sv_netname a = sv_netname b ->
  sv_lastProcessed a = sv_lastProcessed b -> sv_config a = sv_config b -> a = b.
Proof. destruct a, b; cbn; intros; subst; reflexivity. Qed.

Theorem reload_normal sv : EInv sv -> TInv sv -> reload sv = normal sv.
Proof.
  intros E T.
  assert (Hsess : reload_session <$> sv_sessions sv = sv_sessions sv).
  { apply map_eq. intros k. rewrite lookup_fmap. destruct (sv_sessions sv !! k) as [s|] eqn:Hs; [|reflexivity].
    cbn. f_equal. destruct (t_sess sv T k s Hs) as [C _ L]. apply reload_session_id; [exact C|exact L|].
    eapply (e_live sv E); eauto. }
  apply server_ext.
  - exact Hsess.
  - unfold reload, normal. cbn [sv_serverSessions]. rewrite Hsess.
    apply sorted_lt_unique; try apply set_of_ids_sorted.
    intros x. rewrite !set_of_ids_In, in_map_iff, filter_In. split.
    + intros ([k s] & Hx & Hin). apply filter_In in Hin. destruct Hin as [Hin Hsrv]. cbn [fst snd] in *.
      apply elem_of_list_In, elem_of_map_to_list in Hin. destruct (t_srv sv T k s Hin Hsrv) as [H0 HinL].
      destruct k as [a b]. cbn [fst snd] in *. subst a b. split; [exact HinL|].
      unfold is_server_id. rewrite Hin. exact Hsrv.
    + intros [HinL His]. unfold is_server_id in His.
      destruct (sv_sessions sv !! (x, 0%N)) as [s|] eqn:Hs; [|discriminate].
      exists ((x, 0%N), s). split; [reflexivity|]. apply filter_In. split; [|exact His].
      apply elem_of_list_In, elem_of_map_to_list. exact Hs.
  - change (sv_nicks (normal sv)) with (sv_nicks sv). apply map_eq. intros n. now apply reload_nicks.
  - reflexivity.
  - reflexivity.
  - reflexivity.
  - reflexivity.
  - change (sv_config (normal sv)) with (sv_config sv). apply reload_config.
Qed.

Theorem reload_fixpoint e net sv : reachable e net sv -> reload sv = normal sv.
Proof. intros Hr. apply reload_normal; [eapply reachable_EInv|eapply reachable_TInv]; eauto. Qed.

(* saving + loading twice is the same as once *)
Corollary reload_idempotent e net sv : reachable e net sv -> reload (reload sv) = reload sv.
Proof.
  intros Hr. pose proof (reachable_EInv _ _ _ Hr) as E. pose proof (reachable_TInv _ _ _ Hr) as T.
  rewrite (reload_normal sv E T).
  assert (T' : TInv (normal sv)).
  { destruct T as [Hs Hv]. split; cbn [normal sv_sessions sv_serverSessions]; [exact Hs|].
    intros k s Hk Hsrv. destruct (Hv k s Hk Hsrv) as [H0 Hin]. split; [exact H0|].
    apply set_of_ids_In, filter_In. split; [exact Hin|]. unfold is_server_id.
    destruct k as [a b]. cbn [fst snd] in *. subst b. now rewrite Hk. }
  assert (E' : EInv (normal sv)) by (rewrite <- (reload_normal sv E T); now apply reload_EInv).
  rewrite (reload_normal _ E' T'). apply server_ext; try reflexivity.
  cbn [normal sv_serverSessions sv_sessions].
  apply sorted_lt_unique; try apply set_of_ids_sorted.
  intros x. rewrite !set_of_ids_In, !filter_In, set_of_ids_In, filter_In. unfold is_server_id. cbn [normal sv_sessions]. tauto.
Qed.

(* when is normalisation (a) the identity *)
Theorem normal_serverSessions_id_iff sv :
  sv_serverSessions (normal sv) = sv_serverSessions sv <->
  StronglySorted N.lt (sv_serverSessions sv) /\ forall x, In x (sv_serverSessions sv) -> is_server_id sv x = true.
Proof.
  cbn [normal sv_serverSessions]. split.
  - intros H. split.
    + rewrite <- H. apply set_of_ids_sorted.
    + intros x Hx. rewrite <- H in Hx. apply set_of_ids_In, filter_In in Hx. apply Hx.
  - intros [Hs Hall]. apply sorted_lt_unique; [apply set_of_ids_sorted|exact Hs|].
    intros x. rewrite set_of_ids_In, filter_In. split; [tauto|]. intros Hx. split; [exact Hx|now apply Hall].
Qed.

(* the full fixpoint: a reachable state whose list of services links is sorted and has no stale id is reproduced
   exactly *)
Theorem reload_identity e net sv :
  reachable e net sv -> StronglySorted N.lt (sv_serverSessions sv) ->
  (forall x, In x (sv_serverSessions sv) -> is_server_id sv x = true) -> reload sv = sv.
Proof.
  intros Hr Hs Hall. rewrite (reload_fixpoint e net sv Hr).
  apply server_ext; try reflexivity. apply normal_serverSessions_id_iff. auto.
Qed.

(* in every reachable state the configuration, WhitelistedOrigins included, and all components other than the list
   of services links survive save + load unchanged *)
Theorem reload_rest_identity e net sv :
  reachable e net sv ->
  sv_sessions (reload sv) = sv_sessions sv /\ sv_nicks (reload sv) = sv_nicks sv /\ sv_channels (reload sv) = sv_channels sv /\
  sv_svsholds (reload sv) = sv_svsholds sv /\ sv_netname (reload sv) = sv_netname sv /\
  sv_lastProcessed (reload sv) = sv_lastProcessed sv /\ sv_config (reload sv) = sv_config sv.
Proof. intros Hr. rewrite (reload_fixpoint e net sv Hr). apply normal_fields. Qed.

(* the ids that save + load drops from the list: listed, but no longer the id of a services link *)
Definition stale (sv : server) (x : N) : bool :=
  existsb (N.eqb x) (sv_serverSessions sv) && negb (is_server_id sv x).

Lemma stale_spec sv x : stale sv x = true <-> In x (sv_serverSessions sv) /\ is_server_id sv x = false.
Proof.
  unfold stale. rewrite andb_true_iff, negb_true_iff, existsb_exists. split.
  - intros [(y & Hy & Heq) Hn]. apply N.eqb_eq in Heq. subst y. auto.
  - intros [Hin Hn]. split; [|exact Hn]. exists x. split; [exact Hin|apply N.eqb_refl].
Qed.

Theorem reload_drops_exactly_stale e net sv :
  reachable e net sv ->
  forall x, In x (sv_serverSessions (reload sv)) <-> In x (sv_serverSessions sv) /\ stale sv x = false.
Proof.
  intros Hr x. rewrite (reload_fixpoint e net sv Hr). cbn [normal sv_serverSessions].
  rewrite set_of_ids_In, filter_In. split.
  - intros [Hin His]. split; [exact Hin|]. destruct (stale sv x) eqn:Hst; [|reflexivity].
    apply stale_spec in Hst. destruct Hst as [_ Hn]. congruence.
  - intros [Hin Hst]. split; [exact Hin|]. destruct (is_server_id sv x) eqn:His; [reflexivity|].
    exfalso. assert (stale sv x = true) by (apply stale_spec; auto). congruence.
Qed.

(* ---- (3) observational equivalence ------------------------------------------------------------------------------- *)
Lemma normal_R sv : R (stale sv) (normal sv) sv.
Proof.
  exists (sv_serverSessions sv). split.
  - destruct sv; reflexivity.
  - intros x Hx. cbn [normal sv_serverSessions]. rewrite set_of_ids_In, filter_In. split; [tauto|].
    intros Hin. split; [exact Hin|]. destruct (is_server_id sv x) eqn:His; [reflexivity|].
    exfalso. assert (stale sv x = true) by (apply stale_spec; auto). congruence.
Qed.

Definition no_stale (sv : server) : Prop := forall x, In x (sv_serverSessions sv) -> is_server_id sv x = true.

Lemma normal_R_exact sv : no_stale sv -> R (fun _ => false) (normal sv) sv.
Proof.
  intros Hns. exists (sv_serverSessions sv). split.
  - destruct sv; reflexivity.
  - intros x _. cbn [normal sv_serverSessions]. rewrite set_of_ids_In, filter_In. split; [tauto|].
    intros Hin. split; [exact Hin|now apply Hns].
Qed.

(* save + load does not look at the list *)
Lemma reload_R D sv1 sv2 : R D sv1 sv2 -> reload sv2 = reload sv1.
Proof. intros (l & -> & _). reflexivity. Qed.

(* every continuation: the same outcomes entry by entry, outputs equal up to stale recipients *)
Theorem reload_invisible e net sv :
  reachable e net sv ->
  forall e' es, Forall2 (Rout (stale sv)) (run_trace e' (reload sv) es) (run_trace e' sv es).
Proof. intros Hr e' es. apply run_trace_sim. rewrite (reload_fixpoint e net sv Hr). apply normal_R. Qed.

(* one entry, spelled out *)
Theorem reload_invisible_entry e net sv :
  reachable e net sv ->
  forall e' en,
    match apply_entry e' (reload sv) en, apply_entry e' sv en with
    | OOk s1 out1, OOk s2 out2 =>
        R (stale sv) s1 s2 /\ List.length out1 = List.length out2 /\
        forall i o1 o2, nth_error out1 i = Some o1 -> nth_error out2 i = Some o2 ->
          o_reply o1 = o_reply o2 /\ o_data o1 = o_data o2 /\
          forall x, stale sv x = false -> (In x (o_rcpt o1) <-> In x (o_rcpt o2))
    | OSessionLimit s1, OSessionLimit s2 => R (stale sv) s1 s2
    | OSkip s1, OSkip s2 => R (stale sv) s1 s2
    | OPanic x, OPanic y => x = y
    | OGap x, OGap y => x = y
    | _, _ => False
    end.
Proof.
  intros Hr e' en. pose proof (apply_entry_sim (stale sv) e' (reload sv) sv en) as H.
  rewrite (reload_fixpoint e net sv Hr) in *. specialize (H (normal_R sv)).
  destruct (apply_entry e' (normal sv) en) as [s1 out1|s1|s1|x|x], (apply_entry e' sv en) as [s2 out2|s2|s2|y|y];
    try contradiction; try exact H.
  destruct H as [HR Hout]. split; [exact HR|]. unfold same_out in Hout. split.
  - apply (f_equal (@List.length _)) in Hout. now rewrite !map_length in Hout.
  - intros i o1 o2 H1 H2.
    assert (Hp : proj_out (stale sv) o1 = proj_out (stale sv) o2).
    { apply (f_equal (fun l => nth_error l i)) in Hout. rewrite !nth_error_map, H1, H2 in Hout. cbn [option_map] in Hout.
      congruence. }
    unfold proj_out in Hp. injection Hp as Hrep Hdat Hrc. split; [exact Hrep|]. split; [exact Hdat|].
    intros x Hx. assert (Hn : nD (stale sv) x = true) by (unfold nD; now rewrite Hx).
    split; intros Hin.
    + assert (Hf : In x (List.filter (nD (stale sv)) (o_rcpt o1))) by (apply filter_In; auto).
      rewrite Hrc in Hf. apply filter_In in Hf. apply Hf.
    + assert (Hf : In x (List.filter (nD (stale sv)) (o_rcpt o2))) by (apply filter_In; auto).
      rewrite <- Hrc in Hf. apply filter_In in Hf. apply Hf.
Qed.

(* literally the same outputs when the list of services links has no stale id; the states differ at most in the
   order/multiplicity of sv_serverSessions *)
Definition same_outcome (o1 o2 : outcome) : Prop :=
  match o1, o2 with
  | OOk s1 out1, OOk s2 out2 => R (fun _ => false) s1 s2 /\ out1 = out2
  | OSessionLimit s1, OSessionLimit s2 => R (fun _ => false) s1 s2
  | OSkip s1, OSkip s2 => R (fun _ => false) s1 s2
  | OPanic x, OPanic y => x = y
  | OGap x, OGap y => x = y
  | _, _ => False
  end.

Lemma Rout_same_outcome o1 o2 : Rout (fun _ => false) o1 o2 -> same_outcome o1 o2.
Proof.
  destruct o1, o2; cbn; try tauto. intros [HR Hout]. split; [exact HR|now apply same_out_none].
Qed.

Theorem reload_invisible_exact e net sv :
  reachable e net sv -> no_stale sv ->
  forall e' es, Forall2 same_outcome (run_trace e' (reload sv) es) (run_trace e' sv es).
Proof.
  intros Hr Hns e' es. eapply Forall2_impl; [|intros o1 o2; apply Rout_same_outcome].
  apply run_trace_sim. rewrite (reload_fixpoint e net sv Hr). now apply normal_R_exact.
Qed.

(* what "the states differ at most in ..." means *)
Lemma R_exact_fields sv1 sv2 :
  R (fun _ => false) sv1 sv2 ->
  sv_sessions sv2 = sv_sessions sv1 /\ sv_nicks sv2 = sv_nicks sv1 /\ sv_channels sv2 = sv_channels sv1 /\
  sv_svsholds sv2 = sv_svsholds sv1 /\ sv_netname sv2 = sv_netname sv1 /\ sv_lastProcessed sv2 = sv_lastProcessed sv1 /\
  sv_config sv2 = sv_config sv1 /\
  forall x, In x (sv_serverSessions sv1) <-> In x (sv_serverSessions sv2).
Proof.
  intros H. destruct (R_fields _ _ _ H) as (H1 & H2 & H3 & H4 & H5 & H6 & H7 & H8).
  repeat (split; [assumption|]). intros x. now apply H8.
Qed.

(* save + load commutes with every continuation *)
Theorem reload_commutes e net sv :
  reachable e net sv ->
  forall e' es,
    match run e' (reload sv) es, run e' sv es with
    | Some s1, Some s2 => reload s1 = reload s2
    | None, None => True
    | _, _ => False
    end.
Proof.
  intros Hr e' es. pose proof (run_sim (stale sv) e' es (reload sv) sv) as H.
  rewrite (reload_fixpoint e net sv Hr) in *. specialize (H (normal_R sv)).
  destruct (run e' (normal sv) es), (run e' sv es); try contradiction; [|exact Logic.I].
  symmetry. eapply reload_R. exact H.
Qed.

(* ================================================================================================================ *)
(* Non-vacuity and the witnesses of what is NOT an invariant.                                                      *)
(* ================================================================================================================ *)
Global Instance prefix_eq_dec : EqDecision prefix. Proof. solve_decision. Defined.
Global Instance session_eq_dec : EqDecision session. Proof. solve_decision. Defined.
Global Instance chan_eq_dec : EqDecision chan. Proof. solve_decision. Defined.
Global Instance svshold_eq_dec : EqDecision svshold. Proof. solve_decision. Defined.
Global Instance config_eq_dec : EqDecision config. Proof. solve_decision. Defined.
Global Instance server_eq_dec : EqDecision server. Proof. solve_decision. Defined.
Global Instance omsg_eq_dec : EqDecision omsg. Proof. solve_decision. Defined.

Definition final (e : env) (net : string) (es : list entry) : server :=
  match run e (init_server net) es with Some sv => sv | None => init_server net end.

Definition outputs_of (o : outcome) : list omsg := match o with OOk _ out => out | _ => [] end.

(* ---- Examples.ex_history ------------------------------------------------------------------------------------------ *)
Definition ex_final : server := final ex_env "robustirc.net" ex_history.

Example ex_reachable : reachable ex_env "robustirc.net" ex_final.
Proof.
  exists ex_history. split; [exact ex_history_wf|]. split.
  - unfold ex_history. repeat constructor; cbn; lia.
  - vm_compute. reflexivity.
Qed.

(* the fixpoint theorem instantiated, and checked independently by computation *)
Example ex_reload_fixpoint : reload ex_final = normal ex_final.
Proof. exact (reload_fixpoint _ _ _ ex_reachable). Qed.
Example ex_reload_fixpoint_computed : bool_decide (reload ex_final = normal ex_final) = true.
Proof. vm_compute. reflexivity. Qed.
Example ex_reload_identity_computed : bool_decide (reload ex_final = ex_final) = true.
Proof. vm_compute. reflexivity. Qed.
Example ex_final_nontrivial :
  size (sv_sessions ex_final) = 1 /\ size (sv_channels ex_final) = 1 /\ size (sv_nicks ex_final) = 1.
Proof. vm_compute. auto. Qed.

(* a continuation: a third client registers and joins, the remaining client talks and asks WHOIS (which prints
   Created and LastNonPing) *)
Definition ex_continuation : list entry :=
  [ ECreate 11 11000 "aaaaaaaaaaaaaaaa";
    EMessage 12 12000 11 1 "10.0.0.3" "NICK baz";
    EMessage 13 13000 11 2 "" "USER baz 0 * :Baz";
    EMessage 14 14000 11 3 "" "JOIN #CHAN";
    EMessage 15 15000 4 25 "" "PRIVMSG #chan :again";
    EMessage 16 16000 4 26 "" "WHOIS baz";
    EMessage 17 17000 11 4 "" "WHOIS bar";
    EMessage 18 18000 4 27 "" "TOPIC #chan :new topic";
    EDelete 19 19000 4 "bye" ].

Example ex_continuation_same_outputs :
  map outputs_of (run_trace ex_env (reload ex_final) ex_continuation) =
  map outputs_of (run_trace ex_env ex_final ex_continuation) /\
  List.length (List.concat (map outputs_of (run_trace ex_env ex_final ex_continuation))) = 29.
Proof. vm_compute. auto. Qed.

Example ex_no_stale : no_stale ex_final.
Proof. intros x Hx. vm_compute in Hx. contradiction. Qed.

Example ex_continuation_theorem :
  Forall2 same_outcome (run_trace ex_env (reload ex_final) ex_continuation) (run_trace ex_env ex_final ex_continuation).
Proof. exact (reload_invisible_exact _ _ _ ex_reachable ex_no_stale _ _). Qed.

(* ---- a checker for well-formedness of histories with services links ---------------------------------------------- *)
Definition conforming_b (sv : server) (k : N * N) (name : string) (m : imsg) : bool :=
  (if existsb (String.eqb name) ["server_JOIN"; "server_PART"; "server_KICK"; "server_MODE"; "server_TOPIC"; "server_PRIVMSG";
                                 "server_NOTICE"; "server_INVITE"; "server_SVSJOIN"; "server_SVSPART"; "server_KILL"]
   then match m_prefix m with Some _ => true | None => false end else true) &&
  (if existsb (String.eqb name) ["server_JOIN"; "server_PART"; "server_MODE"] then Nat.leb 1 (nparams m) else true) &&
  (if String.eqb name "server_NICK" then
     Nat.eqb (nparams m) 1 ||
     (Nat.leb 4 (nparams m) &&
      match nth_error (m_params m) 0 with
      | Some p0 => valid_nick p0 && bool_decide (sv_sessions sv !! (fst k, fnv64 p0) = None) && negb (fnv64 p0 =? 0)%N
      | None => true
      end)
   else true) &&
  (if String.eqb name "server_SVSNICK" then
     match nth_error (m_params m) 1 with
     | Some p1 => bool_decide (sv_nicks sv !! nick_to_lower p1 = None) | None => true end
   else true) &&
  (if String.eqb name "server_TOPIC" then
     match nth_error (m_params m) 2 with
     | Some p2 => match Z_of_dec p2 with Some _ => true | None => false end | None => true end
   else true) &&
  (if String.eqb name "server_SVSHOLD" then
     match nth_error (m_params m) 1 with
     | Some p1 => match N_of_dec p1 with Some _ => true | None => false end | None => true end
   else true).

Lemma existsb_eqb_In x l : In x l -> existsb (String.eqb x) l = true.
Proof. intros H. apply existsb_exists. exists x. split; [exact H|apply String.eqb_refl]. Qed.

Lemma conforming_b_sound sv k name m : conforming_b sv k name m = true -> conforming sv k name m.
Proof.
  unfold conforming_b. rewrite !andb_true_iff. intros (((((H1 & H2) & H3) & H4) & H5) & H6). split.
  - intros Hin. rewrite (existsb_eqb_In _ _ Hin) in H1. destruct (m_prefix m); [now eexists|discriminate].
  - intros Hin. rewrite (existsb_eqb_In _ _ Hin) in H2. now apply Nat.leb_le in H2.
  - intros ->. rewrite String.eqb_refl in H3. apply orb_true_iff in H3. destruct H3 as [H3|H3].
    + left. now apply Nat.eqb_eq in H3.
    + right. apply andb_true_iff in H3. destruct H3 as [H4' Hp]. split; [now apply Nat.leb_le in H4'|].
      intros p0 Hp0. rewrite Hp0 in Hp. rewrite !andb_true_iff in Hp. destruct Hp as [[Hv Hf] Hh].
      split; [exact Hv|]. split; [now apply bool_decide_eq_true in Hf|].
      apply negb_true_iff, N.eqb_neq in Hh. exact Hh.
  - intros -> p1 Hp1. rewrite String.eqb_refl, Hp1 in H4. now apply bool_decide_eq_true in H4.
  - intros -> p2 Hp2. rewrite String.eqb_refl, Hp2 in H5. destruct (Z_of_dec p2); [discriminate|discriminate H5].
  - intros -> p1 Hp1. rewrite String.eqb_refl, Hp1 in H6. destruct (N_of_dec p1); [discriminate|discriminate H6].
Qed.

Definition line_ok_b (sv : server) (k : N * N) (ircmsg : option imsg) : bool :=
  match sv_sessions sv !! k, ircmsg with
  | Some s, Some m => if s_server s then conforming_b sv k ("server_" ++ to_upper (m_cmd m)) m else true
  | _, _ => true
  end.

Lemma line_ok_b_sound sv k ircmsg : line_ok_b sv k ircmsg = true -> line_ok sv k ircmsg.
Proof.
  unfold line_ok_b. intros H s m Hs Hsrv ->. rewrite Hs, Hsrv in H. now apply conforming_b_sound.
Qed.

Definition wf_entry_b (sv : server) (en : entry) : bool :=
  match en with
  | ECreate id _ auth => Nat.leb 8 (slen auth) && bool_decide (sv_sessions sv !! (id, 0%N) = None)
  | EMessage _ _ session _ _ data => line_ok_b sv (session, 0%N) (parse_message data)
  | _ => true
  end.

Fixpoint wf_history_c (e : env) (sv : server) (es : list entry) : bool :=
  match es with
  | [] => true
  | en :: r => wf_entry_b sv en &&
               match entry_result (apply_entry e sv en) with Some sv' => wf_history_c e sv' r | None => true end
  end.

Lemma wf_history_c_sound e sv es : wf_history_c e sv es = true -> wf_history e sv es.
Proof.
  revert sv. induction es as [|en es IH]; intros sv H; cbn [wf_history wf_history_c] in *; [exact Logic.I|].
  apply andb_true_iff in H. destruct H as [He Hr]. split.
  - destruct en; cbn [wf_entry wf_entry_b] in *; try exact Logic.I.
    + apply andb_true_iff in He. destruct He as [H1 H2]. apply Nat.leb_le in H1. apply bool_decide_eq_true in H2. auto.
    + now apply line_ok_b_sound.
  - intros sv' Hs. rewrite Hs in Hr. now apply IH.
Qed.

Fixpoint ts_pos_b (es : list entry) : bool :=
  match es with
  | [] => true
  | en :: r =>
      match en with
      | ECreate id un _ | EMessage id un _ _ _ _ | EDeath id un _ _ _ => (0 <? un)%Z || ((un =? 0)%Z && (0 <? id)%N)
      | _ => true
      end && ts_pos_b r
  end.
Lemma ts_pos_b_sound es : ts_pos_b es = true -> Forall ts_pos es.
Proof.
  induction es as [|en es IH]; cbn [ts_pos_b]; [constructor|]. rewrite andb_true_iff. intros [H Hr].
  constructor; [|now apply IH].
  destruct en; cbn [ts_pos]; try exact Logic.I; apply orb_true_iff in H;
    (destruct H as [H|H]; [left; now apply Z.ltb_lt in H|right; apply andb_true_iff in H; destruct H as [H1 H2];
                            apply Z.eqb_eq in H1; apply N.ltb_lt in H2; auto]).
Qed.

Lemma reachable_by_computation e net es sv :
  wf_history_c e (init_server net) es = true -> ts_pos_b es = true -> run e (init_server net) es = Some sv ->
  reachable e net sv.
Proof. intros H1 H2 H3. exists es. split; [now apply wf_history_c_sound|]. split; [now apply ts_pos_b_sound|exact H3]. Qed.

(* ---- a history with a services link, a pseudo-client and WhitelistedOrigins ------------------------------------------ *)
Definition link_config : config :=
  Config 0 600000000000 500000000 0 0 "" "" false [("root", "pw")] ["secret"] ∅ ∅ {[ "https://chat.example.net" ]}.

Definition link_history : list entry :=
  [ EConfig 1 1000 1 (Some link_config);
    ECreate 2 2000 "0123456789abcdef";
    EMessage 3 3000 2 1 "" "PASS :services=secret";
    EMessage 4 4000 2 2 "" "SERVER services.robustirc.net 1 :Services for IRC Networks";
    EMessage 5 5000 2 3 "" "NICK ChanServ 1 1 services localhost services.robustirc.net 0 :Channel Services";
    ECreate 6 6000 "fedcba9876543210";
    EMessage 7 7000 6 1 "10.0.0.6" "NICK alice";
    EMessage 8 8000 6 2 "" "USER alice 0 * :Alice";
    EMessage 9 9000 6 3 "" "JOIN #c" ].

Definition link_final : server := final ex_env "robustirc.net" link_history.

Example link_reachable : reachable ex_env "robustirc.net" link_final.
Proof. apply (reachable_by_computation _ _ link_history); vm_compute; reflexivity. Qed.

(* the state holds the link, its pseudo-client (stamped with the link's LastActivity) and a client; the list of links
   is already normal; save + load keeps WhitelistedOrigins and reproduces the state exactly *)
Example link_final_shape :
  size (sv_sessions link_final) = 3 /\ sv_serverSessions link_final = [2%N] /\
  (exists s, sv_sessions link_final !! (2%N, fnv64 "ChanServ") = Some s /\ s_created s = 5000%Z /\ s_nick s = "ChanServ") /\
  g_whitelistedOrigins (sv_config link_final) = {[ "https://chat.example.net" ]} /\
  g_whitelistedOrigins (sv_config (reload link_final)) = {[ "https://chat.example.net" ]} /\
  sv_serverSessions (reload link_final) = [2%N].
Proof.
  split; [vm_compute; reflexivity|]. split; [vm_compute; reflexivity|]. split.
  - eexists. split; [vm_compute; reflexivity|]. split; vm_compute; reflexivity.
  - split; [|split]; vm_compute; reflexivity.
Qed.
Example link_reload_fixpoint_computed : bool_decide (reload link_final = normal link_final) = true.
Proof. vm_compute. reflexivity. Qed.
Example link_reload_identity_computed : bool_decide (reload link_final = link_final) = true.
Proof. vm_compute. reflexivity. Qed.
Example link_no_stale : no_stale link_final.
Proof.
  intros x Hx. assert (Hl : sv_serverSessions link_final = [2%N]) by (vm_compute; reflexivity).
  rewrite Hl in Hx. destruct Hx as [<-|[]]. vm_compute. reflexivity.
Qed.

(* a continuation that exercises the link: a message to the pseudo-client, a services command, a channel message *)
Definition link_continuation : list entry :=
  [ EMessage 10 10000 6 4 "" "PRIVMSG ChanServ :register #c";
    EMessage 11 11000 2 4 "" ":ChanServ JOIN #c";
    EMessage 12 12000 2 5 "" ":ChanServ MODE #c +o ChanServ";
    EMessage 13 13000 6 5 "" "PRIVMSG #c :hello";
    EMessage 14 14000 6 6 "" "WHOIS ChanServ";
    EMessage 15 15000 6 7 "" "PART #c" ].

Example link_continuation_same_outputs :
  map outputs_of (run_trace ex_env (reload link_final) link_continuation) =
  map outputs_of (run_trace ex_env link_final link_continuation) /\
  List.length (List.concat (map outputs_of (run_trace ex_env link_final link_continuation))) = 10.
Proof. vm_compute. auto. Qed.

Example link_continuation_theorem :
  Forall2 same_outcome (run_trace ex_env (reload link_final) link_continuation) (run_trace ex_env link_final link_continuation).
Proof. exact (reload_invisible_exact _ _ _ link_reachable link_no_stale _ _). Qed.

(* ---- normalisation (a) is not the identity, I: the link quits, its id stays listed (D13) ----------------------------- *)
Definition stale_history : list entry := (link_history ++ [ EDelete 10 10000 2 "link down" ])%list.
Definition stale_final : server := final ex_env "robustirc.net" stale_history.

Example stale_reachable : reachable ex_env "robustirc.net" stale_final.
Proof. apply (reachable_by_computation _ _ stale_history); vm_compute; reflexivity. Qed.

Theorem serverSessions_stale_refuted :
  exists e net sv, reachable e net sv /\ sv_serverSessions (reload sv) <> sv_serverSessions sv /\ ~ no_stale sv.
Proof.
  exists ex_env, "robustirc.net", stale_final. split; [exact stale_reachable|]. split.
  - vm_compute. discriminate.
  - intros H. specialize (H 2%N). assert (Hin : In 2%N (sv_serverSessions stale_final)) by (vm_compute; auto).
    specialize (H Hin). clear Hin. vm_compute in H. discriminate H.
Qed.

Example stale_final_shape :
  sv_serverSessions stale_final = [2%N] /\ sv_serverSessions (reload stale_final) = [] /\
  size (sv_sessions stale_final) = 1 /\ stale stale_final 2 = true.
Proof. split; [|split; [|split]]; vm_compute; reflexivity. Qed.

(* and the difference shows in the recipient sets (and only there, and only as the stale id): alice's PART goes to
   {2, 6} on the instance that was never saved and to {6} on the loaded one *)
Definition stale_continuation : list entry := [ EMessage 11 11000 6 4 "" "PART #c" ].
Example stale_continuation_outputs :
  map (map o_rcpt) (map outputs_of (run_trace ex_env stale_final stale_continuation)) = [[[2%N; 6%N]]] /\
  map (map o_rcpt) (map outputs_of (run_trace ex_env (reload stale_final) stale_continuation)) = [[[6%N]]] /\
  map (map o_data) (map outputs_of (run_trace ex_env stale_final stale_continuation)) =
  map (map o_data) (map outputs_of (run_trace ex_env (reload stale_final) stale_continuation)).
Proof. split; [|split]; vm_compute; reflexivity. Qed.
Example stale_continuation_theorem :
  Forall2 (Rout (stale stale_final)) (run_trace ex_env (reload stale_final) stale_continuation)
          (run_trace ex_env stale_final stale_continuation).
Proof. exact (reload_invisible _ _ _ stale_reachable _ _). Qed.

(* ---- normalisation (a) is not the identity, II: links register out of id order ----------------------------------------- *)
Definition order_history : list entry :=
  [ EConfig 1 1000 1 (Some link_config);
    ECreate 2 2000 "0123456789abcdef";
    ECreate 3 3000 "fedcba9876543210";
    EMessage 4 4000 3 1 "" "PASS :services=secret";
    EMessage 5 5000 3 2 "" "SERVER services2.robustirc.net 1 :Second";
    EMessage 6 6000 2 1 "" "PASS :services=secret";
    EMessage 7 7000 2 2 "" "SERVER services1.robustirc.net 1 :First" ].
Definition order_final : server := final ex_env "robustirc.net" order_history.

Example order_reachable : reachable ex_env "robustirc.net" order_final.
Proof. apply (reachable_by_computation _ _ order_history); vm_compute; reflexivity. Qed.

Theorem serverSessions_order_refuted :
  exists e net sv, reachable e net sv /\ no_stale sv /\ sv_serverSessions (reload sv) <> sv_serverSessions sv.
Proof.
  exists ex_env, "robustirc.net", order_final. split; [exact order_reachable|]. split.
  - intros x Hx. assert (Hl : sv_serverSessions order_final = [3%N; 2%N]) by (vm_compute; reflexivity).
    rewrite Hl in Hx. destruct Hx as [<-|[<-|[]]]; vm_compute; reflexivity.
  - vm_compute. discriminate.
Qed.

(* ---- the hypotheses are needed ------------------------------------------------------------------------------------------- *)
(* a timestamp before 1970: Created is negative, Unmarshal replaces it by the session id *)
Example negative_timestamp_visible :
  let sv := final ex_env "robustirc.net" [ ECreate 1 (-5) "0123456789abcdef" ] in
  (exists s, sv_sessions sv !! (1%N, 0%N) = Some s /\ s_created s = (-5)%Z) /\
  (exists s, sv_sessions (reload sv) !! (1%N, 0%N) = Some s /\ s_created s = 1%Z).
Proof. split; eexists; (split; [vm_compute; reflexivity|reflexivity]). Qed.

(* If session ids could be re-used (raft log indices never are; wf_history alone does not forbid it), a stale id
   could name a live client, and save + load would be visible to that client: it stops receiving the
   messages meant for the services. *)
Definition reuse_history : list entry :=
  [ EConfig 1 1000 1 (Some link_config);
    ECreate 2 2000 "0123456789abcdef";
    EMessage 3 3000 2 1 "" "PASS :services=secret";
    EMessage 4 4000 2 2 "" "SERVER services.robustirc.net 1 :Services";
    EDelete 5 5000 2 "link down";
    ECreate 2 6000 "0123456789abcdef" ].
Definition reuse_final : server := final ex_env "robustirc.net" reuse_history.
Definition reuse_continuation : list entry :=
  [ ECreate 7 7000 "fedcba9876543210";
    EMessage 8 8000 7 1 "" "NICK alice";
    EMessage 9 9000 7 2 "" "USER alice 0 * :Alice" ].

Example reuse_reachable : reachable ex_env "robustirc.net" reuse_final.
Proof. apply (reachable_by_computation _ _ reuse_history); vm_compute; reflexivity. Qed.

Example reuse_visible :
  is_Some (sv_sessions reuse_final !! (2%N, 0%N)) /\
  existsb (fun o => existsb (N.eqb 2) (o_rcpt o)) (List.concat (map outputs_of (run_trace ex_env reuse_final reuse_continuation))) = true /\
  existsb (fun o => existsb (N.eqb 2) (o_rcpt o)) (List.concat (map outputs_of (run_trace ex_env (reload reuse_final) reuse_continuation))) = false /\
  ~ history_ids_ok 0 reuse_history.
Proof.
  split; [eexists; vm_compute; reflexivity|]. split; [vm_compute; reflexivity|]. split; [vm_compute; reflexivity|].
  cbn. unfold entry_ids_ok. cbn. intros H. decompose [and] H. lia.
Qed.
