(* C01 — replica determinism.  The model is a function of the history (nothing else is an input), and the
   two places where the Go code turns a map into output — recipient sets and sorted listings — are
   independent of the iteration order; loops that mutate state are bulk operations on the maps
   (Irc/Cmds.v remove_nick_everywhere, rename_in_channels).  That no handler emits inside a map loop
   without sorting is checked on the source by the range-site scan and on the implementation by running
   every history on three fresh instances in two processes. *)
From Coq Require Import List NArith Sorting.Permutation.
From RV Require Import Irc.Str Irc.State Irc.Cmds Irc.Apply.
From Coq Require Import Strings.String.
From RV Require Import IrcProofs.Top IrcProofs.Misc IrcProofs.Determinism.

Theorem C01_model_deterministic : forall e sv es r1 r2, run e sv es = r1 -> run e sv es = r2 -> r1 = r2.
Proof. exact model_deterministic. Qed.
Print Assumptions C01_model_deterministic.

Theorem C01_recipients_order_independent : forall l l', Permutation l l' -> set_of_ids l = set_of_ids l'.
Proof. exact recipients_order_independent. Qed.
Print Assumptions C01_recipients_order_independent.

(* listings built from a map (NAMES, WHO, WHOIS channel list, LIST, ban list, SERVER burst) are sorted: whatever
   order the keys are traversed in, the listing is the same *)
Theorem C01_listings_order_independent : forall l l', Permutation l l' -> sort_strings l = sort_strings l'.
Proof. exact sort_strings_order_independent. Qed.
Print Assumptions C01_listings_order_independent.

(* loops over a map that only mutate state apply an update that commutes with itself (delete this nick from every
   channel, rename it in every channel, …): the resulting state does not depend on the traversal order *)
Theorem C01_bulk_updates_order_independent : forall (A S : Type) (f : A -> S -> S),
  (forall a b s, f a (f b s) = f b (f a s)) ->
  forall l l', Permutation l l' -> forall s, fold_right f s l = fold_right f s l'.
Proof. exact @fold_commutative_order_independent. Qed.
Print Assumptions C01_bulk_updates_order_independent.
