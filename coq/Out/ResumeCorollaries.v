(* Out/ResumeCorollaries.v — the reader-facing consequences of [exactly_once]: what a client
   has received at ANY reachable point of ANY schedule is in strictly increasing id order,
   contains no message id twice, and consists only of messages of the common stream that are
   addressed to its session and newer than the resume point it started from. *)
From Coq Require Import NArith List Sorted Lia.
From stdpp Require Import gmap.
From RV Require Import Out.OutSeq Out.Resume Out.ResumeProofs.
Import ListNotations.
Local Open Scope N_scope.

Lemma SS_mlt_nodup l : StronglySorted mlt l -> List.NoDup (List.map mid l).
Proof.
  induction 1 as [|x r Hr IH Hx]; simpl; constructor; [|exact IH].
  intros Hin. apply List.in_map_iff in Hin as [y [Hy Hin]].
  rewrite List.Forall_forall in Hx. specialize (Hx y Hin). unfold mlt in Hx. rewrite Hy in Hx.
  unfold lt2 in Hx. lia.
Qed.

Section Cor.
Variables (STR : list (N * batch)) (sess : N).
Hypothesis Hwf : wf_stream STR.
Variables (ls0 : N * N) (st : rstate).
Hypothesis Hreach : reach STR sess ls0 st.

Theorem recv_in_order : StronglySorted mlt (r_recv st).
Proof.
  rewrite (exactly_once STR sess Hwf ls0 st Hreach). unfold between.
  apply SS_filter, SS_filter, flat_sorted, Hwf.
Qed.

Theorem recv_no_duplicates : List.NoDup (List.map mid (r_recv st)).
Proof. apply SS_mlt_nodup, recv_in_order. Qed.

Theorem recv_only_entitled m :
  List.In m (r_recv st) ->
  List.In m (flat STR) /\ interesting sess m = true /\ lt2 ls0 (mid m) /\ le2 (mid m) (r_last st).
Proof.
  rewrite (exactly_once STR sess Hwf ls0 st Hreach). unfold between.
  intros H. apply List.filter_In in H as [H Hi]. apply List.filter_In in H as [H Hb].
  apply inb_spec in Hb. tauto.
Qed.
End Cor.
