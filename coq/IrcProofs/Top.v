(* IrcProofs/Top.v — ProcessMessage, applyRobustMessage and whole histories: the invariant holds
   after every entry and no entry panics or leaves the modelled domain. *)
From stdpp Require Import gmap.
From Coq Require Import Strings.String Strings.Ascii ZArith NArith Lia.
From RV Require Import Base.Text Irc.Str Irc.Parse Irc.State Irc.Monad Irc.Cmds Irc.SCmds Irc.Apply.
From RV Require Import IrcProofs.WP IrcProofs.Inv IrcProofs.InvPrims IrcProofs.StrLemmas IrcProofs.Handlers IrcProofs.SHandlers.
Local Open Scope string_scope.

(* what a protocol-conforming line of an authenticated services link looks like (DESIGN Appendix A.4);
   [name] is the key of the command table, i.e. "server_" followed by the upper-cased command *)
Record conforming (sv : server) (k : N * N) (name : string) (m : imsg) : Prop := {
  cf_prefix : In name ["server_JOIN"; "server_PART"; "server_KICK"; "server_MODE"; "server_TOPIC"; "server_PRIVMSG";
                       "server_NOTICE"; "server_INVITE"; "server_SVSJOIN"; "server_SVSPART"; "server_KILL"] ->
              is_Some (m_prefix m);
  cf_params1 : In name ["server_JOIN"; "server_PART"; "server_MODE"] -> 1 <= nparams m;
  cf_nick : name = "server_NICK" ->
            nparams m = 1 \/
            (4 <= nparams m /\ forall p0, nth_error (m_params m) 0 = Some p0 ->
                valid_nick p0 = true /\ sv_sessions sv !! (fst k, fnv64 p0) = None /\ fnv64 p0 <> 0%N);
  cf_svsnick : name = "server_SVSNICK" ->
               forall p1, nth_error (m_params m) 1 = Some p1 -> sv_nicks sv !! nick_to_lower p1 = None;
  cf_topic : name = "server_TOPIC" -> forall p2, nth_error (m_params m) 2 = Some p2 -> Z_of_dec p2 <> None;
  cf_svshold : name = "server_SVSHOLD" -> forall p1, nth_error (m_params m) 1 = Some p1 -> N_of_dec p1 <> None;
}.

Definition all_live (sv : server) : Prop := forall k s, sv_sessions sv !! k = Some s -> s_deleted s = false.

(* side conditions under which the handler registered as [name] is run by ProcessMessage *)
Definition side (sv : server) (k : N * N) (name : string) (m : imsg) : Prop :=
  (name = "JOIN" -> forall s, sv_sessions sv !! k = Some s -> s_nick s <> "") /\
  (has_prefix "server_" name = true -> priv sv k /\ all_live sv /\ conforming sv k name m).

Lemma dispatch_ok name minp (f : handler) :
  In (name, (minp, f)) commands ->
  forall e k m sv r, Good k sv -> minp <= nparams m -> side sv k name m ->
  wp (f e k m) (fine_post k) sv r.
Proof.
  intros Hin e k m sv r G Hp [Hjoin Hsrv].
  unfold commands in Hin.
  repeat (destruct Hin as [Hin|Hin]; [injection Hin as <- <- <-|]); try contradiction; unfold noenv.
  (* the read-only and the ordinary client handlers *)
  all: try solve [ apply good_fine_post; apply unchanged_good; [exact G|]; apply cmd_service_alias_ok; [apply G|apply live_present, G]
                 | apply good_fine_post; apply cmd_away_ok; exact G | apply good_fine_post; apply cmd_invite_ok; [exact G|lia]
                 | apply good_fine_post; apply unchanged_good; [exact G|]; apply cmd_ison_ok; [apply G|apply live_present, G]
                 | apply good_fine_post; apply cmd_join_ok; [exact G|now apply Hjoin|lia]
                 | apply good_fine_post; apply cmd_kick_ok; [exact G|lia]
                 | apply good_fine_post; apply unchanged_good; [exact G|]; apply cmd_knock_ok; [apply G|apply live_present, G|lia]
                 | apply good_fine_post; apply unchanged_good; [exact G|]; apply cmd_list_ok; [apply G|apply live_present, G]
                 | apply good_fine_post; apply cmd_mode_ok; [exact G|lia]
                 | apply good_fine_post; apply unchanged_good; [exact G|]; destruct (g_live _ _ G) as (s0 & Hs0 & _); eapply cmd_motd_ok; eauto
                 | apply good_fine_post; apply unchanged_good; [exact G|]; apply cmd_names_ok; [apply G|apply live_present, G]
                 | apply good_fine_post; apply cmd_nick_ok; exact G | apply good_fine_post; apply cmd_oper_ok; [exact G|lia] | apply good_fine_post; apply cmd_part_ok; [exact G|lia]
                 | apply good_fine_post; apply cmd_pass_ok; exact G
                 | apply good_fine_post; apply unchanged_good; [exact G|]; destruct (g_live _ _ G) as (s0 & Hs0 & _); eapply cmd_ping_ok; eauto
                 | apply good_fine_post; apply unchanged_good; [exact G|]; apply cmd_privmsg_ok; [apply G|apply live_present, G]
                 | apply good_fine_post; apply cmd_topic_ok; [exact G|lia]
                 | apply good_fine_post; apply cmd_user_ok; [exact G|lia]
                 | apply good_fine_post; apply unchanged_good; [exact G|]; apply cmd_userhost_ok; [apply G|apply live_present, G]
                 | apply good_fine_post; apply unchanged_good; [exact G|]; apply cmd_who_ok; [apply G|apply live_present, G]
                 | apply good_fine_post; apply unchanged_good; [exact G|]; apply cmd_whois_ok; [apply G|apply live_present, G|lia]
                 | apply good_fine_post; apply cmd_server_ok; [exact G|lia] ].
  all: try solve [ apply cmd_gline_ok; [exact G|lia] | apply cmd_kill_ok; [exact G|lia] | apply cmd_quit_ok; exact G ].
  (* the services handlers *)
  all: destruct (Hsrv eq_refl) as (Hpriv & Hlive & C).
  all: try (destruct (cf_prefix _ _ _ _ C) as [pfx Hpfx]; [cbn; tauto|]).
  all: try solve [ apply good_fine_post; eapply cmd_server_invite_ok; eauto; lia
                 | apply good_fine_post; eapply cmd_server_join_ok; eauto; apply (cf_params1 _ _ _ _ C); cbn; tauto
                 | apply good_fine_post; eapply cmd_server_kick_ok; eauto; lia
                 | eapply cmd_server_kill_ok; eauto
                 | apply good_fine_post; eapply cmd_server_mode_ok; eauto; apply (cf_params1 _ _ _ _ C); cbn; tauto
                 | apply good_fine_post; eapply cmd_server_nick_ok; eauto; apply (cf_nick _ _ _ _ C); reflexivity
                 | apply good_fine_post; eapply cmd_server_part_ok; eauto; apply (cf_params1 _ _ _ _ C); cbn; tauto
                 | apply good_fine_post; apply unchanged_good; [exact G|]; destruct (g_live _ _ G) as (s0 & Hs0 & _); eapply cmd_ping_ok; eauto
                 | apply good_fine_post; eapply cmd_server_privmsg_ok; eauto
                 | eapply cmd_server_quit_ok; eauto
                 | apply good_fine_post; eapply cmd_server_svshold_ok; eauto; [lia|apply (cf_svshold _ _ _ _ C); reflexivity]
                 | apply good_fine_post; eapply cmd_server_svsjoin_ok; eauto; lia
                 | apply good_fine_post; eapply cmd_server_svsmode_ok; eauto; lia
                 | apply good_fine_post; eapply cmd_server_svsnick_ok; eauto; [lia|apply (cf_svsnick _ _ _ _ C); reflexivity]
                 | apply good_fine_post; eapply cmd_server_svspart_ok; eauto; lia
                 | apply good_fine_post; eapply cmd_server_topic_ok; eauto; [lia|apply (cf_topic _ _ _ _ C); reflexivity] ].
  - apply good_fine_post. apply cmd_server_svshold_ok; [exact G|lia|apply (cf_svshold _ _ _ _ C); reflexivity].
  - apply good_fine_post. apply cmd_server_svsnick_ok; [exact G|lia|apply (cf_svsnick _ _ _ _ C); reflexivity].
  - apply good_fine_post.
    eapply cmd_server_topic_ok; [exact G|exact Hpfx|lia|apply (cf_topic _ _ _ _ C); reflexivity].
Qed.
