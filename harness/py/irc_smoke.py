#!/usr/bin/env python3
# irc_smoke.py — run N generated histories through the Go driver (`ircdrv`) with every monitor of irclib.py.
#
#   python3 harness/py/irc_smoke.py --n 300 --seed 1 [--kind normal|malformed|expire] [--no-shrink]
#                                   [--sanitize auto|lf|crlfnul] [--explore] [--keep DIR]
#
# Every history runs on three fresh state machines: twice in one driver process and once in a second process (C01);
# histories containing `S` additionally run without their `S` entries (C03 continuation twin).
# Output: per-monitor counts, then one block per signature.  Signatures listed in KNOWN (the defects of DESIGN.md §5
# reproduced in corpus/irc/) are summarised on one line each — unless the tree under test already contains the repair of
# that defect (repaired_in_tree()), in which case the signature is a REGRESSION; every other signature is printed with a
# shrunk case and is either a new defect or a monitor bug.  Exit status 1 iff an unknown/regressed signature was seen.
import argparse, os, random, re, sys, time

sys.path.insert(0, os.path.dirname(os.path.abspath(__file__)))
import irclib, vlib

# signature (regex, anchored) -> defect id of DESIGN.md §5 / corpus/irc/README.md
KNOWN = [
    (r"c06:panic:cmdTopic", "D1a"),
    (r"c13:topic-nonmember", "D1b"),
    (r"c01:order:server-quit", "D2"),
    (r"c15:ctl:(cr|nul):post", "D6a"),
    (r"c15:ctl:(cr|lf|nul):delete", "D6b"),
    (r"c03:field:N\.empty", "D7a"),
    (r"c03:cont-diff-after-N\.empty:.*", "D7a"),
    (r"c01:state:N\.empty:.*", "D7a"),
    (r"c14:nickidx-dangling-emptykey:.*", "D7a"),
    (r"c12:private-rcpt:empty-nick", "D7a"),
    (r"c03:field:G\.wo", "D7b"),
    (r"c06:panic:cmdServerNick", "D8"),
    (r"c13:join-banned:x-captcha", "D10"),
    (r"c12:rcpt-extra:(JOIN|PART)", "D11"),
    (r"c14:limit-channels:server-(svsjoin|join)", "D12"),
    # new observations made with this harness (corpus/irc/README.md), not in DESIGN.md section 5
    (r"c15:nocommand", "N1"),
    (r"c03:cont-diff:mode", "N2"),
]


def repaired_in_tree():
    """translator-lite: which of the repaired defects does the tree under test no longer contain?  A signature of such a
    defect is then a REGRESSION (reported like an unknown signature), not a known finding."""
    def src(rel):
        try:
            return open(os.path.join(vlib.REPO, rel)).read()
        except OSError:
            return ""
    out = set()
    t = src("internal/ircserver/cmd_topic.go")
    if 0 <= t.find("ERR_NOTONCHANNEL") < t.find("unset the topic"):
        out |= {"D1a", "D1b"}
    if "sort." in src("internal/ircserver/scmd_quit.go"):
        out.add("D2")
    if detect_sanitize() == "crlfnul":
        out.add("D6a")
        if "IndexAny" in src("internal/api/deletesession.go"):
            out.add("D6b")
    if re.search(r'if newSession\.Nick != ""', src("internal/ircserver/serialize.go")):
        out.add("D7a")
    if re.search(r"if err := i\.createSessionLocked", src("internal/ircserver/scmd_nick.go")):
        out.add("D8")
    return out


_REPAIRED = None


def known_id(sig):
    global _REPAIRED
    if _REPAIRED is None:
        _REPAIRED = repaired_in_tree()
    for rx, d in KNOWN:
        if re.match("^(?:" + rx + ")$", sig):
            return None if d in _REPAIRED else d
    return None


def detect_sanitize():
    """translator-lite: which sanitising do the two HTTP handlers of the tree under test apply?"""
    try:
        src = open(os.path.join(vlib.REPO, "internal/api/postmessage.go")).read()
    except OSError:
        return "lf"
    return "crlfnul" if re.search(r'IndexAny\([^)]*"\\r\\n\\x00"', src) else "lf"


def check_cases(cases, want_sig=None):
    """run cases (3 instances + twins) and all monitors; returns list of findings-lists"""
    idx_twin = {}
    batch2 = list(cases)
    for i, c in enumerate(cases):
        if any(e["k"] == "S" for e in c["entries"]):
            idx_twin[i] = len(batch2)
            batch2.append(irclib.c03_twin(c))
    # the two processes run in different time zones (UTC-9 / UTC+14): nothing a replica emits or stores may depend on the
    # node's local time zone (C01: "nothing outside the log and the network name")
    t1, info1 = irclib.run_cases(list(cases) + list(cases), tag="smoke-a", env_extra={"TZ": "America/Anchorage"})
    t2, info2 = irclib.run_cases(batch2, tag="smoke-b", env_extra={"TZ": "Pacific/Kiritimati"})
    out = []
    n = len(cases)
    for i in range(n):
        tr = t1[i]
        if not tr.ok:
            out.append([("harness:driver-failed", (info1["log"] or "")[-400:], 0)])
            continue
        reruns = [x for x in (t1[n + i], t2[i]) if x.steps is not None]
        twin = t2[idx_twin[i]] if i in idx_twin else None
        out.append(irclib.run_monitors(tr, twin, reruns))
    return out, (info1, info2)


def corpus_check():
    """run corpus/irc/*.case and compare the signatures with corpus/irc/EXPECT.tsv"""
    d = os.path.join(vlib.ROOT, "corpus", "irc")
    rows = []
    for l in open(os.path.join(d, "EXPECT.tsv")):
        if l.strip() and not l.startswith("#"):
            f = l.rstrip("\n").split("\t")
            rows.append((f[0], f[1], f[2], f[3].split(","), f[4] if len(f) > 4 else "-"))
    san = detect_sanitize()
    # corpus cases are "as posted by a client": they pass the sanitising of the tree under test first
    cases = [irclib.apply_sanitizer(irclib.parse_case_line(open(os.path.join(d, r[0])).read()), san) for r in rows]
    res, _ = check_cases(cases)
    print("irc_smoke --corpus: repo=%s sanitize=%s" % (vlib.REPO, san))
    gone = 0
    for r, fs in zip(rows, res):
        sigs = sorted(set(f[0] for f in fs))
        hit = [rx for rx in r[3] if any(re.match("^(?:%s)$" % rx, s) for s in sigs)]
        extra = [s for s in sigs if not any(re.match("^(?:%s)$" % rx, s) for rx in r[3])]
        status = "REPRODUCES" if len(hit) == len(r[3]) else ("PARTLY" if hit else "GONE")
        gone += status != "REPRODUCES"
        print("%-10s %-4s %-4s %-10s expected=%s%s" % (r[0], r[1], r[2], status, ",".join(r[3]),
                                                     ("  also: " + ",".join(extra)) if extra else ""))
    vlib.cleanup_workdir()
    return gone


def main():
    if "--corpus" in sys.argv:
        corpus_check()
        return 0
    ap = argparse.ArgumentParser()
    ap.add_argument("--n", type=int, default=100)
    ap.add_argument("--seed", type=int, default=1)
    ap.add_argument("--kind", default=None)
    ap.add_argument("--no-shrink", action="store_true")
    ap.add_argument("--sanitize", default="auto")
    ap.add_argument("--explore", action="store_true", help="non-conforming services lines, raw bytes, unparsable CaptchaURL")
    ap.add_argument("--keep", default=None, help="directory to write failing cases to")
    ap.add_argument("--max-shrink", type=int, default=6)
    a = ap.parse_args()
    rng = random.Random(a.seed)
    san = detect_sanitize() if a.sanitize == "auto" else a.sanitize
    g = irclib.Gen(rng, sanitize=san, nonconforming=a.explore, raw_bytes=a.explore, bad_captcha_url=a.explore)
    t0 = time.time()
    cases = [g.history(a.kind) for _ in range(a.n)]
    nent = sum(len(c["entries"]) for c in cases)
    res, infos = check_cases(cases)
    wall = time.time() - t0
    by_sig, per_mon = {}, {}
    for ci, fs in enumerate(res):
        seen = set()
        for sig, msg, step in fs:
            mon = sig.split(":")[0]
            per_mon[mon] = per_mon.get(mon, 0) + 1
            if sig not in seen:
                seen.add(sig)
                by_sig.setdefault(sig, []).append((ci, step, msg))
    print("irc_smoke: seed=%d n=%d kind=%s sanitize=%s repo=%s entries=%d wall=%.1fs driver=%s" % (
        a.seed, a.n, a.kind or "mixed", san, vlib.REPO, nent, wall, infos[0]["stats"]))
    print("findings per monitor: " + (" ".join("%s=%d" % kv for kv in sorted(per_mon.items())) or "none"))
    unknown = 0
    for sig in sorted(by_sig):
        occ = by_sig[sig]
        d = known_id(sig)
        if d:
            print("KNOWN %-4s %-40s cases=%d  e.g. case %d step %d: %s" % (d, sig, len(occ), occ[0][0], occ[0][1], occ[0][2][:150]))
    for sig in sorted(by_sig):
        occ = by_sig[sig]
        if known_id(sig):
            continue
        unknown += 1
        ci, step, msg = occ[0]
        reg = [d for rx, d in KNOWN if re.match("^(?:" + rx + ")$", sig)]
        print("\n%s %s  cases=%d (%s)" % ("REGRESSION(%s)" % reg[0] if reg else "UNKNOWN", sig, len(occ), ",".join(str(o[0]) for o in occ[:12])))
        print("  case %d step %d: %s" % (ci, step, msg[:600]))
        case = cases[ci]
        if not a.no_shrink and unknown <= a.max_shrink and not sig.startswith("harness:"):
            def many(cs, sig=sig):
                r, _ = check_cases(cs)
                return [any(f[0] == sig for f in fs) for fs in r]
            small = irclib.shrink(case, None, many)
            print("  shrunk to %d entries:" % len(small["entries"]))
            trs, _ = irclib.run_cases([small], tag="smoke-s")
            print("    " + irclib.trace_text(trs[0]).replace("\n", "\n    "))
            print("  input: " + irclib.case_line(small))
            case = small
        if a.keep:
            os.makedirs(a.keep, exist_ok=True)
            fn = os.path.join(a.keep, re.sub(r"[^A-Za-z0-9_.-]", "_", sig) + ".case")
            with open(fn, "w") as f:
                f.write(irclib.case_line(case) + "\n")
    vlib.cleanup_workdir()
    print("\nirc_smoke: %d known signature(s), %d unknown signature(s)" % (
        len([s for s in by_sig if known_id(s)]), unknown))
    return 1 if unknown else 0


if __name__ == "__main__":
    sys.exit(main())
