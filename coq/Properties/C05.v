(* C05 — acknowledged messages survive crashes and fail-over, exactly once, everywhere (PARTIAL).

   Statements over Sys/EndToEnd.v: a composition over an ASSUMED raft contract.  [M : Sys] is any
   system: any deterministic machine [step] (what C01_model_deterministic provides for the IRC
   model), any committed log [L M], any set of nodes each having applied a prefix of it, any set
   of sessions with any number of POST requests and retries.  The named hypotheses:

     NodeStateIsReplay      a node's state/stored output = plain replay of the prefix it applied,
                            however it got there (snapshot, restore, restart): C02_state,
                            C02_output, C02_exact; resume across nodes/restarts: C04_exactly_once
     SeenLeLen, ProposalAppends, ProposalEntry, LogFromRequests
                            raft: one totally ordered log, append-only, nothing invented
     AckImpliesCommitted    api.go applyMessageWait: HTTP 200 only after the raft future
                            succeeded, or on the dedup path
     HandlerDedup           postmessage.go proposes only when the marker differs (C10_handler_propose)
     MarkerInit/Set/Only    the marker rule (C10_marker, C10_marker_inv)
     CmidNonzero, ClientNoReturn
                            client protocol: non-zero ids, retries of a message are contiguous
     EarlierRequestsSettled timing: a client sends a request only when what its earlier requests
                            proposed is committed or never will be
     HandlerCaughtUp        timing (D14): the node answering a retry has applied everything
                            committed before the retry arrived — NOT enforced by the code; without
                            it the statement is false (C05_refuted_without_caught_up).

   What cannot be exhibited by these theorems or by the single-node harness: raft's own safety,
   fsync/LevelDB durability under power loss, network partitions, timing of leader changes. *)
From Coq Require Import List NArith.
From RV Require Import Sys.EndToEnd Sys.EndToEndProofs.

(* for any two nodes and any session the served streams are prefix-related
   (outputs of a prefix of the log are a prefix of the outputs) *)
Theorem C05_same_stream : forall M : Sys, NodeStateIsReplay M ->
  forall (i j : Node M) (s : Sess M),
    prefix_of (served M i s) (served M j s) \/ prefix_of (served M j s) (served M i s).
Proof. exact composition_same_stream. Qed.
Print Assumptions C05_same_stream.

(* an acknowledged post is in the committed log.  This IS the raft-contract hypothesis
   AckImpliesCommitted composed with the handler model (dedup path: a non-zero marker was written
   by an applied entry of the log). *)
Theorem C05_ack_durable : forall M : Sys,
  ProposalEntry M -> AckImpliesCommitted M -> MarkerInit M -> MarkerOnly M -> CmidNonzero M ->
  forall s n, n < nreq M s -> r_ack M s n = true -> exists i, copy_at M s (r_cmid M s n) i.
Proof. exact composition_ack_durable. Qed.
Print Assumptions C05_ack_durable.

(* under HandlerCaughtUp: each acknowledged post occurs exactly once in L, posts of a session
   occur in the order the client sent them, and every node that has reached the entry serves its
   output exactly once, at the place the log determines *)
Theorem C05_exactly_once : forall M : Sys, ContractWithoutCaughtUp M -> HandlerCaughtUp M ->
  ExactlyOnceInLog M /\ SenderOrder M /\ DeliveredOnce M.
Proof. exact composition_exactly_once. Qed.
Print Assumptions C05_exactly_once.

(* D14: all other hypotheses hold, the retry reaches a leader that lags its own log, and the
   acknowledged post is in the log twice *)
Theorem C05_refuted_without_caught_up : exists M : Sys,
  ContractWithoutCaughtUp M /\ ~ HandlerCaughtUp M /\ TwoCopies M /\ ~ ExactlyOnceInLog M.
Proof. exact refuted_without_caught_up. Qed.
Print Assumptions C05_refuted_without_caught_up.

(* the hypotheses of C05_exactly_once are satisfiable (a tiny concrete machine, two nodes) *)
Theorem C05_hypotheses_satisfiable : ContractWithoutCaughtUp tiny_ok /\ HandlerCaughtUp tiny_ok.
Proof. exact tiny_ok_contract. Qed.
Print Assumptions C05_hypotheses_satisfiable.
