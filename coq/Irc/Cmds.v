(* Irc/Cmds.v — the client command handlers (internal/ircserver/cmd_*.go, commands.go,
   modes.go) over the state-and-output monad.  Every Go expression that can panic has an
   explicit Panic branch; nothing is totalised. *)
From stdpp Require Import gmap.
From Coq Require Import Strings.String Strings.Ascii ZArith NArith.
From RV Require Import Base.Text Irc.Str Irc.Parse Irc.State Irc.Monad.
Local Open Scope string_scope.

(* what lies outside the entries: results of verifyCaptchaNonEmpty's HMAC test *)
Record env := Env { e_captcha : list (string * option Z) }.

Fixpoint assoc_str {A} (k : string) (l : list (string * A)) : option A :=
  match l with [] => None | (k', v) :: r => if String.eqb k k' then Some v else assoc_str k r end.

(* ---- small helpers --------------------------------------------------------------------- *)
Definition param (m : imsg) (k : nat) : M string :=
  match nth_error (m_params m) k with Some p => retM p | None => panicM "index out of range: msg.Params" end.
Definition nparams (m : imsg) : nat := List.length (m_params m).
Definition prefix_name (m : imsg) : M string :=
  match m_prefix m with Some p => retM (p_name p) | None => panicM "nil pointer: msg.Prefix" end.
Definition msg_prefix (m : imsg) : M prefix :=
  match m_prefix m with Some p => retM p | None => panicM "nil pointer: msg.Prefix" end.

Definition srvmsg (sv : server) (cmd : string) (ps : list string) : imsg :=
  IMsg (Some (server_prefix sv)) cmd ps.
Definition usrmsg (p : prefix) (cmd : string) (ps : list string) : imsg := IMsg (Some p) cmd ps.
Definition noprefix (cmd : string) (ps : list string) : imsg := IMsg None cmd ps.

(* sendUser with the server prefix: the most common reply *)
Definition reply_num (k : skey) (cmd : string) (ps : list string) : M unit :=
  DO sv <- getS IN emit (rc_user k) (srvmsg sv cmd ps).
(* sendServices with the server prefix *)
Definition reply_svc (cmd : string) (ps : list string) : M unit :=
  DO sv <- getS IN emit (rc_services sv) (srvmsg sv cmd ps).

Definition mode_range : list N := map N.of_nat (seq 65 57).   (* 'A' .. 'y' *)
Definition modestr_of (m : gset N) : string :=
  "+" ++ string_of_list (map chr (filter (fun c => has_mode c m) mode_range)).

(* c.nicks[x][chanop] on a possibly absent member: nil pointer dereference *)
Definition chanop_of (c : chan) (lcnick : string) : M bool :=
  match c_nicks c !! lcnick with
  | Some (o, _) => retM o
  | None => panicM "nil pointer: c.nicks[nick][chanop] for a non-member"
  end.

(* ---- deleteSessionLocked / maybeDeleteChannelLocked -------------------------------------- *)
Definition drop_invites (lc : string) (m : gmap skey session) : gmap skey session :=
  (fun s => ss_invited (fun i => i ∖ {[ lc ]}) s) <$> m.

(* maybeDeleteChannelLocked(c) for the channel stored under [lc]; the Go code recomputes the
   key as ChanToLower(c.name), which is the same key for every channel any handler creates *)
Definition maybe_delete_channel (lc : string) : M unit :=
  DO c <- chanM lc IN
  match c with
  | Some c =>
      if bool_decide (c_nicks c = ∅) then
        modS (set_channels (delete (chan_to_lower (c_name c)))) ;;;
        modS (set_sessions (drop_invites (chan_to_lower (c_name c))))
      else retM tt
  | None => retM tt
  end.

(* for _, c := range i.channels { delete(c.nicks, nick); maybeDeleteChannel(c) }
   Every iteration touches only its own channel and (when that channel becomes empty) removes
   it and the invitations naming it; the iterations commute, so the loop is the bulk operation
   below whatever order Go's map iteration picks (IrcProofs/Determinism.v states this for the
   per-channel step function). *)
Definition chan_nonempty (c : chan) : bool := negb (bool_decide (c_nicks c = ∅)).
Definition emptied_keys (lcnick : string) (chs : gmap string chan) : list string :=
  map (fun kv : string * chan => chan_to_lower (c_name (snd kv)))
      (List.filter (fun kv : string * chan => negb (chan_nonempty (cc_nicks (delete lcnick) (snd kv))))
                   (map_to_list chs)).
Definition remove_nick_everywhere (lcnick : string) : M unit :=
  DO sv <- getS IN
  let gone : gset string := list_to_set (emptied_keys lcnick (sv_channels sv)) in
  modS (set_channels (fun chs =>
     base.filter (fun kv : string * chan => chan_to_lower (c_name (snd kv)) ∉ gone)
                 (cc_nicks (delete lcnick) <$> chs))) ;;;
  modS (set_sessions (fmap (ss_invited (fun i => i ∖ gone)))).

Definition delete_session (k : skey) : M unit :=
  DO s <- sessM k IN
  remove_nick_everywhere (nick_to_lower (s_nick s)) ;;;
  modS (set_nicks (delete (nick_to_lower (s_nick s)))) ;;;
  updSess k (ss_deleted true).

(* ---- captcha ----------------------------------------------------------------------------- *)
Definition minute : Z := 60000000000.
(* verifyCaptcha: true = nil error *)
Definition verify_captcha (e : env) (k : skey) (captcha : string) : M bool :=
  DO s <- sessM k IN
  if (tsub (s_lastActivity s) (s_lastSolvedCaptcha s) <? minute)%Z then retM true
  else if is_empty captcha then retM false
  else match assoc_str captcha (e_captcha e) with
       | Some (Some signed_ns) =>
           if (5 * minute <? tsub (s_lastActivity s) (Some signed_ns))%Z then retM false
           else updSess k (ss_solved (s_lastActivity s)) ;;; retM true
       | _ => retM false
       end.

(* generateCaptchaURL: only its panics are modelled, the URL itself is masked in the output *)
Definition captcha_url_check (k : skey) : M unit :=
  DO s <- sessM k IN
  if Nat.ltb (slen (s_auth s)) 8 then panicM "slice bounds out of range: s.auth[:8]" else retM tt.

(* extractPassword *)
Definition known_prefix (part : string) : bool :=
  has_prefix "nickserv=" part || has_prefix "services=" part || has_prefix "network=" part ||
  has_prefix "session=" part || has_prefix "oper=" part || has_prefix "captcha=" part.
Definition extract_password (password pfx : string) : string :=
  fold_left (fun extracted part =>
      let extracted := if has_prefix (pfx ++ "=") (to_lower part)
                       then sdrop (slen (pfx ++ "=")) part else extracted in
      if negb (known_prefix part) && negb (is_empty extracted) then extracted ++ ":" ++ part else extracted)
    (split_on ":"%char password) EmptyString.

(* ---- MOTD, OPER ----------------------------------------------------------------------------- *)
Definition cmd_motd (k : skey) (m : imsg) : M unit :=
  DO sv <- getS IN DO s <- sessM k IN
  reply_num k "375" [s_nick s; "- " ++ sv_netname sv ++ " Message of the day -"] ;;;
  reply_num k "372" [s_nick s; "- No MOTD configured yet."] ;;;
  reply_num k "376" [s_nick s; "End of MOTD command"].

Definition auth_oper (g : config) (name pw : string) : bool :=
  existsb (fun op => String.eqb (fst op) name && String.eqb (snd op) pw) (g_operators g).

Definition cmd_oper (k : skey) (m : imsg) : M unit :=
  DO name <- param m 0 IN DO pw <- param m 1 IN
  DO g <- cfgM IN DO s <- sessM k IN
  if negb (auth_oper g name pw) then reply_num k "464" [s_nick s; "Password incorrect"]
  else
    updSess k (fun s => ss_modes (set_mode 111 true) (ss_operator true s)) ;;;
    DO s <- sessM k IN DO sv <- getS IN
    reply_num k "381" [s_nick s; "You are now an IRC operator"] ;;;
    emit (rc_user k ++ rc_services sv) (srvmsg sv "MODE" [s_nick s; modestr_of (s_modes s)]).

(* ---- maybeLogin ------------------------------------------------------------------------------- *)
Definition maybe_login (e : env) (k : skey) (m : imsg) : M unit :=
  DO s <- sessM k IN
  if s_loggedIn s then retM tt
  else if is_empty (s_nick s) || is_empty (s_user s) then retM tt
  else
    DO g <- cfgM IN
    DO ok <- (if g_captchaLogin g then verify_captcha e k (extract_password (s_pass s) "captcha") else retM true) IN
    if negb ok then
      captcha_url_check k ;;;
      reply_num k "NOTICE" [s_nick s; "To login, please go to MASKED"]
    else
      updSess k (ss_loggedIn true) ;;;
      DO sv <- getS IN DO s <- sessM k IN
      reply_num k "001" [s_nick s; "Welcome to RobustIRC!"] ;;;
      reply_num k "002" [s_nick s; "Your host is " ++ sv_netname sv] ;;;
      reply_num k "003" [s_nick s; "This server was created MASKED"] ;;;
      reply_num k "004" [s_nick s; sv_netname sv ++ " v1 i nstix"] ;;;
      reply_num k "005" ["CHANTYPES=#"; "CHANNELLEN=32"; "NICKLEN=30"; "MODES=1"; "PREFIX=(o)@"; "KNOCK";
                         "are supported by this server"] ;;;
      emit (rc_services sv) (noprefix "NICK" [s_nick s; "1"; "1"; s_user s; p_host (s_prefix s); sv_netname sv;
                                             s_svid s; "+"; s_real s]) ;;;
      (let pass := extract_password (s_pass s) "nickserv" in
       whenM (negb (is_empty pass))
         (emit (rc_services sv) (usrmsg (s_prefix s) "PRIVMSG" ["NickServ"; "IDENTIFY " ++ pass]))) ;;;
      (let pass := extract_password (s_pass s) "oper" in
       if is_empty pass then retM tt
       else match parse_message ("OPER " ++ pass) with
            | Some parsed => if Nat.ltb 1 (nparams parsed) then cmd_oper k parsed else retM tt
            | None => panicM "nil pointer: irc.ParseMessage(OPER ...) returned nil"
            end) ;;;
      updSess k (ss_pass "") ;;;
      cmd_motd k m.

(* ---- NICK / USER / PASS ------------------------------------------------------------------------ *)
(* the nick-change loop over all channels: move the member entry from the old to the new key;
   each iteration touches only its own channel *)
Definition rename_member (oldn newn : string) (ns : gmap string (bool * bool)) : gmap string (bool * bool) :=
  match ns !! oldn with
  | Some perms => delete oldn (<[newn := perms]> ns)
  | None => delete oldn ns
  end.
Definition rename_in_channels (oldn newn : string) : M unit :=
  modS (set_channels (fmap (cc_nicks (rename_member oldn newn)))).

(* s.Nick = nick; i.nicks[lower] = s; unless only the capitalisation changes: drop the old index
   entry and move the member entries; s.updateIrcPrefix() *)
Definition change_nick (k : skey) (nick oldNick : string) (onlyCaps : bool) : M unit :=
  updSess k (ss_nick nick) ;;;
  modS (set_nicks (<[nick_to_lower nick := k]>)) ;;;
  whenM (negb (is_empty oldNick) && negb onlyCaps)
    (modS (set_nicks (delete oldNick)) ;;; rename_in_channels oldNick (nick_to_lower nick)) ;;;
  updSess k update_prefix.

Definition cmd_nick (e : env) (k : skey) (m : imsg) : M unit :=
  DO s <- sessM k IN DO sv <- getS IN
  let oldPrefix := s_prefix s in
  let nick := match m_params m with p :: _ => p | [] => EmptyString end in
  if is_empty nick then reply_num k "431" ["No nickname given"]
  else
    let dest := if s_loggedIn s then s_nick s else "*" in
    let onlyCaps := s_loggedIn s && String.eqb (nick_to_lower nick) (nick_to_lower dest) in
    if negb (valid_nick nick) then reply_num k "432" [dest; nick; "Erroneous nickname"]
    else if (bool_decide (is_Some (sv_nicks sv !! nick_to_lower nick)) && negb onlyCaps) || is_services_nick nick
    then reply_num k "433" [dest; nick; "Nickname is already in use"]
    else
      DO held <- (match sv_svsholds sv !! nick_to_lower nick with
                  | Some h =>
                      if negb (tafter (s_lastActivity s) (tadd (h_added h) (h_duration h)))
                      then reply_num k "432" [dest; nick; "Erroneous Nickname: " ++ h_reason h] ;;; retM true
                      else modS (set_svsholds (delete (nick_to_lower nick))) ;;; retM false
                  | None => retM false
                  end) IN
      if held then retM tt
      else if String.eqb (s_nick s) nick then retM tt
      else
        let oldNick := nick_to_lower (s_nick s) in
        change_nick k nick oldNick onlyCaps ;;;
        if negb (is_empty oldNick) then
          DO sv <- getS IN DO s <- sessM k IN
          DO common <- liftR (rc_common sv s) IN
          emit (rc_user k ++ common ++ rc_services sv) (usrmsg oldPrefix "NICK" [nick])
        else maybe_login e k m.

(* cmd_user.go keeps at most maxUserLen bytes of the user name (fix for the over-long prefix, finding c15:nocommand)
   and drops a multi-byte character the cut went through (the snapshot cannot serialize ill-formed UTF-8) *)
Definition max_user_len : nat := 32.
Definition cap_user (u : string) : string :=
  if Nat.ltb max_user_len (slen u) then to_valid_utf8 (stake max_user_len u) else u.
Definition cmd_user (e : env) (k : skey) (m : imsg) : M unit :=
  DO u <- param m 0 IN
  updSess k (fun s => update_prefix (ss_user_real (cap_user u) (trailing m) s)) ;;;
  maybe_login e k m.

Definition pass_prefixed (p : string) : bool :=
  has_prefix "nickserv=" p || has_prefix "services=" p || has_prefix "network=" p ||
  has_prefix "oper=" p || has_prefix "session=" p || has_prefix "captcha=" p.

Definition cmd_pass (e : env) (k : skey) (m : imsg) : M unit :=
  whenM (Nat.ltb 0 (nparams m)) (updSess k (ss_pass (sjoin " " (m_params m)))) ;;;
  DO s <- sessM k IN
  whenM (negb (pass_prefixed (s_pass s))) (updSess k (ss_pass ("nickserv=" ++ s_pass s))) ;;;
  maybe_login e k m.

(* ---- channel modes, bans ------------------------------------------------------------------------ *)
Record modecmd := ModeCmd { mc_add : bool; mc_char : N; mc_param : string }.

Definition takes_param (c : N) : bool := (c =? 111)%N || (c =? 100)%N || (c =? 98)%N || (c =? 107)%N.

Fixpoint normalize_modes_aux (cs : list ascii) (ps : list string) (modearg : nat) (adding : bool) : list modecmd :=
  match cs with
  | [] => []
  | c :: r =>
      let n := byte_of c in
      if (n =? 43)%N then normalize_modes_aux r ps modearg true
      else if (n =? 45)%N then normalize_modes_aux r ps modearg false
      else if takes_param n then
        ModeCmd adding n (nth modearg ps EmptyString) :: normalize_modes_aux r ps (S modearg) adding
      else ModeCmd adding n EmptyString :: normalize_modes_aux r ps modearg adding
  end.
Definition normalize_modes (m : imsg) : list modecmd :=
  match m_params m with
  | _ :: modestr :: _ => normalize_modes_aux (rune_leads modestr) (m_params m) 2 true
  | _ => []
  end.

(* modeCmds.IRCParams: string(mode.Mode[1]) of a BYTE is the encoding of U+00bb *)
Definition irc_params (cmds : list modecmd) : list string :=
  let add := filter mc_add cmds in
  let rem := filter (fun c => negb (mc_add c)) cmds in
  let chars l := fold_right (fun c acc => go_string_of_byte (mc_char c) ++ acc) EmptyString l in
  let ps l := filter (fun p => negb (is_empty p)) (map mc_param l) in
  ((if Nat.ltb 0 (List.length add) then "+" ++ chars add else EmptyString) ++
   (if Nat.ltb 0 (List.length rem) then "-" ++ chars rem else EmptyString)) :: (ps add ++ ps rem)%list.

(* regexp.QuoteMeta *)
Definition is_meta (n : N) : bool :=
  existsb (N.eqb n) [92; 46; 43; 42; 63; 40; 41; 124; 91; 93; 123; 125; 94; 36]%N.
Fixpoint quote_meta (s : string) : string :=
  match s with
  | EmptyString => EmptyString
  | String c r => if is_meta (byte_of c) then String "\"%char (String c (quote_meta r)) else String c (quote_meta r)
  end.

(* the fragment of RE2 syntax ban patterns live in: escaped literal, ".*", ".", literal *)
Inductive retok := RLit (c : ascii) | RAny | RStar.
Fixpoint re_tokens_fuel (fuel : nat) (s : string) : list retok :=
  match fuel with
  | O => []
  | S f =>
      match s with
      | EmptyString => []
      | String "\"%char (String c r) => RLit c :: re_tokens_fuel f r
      | String "."%char (String "*"%char r) => RStar :: re_tokens_fuel f r
      | String "."%char r => RAny :: re_tokens_fuel f r
      | String c r => RLit c :: re_tokens_fuel f r
      end
  end.
Definition re_tokens (s : string) : list retok := re_tokens_fuel (S (slen s)) s.

Definition not_nl (c : ascii) : bool := negb (byte_of c =? 10)%N.
Fixpoint re_here (toks : list retok) (s : string) : bool :=
  match toks with
  | [] => true
  | RLit c :: t => match s with String d s' => Ascii.eqb c d && re_here t s' | EmptyString => false end
  | RAny :: t => match s with String d s' => not_nl d && re_here t s' | EmptyString => false end
  | RStar :: t =>
      (fix star (s : string) : bool :=
         re_here t s || match s with String d s' => not_nl d && star s' | EmptyString => false end) s
  end.
(* Regexp.MatchString: unanchored *)
Fixpoint re_search (toks : list retok) (s : string) : bool :=
  re_here toks s || match s with String _ s' => re_search toks s' | EmptyString => false end.
Definition re_match (pattern subject : string) : bool := re_search (re_tokens pattern) subject.

Definition banned (bans : list (string * string)) (userhost userhostAddr : string) : bool :=
  existsb (fun b => re_match (snd b) userhost || re_match (snd b) userhostAddr) bans.

(* strconv.ParseInt(x, 0, 64) on "0x…" (the text behind "robust/"): hex digits of either case; with base 0 Go also accepts
   underscores that separate digits (one may follow the base prefix): [after_digit] is false right after an underscore *)
Fixpoint parse_hex_aux (s : string) (acc : N) (after_digit : bool) : option N :=
  match s with
  | EmptyString => if after_digit then Some acc else None
  | String c r =>
      if Ascii.eqb c "_"%char then (if after_digit then parse_hex_aux r acc false else None)
      else match hex_val c with Some d => parse_hex_aux r (acc * 16 + d)%N true | None => None end
  end.
Fixpoint has_hex_digit (s : string) : bool :=
  match s with EmptyString => false | String c r => match hex_val c with Some _ => true | None => has_hex_digit r end end.
Definition parse_0x (s : string) : option N :=
  match s with
  | String "0"%char (String "x"%char r) =>
      if negb (has_hex_digit r) then None else
      match parse_hex_aux r 0%N true with
      | Some n => if (n <? 9223372036854775808)%N then Some n else None
      | None => None
      end
  | _ => None
  end.

(* resolveSessionToRemoteAddrLocked *)
Definition resolve_remote (sv : server) (pattern : string) : string :=
  match sindex "robust/0x" pattern with
  | None => pattern
  | Some idx =>
      match parse_0x (sdrop (idx + 7) pattern) with
      | None => pattern
      | Some id =>
          match sv_sessions sv !! (id, 0%N) with
          | Some s => if is_empty (s_remoteAddr s) then pattern else stake idx pattern ++ s_remoteAddr s
          | None => pattern
          end
      end
  end.

Definition ban_one (add : bool) (banmask pattern : string) (bans : list (string * string)) : list (string * string) :=
  if add then (bans ++ [(banmask, pattern)])%list
  else filter (fun b => negb (String.eqb (fst b) banmask)) bans.
Definition ban_both (add : bool) (banmask pattern patternAddr : string) (bans : list (string * string)) :=
  let b1 := ban_one add banmask pattern bans in
  if String.eqb patternAddr pattern then b1 else ban_one add banmask patternAddr b1.

Definition dedup_sorted (l : list string) : list string :=
  fold_right (fun x acc => match acc with y :: _ => if String.eqb x y then acc else x :: acc | [] => [x] end) [] l.

Definition captcha_configured (g : config) : bool :=
  negb (is_empty (g_captchaURL g)) && negb (is_empty (g_captchaHMAC g)).

(* one iteration of the channel MODE loop; returns (stop, queryOnly) *)
Definition cmd_mode_chan_step (k : skey) (lc channelname : string) (isChanOp : bool)
           (mode : modecmd) (queryOnly : bool) : M (bool * bool) :=
  DO s <- sessM k IN DO sv <- getS IN
  let char := mc_char mode in
  let newvalue := mc_add mode in
  if negb (newvalue && (char =? 98)%N && is_empty (mc_param mode)) then
    if negb isChanOp then
      reply_num k "482" [s_nick s; channelname; "You're not channel operator"] ;;; retM (true, false)
    else
      (if existsb (N.eqb char) [116; 115; 105; 110]%N then updChan lc (cc_modes (set_mode char newvalue))
       else if (char =? 107)%N then
         DO c <- chanM lc IN
         match c with
         | None => panicM "nil pointer: channel vanished"
         | Some c =>
             if newvalue then
               if is_empty (mc_param mode) then retM tt
               else updChan lc (cc_key (mc_param mode)) ;;;
                    reply_num k "MODE" [channelname; "+k"; mc_param mode] ;;;
                    updChan lc (cc_modes (set_mode char newvalue))
             else reply_num k "MODE" [channelname; "-k"; c_key c] ;;;
                  updChan lc (cc_key "") ;;;
                  updChan lc (cc_modes (set_mode char newvalue))
         end
       else if (char =? 120)%N then
         if captcha_configured (sv_config sv) then updChan lc (cc_modes (set_mode char newvalue))
         else reply_num k "NOTICE" [s_nick s; "Cannot set mode +x, no CaptchaURL/CaptchaHMACSecret configured"]
       else if (char =? 111)%N then
         DO c <- chanM lc IN
         match c with
         | None => panicM "nil pointer: channel vanished"
         | Some c =>
             let nick := mc_param mode in
             match c_nicks c !! nick_to_lower nick with
             | None => reply_num k "441" [s_nick s; nick; channelname; "They aren't on that channel"]
             | Some (o, v) =>
                 if Bool.eqb o newvalue then retM tt
                 else updChan lc (cc_nicks (<[nick_to_lower nick := (newvalue, v)]>))
             end
         end
       else if (char =? 98)%N then
         let pattern := replace_all "\*" ".*" (quote_meta (mc_param mode)) in
         let patternAddr := resolve_remote sv pattern in
         updChan lc (cc_bans (ban_both newvalue (mc_param mode) pattern patternAddr))
       else reply_num k "472" [s_nick s; go_string_of_byte char; "is unknown mode char to me"]) ;;;
      retM (false, false)
  else
    (* query: "+b" without parameter *)
    DO c <- chanM lc IN
    match c with
    | None => panicM "nil pointer: channel vanished"
    | Some c =>
        forM (dedup_sorted (sort_strings (map fst (c_bans c))))
             (fun p => reply_num k "367" [s_nick s; channelname; p]) ;;;
        reply_num k "368" [s_nick s; channelname; "End of Channel Ban List"] ;;;
        retM (false, queryOnly)
    end.

Fixpoint cmd_mode_chan_loop (k : skey) (lc channelname : string) (isChanOp : bool)
         (modes : list modecmd) (queryOnly : bool) : M (bool * bool) :=
  match modes with
  | [] => retM (false, queryOnly)
  | md :: r =>
      DO st <- cmd_mode_chan_step k lc channelname isChanOp md queryOnly IN
      if fst st then retM st else cmd_mode_chan_loop k lc channelname isChanOp r (snd st)
  end.

Definition cmd_mode (k : skey) (m : imsg) : M unit :=
  DO channelname <- param m 0 IN
  DO s <- sessM k IN DO sv <- getS IN
  let lc := chan_to_lower channelname in
  if in_set lc (s_channels s) then
    match sv_channels sv !! lc with
    | None => panicM "nil pointer: i.channels[lc] for a channel the session lists"
    | Some c =>
        let modes := normalize_modes m in
        if Nat.eqb (List.length modes) 0 then
          reply_num k "324" [s_nick s; channelname; modestr_of (c_modes c)]
        else
          DO o <- chanop_of c (nick_to_lower (s_nick s)) IN
          let isChanOp := o || s_operator s in
          DO st <- cmd_mode_chan_loop k lc channelname isChanOp modes true IN
          if fst st then retM tt
          else if snd st then retM tt
          else
            DO n <- replyCount IN
            if Nat.ltb 0 n then retM tt
            else
              DO sv <- getS IN DO s <- sessM k IN
              match sv_channels sv !! lc with
              | None => panicM "nil pointer: channel vanished"
              | Some c =>
                  DO rc <- liftR (rc_channel sv c) IN
                  emit (rc ++ rc_services sv) (usrmsg (s_prefix s) "MODE" (channelname :: irc_params modes))
              end
    end
  else
    let nick := nick_to_lower channelname in
    match sv_nicks sv !! nick with
    | Some tk =>
        if negb (String.eqb nick (nick_to_lower (s_nick s))) && negb (s_operator s) then
          reply_num k "502" [s_nick s; "Can't change mode for other users"]
        else
          DO t <- sessM tk IN
          let modes := normalize_modes m in
          if Nat.eqb (List.length modes) 0 then
            emit (rc_user k ++ rc_services sv) (usrmsg (s_prefix s) "MODE" [s_nick t; modestr_of (s_modes t)])
          else
            forM modes (fun md =>
              if (mc_char md =? 105)%N || (mc_char md =? 71)%N
              then updSess tk (ss_modes (set_mode (mc_char md) (mc_add md))) else retM tt) ;;;
            DO s <- sessM k IN DO t <- sessM tk IN
            emit (rc_user tk ++ rc_services sv)
                 (usrmsg (s_prefix s) "MODE" [s_nick t; hd EmptyString (irc_params modes)])
    | None => reply_num k "442" [s_nick s; channelname; "You're not on that channel"]
    end.

(* ---- TOPIC / NAMES --------------------------------------------------------------------------------- *)
(* The membership test precedes the +t test on every path that sets or clears the topic
   (repaired code, see known_findings: fixed C06/C13 cmdTopic). *)
Definition cmd_topic (k : skey) (m : imsg) : M unit :=
  DO channel <- param m 0 IN
  DO s <- sessM k IN DO sv <- getS IN
  let lc := chan_to_lower channel in
  match sv_channels sv !! lc with
  | None => reply_num k "403" [s_nick s; channel; "No such channel"]
  | Some c =>
      if negb (in_set lc (s_channels s)) then
        reply_num k "442" [s_nick s; channel; "You're not on that channel"]
      else if is_empty (trailing m) && Nat.eqb (nparams m) 2 then
        DO o <- chanop_of c (nick_to_lower (s_nick s)) IN
        if has_mode 116 (c_modes c) && negb o then
          reply_num k "482" [s_nick s; channel; "You're not channel operator"]
        else
          updChan lc (cc_topic "" None "") ;;;
          DO rc <- liftR (rc_channel sv c) IN
          emit rc (usrmsg (s_prefix s) "TOPIC" [channel; trailing m]) ;;;
          emit (rc_services sv) (usrmsg (Prefix (s_nick s) "" "") "TOPIC" [channel; s_nick s; "0"; trailing m])
      else if Nat.eqb (nparams m) 1 then
        match c_topicTime c with
        | None => reply_num k "331" [s_nick s; channel; "No topic is set"]
        | Some _ =>
            reply_num k "332" [s_nick s; channel; c_topic c] ;;;
            reply_num k "333" [s_nick s; channel; c_topicNick c; dec_of_Z (tunix (c_topicTime c))]
        end
      else
        DO o <- chanop_of c (nick_to_lower (s_nick s)) IN
        if has_mode 116 (c_modes c) && negb o then
          reply_num k "482" [s_nick s; channel; "You're not channel operator"]
        else
          updChan lc (cc_topic (s_nick s) (s_lastActivity s) (trailing m)) ;;;
          DO rc <- liftR (rc_channel sv c) IN
          emit rc (usrmsg (s_prefix s) "TOPIC" [channel; trailing m]) ;;;
          emit (rc_services sv) (usrmsg (Prefix (s_nick s) "" "") "TOPIC"
                 [channel; s_nick s; dec_of_Z (tunix (s_lastActivity s)); trailing m])
  end.

(* i.nicks[nick] dereferenced for a member key: nil if the index lacks it *)
Definition member_session (sv : server) (lcnick : string) : res session :=
  match sv_nicks sv !! lcnick with
  | Some tk => match sv_sessions sv !! tk with
               | Some t => Ok t
               | None => Gap "session-pointer-outside-map"
               end
  | None => Panic "nil pointer: i.nicks[nick] for a channel member"
  end.

Fixpoint collectM {A B} (l : list A) (f : A -> res (option B)) : res (list B) :=
  match l with
  | [] => Ok []
  | x :: r => match f x with
              | Ok o => match collectM r f with
                        | Ok bs => Ok (match o with Some b => b :: bs | None => bs end)
                        | e => e end
              | Panic s => Panic s
              | Gap s => Gap s
              end
  end.

Definition cmd_names (k : skey) (m : imsg) : M unit :=
  DO s <- sessM k IN DO sv <- getS IN
  match m_params m with
  | channelname :: _ =>
      let lc := chan_to_lower channelname in
      match sv_channels sv !! lc with
      | Some c =>
          DO nicks <- liftR (collectM (B:=string) (map_to_list (c_nicks c)) (fun kv : string * (bool * bool) =>
             match member_session sv (fst kv) with
             | Ok t => if has_mode 105 (s_modes t) && negb (in_set lc (s_channels s)) then Ok None
                       else Ok (Some ((if fst (snd kv) then "@" else EmptyString) ++ s_nick t))
             | Panic e => Panic e | Gap e => Gap e
             end)) IN
          reply_num k "353" [s_nick s; "="; channelname; sjoin " " (sort_strings nicks)] ;;;
          reply_num k "366" [s_nick s; channelname; "End of /NAMES list."]
      | None => reply_num k "366" [s_nick s; "*"; "End of /NAMES list."]
      end
  | [] => reply_num k "366" [s_nick s; "*"; "End of /NAMES list."]
  end.

(* ---- JOIN / PART / KICK / INVITE --------------------------------------------------------------------- *)
(* the member entry and the session's channel list change together; a channel that does not
   exist yet is inserted together with its first member (the Go code inserts the empty channel a
   few statements earlier, nothing can observe it in between) *)
Definition add_member (lc : string) (c0 : chan) (lcnick : string) (tk : skey) (op : bool) : M unit :=
  modS (set_channels (<[lc := cc_nicks (<[lcnick := (op, false)]>) c0]>)) ;;;
  updSess tk (ss_channels (fun cs => {[ lc ]} ∪ cs)).

Definition new_chan (name : string) (modes : gset N) : chan := Chan name "" None "" ∅ modes "" [].

Definition join_one (e : env) (k : skey) (channelname key : string) : M unit :=
  DO s <- sessM k IN DO sv <- getS IN
  let lc := chan_to_lower channelname in
  let nosuch := reply_num k "403" [s_nick s; channelname; "No such channel"] in
  if negb (valid_chan channelname) then nosuch
  else
    (* None = `continue`; Some (created, channel) = go on *)
    DO go <- (match sv_channels sv !! lc with
      | None =>
          let limit := g_maxChannels (sv_config sv) in
          if (limit <=? N.of_nat (size (sv_channels sv)))%N && (0 <? limit)%N then nosuch ;;; retM None
          else retM (Some (true, new_chan channelname {[ 110%N; 116%N ]}))
      | Some c =>
          let invited := in_set lc (s_invited s) in
          if has_mode 105 (c_modes c) && negb invited then
            reply_num k "473" [s_nick s; c_name c; "Cannot join channel (+i)"] ;;; retM None
          else if has_mode 120 (c_modes c) && negb invited then
            DO ok <- verify_captcha e k key IN
            if ok then
              (* the captcha replaces the invitation and the key, it does not lift bans (repaired code) *)
              if banned (c_bans c) (prefix_string (s_prefix s)) (s_nick s ++ "!" ++ s_user s ++ "@" ++ s_remoteAddr s) then
                reply_num k "474" [s_nick s; c_name c; "Cannot join channel (+b)"] ;;; retM None
              else retM (Some (false, c))
            else
              captcha_url_check k ;;;
              reply_num k "NOTICE" [s_nick s; "To join " ++ c_name c ++ ", please go to MASKED"] ;;;
              reply_num k "473" [s_nick s; c_name c; "Cannot join channel (+x). Please go to MASKED"] ;;;
              retM None
          else if banned (c_bans c) (prefix_string (s_prefix s)) (s_nick s ++ "!" ++ s_user s ++ "@" ++ s_remoteAddr s) then
            reply_num k "474" [s_nick s; c_name c; "Cannot join channel (+b)"] ;;; retM None
          else if has_mode 107 (c_modes c) && negb (String.eqb (c_key c) key) then
            reply_num k "475" [s_nick s; channelname; "Cannot join channel (+k) - Incorrect key"] ;;; retM None
          else retM (Some (false, c))
      end) IN
    match go with
    | None => retM tt
    | Some (created, c) =>
        whenM (has_mode 105 (c_modes c) || has_mode 120 (c_modes c))
              (updSess k (ss_invited (fun i => i ∖ {[ lc ]}))) ;;;
        let me := nick_to_lower (s_nick s) in
        if bool_decide (is_Some (c_nicks c !! me)) then retM tt
        else
          add_member lc c me k created ;;;
          DO sv <- getS IN
          DO rc <- liftR (rc_channel sv (cc_nicks (<[me := (created, false)]>) c)) IN
          emit rc (usrmsg (s_prefix s) "JOIN" [channelname]) ;;;
          whenM created (emit rc (srvmsg sv "MODE" [channelname; "+nt"])) ;;;
          emit (rc_services sv) (srvmsg sv "SJOIN" ["1"; channelname; (if created then "@" else EmptyString) ++ s_nick s]) ;;;
          cmd_mode k (IMsg None "MODE" [channelname]) ;;;
          cmd_topic k (IMsg None "TOPIC" [channelname]) ;;;
          cmd_names k (IMsg None "NAMES" [channelname])
    end.

Fixpoint zip_keys (chs keys : list string) : list (string * string) :=
  match chs with
  | [] => []
  | c :: r => match keys with
              | k :: kr => (c, k) :: zip_keys r kr
              | [] => (c, EmptyString) :: zip_keys r []
              end
  end.

Definition cmd_join (e : env) (k : skey) (m : imsg) : M unit :=
  DO p0 <- param m 0 IN
  let keys := match m_params m with _ :: ks :: _ => split_on ","%char ks | _ => [] end in
  forM (zip_keys (split_on ","%char p0) keys) (fun ck => join_one e k (fst ck) (snd ck)).

(* delete(c.nicks, nick); maybeDeleteChannel(c); delete(session.Channels, lc) *)
Definition leave_channel (lc lcnick : string) (tk : skey) : M unit :=
  updChan lc (cc_nicks (delete lcnick)) ;;;
  maybe_delete_channel lc ;;;
  updSess tk (ss_channels (fun cs => cs ∖ {[ lc ]})).

Definition cmd_part (k : skey) (m : imsg) : M unit :=
  DO p0 <- param m 0 IN
  forM (split_on ","%char p0) (fun channelname =>
    DO s <- sessM k IN DO sv <- getS IN
    let lc := chan_to_lower channelname in
    match sv_channels sv !! lc with
    | None => reply_num k "403" [s_nick s; channelname; "No such channel"]
    | Some c =>
        if negb (bool_decide (is_Some (c_nicks c !! nick_to_lower (s_nick s)))) then
          reply_num k "442" [s_nick s; channelname; "You're not on that channel"]
        else
          DO rc <- liftR (rc_channel sv c) IN
          emit (rc ++ rc_services sv) (usrmsg (s_prefix s) "PART" [channelname]) ;;;
          leave_channel lc (nick_to_lower (s_nick s)) k
    end).

Definition cmd_kick (k : skey) (m : imsg) : M unit :=
  DO channelname <- param m 0 IN DO target <- param m 1 IN
  DO s <- sessM k IN DO sv <- getS IN
  let lc := chan_to_lower channelname in
  match sv_channels sv !! lc with
  | None => reply_num k "403" [s_nick s; channelname; "No such nick/channel"]
  | Some c =>
      match c_nicks c !! nick_to_lower (s_nick s) with
      | None => reply_num k "442" [s_nick s; channelname; "You're not on that channel"]
      | Some (o, _) =>
          if negb o then reply_num k "482" [s_nick s; channelname; "You're not channel operator"]
          else if negb (bool_decide (is_Some (c_nicks c !! nick_to_lower target))) then
            reply_num k "441" [s_nick s; target; channelname; "They aren't on that channel"]
          else
            DO rc <- liftR (rc_channel sv c) IN
            emit (rc ++ rc_services sv) (usrmsg (s_prefix s) "KICK" [channelname; target; trailing m]) ;;;
            match sv_nicks sv !! nick_to_lower target with
            | None => panicM "nil pointer: i.nicks[target] for a channel member"
            | Some tk => leave_channel lc (nick_to_lower target) tk
            end
      end
  end.

Definition cmd_invite (k : skey) (m : imsg) : M unit :=
  DO nickname <- param m 0 IN DO channelname <- param m 1 IN
  DO s <- sessM k IN DO sv <- getS IN
  let lc := chan_to_lower channelname in
  let noton := reply_num k "442" [s_nick s; channelname; "You're not on that channel"] in
  match sv_channels sv !! lc with
  | None => noton
  | Some c =>
      match c_nicks c !! nick_to_lower (s_nick s) with
      | None => noton
      | Some (o, _) =>
          match sv_nicks sv !! nick_to_lower nickname with
          | None => reply_num k "401" [s_nick s; nickname; "No such nick/channel"]
          | Some tk =>
              DO t <- sessM tk IN
              if bool_decide (is_Some (c_nicks c !! nick_to_lower nickname)) then
                reply_num k "443" [s_nick s; s_nick t; c_name c; "is already on channel"]
              else if has_mode 105 (c_modes c) && negb o then
                reply_num k "482" [s_nick s; c_name c; "You're not channel operator"]
              else
                updSess tk (ss_invited (fun i => {[ lc ]} ∪ i)) ;;;
                reply_num k "341" [s_nick s; s_nick t; c_name c] ;;;
                emit (rc_user tk ++ rc_services sv) (usrmsg (s_prefix s) "INVITE" [s_nick t; c_name c]) ;;;
                DO rc <- liftR (rc_channel sv c) IN
                emit rc (srvmsg sv "NOTICE" [c_name c; s_nick s ++ " invited " ++ nickname ++ " into the channel."]) ;;;
                whenM (negb (is_empty (s_away t))) (reply_num k "301" [s_nick s; nickname; s_away t])
          end
      end
  end.

(* ---- PRIVMSG / NOTICE -------------------------------------------------------------------------------- *)
Definition cmd_privmsg (k : skey) (m : imsg) : M unit :=
  DO s <- sessM k IN DO sv <- getS IN
  match m_params m with
  | [] => reply_num k "411" [s_nick s; "No recipient given (" ++ m_cmd m ++ ")"]
  | [_] => reply_num k "412" [s_nick s; "No text to send"]
  | target :: _ =>
      if has_prefix "#" target then
        match sv_channels sv !! chan_to_lower target with
        | None => reply_num k "403" [s_nick s; target; "No such channel"]
        | Some c =>
            if negb (bool_decide (is_Some (c_nicks c !! nick_to_lower (s_nick s)))) && has_mode 110 (c_modes c) then
              reply_num k "404" [s_nick s; c_name c; "Cannot send to channel"]
            else
              DO rc <- liftR (rc_channel_but sv c k) IN
              emit rc (usrmsg (s_prefix s) (m_cmd m) [target; trailing m])
        end
      else if has_prefix "$" target then
        if s_operator s then emit (rc_all sv) (usrmsg (s_prefix s) (m_cmd m) [target; trailing m])
        else reply_num k "481" [s_nick s; "Permission Denied - You're not an IRC operator"]
      else
        match sv_nicks sv !! nick_to_lower target with
        | None => reply_num k "401" [s_nick s; target; "No such nick/channel"]
        | Some tk =>
            DO t <- sessM tk IN
            if has_mode 71 (s_modes t) && bool_decide (s_channels t ∩ s_channels s = ∅) then retM tt
            else
              emit (rc_user tk) (usrmsg (s_prefix s) (m_cmd m) [target; trailing m]) ;;;
              whenM (negb (is_empty (s_away t)) && String.eqb (m_cmd m) "PRIVMSG")
                    (reply_num k "301" [s_nick s; target; s_away t])
        end
  end.

Definition service_alias (cmd : string) : option string :=
  assoc_str cmd [("NICKSERV", "PRIVMSG NickServ :"); ("NS", "PRIVMSG NickServ :");
                 ("CHANSERV", "PRIVMSG ChanServ :"); ("CS", "PRIVMSG ChanServ :");
                 ("OPERSERV", "PRIVMSG OperServ :"); ("OS", "PRIVMSG OperServ :");
                 ("MEMOSERV", "PRIVMSG MemoServ :"); ("MS", "PRIVMSG MemoServ :");
                 ("HOSTSERV", "PRIVMSG HostServ :"); ("HS", "PRIVMSG HostServ :");
                 ("BOTSERV", "PRIVMSG BotServ :"); ("BS", "PRIVMSG BotServ :")].

Definition cmd_service_alias (k : skey) (m : imsg) : M unit :=
  match service_alias (to_upper (m_cmd m)) with
  | Some expanded =>
      match parse_message (expanded ++ sjoin " " (m_params m)) with
      | Some p => cmd_privmsg k p
      | None => panicM "nil pointer: irc.ParseMessage(alias) returned nil"
      end
  | None => retM tt
  end.

(* ---- WHO / WHOIS / LIST / AWAY / ISON / USERHOST / KNOCK / PING --------------------------------------------- *)
Definition cmd_who (k : skey) (m : imsg) : M unit :=
  DO s <- sessM k IN DO sv <- getS IN
  match m_params m with
  | [] => reply_num k "315" [s_nick s; "End of /WHO list"]
  | channelname :: _ =>
      let lc := chan_to_lower channelname in
      let last := reply_num k "315" [s_nick s; channelname; "End of /WHO list"] in
      match sv_channels sv !! lc with
      | None => last
      | Some c =>
          if has_mode 115 (c_modes c) && negb (bool_decide (is_Some (c_nicks c !! nick_to_lower (s_nick s)))) then last
          else
            DO nicks <- liftR (collectM (B:=string) (map_to_list (c_nicks c)) (fun kv : string * (bool * bool) =>
               match member_session sv (fst kv) with
               | Ok t => if has_mode 105 (s_modes t) && negb (in_set lc (s_channels s)) then Ok None
                         else Ok (Some (s_nick t))
               | Panic e => Panic e | Gap e => Gap e
               end)) IN
            forM (sort_strings nicks) (fun nick =>
              DO t <- liftR (member_session sv (nick_to_lower nick)) IN
              let p := s_prefix t in
              reply_num k "352" [s_nick s; channelname; p_user p; p_host p; sv_netname sv; p_name p;
                                 (if is_empty (s_away t) then "H" else "G"); "0 " ++ s_real t]) ;;;
            last
      end
  end.

Definition second : Z := 1000000000.

Definition cmd_whois (k : skey) (m : imsg) : M unit :=
  DO p0 <- param m 0 IN
  DO s <- sessM k IN DO sv <- getS IN
  match sv_nicks sv !! nick_to_lower p0 with
  | None => reply_num k "401" [s_nick s; p0; "No such nick/channel"]
  | Some tk =>
      DO t <- sessM tk IN
      reply_num k "311" [s_nick s; s_nick t; p_user (s_prefix t); p_host (s_prefix t); "*"; s_real t] ;;;
      DO chans <- liftR (collectM (B:=string) (elements (s_channels t)) (fun ch : string =>
         match sv_channels sv !! ch with
         | None => Panic "nil pointer: i.channels[channel] for a listed channel"
         | Some c =>
             if has_mode 115 (c_modes c) && negb (s_operator s) && negb (in_set ch (s_channels s)) then Ok None
             else match (c_nicks c !! nick_to_lower (s_nick t) : option (bool * bool)) with
                  | None => Panic "nil pointer: c.nicks[nick][chanop] for a non-member"
                  | Some (o, _) => Ok (Some ((if o then "@" else EmptyString) ++ c_name c))
                  end
         end)) IN
      whenM (Nat.ltb 0 (List.length chans))
            (reply_num k "319" [s_nick s; s_nick t; sjoin " " (sort_strings chans)]) ;;;
      reply_num k "312" [s_nick s; s_nick t; sv_netname sv; "RobustIRC"] ;;;
      whenM (s_operator t) (reply_num k "313" [s_nick s; s_nick t; "is an IRC operator"]) ;;;
      whenM (negb (is_empty (s_away t))) (reply_num k "301" [s_nick s; s_nick t; s_away t]) ;;;
      reply_num k "317" [s_nick s; s_nick t;
                         dec_of_Z (Z.quot (tsub (s_lastActivity s) (s_lastNonPing t)) second);
                         dec_of_Z (s_created t / second)%Z; "seconds idle, signon time"] ;;;
      whenM (has_mode 114 (s_modes t)) (reply_num k "307" [s_nick s; s_nick t; "user has identified to services"]) ;;;
      reply_num k "318" [s_nick s; s_nick t; "End of /WHOIS list"]
  end.

Definition cmd_list (k : skey) (m : imsg) : M unit :=
  DO s <- sessM k IN DO sv <- getS IN
  let filter_ := match m_params m with
                 | p :: _ => let st := trim_space p in if is_empty st then [] else split_on ","%char st
                 | [] => [] end in
  let channels :=
    if Nat.ltb 0 (List.length filter_) then
      filter (fun lc => bool_decide (is_Some (sv_channels sv !! lc))) (map (fun ch => chan_to_lower (trim_space ch)) filter_)
    else sort_strings (map_to_list (sv_channels sv)).*1 in
  forM channels (fun lc =>
    match sv_channels sv !! lc with
    | None => panicM "nil pointer: i.channels[channel]"
    | Some c =>
        if has_mode 115 (c_modes c) && negb (s_operator s) && negb (in_set lc (s_channels s)) then retM tt
        else reply_num k "322" [s_nick s; c_name c; dec_of_nat (size (c_nicks c)); c_topic c]
    end) ;;;
  reply_num k "323" [s_nick s; "End of LIST"].

Definition cmd_away (k : skey) (m : imsg) : M unit :=
  updSess k (ss_away (trim_space (trailing m))) ;;;
  DO s <- sessM k IN
  if negb (is_empty (s_away s)) then reply_num k "306" [s_nick s; "You have been marked as being away"]
  else reply_num k "305" [s_nick s; "You are no longer marked as being away"].

Definition cmd_ison (k : skey) (m : imsg) : M unit :=
  DO s <- sessM k IN DO sv <- getS IN
  DO online <- liftR (collectM (B:=string) (m_params m) (fun n : string =>
     match sv_nicks sv !! nick_to_lower n with
     | Some tk => match sv_sessions sv !! tk with Some t => Ok (Some (s_nick t)) | None => Gap "session-pointer-outside-map" end
     | None => Ok None end)) IN
  reply_num k "303" [s_nick s; sjoin " " online].

Definition cmd_userhost (k : skey) (m : imsg) : M unit :=
  DO s <- sessM k IN DO sv <- getS IN
  DO hosts <- liftR (collectM (B:=string) (m_params m) (fun n : string =>
     match sv_nicks sv !! nick_to_lower n with
     | Some tk => match sv_sessions sv !! tk with
                  | Some t => Ok (Some (s_nick t ++ (if s_operator t then "*" else EmptyString) ++ "=" ++
                                        (if is_empty (s_away t) then "+" else "-") ++ prefix_string (s_prefix t)))
                  | None => Gap "session-pointer-outside-map" end
     | None => Ok None end)) IN
  reply_num k "302" [s_nick s; sjoin " " hosts].

Definition cmd_knock (k : skey) (m : imsg) : M unit :=
  DO channelname <- param m 0 IN
  DO s <- sessM k IN DO sv <- getS IN
  match sv_channels sv !! chan_to_lower channelname with
  | None => reply_num k "480" [s_nick s; "Cannot knock on " ++ channelname ++ " (Channel does not exist)"]
  | Some c =>
      if negb (has_mode 105 (c_modes c)) then
        reply_num k "480" [s_nick s; "Cannot knock on " ++ channelname ++ " (Channel is not invite only)"]
      else
        let reason := if Nat.ltb 1 (nparams m) then sjoin " " (tl (m_params m)) else "no reason specified" in
        DO rc <- liftR (rc_channel sv c) IN
        emit rc (srvmsg sv "NOTICE" [c_name c; "[Knock] by " ++ prefix_string (s_prefix s) ++ " (" ++ reason ++ ")"]) ;;;
        reply_num k "NOTICE" [s_nick s; "Knocked on " ++ c_name c]
  end.

Definition cmd_ping (k : skey) (m : imsg) : M unit :=
  DO s <- sessM k IN
  match m_params m with
  | [] => reply_num k "409" [s_nick s; "No origin specified"]
  | p :: _ => reply_num k "PONG" [p]
  end.

(* ---- QUIT / KILL / GLINE --------------------------------------------------------------------------------- *)
Definition cmd_quit (k : skey) (m : imsg) : M unit :=
  delete_session k ;;;
  DO s <- sessM k IN
  whenM (s_loggedIn s)
    (DO sv <- getS IN
     DO common <- liftR (rc_common sv s) IN
     emit (common ++ rc_services sv) (usrmsg (s_prefix s) "QUIT" [trailing m]) ;;;
     emit (rc_user k) (noprefix "ERROR" ["Closing Link: " ++ s_nick s ++ "[" ++ p_host (s_prefix s) ++ "] (" ++ trailing m ++ ")"])).

Definition cmd_kill (k : skey) (m : imsg) : M unit :=
  DO s <- sessM k IN DO sv <- getS IN
  if negb (s_operator s) then reply_num k "481" [s_nick s; "Permission Denied - You're not an IRC operator"]
  else
    DO p0 <- param m 0 IN
    match sv_nicks sv !! nick_to_lower p0 with
    | None => reply_num k "401" [s_nick s; p0; "No such nick/channel"]
    | Some tk =>
        delete_session tk ;;;
        DO t <- sessM tk IN DO sv <- getS IN
        DO common <- liftR (rc_common sv t) IN
        emit (common ++ rc_services sv) (usrmsg (s_prefix t) "QUIT" ["Killed by " ++ s_nick s ++ ": " ++ trailing m]) ;;;
        emit (rc_user tk) (usrmsg (s_prefix s) "KILL"
               [s_nick t; "ircd!" ++ p_host (s_prefix s) ++ "!" ++ s_nick s ++ " (" ++ trailing m ++ ")"]) ;;;
        emit (rc_user tk) (noprefix "ERROR"
               ["Closing Link: " ++ s_nick t ++ "[" ++ p_host (s_prefix t) ++ "] (Killed (" ++ s_nick s ++ " (" ++ trailing m ++ ")))"])
    end.

Definition cmd_gline (k : skey) (m : imsg) : M unit :=
  DO s <- sessM k IN DO sv <- getS IN
  if negb (s_operator s) then reply_num k "481" [s_nick s; "Permission Denied - You're not an IRC operator"]
  else
    DO p0 <- param m 0 IN
    match sv_nicks sv !! nick_to_lower p0 with
    | None => reply_num k "401" [s_nick s; p0; "No such nick/channel"]
    | Some tk =>
        DO t <- sessM tk IN
        if is_empty (s_remoteAddr t) then
          reply_num k "NOTICE" [s_nick s; "Cannot kill " ++ s_nick t ++ ": no IP address known yet"]
        else
          modS (set_config (fun g => Config (g_revision g) (g_expiration g) (g_cooloff g) (g_maxSessions g)
                  (g_maxChannels g) (g_captchaURL g) (g_captchaHMAC g) (g_captchaLogin g) (g_operators g)
                  (g_services g) (<[s_remoteAddr t := trailing m]> (g_banned g)) (g_trustedBridges g)
                  (g_whitelistedOrigins g))) ;;;
          cmd_kill k m
    end.
