(* C12 — messages reach exactly the entitled sessions under the sender's identity.
   Proved for the relayed text messages (the part of the property about eavesdropping and speaking as
   somebody else); the recipient rules for membership events are covered by the correspondence check and
   the reference-membership monitor. *)
From stdpp Require Import gmap.
From Coq Require Import Strings.String List.
From RV Require Import Irc.Str Irc.Parse Irc.State Irc.Monad Irc.Cmds.
From RV Require Import IrcProofs.Inv IrcProofs.Recipients.
Local Open Scope string_scope.

Theorem C12_channel_text : forall k m sv r s target rest c,
  InvM sv -> sv_sessions sv !! k = Some s -> m_params m = target :: rest -> rest <> [] ->
  has_prefix "#" target = true -> sv_channels sv !! chan_to_lower target = Some c ->
  (is_Some (c_nicks c !! nick_to_lower (s_nick s)) \/ has_mode 110 (c_modes c) = false) ->
  exists o, cmd_privmsg k m sv r = Ok (tt, sv, RCtx (r_msgid r) (o :: r_out r)) /\
    o_data o = msg_bytes (usrmsg (s_prefix s) (m_cmd m) [target; trailing m]) /\
    (forall id, In id (o_rcpt o) <->
       exists n p k', c_nicks c !! n = Some p /\ sv_nicks sv !! n = Some k' /\ k' <> k /\ id = fst k').
Proof. exact privmsg_channel. Qed.
Print Assumptions C12_channel_text.

Theorem C12_private_text : forall (k : N * N) m sv r s target rest (tk : N * N) t,
  sv_sessions sv !! k = Some s -> m_params m = target :: rest -> rest <> [] ->
  has_prefix "#" target = false -> has_prefix "$" target = false ->
  sv_nicks sv !! nick_to_lower target = Some tk -> sv_sessions sv !! tk = Some t ->
  (has_mode 71 (s_modes t) = false \/ s_channels t ∩ s_channels s <> ∅) ->
  exists r' o away, cmd_privmsg k m sv r = Ok (tt, sv, r') /\
    r_out r' = (away ++ o :: r_out r)%list /\
    o_data o = msg_bytes (usrmsg (s_prefix s) (m_cmd m) [target; trailing m]) /\ o_rcpt o = [fst tk] /\
    (forall a, In a away -> o_rcpt a = [fst k]).
Proof. exact privmsg_private. Qed.
Print Assumptions C12_private_text.
