#!/usr/bin/env python3
# seedtable.py — markdown table of /verif/seeded/*/meta.json (what each seeded change is, which check caught it and how)
import json, os, sys
root = "/verif/seeded"
rows = []
for name in sorted(os.listdir(root)):
    mp = os.path.join(root, name, "meta.json")
    if not os.path.exists(mp):
        continue
    m = json.load(open(mp))
    det = m.get("detection", {})
    cells = []
    for p in sorted(det):
        d = det[p]
        sigs = [v["sig"] for v in d.get("violations", [])]
        conc = any(v.get("concrete") for v in d.get("violations", []))
        if d["exit"] == 1:
            cells.append("%s: **caught** (%s)%s" % (p, ", ".join(s[:48] for s in sigs[:2]) or "?", "" if conc else " — no-failing-input-found"))
        else:
            cells.append("%s: missed" % p)
    summ = (m.get("summary") or m.get("what") or "").replace("\n", " ").replace("|", "/")
    rows.append("| `%s` | %s | %s | %s |" % (name, m.get("property"), summ[:230] + ("…" if len(summ) > 230 else ""), "; ".join(cells) or "not run"))
print("| seeded change | property | what it does | result of `bin/check` (quick tier) |")
print("|---|---|---|---|")
print("\n".join(rows))
