(* C14 — IRC state stays consistent: unique nicks, symmetric membership, no empty channels,
   members are live sessions reachable by their current nickname.
   Names: every owned nickname / channel name is syntactically valid in every reachable state (C14_names_valid; the only
   hypothesis beyond client input is that NICK lines of an authenticated services link carry a valid nickname —
   part of `conforming`; without it the clause fails, C14_names_refuted: scmd_nick.go does not validate).
   Limits: "count <= limit" is not an invariant as such (a Config entry may lower a limit below the count);
   C14_limits_step is the strongest true per-entry statement, C14_limits the history form under `configs_keep`. *)
From stdpp Require Import gmap.
From Coq Require Import Strings.String.
From RV Require Import Irc.Str Irc.State Irc.Cmds Irc.Apply.
From Coq Require Import NArith.
From RV Require Import IrcProofs.Inv IrcProofs.Top IrcProofs.Examples.
From RV Require Import IrcProofs.Names.
Local Open Scope string_scope.

(* after every entry of every well-formed history the invariant holds (and the history ran to the end) *)
Theorem C14_inv : forall e net es,
  wf_history e (init_server net) es ->
  exists sv', run e (init_server net) es = Some sv' /\ EInv sv'.
Proof. exact no_panic. Qed.
Print Assumptions C14_inv.

(* one step: any state satisfying the invariant, any well-formed entry *)
Theorem C14_step : forall e sv en,
  EInv sv -> wf_entry sv en -> exists sv', entry_result (apply_entry e sv en) = Some sv' /\ EInv sv'.
Proof. exact apply_entry_ok. Qed.
Print Assumptions C14_step.

Theorem C14_unique_nicks : forall sv k1 k2 s1 s2,
  EInv sv -> sv_sessions sv !! k1 = Some s1 -> sv_sessions sv !! k2 = Some s2 ->
  s_nick s1 <> "" -> nick_to_lower (s_nick s1) = nick_to_lower (s_nick s2) -> k1 = k2.
Proof. exact unique_nicks. Qed.
Print Assumptions C14_unique_nicks.

Theorem C14_membership_symmetric : forall sv k s lc,
  EInv sv -> sv_sessions sv !! k = Some s ->
  (lc ∈ s_channels s <-> exists c, sv_channels sv !! lc = Some c /\ is_Some (c_nicks c !! nick_to_lower (s_nick s)) /\
                                    sv_nicks sv !! nick_to_lower (s_nick s) = Some k).
Proof. exact membership_symmetric. Qed.
Print Assumptions C14_membership_symmetric.

Theorem C14_channels : forall sv lc c,
  EInv sv -> sv_channels sv !! lc = Some c ->
  c_nicks c <> ∅ /\ chan_to_lower (c_name c) = lc /\
  forall n p, c_nicks c !! n = Some p ->
    exists k s, sv_nicks sv !! n = Some k /\ sv_sessions sv !! k = Some s /\ s_deleted s = false /\
                nick_to_lower (s_nick s) = n /\ lc ∈ s_channels s.
Proof. exact channels_nonempty_members_live. Qed.
Print Assumptions C14_channels.

(* the hypotheses are satisfiable *)
Theorem C14_nonvacuous : wf_history ex_env (init_server "robustirc.net") ex_history.
Proof. exact ex_history_wf. Qed.
Print Assumptions C14_nonvacuous.

(* every owned nickname and every channel name is syntactically valid; the tables are keyed by the folded names *)
Theorem C14_names_valid : forall e net es,
  wf_history e (init_server net) es ->
  exists sv', run e (init_server net) es = Some sv' /\
    (forall (k : N * N) s, sv_sessions sv' !! k = Some s ->
       s_nick s = "" \/ (valid_nick (s_nick s) = true /\ sv_nicks sv' !! nick_to_lower (s_nick s) = Some k)) /\
    (forall n (k : N * N), sv_nicks sv' !! n = Some k ->
       exists s, sv_sessions sv' !! k = Some s /\ valid_nick (s_nick s) = true /\ nick_to_lower (s_nick s) = n) /\
    (forall lc c, sv_channels sv' !! lc = Some c -> valid_chan (c_name c) = true /\ chan_to_lower (c_name c) = lc).
Proof. exact C14_names_valid_stmt. Qed.
Print Assumptions C14_names_valid.

(* validity needs only that NICK lines of services links carry a valid nickname (no well-formedness, no base invariant) *)
Theorem C14_names_valid_any_history : forall e net es sv',
  nick_history e (init_server net) es -> run e (init_server net) es = Some sv' ->
  (forall (k : N * N) s, sv_sessions sv' !! k = Some s -> s_nick s = "" \/ valid_nick (s_nick s) = true) /\
  (forall lc c, sv_channels sv' !! lc = Some c -> valid_chan (c_name c) = true).
Proof. exact C14_names_valid_any_history_stmt. Qed.
Print Assumptions C14_names_valid_any_history.

(* ... and without that hypothesis the clause fails: scmd_nick.go does not validate the nickname of a new pseudo-client *)
Theorem C14_names_refuted :
  exists sv' (k : N * N) s,
    run ex_env (init_server "robustirc.net") bad_nick_history = Some sv' /\
    sv_sessions sv' !! k = Some s /\ s_nick s = "1bad,nick" /\ valid_nick (s_nick s) = false /\
    sv_nicks sv' !! nick_to_lower (s_nick s) = Some k /\ ~ NV sv'.
Proof. exact names_refuted. Qed.
Print Assumptions C14_names_refuted.

(* one entry: limits change only by a configuration entry; each count ends at most at max(old count, limit); 0 = no limit *)
Theorem C14_limits_step : forall e sv en sv',
  entry_result (apply_entry e sv en) = Some sv' ->
  (max_sessions sv = 0 \/ nsess sv' <= N.max (nsess sv) (max_sessions sv))%N /\
  (max_channels sv = 0 \/ nchan sv' <= N.max (nchan sv) (max_channels sv))%N /\
  match en with
  | EConfig _ _ rev (Some g) =>
      (if (rev =? g_revision (sv_config sv) + 1)%N
       then max_sessions sv' = g_maxSessions g /\ max_channels sv' = g_maxChannels g
       else max_sessions sv' = max_sessions sv /\ max_channels sv' = max_channels sv) /\
      nsess sv' = nsess sv /\ nchan sv' = nchan sv
  | _ => max_sessions sv' = max_sessions sv /\ max_channels sv' = max_channels sv
  end.
Proof. exact limits_step. Qed.
Print Assumptions C14_limits_step.

(* histories in which no configuration change sets a limit below the count of that moment: never exceeded *)
Theorem C14_limits : forall e net es,
  wf_history e (init_server net) es -> configs_keep e (init_server net) es ->
  exists sv', run e (init_server net) es = Some sv' /\
    (max_sessions sv' = 0 \/ nsess sv' <= max_sessions sv')%N /\ (max_channels sv' = 0 \/ nchan sv' <= max_channels sv')%N.
Proof. exact limits_history. Qed.
Print Assumptions C14_limits.

(* the hypotheses are satisfiable by histories that reach non-trivial states and hit both limits *)
Theorem C14_names_limits_nonvacuous :
  (wf_history ex_env (init_server "robustirc.net") lim_history /\ configs_keep ex_env (init_server "robustirc.net") lim_history /\
   lim_refusals_b = true) /\
  (wf_history ex_env (init_server "robustirc.net") (firstn 9 ex_history) /\
   match state_after 9 ex_history with
   | Some sv' =>
       N.eqb (nsess sv') 2 && bool_decide (sv_nicks sv' !! "foo" = Some (1%N, 0%N)) &&
       bool_decide (sv_nicks sv' !! "bar" = Some (4%N, 0%N)) &&
       match sv_channels sv' !! "#chan" with
       | Some c => String.eqb (c_name c) "#Chan" && Nat.eqb (size (c_nicks c)) 2
       | None => false
       end
   | None => false
   end = true).
Proof. exact C14_nonvacuous_stmt. Qed.
Print Assumptions C14_names_limits_nonvacuous.
