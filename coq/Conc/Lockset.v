(* C20 — abstract execution model for lock discipline  =>  data-race freedom.
   Model file: definitions only (executable where possible); proofs are in LocksetProofs.v.

   Threads perform events on abstract locks and fields.  Locks have sync.RWMutex semantics
   (shared / exclusive holdings; sync.Mutex = always exclusive).  happens-before is induced by
   program order and by release -> later acquire of the same lock when at least one of the two
   holdings is exclusive (two RLock sections are NOT ordered).  This is the Go memory model
   restricted to mutex synchronisation; channels, WaitGroups, atomics and the memory model itself
   are outside. *)
From Coq Require Import String List Bool Arith.
Import ListNotations.
Local Open Scope string_scope.

Definition lock := string.
Definition field := string.
Definition tid := nat.

Inductive mode := Sh | Ex.
Inductive kind := Rd | Wr.

Inductive event :=
| Acq (l : lock) (m : mode)      (* RLock = Acq l Sh, Lock = Acq l Ex *)
| Rel (l : lock) (m : mode)      (* RUnlock = Rel l Sh, Unlock = Rel l Ex *)
| Acc (f : field) (k : kind).    (* read / write of a field *)

Definition trace := list (tid * event).

(* ---- lock state: the multiset of current holdings *)
Definition holding := (tid * lock * mode)%type.
Definition state := list holding.

Definition mode_eq_dec (a b : mode) : {a = b} + {a <> b}.
Proof. decide equality. Defined.

Definition holding_eq_dec (a b : holding) : {a = b} + {a <> b}.
Proof. decide equality; [apply mode_eq_dec | decide equality; [apply string_dec | apply Nat.eq_dec]]. Defined.

Fixpoint remove_one (h : holding) (s : state) : state :=
  match s with
  | [] => []
  | x :: r => if holding_eq_dec h x then r else x :: remove_one h r
  end.

Definition step (s : state) (te : tid * event) : state :=
  match te with
  | (t, Acq l m) => (t, l, m) :: s
  | (t, Rel l m) => remove_one (t, l, m) s
  | (_, Acc _ _) => s
  end.

(* state before the n-th event (0-based) *)
Definition state_at (tr : trace) (n : nat) : state := fold_left step (firstn n tr) [].

(* ---- well-formed traces: RWMutex semantics *)
Definition acq_ok (s : state) (l : lock) (m : mode) : Prop :=
  match m with
  | Ex => forall t' m', ~ In (t', l, m') s          (* Lock: nobody holds l in any mode *)
  | Sh => forall t', ~ In (t', l, Ex) s             (* RLock: nobody holds l exclusively *)
  end.

Definition step_ok (s : state) (te : tid * event) : Prop :=
  match te with
  | (_, Acq l m) => acq_ok s l m
  | (t, Rel l m) => In (t, l, m) s                  (* only a holder releases, in the mode it holds *)
  | (_, Acc _ _) => True
  end.

Definition wf (tr : trace) : Prop :=
  forall n te, nth_error tr n = Some te -> step_ok (state_at tr n) te.

(* ---- happens-before *)
Inductive hb (tr : trace) : nat -> nat -> Prop :=
| hb_po i j t e1 e2 :
    i < j -> nth_error tr i = Some (t, e1) -> nth_error tr j = Some (t, e2) -> hb tr i j
| hb_sw i j t1 t2 l m1 m2 :
    i < j -> nth_error tr i = Some (t1, Rel l m1) -> nth_error tr j = Some (t2, Acq l m2) ->
    (m1 = Ex \/ m2 = Ex) -> hb tr i j
| hb_trans i j k : hb tr i j -> hb tr j k -> hb tr i k.

(* ---- access summaries and the guard map *)
Record entry := mkEntry {
  e_fn : string;                    (* function containing the access ("file:function") *)
  e_field : field;
  e_kind : kind;
  e_held : list (lock * mode)       (* locks definitely held at the access *)
}.

(* Guarded ls: every write holds ALL locks of ls exclusively, every read holds at least ONE of them
   (shared suffices).  The usual single-lock guard is Guarded [l].
   Immutable: never written after publication (no write may appear in the table). *)
Inductive guard := Guarded (ls : list lock) | Immutable.

Definition guard_map_t := field -> option guard.

Definition mode_geb (have need : mode) : bool :=
  match need, have with
  | Sh, _ => true
  | Ex, Ex => true
  | Ex, Sh => false
  end.

Definition holds_mode (held : list (lock * mode)) (l : lock) (need : mode) : bool :=
  existsb (fun lm => String.eqb (fst lm) l && mode_geb (snd lm) need) held.

Definition is_wr (k : kind) : bool := match k with Wr => true | Rd => false end.

Definition written (S : list entry) (f : field) : bool :=
  existsb (fun e => String.eqb (e_field e) f && is_wr (e_kind e)) S.

Definition is_nil {A} (l : list A) : bool := match l with [] => true | _ => false end.

Definition entry_ok (gm : guard_map_t) (S : list entry) (e : entry) : bool :=
  match gm (e_field e) with
  | None => false                                   (* field not classified by the guard map *)
  | Some Immutable => negb (is_wr (e_kind e))
  | Some (Guarded ls) =>
      match e_kind e with
      | Wr => negb (is_nil ls) && forallb (fun l => holds_mode (e_held e) l Ex) ls
      | Rd => negb (written S (e_field e)) || existsb (fun l => holds_mode (e_held e) l Sh) ls
      end
  end.

Definition discipline_ok (gm : guard_map_t) (S : list entry) : bool := forallb (entry_ok gm S) S.

(* diagnostics: the offending entries *)
Definition breaches (gm : guard_map_t) (S : list entry) : list entry :=
  filter (fun e => negb (entry_ok gm S e)) S.

Definition is_some {A} (o : option A) : bool := match o with Some _ => true | None => false end.

(* every declared field of the tracked structs is classified (a new field cannot slip through) *)
Definition fields_classified (gm : guard_map_t) (fs : list field) : bool :=
  forallb (fun f => is_some (gm f)) fs.

(* ---- a trace follows a summary table *)
Definition holds (s : state) (t : tid) (l : lock) (need : mode) : Prop :=
  In (t, l, Ex) s \/ (need = Sh /\ In (t, l, Sh) s).

Definition justified (S : list entry) (s : state) (t : tid) (f : field) (k : kind) : Prop :=
  exists e, In e S /\ e_field e = f /\ e_kind e = k /\
            forall l m, In (l, m) (e_held e) -> holds s t l m.

(* every access performed by any thread is an instance of some table entry, with (at least) the
   locks of that entry really held at that moment *)
Definition follows (S : list entry) (tr : trace) : Prop :=
  forall n t f k, nth_error tr n = Some (t, Acc f k) -> justified S (state_at tr n) t f k.

(* two accesses conflict: same field, different threads, at least one write *)
Definition conflict (tr : trace) (i j : nat) : Prop :=
  exists t1 t2 f k1 k2,
    nth_error tr i = Some (t1, Acc f k1) /\ nth_error tr j = Some (t2, Acc f k2) /\
    t1 <> t2 /\ (k1 = Wr \/ k2 = Wr).

(* association-list guard maps *)
Fixpoint assoc_guard (m : list (field * guard)) (f : field) : option guard :=
  match m with
  | [] => None
  | (k, g) :: r => if String.eqb k f then Some g else assoc_guard r f
  end.

(* ---- package-level aliasing.  The discipline above identifies a lock by (struct type, field); it
   is blind to two *instances* sharing storage.  The one way the code base can create such sharing
   without a pointer is a by-value copy of a package-level struct variable that contains maps or
   slices (config.DefaultConfig).  The scanner lists every such copy site; each must be justified
   (listed, with its reason, in Conc/GuardMap.v). *)
Definition pair_eqb (a b : string * string) : bool :=
  String.eqb (fst a) (fst b) && String.eqb (snd a) (snd b).

Definition sites_justified (justified sites : list (string * string)) : bool :=
  forallb (fun s => existsb (pair_eqb s) justified) sites.

(* ---- instance consistency.  A lock is identified by (struct type, field).  That is only meaningful
   if, inside one function, the lock operations and the accesses they are meant to guard concern ONE
   instance: the instance expression must be rooted in a local variable, parameter or receiver.  The
   scanner lists every mutex operation, and every access made under a locally held lock, whose instance
   expression is re-evaluated: the result of a call (api.ircServer()), or a tracked pointer variable /
   field that FSM.Restore swaps (i_base).  Such a site is consistent only if the function holds, at
   that point, one of the guard locks of the pointer it re-reads (then no writer can swap it in
   between), or the pointer is immutable; a call result never is.  Anything else must be justified
   explicitly in Conc/GuardMap.v. *)
Record inst_site := mkInst {
  i_fn : string; i_what : string;
  i_base : field;                    (* "" = result of a call *)
  i_held : list (lock * mode)
}.

Definition inst_ok (gm : guard_map_t) (s : inst_site) : bool :=
  match gm (i_base s) with
  | Some (Guarded ls) => existsb (fun l => holds_mode (i_held s) l Sh) ls
  | Some Immutable => true
  | None => false
  end.

Definition instances_consistent (gm : guard_map_t) (justified : list (string * string)) (sites : list inst_site) : bool :=
  forallb (fun s => inst_ok gm s || existsb (pair_eqb (i_fn s, i_what s)) justified) sites.

