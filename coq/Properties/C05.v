(* C05 — acknowledged messages survive crashes and fail-over, exactly once, everywhere (PARTIAL).

   Statements over Sys/EndToEnd.v: a composition over an ASSUMED raft contract.  [M : Sys] is any
   system: any deterministic machine [step] (what C01_model_deterministic provides for the IRC
   model), any committed log [L M], any set of nodes each having applied a prefix of it, any set
   of sessions with any number of POST requests and retries.  The named hypotheses ([Contract]):

     NodeStateIsReplay      a node's state/stored output = plain replay of the prefix it applied,
                            however it got there (snapshot, restore, restart): C02_state,
                            C02_output, C02_exact; resume across nodes/restarts: C04_exactly_once
     ProposalAppends, ProposalEntry, LogFromRequests
                            raft: one totally ordered log, append-only, nothing invented
     AckImpliesCommitted    api.go applyMessageWait: HTTP 200 only after the raft future
                            succeeded, or on the dedup path
     MarkerInit/Set/Only    the marker rule (C10_marker, C10_marker_inv)
     ApplySkip              statemachine.go since /repo 92a4e2e (repair of D14): a client entry whose
                            non-zero client message id equals the session's marker is skipped by
                            every node (no state change, no output)
     CmidNonzero, ClientNoReturn
                            client protocol: non-zero ids, retries of a message are contiguous
     EarlierMessagesSettled timing, NOT enforced by the code: when a client sends a request for a
                            NEW message, what its requests for EARLIER messages proposed is
                            committed or never will be.

   No longer needed since ApplySkip: HandlerCaughtUp (the node answering a retry has applied
   everything committed before the retry arrived — D14), HandlerDedup, SeenLeLen, and the part of
   EarlierRequestsSettled that spoke about retries of the SAME message.  The log MAY now hold a post
   twice (C05_two_copies_processed_once); exactly one copy is processed.

   What cannot be exhibited by these theorems or by the single-node harness: raft's own safety,
   fsync/LevelDB durability under power loss, network partitions, timing of leader changes. *)
From Coq Require Import List NArith.
From RV Require Import Sys.EndToEnd Sys.EndToEndProofs.

(* for any two nodes and any session the served streams are prefix-related
   (outputs of a prefix of the log are a prefix of the outputs) *)
Theorem C05_same_stream : forall M : Sys, NodeStateIsReplay M ->
  forall (i j : Node M) (s : Sess M),
    prefix_of (served M i s) (served M j s) \/ prefix_of (served M j s) (served M i s).
Proof. exact composition_same_stream. Qed.
Print Assumptions C05_same_stream.

(* an acknowledged post is in the committed log.  This IS the raft-contract hypothesis
   AckImpliesCommitted composed with the handler model (dedup path: a non-zero marker was written
   by an applied entry of the log). *)
Theorem C05_ack_durable : forall M : Sys,
  ProposalEntry M -> AckImpliesCommitted M -> MarkerInit M -> MarkerOnly M -> CmidNonzero M ->
  forall s n, n < nreq M s -> r_ack M s n = true -> exists i, copy_at M s (r_cmid M s n) i.
Proof. exact composition_ack_durable. Qed.
Print Assumptions C05_ack_durable.

(* each acknowledged post is PROCESSED exactly once: one copy in L finds a different marker, every
   other copy lies behind it and is skipped by every node; all copies of an earlier message of a
   session precede all copies of a later one; and every node that has reached the processed copy
   serves its output exactly once, at the place the log determines.  No HandlerCaughtUp. *)
Theorem C05_exactly_once : forall M : Sys, Contract M ->
  ProcessedOnce M /\ SenderOrder M /\ DeliveredOnce M.
Proof. exact composition_exactly_once. Qed.
Print Assumptions C05_exactly_once.

(* D14 after the repair: the hypotheses are satisfiable by a history whose log holds an acknowledged
   post TWICE (the retry reached a leader that lagged its own log) — which is why the apply rule is
   needed — and the conclusions hold of it *)
Theorem C05_two_copies_processed_once : exists M : Sys, Contract M /\ TwoCopies M /\
  ProcessedOnce M /\ SenderOrder M /\ DeliveredOnce M.
Proof. exact two_copies_processed_once. Qed.
Print Assumptions C05_two_copies_processed_once.

(* D14 before the repair: the same history on the machine without the apply rule satisfies every other
   hypothesis and both copies are processed *)
Theorem C05_refuted_without_apply_skip : exists M : Sys,
  ContractWithoutApplySkip M /\ TwoCopies M /\ ~ ProcessedOnce M.
Proof. exact refuted_without_apply_skip. Qed.
Print Assumptions C05_refuted_without_apply_skip.

(* the hypotheses of C05_exactly_once are satisfiable (tiny concrete machines, two nodes):
   an orderly history, and the D14 history with a duplicated log entry *)
Theorem C05_hypotheses_satisfiable : Contract tiny_ok /\ Contract tiny_lagging /\ TwoCopies tiny_lagging.
Proof. exact hypotheses_satisfiable. Qed.
Print Assumptions C05_hypotheses_satisfiable.

(* ---- the IRC model is an instance (IrcProofs/MarkerFrame.v, Refine.v, RefineSys.v) ---- *)

(* ================================================================================================
   C05 instantiated with the IRC model (IrcProofs/RefineSys.v).  [irc_sys] : St = IRC server + a ghost
   variable (client message id of the last client entry per session id, surviving the session),
   Entry = Irc.Apply.entry, Out = omsg, Sess = session id, step = Apply.apply_entry, lastpost = the ghost
   marker (= IRCServer.LastPostMessage for every session that exists, RefineSys.coh_lastpost).  The
   machine-side hypotheses of [Contract] are theorems; the raft-side and client-side ones stay hypotheses. *)
From stdpp Require Import gmap.
From Coq Require Import Strings.String.
From RV Require Import Irc.State Irc.Cmds Irc.Apply IrcProofs.Top IrcProofs.Refine IrcProofs.RefineSys.
From RV Require IrcProofs.Examples.

Theorem C05_irc_machine : forall e net NodeT L applied node_state node_outs nreq r_cmid r_len r_seen r_idx r_ack,
  let M := irc_sys e net NodeT L applied node_state node_outs nreq r_cmid r_len r_seen r_idx r_ack in
  MarkerInit M /\ MarkerSet M /\ MarkerOnly M /\ ApplySkip M.
Proof.
  intros. split; [apply irc_MarkerInit|]. split; [apply irc_MarkerSet|]. split; [apply irc_MarkerOnly|apply irc_ApplySkip].
Qed.
Print Assumptions C05_irc_machine.

Theorem C05_irc : forall e net NodeT L applied node_state node_outs nreq r_cmid r_len r_seen r_idx r_ack,
  let M := irc_sys e net NodeT L applied node_state node_outs nreq r_cmid r_len r_seen r_idx r_ack in
  NodeStateIsReplay M -> ProposalAppends M -> ProposalEntry M -> LogFromRequests M -> AckImpliesCommitted M ->
  CmidNonzero M -> ClientNoReturn M -> EarlierMessagesSettled M ->
  SameStream M /\ AckDurable M /\ ProcessedOnce M /\ SenderOrder M /\ DeliveredOnce M.
Proof. exact irc_C05. Qed.
Print Assumptions C05_irc.

(* what [irc_sys] replays IS the IRC model: on a well-formed nice log (CreateSession ids fresh, no message of
   death after a copy of itself) state_of / outs_of are Top.run / the concatenated output of Apply.apply_entry,
   and the ghost marker of every existing session is its LastClientMessageId *)
Theorem C05_irc_faithful : forall e net NodeT L applied node_state node_outs nreq r_cmid r_len r_seen r_idx r_ack es sv' outs,
  let M := irc_sys e net NodeT L applied node_state node_outs nreq r_cmid r_len r_seen r_idx r_ack in
  wf_history e (init_server net) es -> nice_history e (init_server net) ∅ es ->
  run_out e (init_server net) es = Some (sv', outs) ->
  fst (state_of M es) = sv' /\ outs_of M es = outs /\ coh_all sv' (snd (state_of M es)).
Proof. exact ghost_from_init. Qed.
Print Assumptions C05_irc_faithful.

(* FINDING about the hypotheses themselves: with lastpost := IRCServer.LastPostMessage (no ghost) the IRC model
   satisfies MarkerInit and ApplySkip but NOT MarkerSet (entry of an unknown session) and NOT MarkerOnly
   (DeleteSession resets the marker to 0): the marker rule of Sys/EndToEnd.v speaks about sessions that stay alive *)
Theorem C05_irc_plain : 
  (forall e net NodeT L applied node_state node_outs nreq r_cmid r_len r_seen r_idx r_ack,
     let M := irc_sys_plain e net NodeT L applied node_state node_outs nreq r_cmid r_len r_seen r_idx r_ack in
     MarkerInit M /\ ApplySkip M) /\
  ~ MarkerSet plain0 /\ ~ MarkerOnly plain0.
Proof.
  split; [intros; split; [apply plain_MarkerInit|apply plain_ApplySkip]|].
  split; [exact plain_MarkerSet_refuted|exact plain_MarkerOnly_refuted].
Qed.
Print Assumptions C05_irc_plain.

(* non-vacuity: a concrete system over the IRC model whose log holds a post twice satisfies the whole contract;
   the first copy is processed, the second is skipped by every node; its log is well-formed and nice *)
Theorem C05_irc_example :
  Contract ex_sys /\ TwoCopies ex_sys /\
  ProcessedOnce ex_sys /\ SenderOrder ex_sys /\ DeliveredOnce ex_sys /\
  effective_at ex_sys 1%N 11%N 1 /\ skipped_at ex_sys 2 /\
  wf_history Examples.ex_env (init_server "robustirc.net") ex_L /\
  nice_history Examples.ex_env (init_server "robustirc.net") ∅ ex_L.
Proof. split; [apply ex_sys_contract|]. split; [apply ex_sys_contract|]. exact ex_sys_exactly_once. Qed.
Print Assumptions C05_irc_example.
