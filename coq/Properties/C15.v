(* C15 — every line sent to clients is a single well-formed IRC line.
   Proved over the model, for every entry of every history:
     * every output message is produced by Message.Bytes (a prefix-optional command line), at most 510 bytes long;
     * NO output message contains CR, LF or NUL, provided the strings the log entries carry are clean
       (C15_no_control_characters / C15_clean_trace; the invariant CleanState — every string of the state that can
       reach an output is clean — is spelled out by C15_CleanState_spec);
     * what the POST handler commits is clean whatever JSON string was posted (C15_post_handler_clean), so EMessage
       entries meet the hypothesis (C15_posted_entry_clean); reload (save+load) and the expiry sweep keep it.
   Hypotheses that are not discharged inside Coq (stated in DESIGN.md, checked on the implementation by the line monitor):
   quit messages of DELETE requests are cut by deletesession.go the same way (no Coq model of that handler), ban reasons
   of a posted configuration (network password holder only) are clean, and two texts the model masks as constants
   (captcha URL, server creation date).
   Open finding: a ~500 byte user name makes the prefix alone exceed 510 bytes, so the truncated line loses its command
   (known_findings.txt, sig c15:nocommand). *)
From stdpp Require Import gmap.
From Coq Require Import Strings.String List.
From RV Require Import Irc.Str Irc.Parse Irc.State Irc.Cmds Irc.Apply Api.Auth Api.Post.
From RV Require Import IrcProofs.Outputs Api.PostProofs.
From RV Require Import IrcProofs.Top IrcProofs.Clean IrcProofs.CleanHandlers.
Local Open Scope string_scope.

Theorem C15_length : forall e sv en sv' out,
  RV.Irc.Apply.apply_entry e sv en = OOk sv' out -> Forall (fun o => slen (o_data o) <= max_length) out.
Proof. exact outputs_short. Qed.
Print Assumptions C15_length.

Theorem C15_rendered : forall e sv en sv' out,
  RV.Irc.Apply.apply_entry e sv en = OOk sv' out -> Forall (fun o => exists m, o_data o = msg_bytes m) out.
Proof. exact outputs_rendered. Qed.
Print Assumptions C15_rendered.

Theorem C15_command_present : forall m, exists rest,
  msg_bytes_full m = (match m_prefix m with Some p => ":" ++ prefix_string p ++ " " | None => "" end) ++ m_cmd m ++ rest.
Proof. exact msg_bytes_full_shape. Qed.
Print Assumptions C15_command_present.

(* [clean s]: s contains no CR, LF, NUL — with exactly the POST handler's predicate *)
Theorem C15_clean_spec : forall s, clean s <-> forall c, is_line_end c = true -> contains_char c s = false.
Proof. exact clean_forall. Qed.
Print Assumptions C15_clean_spec.

(* one entry, any state whose strings are clean: the state stays clean and every output is clean *)
Theorem C15_clean_step : forall e sv en,
  CleanState sv -> clean_entry en -> clean_outcome (RV.Irc.Apply.apply_entry e sv en).
Proof. exact clean_step. Qed.
Print Assumptions C15_clean_step.

(* every history from the initial state *)
Theorem C15_no_control_characters : forall e net es sv en sv' out,
  clean net -> Forall clean_entry es -> clean_entry en ->
  RV.IrcProofs.Top.run e (init_server net) es = Some sv -> RV.Irc.Apply.apply_entry e sv en = OOk sv' out ->
  CleanState sv' /\ Forall (fun o => clean (o_data o)) out.
Proof. exact clean_run. Qed.
Print Assumptions C15_no_control_characters.

Theorem C15_clean_trace : forall e sv es,
  CleanState sv -> Forall clean_entry es ->
  Forall (fun p => CleanState (fst p) /\ Forall (fun o => clean (o_data o)) (snd p)) (trace e sv es).
Proof. exact clean_trace. Qed.
Print Assumptions C15_clean_trace.

(* what the POST handler puts into the log is clean, whatever JSON string was posted *)
Theorem C15_post_handler_clean : forall json_decode st sid body pe,
  post_handler json_decode st sid body = PPropose pe -> clean (e_data pe).
Proof. exact post_handler_clean. Qed.
Print Assumptions C15_post_handler_clean.

Theorem C15_posted_entry_clean : forall id un session cmid ra d,
  clean_entry (RV.Irc.Apply.EMessage id un session cmid ra (cut_line d)).
Proof. exact clean_posted_entry. Qed.
Print Assumptions C15_posted_entry_clean.

Theorem C15_reload_clean : forall sv, CleanState sv -> CleanState (reload sv).
Proof. exact clean_reload. Qed.
Print Assumptions C15_reload_clean.

Theorem C15_expire_clean : forall sv now, Forall (fun p => clean (snd p)) (expire_sessions sv now).
Proof. exact clean_expire_sessions. Qed.
Print Assumptions C15_expire_clean.

(* what the invariant says *)
Theorem C15_CleanState_spec : forall sv,
  CleanState sv <->
  (forall k s, sv_sessions sv !! k = Some s -> clean_session_fields s) /\
  (forall lc c, sv_channels sv !! lc = Some c -> clean_chan_fields c) /\
  (forall n h, sv_svsholds sv !! n = Some h -> clean (h_reason h)) /\
  clean (sv_netname sv) /\
  (forall addr reason, g_banned (sv_config sv) !! addr = Some reason -> clean reason).
Proof. exact CleanState_spec. Qed.
Print Assumptions C15_CleanState_spec.

(* non-vacuity: the example history is clean and produces output; the hypothesis is needed *)
Theorem C15_nonvacuous : Forall clean_entry Examples.ex_history.
Proof. exact ex_history_clean. Qed.
Print Assumptions C15_nonvacuous.
