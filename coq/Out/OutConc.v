(* Out/OutConc.v — small-step semantics of the output stream under concurrency.
   Every lock-protected section of outputstream.go is ONE atomic step:
     Add / Delete / InterruptGetNext / Close   one write-locked section each (Add, Interrupt and Close Broadcast)
     Get                                 one read-locked section
     GetNext(ctx, x), repaired           [LReader t] from TStart: the read-locked lookup;
                                         [LReader t] from TLoop: one write-locked iteration of the wait
                                         loop (lookup, ctx test, Cond.Wait registers the thread and
                                         releases the lock: TWait); Broadcast moves every TWait to TLoop
   plus context cancellation (no lock, no wake-up), thread creation with an arbitrary argument and
   the nondeterministic cache eviction of getUnlocked.  Any number of reader threads; the
   writers are labels (each of their operations is a single section).  The step function is
   executable; [None] = the label is not enabled in that state (e.g. a reader parked in Cond.Wait
   cannot be scheduled).  Proofs are in OutProofs.v. *)
From Coq Require Import NArith List String.
From stdpp Require Import gmap.
From RV Require Import Out.OutSeq.
Import ListNotations.
Local Open Scope N_scope.

(* result of a finished GetNext: Some (id, messages) or None = the empty slice *)
Inductive tst :=
| TStart                              (* called, before the read-locked lookup *)
| TLoop                               (* runnable: next step is a wait-loop iteration *)
| TWait                               (* suspended in Cond.Wait, no wake-up pending *)
| TDone (r : option (N * batch)).

Record thread := Thread { t_x : N; t_st : tst; t_cancelled : bool }.

(* c_closed: Close() was called (the LevelDB handle is closed, nothing will ever be added) *)
Record cstate := CState { c_out : state; c_threads : gmap nat thread; c_closed : bool }.

Inductive label :=
| LAdd (id : N) (m : batch)
| LDelete (x : N)
| LGet (x : N)
| LSpawn (t : nat) (x : N)
| LReader (t : nat)
| LCancel (t : nat)
| LInterrupt
| LEvict (k : N)
| LClose.

Inductive cres :=
| Running (c : cstate)
| Panicked (site : string).

Definition wake (th : thread) : thread :=
  match t_st th with
  | TWait => Thread (t_x th) TLoop (t_cancelled th)
  | _ => th
  end.
Definition broadcast (ts : gmap nat thread) : gmap nat thread := wake <$> ts.

Definition cinit : cstate := CState init ∅ false.

(* one reader section.  On a closed stream both sections answer the empty slice before any
   lookup (the "if os.closed" tests of GetNext). *)
Definition reader_step (closed : bool) (o : state) (th : thread) : option (state * thread) :=
  match t_st th with
  | TStart =>
      if closed then Some (o, Thread (t_x th) (TDone None) (t_cancelled th)) else
      let '(r, o') := next_unlocked o (t_x th) in
      match r with
      | Some b => Some (o', Thread (t_x th) (TDone (Some b)) (t_cancelled th))
      | None => Some (o', Thread (t_x th) TLoop (t_cancelled th))
      end
  | TLoop =>
      if closed then Some (o, Thread (t_x th) (TDone None) (t_cancelled th)) else
      let '(r, o') := next_unlocked o (t_x th) in
      match r with
      | Some b => Some (o', Thread (t_x th) (TDone (Some b)) (t_cancelled th))
      | None =>
          if t_cancelled th then Some (o', Thread (t_x th) (TDone None) true)
          else Some (o', Thread (t_x th) TWait false)
      end
  | TWait => None
  | TDone _ => None
  end.

(* After Close the LevelDB handle is closed: Add and Delete return errors after touching lastseen
   and the cache, Get panics on a cache miss.  The schedule discipline (OutProofs.ok_after_close)
   declares them out of bounds on a closed stream, the harness never issues them, and the model
   has no transition for them (None) rather than an invented one. *)
Definition cstep (c : cstate) (l : label) : option cres :=
  match l with
  | LAdd id m =>
      if c_closed c then None else
      match add (c_out c) id m with
      | Ok o' => Some (Running (CState o' (broadcast (c_threads c)) false))
      | Panic s => Some (Panicked s)
      end
  | LDelete x =>
      if c_closed c then None else
      match delete_op (c_out c) x with
      | Ok o' => Some (Running (CState o' (c_threads c) false))
      | Panic s => Some (Panicked s)
      end
  | LGet x =>
      if c_closed c then None else
      Some (Running (CState (snd (get (c_out c) x)) (c_threads c) false))
  | LSpawn t x =>
      match c_threads c !! t with
      | None => Some (Running (CState (c_out c) (<[t := Thread x TStart false]> (c_threads c)) (c_closed c)))
      | Some _ => None
      end
  | LReader t =>
      match c_threads c !! t with
      | Some th =>
          match reader_step (c_closed c) (c_out c) th with
          | Some (o', th') => Some (Running (CState o' (<[t := th']> (c_threads c)) (c_closed c)))
          | None => None
          end
      | None => None
      end
  | LCancel t =>
      match c_threads c !! t with
      | Some th => Some (Running (CState (c_out c) (<[t := Thread (t_x th) (t_st th) true]> (c_threads c)) (c_closed c)))
      | None => None
      end
  | LInterrupt => Some (Running (CState (c_out c) (broadcast (c_threads c)) (c_closed c)))
  | LEvict k => Some (Running (CState (evict (c_out c) k) (c_threads c) (c_closed c)))
  | LClose => Some (Running (CState (c_out c) (broadcast (c_threads c)) true))   (* idempotent *)
  end.

(* GetNext with an already cancelled context, by the driver goroutine, run to completion *)
Definition getnext_cancelled_c (c : cstate) (x : N) : option (N * batch) * state :=
  if c_closed c then (None, c_out c) else getnext_cancelled (c_out c) x.

(* run a reader until it is parked or has returned: at most the lookup section and one
   loop iteration (used by the scripted-scenario driver after every main-thread step) *)
Definition settle_thread (c : cstate) (t : nat) : cstate :=
  let c1 := match cstep c (LReader t) with Some (Running c') => c' | _ => c end in
  match cstep c1 (LReader t) with Some (Running c') => c' | _ => c1 end.
Definition settle (c : cstate) (ts : list nat) : cstate := fold_left settle_thread ts c.
