//go:build verif

package api

// Correspondence driver for property C04 (injected by `go test -overlay`, never part of
// /repo).  Runs the real getMessages goroutine against real OutputStreams (one per node,
// LevelDB under $TMPDIR) and plays the HTTP handler's per-session filter and the client.
//
//   res <session> <id>.<reply> <step>*
//     a:<node>:<id>:<batch>  node applies a batch (OutputStream.Add); batch = msg{,msg}*,
//                            msg = <reply>/<hex text|->/<rcpt{+rcpt}*|->
//     d:<node>:<id>          node compacts (OutputStream.Delete)
//     c:<node>               client connects to <node> with the id of the last message it received;
//                            the driver waits until the handler is parked in GetNext or has handed
//                            over a batch
//     r:<k>                  client receives up to k messages (k=0: as many as there are) until the
//                            handler is parked in GetNext with nothing in flight
//     x                      client disconnects (context cancelled, InterruptGetNext); what is in
//                            flight is lost
//   result: res {a=ok|d=ok|c=ok|x=ok|r=<id.reply/hex{,..}|->}* last=<id>.<reply>
//   A handler goroutine that panics ends the case: c=panic / r=...!panic when the driver sees it
//   at once, <step>=handler-panic when it is noticed before a later step, <step>=deadlock when a
//   node operation cannot get the stream's mutex any more (the goroutine died inside GetNext
//   holding it).  A handler that neither parks nor sends within the deadline gives !timeout.

import (
	"bufio"
	"context"
	"encoding/hex"
	"fmt"
	"os"
	"reflect"
	"runtime"
	"strconv"
	"strings"
	"sync"
	"testing"
	"time"

	"github.com/robustirc/robustirc/internal/outputstream"
	"github.com/robustirc/robustirc/internal/robust"
)

func verifResU64(s string) uint64 {
	n, err := strconv.ParseUint(s, 10, 64)
	if err != nil {
		panic("verif: bad number " + s)
	}
	return n
}

func verifResParseBatch(id uint64, s string) []outputstream.Message {
	if s == "-" {
		return []outputstream.Message{}
	}
	var msgs []outputstream.Message
	for _, m := range strings.Split(s, ",") {
		p := strings.Split(m, "/")
		if len(p) != 3 {
			panic("verif: malformed message " + m)
		}
		data := ""
		if p[1] != "-" {
			b, err := hex.DecodeString(p[1])
			if err != nil {
				panic(err)
			}
			data = string(b)
		}
		rc := make(map[uint64]bool)
		if p[2] != "-" {
			for _, r := range strings.Split(p[2], "+") {
				rc[verifResU64(r)] = true
			}
		}
		msgs = append(msgs, outputstream.Message{Id: robust.Id{Id: id, Reply: verifResU64(p[0])}, Data: data, InterestingFor: rc})
	}
	return msgs
}

// number of goroutines logically waiting on the stream's condition variable
func verifResParked(o *outputstream.OutputStream) int {
	nl := reflect.ValueOf(o).Elem().FieldByName("newMessage").Elem().FieldByName("notify")
	return int(uint32(nl.FieldByName("wait").Uint()) - uint32(nl.FieldByName("notify").Uint()))
}

// verifResGuard runs a node operation; false if it did not finish in time (the stream's mutex
// is held by a handler goroutine that died inside GetNext) or panicked.
func verifResGuard(d time.Duration, f func()) (done bool, panicked bool) {
	ch := make(chan bool, 1)
	go func() {
		defer func() {
			if e := recover(); e != nil {
				ch <- true
			}
		}()
		f()
		ch <- false
	}()
	select {
	case p := <-ch:
		return true, p
	case <-time.After(d):
		return false, false
	}
}

type verifConn struct {
	node    *outputstream.OutputStream
	cancel  context.CancelFunc
	ch      chan []*robust.Message
	exited  chan struct{}
	mu      sync.Mutex
	paniced bool
}

func verifResRunCase(f []string, tmp string) string {
	out := []string{"res"}
	if len(f) < 3 {
		return "res malformed"
	}
	sess := verifResU64(f[1])
	lp := strings.Split(f[2], ".")
	last := robust.Id{Id: verifResU64(lp[0]), Reply: verifResU64(lp[1])}
	nodes := map[string]*outputstream.OutputStream{}
	node := func(k string) *outputstream.OutputStream {
		if o, ok := nodes[k]; ok {
			return o
		}
		o, err := outputstream.NewOutputStream(tmp)
		if err != nil {
			panic(err)
		}
		nodes[k] = o
		return o
	}
	var conn *verifConn
	var pending []*robust.Message
	const deadlineDur = 4 * time.Second

	poisoned := false
	disconnect := func() {
		if conn == nil {
			return
		}
		conn.cancel()
		c := conn
		if done, _ := verifResGuard(deadlineDur, func() { c.node.InterruptGetNext() }); !done {
			poisoned = true
		}
		select {
		case <-conn.exited:
		case <-time.After(deadlineDur):
		}
		conn = nil
		pending = nil
	}
	hasPaniced := func() bool {
		if conn == nil {
			return false
		}
		conn.mu.Lock()
		defer conn.mu.Unlock()
		return conn.paniced
	}
	// pull: try to take one batch from the handler; returns (got, quiescent, timeout)
	pull := func(deadline time.Time) (bool, bool, bool) {
		for {
			select {
			case b := <-conn.ch:
				pending = b
				return true, false, false
			default:
			}
			select {
			case <-conn.exited:
				return false, true, false
			default:
			}
			if verifResParked(conn.node) == 1 {
				return false, true, false
			}
			if time.Now().After(deadline) {
				return false, false, true
			}
			time.Sleep(100 * time.Microsecond)
		}
	}

loop:
	for _, tok := range f[3:] {
		p := strings.Split(tok, ":")
		switch p[0] {
		case "a", "d":
			if hasPaniced() {
				out = append(out, p[0]+"=handler-panic")
				poisoned = true
				break loop
			}
			o := node(p[1])
			done, panicked := verifResGuard(deadlineDur, func() {
				if p[0] == "a" {
					if err := o.Add(verifResParseBatch(verifResU64(p[2]), p[3])); err != nil {
						panic(err)
					}
				} else {
					o.Delete(robust.Id{Id: verifResU64(p[2])})
				}
			})
			if !done {
				out = append(out, p[0]+"=deadlock")
				poisoned = true
				break loop
			}
			if panicked {
				out = append(out, p[0]+"=panic")
			} else {
				out = append(out, p[0]+"=ok")
			}
		case "c":
			if hasPaniced() {
				out = append(out, p[0]+"=handler-panic")
				poisoned = true
				break loop
			}
			disconnect()
			if poisoned {
				out = append(out, "c=deadlock")
				break loop
			}
			ctx, cancel := context.WithCancel(context.Background())
			c := &verifConn{node: node(p[1]), cancel: cancel, ch: make(chan []*robust.Message), exited: make(chan struct{})}
			h := &HTTP{outputUnlocked: c.node}
			ls := last
			go func() {
				defer close(c.exited)
				defer func() {
					if e := recover(); e != nil {
						c.mu.Lock()
						c.paniced = true
						c.mu.Unlock()
					}
				}()
				h.getMessages(ctx, ls, c.ch)
			}()
			conn = c
			_, _, timeout := pull(time.Now().Add(deadlineDur))
			if hasPaniced() {
				out = append(out, "c=panic")
				poisoned = true
				break loop
			}
			if timeout {
				out = append(out, "c=ok!timeout")
			} else {
				out = append(out, "c=ok")
			}
		case "x":
			if hasPaniced() {
				out = append(out, p[0]+"=handler-panic")
				poisoned = true
				break loop
			}
			disconnect()
			if poisoned {
				out = append(out, "x=deadlock")
				break loop
			}
			out = append(out, "x=ok")
		case "r":
			k := int(verifResU64(p[1]))
			var got []string
			mark := ""
			deadline := time.Now().Add(deadlineDur)
			for k == 0 || len(got) < k {
				if len(pending) > 0 {
					m := pending[0]
					pending = pending[1:]
					// the filter of handleGetMessages
					if m.Type != robust.Ping && !m.InterestingFor[sess] {
						continue
					}
					d := "-"
					if m.Data != "" {
						d = hex.EncodeToString([]byte(m.Data))
					}
					got = append(got, fmt.Sprintf("%d.%d/%s", m.Id.Id, m.Id.Reply, d))
					last = m.Id
					continue
				}
				if conn == nil {
					break
				}
				gotOne, _, timeout := pull(deadline)
				if hasPaniced() {
					mark = "!panic"
					break
				}
				if timeout {
					mark = "!timeout"
					break
				}
				if !gotOne {
					break
				}
			}
			s := "-"
			if len(got) > 0 {
				s = strings.Join(got, ",")
			}
			out = append(out, "r="+s+mark)
			if mark == "!panic" {
				poisoned = true
				break loop
			}
		default:
			out = append(out, p[0]+"=unknown-step")
		}
	}
	if !poisoned {
		disconnect()
	}
	if !poisoned {
		for _, o := range nodes {
			o.Close()
		}
	}
	out = append(out, fmt.Sprintf("last=%d.%d", last.Id, last.Reply))
	return strings.Join(out, " ")
}

func TestVerifRes(t *testing.T) {
	in, err := os.Open(os.Getenv("VERIF_IN"))
	if err != nil {
		t.Fatal(err)
	}
	defer in.Close()
	var cases [][]string
	sc := bufio.NewScanner(in)
	sc.Buffer(make([]byte, 1<<20), 1<<26)
	for sc.Scan() {
		f := strings.Fields(sc.Text())
		if len(f) == 0 {
			continue
		}
		cases = append(cases, f)
	}
	tmp := t.TempDir()
	results := make([]string, len(cases))
	var wg sync.WaitGroup
	width := 4 * runtime.NumCPU()
	if width < 16 {
		width = 16
	}
	sem := make(chan struct{}, width)
	for i := range cases {
		wg.Add(1)
		sem <- struct{}{}
		go func(i int) {
			defer wg.Done()
			defer func() { <-sem }()
			defer func() {
				if e := recover(); e != nil {
					results[i] = fmt.Sprintf("res harness-error:%v", e)
				}
			}()
			if cases[i][0] != "res" {
				results[i] = "unknown-case-kind"
				return
			}
			results[i] = verifResRunCase(cases[i], tmp)
		}(i)
	}
	wg.Wait()
	out, err := os.Create(os.Getenv("VERIF_OUT"))
	if err != nil {
		t.Fatal(err)
	}
	defer out.Close()
	w := bufio.NewWriter(out)
	defer w.Flush()
	for _, r := range results {
		fmt.Fprintln(w, r)
	}
}
