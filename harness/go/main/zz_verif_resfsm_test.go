//go:build verif

package main

// Stage 1 of the restore scenarios of property C04 (injected by `go test -overlay`, never part
// of /repo).  For one raft log it produces the output stream of
//   A  a node that applied the whole log live (FSM.Apply), and
//   B  a node that applied the first k entries, took a protobuf snapshot (FSM.Snapshot +
//      Persist), was rebuilt from it (fresh FSM, FSM.Restore: state message + replay of the
//      retained entries) and then applied the remaining entries live,
// with robust.MessageOffset set as in the case line (0 in the repository's tests,
// 4648398125000000000 by default in the real binary).  Stage 2 (harness/go/api/zz_verif_res_test.go)
// loads the two streams into real OutputStreams and lets the real getMessages resume on B at
// every position around the replayed window; the reference is stream A.
//
//   resfsm <offset> <compaction start ns> <k> <entry>*
//     entry = C:<unixnano>                      CreateSession (its session id is offset+index)
//           | M:<index of the C entry>:<unixnano>:<hex IRC line>   IRCFromClient
//   result: resfsm A=<dump> B=<dump> snap=<first>:<last>:<retained entries>
//     dump = <id>=<reply>/<hex|->/<rcpt{+rcpt}*|->{,msg}*{;batch}* | -

import (
	"bufio"
	"bytes"
	"context"
	"encoding/hex"
	"fmt"
	"io"
	"os"
	"path/filepath"
	"sort"
	"strconv"
	"strings"
	"testing"
	"time"

	"github.com/hashicorp/raft"
	"github.com/robustirc/robustirc/internal/ircserver"
	"github.com/robustirc/robustirc/internal/outputstream"
	"github.com/robustirc/robustirc/internal/raftstore"
	"github.com/robustirc/robustirc/internal/robust"
)

type verifResFsmSink struct{ buf bytes.Buffer }

func (s *verifResFsmSink) Write(p []byte) (int, error) { return s.buf.Write(p) }
func (s *verifResFsmSink) Close() error                { return nil }
func (s *verifResFsmSink) ID() string                  { return "verif" }
func (s *verifResFsmSink) Cancel() error               { return nil }

func verifResFsmDump(o *outputstream.OutputStream) string {
	ctx, cancel := context.WithCancel(context.Background())
	cancel()
	var batches []string
	cur := uint64(0)
	for n := 0; n < 100000; n++ {
		msgs := o.GetNext(ctx, robust.Id{Id: cur})
		if len(msgs) == 0 {
			break
		}
		var ms []string
		for _, m := range msgs {
			var rc []uint64
			for k, v := range m.InterestingFor {
				if v {
					rc = append(rc, k)
				}
			}
			sort.Slice(rc, func(i, j int) bool { return rc[i] < rc[j] })
			rs := "-"
			if len(rc) > 0 {
				var s []string
				for _, r := range rc {
					s = append(s, strconv.FormatUint(r, 10))
				}
				rs = strings.Join(s, "+")
			}
			d := "-"
			if m.Data != "" {
				d = hex.EncodeToString([]byte(m.Data))
			}
			ms = append(ms, fmt.Sprintf("%d/%s/%s", m.Id.Reply, d, rs))
		}
		batches = append(batches, fmt.Sprintf("%d=%s", msgs[0].Id.Id, strings.Join(ms, ",")))
		if msgs[0].Id.Id <= cur {
			break // a stream that does not advance: leave it to the monitor
		}
		cur = msgs[0].Id.Id
	}
	if len(batches) == 0 {
		return "-"
	}
	return strings.Join(batches, ";")
}

// verifResFsmBoot mirrors what main() sets up for the parts the FSM touches.
func verifResFsmBoot(dir string) (*FSM, error) {
	if err := os.MkdirAll(dir, 0755); err != nil {
		return nil, err
	}
	*raftDir = dir
	*useProtobuf = true
	*network = "verif.net"
	logstore, err := raftstore.NewLevelDBStore(filepath.Join(dir, "raftlog"), true, true)
	if err != nil {
		return nil, err
	}
	srv := ircserver.NewIRCServer("verif.net", time.Unix(0, 1481144012969203276))
	out, err := outputstream.NewOutputStream(dir)
	if err != nil {
		return nil, err
	}
	store, err := raftstore.NewLevelDBStore(filepath.Join(dir, "irclog"), true, true)
	if err != nil {
		return nil, err
	}
	replaceState(srv, store, out)
	return &FSM{
		store:             logstore,
		ircstore:          store,
		lastSnapshotState: make(map[uint64][]byte),
		ReplaceState: func(*ircserver.IRCServer, *raftstore.LevelDBStore, *outputstream.OutputStream) {
		},
	}, nil
}

func verifResFsmClose(fsm *FSM) {
	defer func() { recover() }()
	if fsm != nil {
		if fsm.ircstore != nil {
			fsm.ircstore.Close()
		}
		if fsm.store != nil {
			fsm.store.Close()
		}
	}
	if outputStream != nil {
		outputStream.Close()
	}
}

func verifResFsmRunCase(f []string, tmp string, n int) (res string) {
	defer func() {
		if e := recover(); e != nil {
			res = fmt.Sprintf("resfsm panic:%v", strings.ReplaceAll(fmt.Sprint(e), " ", "_"))
		}
	}()
	offset, err := strconv.ParseUint(f[1], 10, 64)
	if err != nil {
		return "resfsm malformed"
	}
	cstart, _ := strconv.ParseInt(f[2], 10, 64)
	k, _ := strconv.Atoi(f[3])
	oldOffset := robust.MessageOffset
	robust.MessageOffset = offset
	defer func() { robust.MessageOffset = oldOffset }()
	oldCanary := *canaryCompactionStart
	defer func() { *canaryCompactionStart = oldCanary }()

	var logs []*raft.Log
	cmid := 0
	for _, e := range f[4:] {
		p := strings.Split(e, ":")
		idx := uint64(len(logs) + 1)
		var data string
		switch p[0] {
		case "C":
			ts, _ := strconv.ParseInt(p[1], 10, 64)
			data = fmt.Sprintf(`{"Type": 0, "Data": "auth", "UnixNano": %d}`, ts)
		case "M":
			ref, _ := strconv.ParseUint(p[1], 10, 64)
			ts, _ := strconv.ParseInt(p[2], 10, 64)
			line, _ := hex.DecodeString(p[3])
			cmid++
			data = fmt.Sprintf(`{"Session": {"Id": %d}, "Type": 2, "Data": %q, "UnixNano": %d, "ClientMessageId": %d}`,
				offset+ref, string(line), ts, cmid)
		default:
			return "resfsm malformed-entry"
		}
		logs = append(logs, &raft.Log{Type: raft.LogCommand, Index: idx, Term: 1, Data: []byte(data)})
	}
	if k > len(logs) {
		k = len(logs)
	}

	// node A: everything applied live
	fa, err := verifResFsmBoot(filepath.Join(tmp, fmt.Sprintf("c%d-a", n)))
	if err != nil {
		return "resfsm harness-error:" + strings.ReplaceAll(err.Error(), " ", "_")
	}
	for _, l := range logs {
		fa.Apply(l)
	}
	dumpA := verifResFsmDump(outputStream)
	verifResFsmClose(fa)

	// node B: k entries, snapshot, rebuilt from the snapshot, the rest live
	fb, err := verifResFsmBoot(filepath.Join(tmp, fmt.Sprintf("c%d-b", n)))
	if err != nil {
		return "resfsm harness-error:" + strings.ReplaceAll(err.Error(), " ", "_")
	}
	for _, l := range logs[:k] {
		fb.Apply(l)
	}
	*canaryCompactionStart = cstart
	snap, err := fb.Snapshot()
	if err != nil {
		verifResFsmClose(fb)
		return "resfsm snapshot-error:" + strings.ReplaceAll(err.Error(), " ", "_")
	}
	snapInfo := "?"
	if rs, ok := snap.(*robustSnapshot); ok {
		snapInfo = fmt.Sprintf("%d:%d", rs.firstIndex, rs.lastIndex)
	}
	sink := &verifResFsmSink{}
	if err := snap.Persist(sink); err != nil {
		verifResFsmClose(fb)
		return "resfsm persist-error"
	}
	snap.Release()
	verifResFsmClose(fb)
	// a fresh process: new stores, new server, then Restore
	fb2, err := verifResFsmBoot(filepath.Join(tmp, fmt.Sprintf("c%d-b2", n)))
	if err != nil {
		return "resfsm harness-error:" + strings.ReplaceAll(err.Error(), " ", "_")
	}
	if err := fb2.Restore(io.NopCloser(bytes.NewReader(sink.buf.Bytes()))); err != nil {
		verifResFsmClose(fb2)
		return "resfsm restore-error:" + strings.ReplaceAll(err.Error(), " ", "_")
	}
	first, _ := fb2.ircstore.FirstIndex()
	last, _ := fb2.ircstore.LastIndex()
	retained := 0
	if last >= first && first > 0 {
		retained = int(last - first + 1)
	}
	for _, l := range logs[k:] {
		fb2.Apply(l)
	}
	dumpB := verifResFsmDump(outputStream)
	verifResFsmClose(fb2)
	return fmt.Sprintf("resfsm A=%s B=%s snap=%s:%d", dumpA, dumpB, snapInfo, retained)
}

func TestVerifResFsm(t *testing.T) {
	in, err := os.Open(os.Getenv("VERIF_IN"))
	if err != nil {
		t.Fatal(err)
	}
	defer in.Close()
	out, err := os.Create(os.Getenv("VERIF_OUT"))
	if err != nil {
		t.Fatal(err)
	}
	defer out.Close()
	w := bufio.NewWriter(out)
	defer w.Flush()
	tmp := t.TempDir()
	sc := bufio.NewScanner(in)
	sc.Buffer(make([]byte, 1<<20), 1<<26)
	n := 0
	for sc.Scan() {
		f := strings.Fields(sc.Text())
		if len(f) == 0 {
			continue
		}
		n++
		if f[0] != "resfsm" || len(f) < 4 {
			fmt.Fprintln(w, "unknown-case-kind")
			continue
		}
		fmt.Fprintln(w, verifResFsmRunCase(f, tmp, n))
	}
}
