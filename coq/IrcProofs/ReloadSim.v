(* IrcProofs/ReloadSim.v — the IRC state machine does not look at what save + load changes (C03, part 3).

   Save + load changes one thing in a reachable state (Reload.v): it rebuilds [sv_serverSessions] from the sessions
   (sorted, without duplicates, without the ids of services links that have quit).  This file proves that this is
   invisible to every handler: [R D] relates two states that agree everywhere except in [sv_serverSessions], where
   they list the same ids as far as ids outside [D] are concerned; it is a BISIMULATION — applying the same log entry to related states gives the same
   kind of outcome (including the same panic, if any), related successor states and the same output messages: same
   reply numbers, same text, same recipients outside [D].  With [D] empty the outputs are literally equal.

   The proof is a binary logical relation over the handler monad ([sim m1 m2]: the same handler started in related
   states with related outputs so far).  A related state is always of the form [patch l sv]; reading the state
   ([getS]) on the right-hand side therefore yields a term that differs from the left-hand side by conversion only,
   except at [sv_serverSessions], which only ever flows into recipient lists.  No invariant of the state is needed. *)
From stdpp Require Import gmap.
From Coq Require Import Strings.String Strings.Ascii ZArith NArith Lia Sorting.Sorted.
From RV Require Import Base.Text Irc.Str Irc.Parse Irc.State Irc.Monad Irc.Cmds Irc.SCmds Irc.Apply.
From RV Require Import IrcProofs.StrLemmas IrcProofs.Top IrcProofs.Outputs IrcProofs.Misc.
Local Open Scope string_scope.

(* the state with the list of services links replaced *)
Definition patch (l : list N) (sv : server) : server :=
  Server (sv_sessions sv) l (sv_nicks sv) (sv_channels sv) (sv_svsholds sv) (sv_netname sv) (sv_lastProcessed sv)
         (sv_config sv).

Lemma patch_id sv : patch (sv_serverSessions sv) sv = sv.
Proof. destruct sv; reflexivity. Qed.

Lemma SS_filter (f : N -> bool) l : StronglySorted N.lt l -> StronglySorted N.lt (List.filter f l).
Proof.
  induction 1 as [|a l Hs IH Hf]; cbn [List.filter]; [constructor|].
  destruct (f a); [|exact IH]. constructor; [exact IH|].
  rewrite List.Forall_forall in *. intros x Hx. apply filter_In in Hx. apply Hf, Hx.
Qed.

Section Sim.
  (* ids whose presence in a recipient set is not observed *)
  Variable D : N -> bool.
  Definition nD (x : N) : bool := negb (D x).

  Definition eqD (l1 l2 : list N) : Prop := forall x, D x = false -> (In x l1 <-> In x l2).
  Lemma eqD_refl l : eqD l l. Proof. intros x _. reflexivity. Qed.
  Lemma eqD_sym l1 l2 : eqD l1 l2 -> eqD l2 l1.
  Proof. intros H x Hx. symmetry. now apply H. Qed.
  Lemma eqD_trans l1 l2 l3 : eqD l1 l2 -> eqD l2 l3 -> eqD l1 l3.
  Proof. intros H1 H2 x Hx. rewrite (H1 x Hx). now apply H2. Qed.
  Lemma eqD_app a1 a2 b1 b2 : eqD a1 a2 -> eqD b1 b2 -> eqD (a1 ++ b1) (a2 ++ b2).
  Proof. intros Ha Hb x Hx. rewrite !in_app_iff, (Ha x Hx), (Hb x Hx). reflexivity. Qed.

  Lemma filter_set_of_ids_eqD rc1 rc2 :
    eqD rc1 rc2 -> List.filter nD (set_of_ids rc1) = List.filter nD (set_of_ids rc2).
  Proof.
    intros H. apply sorted_lt_unique; try (apply SS_filter, set_of_ids_sorted).
    intros x. rewrite !filter_In, !set_of_ids_In. unfold nD.
    split; intros [H1 H2]; (split; [|exact H2]); apply negb_true_iff in H2; apply (H x H2); exact H1.
  Qed.

  Definition R (sv1 sv2 : server) : Prop :=
    exists l, sv2 = patch l sv1 /\ eqD (sv_serverSessions sv1) l.

  (* one output message with the unobserved recipients removed *)
  Definition proj_out (o : omsg) : omsg := OMsg (o_reply o) (o_data o) (List.filter nD (o_rcpt o)).
  Definition Rr (r1 r2 : rctx) : Prop :=
    r_msgid r1 = r_msgid r2 /\ map proj_out (r_out r1) = map proj_out (r_out r2).

  Definition sim {A} (m1 m2 : M A) : Prop :=
    forall sv1 sv2 r1 r2, R sv1 sv2 -> Rr r1 r2 ->
      match m1 sv1 r1, m2 sv2 r2 with
      | Ok (a1, s1, q1), Ok (a2, s2, q2) => a1 = a2 /\ R s1 s2 /\ Rr q1 q2
      | Panic x, Panic y => x = y
      | Gap x, Gap y => x = y
      | _, _ => False
      end.

  Lemma sim_ret {A} (a : A) : sim (retM a) (retM a).
  Proof. intros sv1 sv2 r1 r2 HR Hr. cbn. auto. Qed.
  Lemma sim_bind {A B} (m1 m2 : M A) (f1 f2 : A -> M B) :
    sim m1 m2 -> (forall a, sim (f1 a) (f2 a)) -> sim (bindM m1 f1) (bindM m2 f2).
  Proof.
    intros Hm Hf sv1 sv2 r1 r2 HR Hr. unfold bindM. specialize (Hm sv1 sv2 r1 r2 HR Hr).
    destruct (m1 sv1 r1) as [[[a1 s1] q1]|x|x], (m2 sv2 r2) as [[[a2 s2] q2]|y|y]; try contradiction; try exact Hm.
    destruct Hm as (<- & HR' & Hr'). apply Hf; assumption.
  Qed.
  (* reading the state: the right-hand side reads a patched copy of what the left-hand side reads *)
  Lemma sim_bind_getS {B} (f1 f2 : server -> M B) :
    (forall sv l, eqD (sv_serverSessions sv) l -> sim (f1 sv) (f2 (patch l sv))) ->
    sim (bindM getS f1) (bindM getS f2).
  Proof.
    intros Hf sv1 sv2 r1 r2 HR Hr. unfold bindM, getS. destruct HR as (l & -> & Hl).
    apply (Hf sv1 l Hl); [exists l; auto|exact Hr].
  Qed.
  Lemma sim_panic {A} s : sim (@panicM A s) (@panicM A s).
  Proof. intros sv1 sv2 r1 r2 HR Hr. reflexivity. Qed.
  Lemma sim_gap {A} s : sim (@gapM A s) (@gapM A s).
  Proof. intros sv1 sv2 r1 r2 HR Hr. reflexivity. Qed.
  Lemma sim_modS f1 f2 :
    (forall sv l, eqD (sv_serverSessions sv) l -> R (f1 sv) (f2 (patch l sv))) -> sim (modS f1) (modS f2).
  Proof.
    intros Hf sv1 sv2 r1 r2 HR Hr. unfold modS. destruct HR as (l & -> & Hl). split; [reflexivity|]. split; [|exact Hr].
    now apply Hf.
  Qed.
  Lemma sim_liftR {A} (x1 x2 : res A) : x1 = x2 -> sim (liftR x1) (liftR x2).
  Proof. intros <- sv1 sv2 r1 r2 HR Hr. unfold liftR. destruct x1; auto. Qed.
  Lemma Rr_length r1 r2 : Rr r1 r2 -> List.length (r_out r1) = List.length (r_out r2).
  Proof. intros [_ H]. apply (f_equal (@List.length _)) in H. now rewrite !map_length in H. Qed.
  Lemma sim_replyCount : sim replyCount replyCount.
  Proof. intros sv1 sv2 r1 r2 HR Hr. unfold replyCount. split; [now apply Rr_length|]. auto. Qed.
  Lemma sim_emit rc1 rc2 m1 m2 : eqD rc1 rc2 -> m1 = m2 -> sim (emit rc1 m1) (emit rc2 m2).
  Proof.
    intros Hrc <- sv1 sv2 r1 r2 HR Hr. unfold emit. split; [reflexivity|]. split; [exact HR|].
    destruct Hr as [Hid Hout]. split; cbn [r_msgid r_out]; [exact Hid|]. cbn [map]. f_equal; [|exact Hout].
    unfold proj_out. cbn [o_reply o_data o_rcpt]. rewrite (Rr_length r1 r2 (conj Hid Hout)). f_equal.
    now apply filter_set_of_ids_eqD.
  Qed.
  Lemma sim_whenM b m1 m2 : sim m1 m2 -> sim (whenM b m1) (whenM b m2).
  Proof. intros Hm. destruct b; [exact Hm|apply sim_ret]. Qed.
  Lemma sim_forM {A} (l : list A) (f1 f2 : A -> M unit) : (forall x, sim (f1 x) (f2 x)) -> sim (forM l f1) (forM l f2).
  Proof. intros Hf. induction l as [|x l IH]; cbn [forM]; [apply sim_ret|]. apply sim_bind; [apply Hf|intros _; exact IH]. Qed.

  (* the functions that take the whole state and recurse: they read the nick index and the channels only *)
  Lemma ids_of_members_patch l sv ns : ids_of_members (patch l sv) ns = ids_of_members sv ns.
  Proof. induction ns as [|n ns IH]; cbn [ids_of_members]; [reflexivity|]. rewrite IH. reflexivity. Qed.
  Lemma ids_of_members_but_patch l sv but ns : ids_of_members_but (patch l sv) but ns = ids_of_members_but sv but ns.
  Proof. induction ns as [|n ns IH]; cbn [ids_of_members_but]; [reflexivity|]. rewrite IH. reflexivity. Qed.
  Lemma rc_channel_patch l sv c : rc_channel (patch l sv) c = rc_channel sv c.
  Proof. apply ids_of_members_patch. Qed.
  Lemma rc_channel_but_patch l sv c but : rc_channel_but (patch l sv) c but = rc_channel_but sv c but.
  Proof. unfold rc_channel_but. now rewrite ids_of_members_patch, ids_of_members_but_patch. Qed.
  Lemma rc_common_aux_patch l sv chs : rc_common_aux (patch l sv) chs = rc_common_aux sv chs.
  Proof.
    induction chs as [|ch chs IH]; cbn [rc_common_aux]; [reflexivity|]. rewrite IH.
    change (sv_channels (patch l sv)) with (sv_channels sv). destruct (sv_channels sv !! ch) as [c|]; [|reflexivity].
    now rewrite rc_channel_patch.
  Qed.
  Lemma rc_common_patch l sv s : rc_common (patch l sv) s = rc_common sv s.
  Proof. apply rc_common_aux_patch. Qed.
End Sim.

Ltac norm :=
  cbn [patch sv_sessions sv_serverSessions sv_nicks sv_channels sv_svsholds sv_netname sv_lastProcessed sv_config
       g_revision g_expiration g_cooloff g_maxSessions g_maxChannels g_captchaURL g_captchaHMAC g_captchaLogin
       g_operators g_services g_banned g_trustedBridges g_whitelistedOrigins].

Ltac solve_eqD :=
  repeat first [ assumption | apply eqD_refl | apply eqD_app ].

(* R (f sv) (f (patch l sv)) for the field setters *)
Ltac solve_R :=
  let sv0 := fresh "sv" in let l0 := fresh "l" in let H0 := fresh "Hl" in
  intros sv0 l0 H0; eexists _; split; [reflexivity|];
  first [ exact H0 | apply eqD_app; [exact H0|apply eqD_refl] ].

Ltac sim_step :=
  lazymatch goal with
  | |- sim _ (bindM getS _) (bindM getS _) => apply sim_bind_getS; intros ? ? ?; cbv beta; norm
  | |- sim _ (bindM _ _) (bindM _ _) => apply sim_bind; [|intros ?]
  | |- sim _ (retM _) (retM _) => apply sim_ret
  | |- sim _ (panicM _) (panicM _) => apply sim_panic
  | |- sim _ (gapM _) (gapM _) => apply sim_gap
  | |- sim _ (modS _) (modS _) => apply sim_modS; solve_R
  | |- sim _ (liftR _) (liftR _) =>
      apply sim_liftR; rewrite ?rc_channel_patch, ?rc_channel_but_patch, ?rc_common_patch; reflexivity
  | |- sim _ replyCount replyCount => apply sim_replyCount
  | |- sim _ (emit _ _) (emit _ _) => apply sim_emit; [solve_eqD|reflexivity]
  | |- sim _ (whenM _ _) (whenM _ _) => apply sim_whenM
  | |- sim _ (forM _ _) (forM _ _) => apply sim_forM; intros ?
  | |- sim _ (if ?b1 then _ else _) (if ?b2 then _ else _) => change b2 with b1; destruct b1
  | |- sim _ (match ?x1 with _ => _ end) (match ?x2 with _ => _ end) => change x2 with x1; destruct x1
  | |- sim _ (let _ := _ in _) _ => cbv zeta
  end.

Section Handlers.
  Variable D : N -> bool.
  Notation sim := (sim D).

  Ltac unf := unfold reply_num, reply_svc, sessM, updSess, updChan, chanM, nickM, cfgM, param, prefix_name, msg_prefix,
                chanop_of, captcha_url_check, add_member, leave_channel, maybe_delete_channel,
                remove_nick_everywhere, rename_in_channels, change_nick, create_session,
                srvmsg, server_prefix, rc_services, rc_all, member_session, resolve_remote, captcha_configured, auth_oper.
  Ltac go := repeat (first [ sim_step | assumption | progress (unf; norm) ]).

  Lemma s_delete_session k : sim (delete_session k) (delete_session k).
  Proof. unfold delete_session. unf. go. Qed.
  Lemma s_verify_captcha e k c : sim (verify_captcha e k c) (verify_captcha e k c).
  Proof. unfold verify_captcha. unf. go. Qed.
  Lemma s_cmd_motd k m : sim (cmd_motd k m) (cmd_motd k m).
  Proof. unfold cmd_motd. unf. go. Qed.
  Lemma s_cmd_oper k m : sim (cmd_oper k m) (cmd_oper k m).
  Proof. unfold cmd_oper. unf. go. Qed.
  Lemma s_maybe_login e k m : sim (maybe_login e k m) (maybe_login e k m).
  Proof. unfold maybe_login. unf. go; try apply s_verify_captcha; try apply s_cmd_oper; try apply s_cmd_motd. Qed.
  Lemma s_cmd_nick e k m : sim (cmd_nick e k m) (cmd_nick e k m).
  Proof. unfold cmd_nick. unf. go; try apply s_maybe_login. Qed.
  Lemma s_cmd_user e k m : sim (cmd_user e k m) (cmd_user e k m).
  Proof. unfold cmd_user. unf. go; try apply s_maybe_login. Qed.
  Lemma s_cmd_pass e k m : sim (cmd_pass e k m) (cmd_pass e k m).
  Proof. unfold cmd_pass. unf. go; try apply s_maybe_login. Qed.
  Lemma s_mode_step k lc ch op md q : sim (cmd_mode_chan_step k lc ch op md q) (cmd_mode_chan_step k lc ch op md q).
  Proof. unfold cmd_mode_chan_step. unf. go. Qed.
  Lemma s_mode_loop k lc ch op mds q : sim (cmd_mode_chan_loop k lc ch op mds q) (cmd_mode_chan_loop k lc ch op mds q).
  Proof.
    revert q. induction mds as [|md mds IH]; intros q; cbn [cmd_mode_chan_loop]; [apply sim_ret|].
    apply sim_bind; [apply s_mode_step|]. intros st. destruct (fst st); [apply sim_ret|apply IH].
  Qed.
  Lemma s_cmd_mode k m : sim (cmd_mode k m) (cmd_mode k m).
  Proof. unfold cmd_mode. unf. go; try apply s_mode_loop. Qed.
  Lemma s_cmd_topic k m : sim (cmd_topic k m) (cmd_topic k m).
  Proof. unfold cmd_topic. unf. go. Qed.
  Lemma s_cmd_names k m : sim (cmd_names k m) (cmd_names k m).
  Proof. unfold cmd_names. unf. go. Qed.
  Lemma s_join_one e k ch key : sim (join_one e k ch key) (join_one e k ch key).
  Proof. unfold join_one. unf. go; try apply s_verify_captcha; try apply s_cmd_mode; try apply s_cmd_topic; try apply s_cmd_names. Qed.
  Lemma s_cmd_join e k m : sim (cmd_join e k m) (cmd_join e k m).
  Proof. unfold cmd_join. unf. go; try apply s_join_one. Qed.
  Lemma s_cmd_part k m : sim (cmd_part k m) (cmd_part k m).
  Proof. unfold cmd_part. unf. go. Qed.
  Lemma s_cmd_kick k m : sim (cmd_kick k m) (cmd_kick k m).
  Proof. unfold cmd_kick. unf. go. Qed.
  Lemma s_cmd_invite k m : sim (cmd_invite k m) (cmd_invite k m).
  Proof. unfold cmd_invite. unf. go. Qed.
  Lemma s_cmd_privmsg k m : sim (cmd_privmsg k m) (cmd_privmsg k m).
  Proof. unfold cmd_privmsg. unf. go. Qed.
  Lemma s_cmd_service_alias k m : sim (cmd_service_alias k m) (cmd_service_alias k m).
  Proof. unfold cmd_service_alias. unf. go; try apply s_cmd_privmsg. Qed.
  Lemma s_cmd_who k m : sim (cmd_who k m) (cmd_who k m).
  Proof. unfold cmd_who. unf. go. Qed.
  Lemma s_cmd_whois k m : sim (cmd_whois k m) (cmd_whois k m).
  Proof. unfold cmd_whois. unf. go. Qed.
  Lemma s_cmd_list k m : sim (cmd_list k m) (cmd_list k m).
  Proof. unfold cmd_list. unf. go. Qed.
  Lemma s_cmd_away k m : sim (cmd_away k m) (cmd_away k m).
  Proof. unfold cmd_away. unf. go. Qed.
  Lemma s_cmd_ison k m : sim (cmd_ison k m) (cmd_ison k m).
  Proof. unfold cmd_ison. unf. go. Qed.
  Lemma s_cmd_userhost k m : sim (cmd_userhost k m) (cmd_userhost k m).
  Proof. unfold cmd_userhost. unf. go. Qed.
  Lemma s_cmd_knock k m : sim (cmd_knock k m) (cmd_knock k m).
  Proof. unfold cmd_knock. unf. go. Qed.
  Lemma s_cmd_ping k m : sim (cmd_ping k m) (cmd_ping k m).
  Proof. unfold cmd_ping. unf. go. Qed.
  Lemma s_cmd_quit k m : sim (cmd_quit k m) (cmd_quit k m).
  Proof. unfold cmd_quit. unf. go; try apply s_delete_session. Qed.
  Lemma s_cmd_kill k m : sim (cmd_kill k m) (cmd_kill k m).
  Proof. unfold cmd_kill. unf. go; try apply s_delete_session. Qed.
  Lemma s_cmd_gline k m : sim (cmd_gline k m) (cmd_gline k m).
  Proof. unfold cmd_gline. unf. go; try apply s_cmd_kill. Qed.
  (* services *)
  Lemma s_burst_one sv l t : eqD D (sv_serverSessions sv) l -> sim (burst_one sv t) (burst_one (patch l sv) t).
  Proof. intros Hl. unfold burst_one. unf. norm. go. Qed.
  Lemma s_cmd_server k m : sim (cmd_server k m) (cmd_server k m).
  Proof. unfold cmd_server. unf. go; try (apply s_burst_one; assumption). Qed.
  Lemma s_cmd_server_nick k m : sim (cmd_server_nick k m) (cmd_server_nick k m).
  Proof. unfold cmd_server_nick. unf. go. Qed.
  Lemma s_quit_pseudo tk m : sim (quit_pseudo tk m) (quit_pseudo tk m).
  Proof. unfold quit_pseudo. unf. go; try apply s_delete_session. Qed.
  Lemma s_cmd_server_quit k m : sim (cmd_server_quit k m) (cmd_server_quit k m).
  Proof. unfold cmd_server_quit. unf. go; try apply s_delete_session; try apply s_quit_pseudo. Qed.
  Lemma s_cmd_server_kill k m : sim (cmd_server_kill k m) (cmd_server_kill k m).
  Proof. unfold cmd_server_kill. unf. go; try apply s_delete_session. Qed.
  Lemma s_cmd_server_join k m : sim (cmd_server_join k m) (cmd_server_join k m).
  Proof. unfold cmd_server_join. unf. go. Qed.
  Lemma s_cmd_server_part k m : sim (cmd_server_part k m) (cmd_server_part k m).
  Proof. unfold cmd_server_part. unf. go. Qed.
  Lemma s_cmd_server_kick k m : sim (cmd_server_kick k m) (cmd_server_kick k m).
  Proof. unfold cmd_server_kick. unf. go. Qed.
  Lemma s_cmd_server_svsjoin k m : sim (cmd_server_svsjoin k m) (cmd_server_svsjoin k m).
  Proof. unfold cmd_server_svsjoin. unf. go; try apply s_cmd_topic; try apply s_cmd_names. Qed.
  Lemma s_cmd_server_svspart k m : sim (cmd_server_svspart k m) (cmd_server_svspart k m).
  Proof. unfold cmd_server_svspart. unf. go. Qed.
  Lemma s_cmd_server_svsnick k m : sim (cmd_server_svsnick k m) (cmd_server_svsnick k m).
  Proof. unfold cmd_server_svsnick. unf. go. Qed.
  Lemma s_cmd_server_mode k m : sim (cmd_server_mode k m) (cmd_server_mode k m).
  Proof. unfold cmd_server_mode. unf. go. Qed.
  Lemma s_cmd_server_topic k m : sim (cmd_server_topic k m) (cmd_server_topic k m).
  Proof. unfold cmd_server_topic. unf. go. Qed.
  Lemma s_cmd_server_invite k m : sim (cmd_server_invite k m) (cmd_server_invite k m).
  Proof. unfold cmd_server_invite. unf. go. Qed.
  Lemma s_cmd_server_privmsg k m : sim (cmd_server_privmsg k m) (cmd_server_privmsg k m).
  Proof. unfold cmd_server_privmsg. unf. go. Qed.
  Lemma s_cmd_server_svshold k m : sim (cmd_server_svshold k m) (cmd_server_svshold k m).
  Proof. unfold cmd_server_svshold. unf. go. Qed.
  Lemma s_cmd_server_svsmode k m : sim (cmd_server_svsmode k m) (cmd_server_svsmode k m).
  Proof. unfold cmd_server_svsmode. unf. go. Qed.

  Lemma s_dispatch name minp (f : handler) e k m : In (name, (minp, f)) commands -> sim (f e k m) (f e k m).
  Proof.
    intros Hin. unfold commands in Hin.
    repeat (destruct Hin as [Hin|Hin]; [injection Hin as <- <- <-|]); try contradiction; unfold noenv;
      first [ apply s_cmd_service_alias | apply s_cmd_away | apply s_cmd_gline | apply s_cmd_invite | apply s_cmd_ison
            | apply s_cmd_join | apply s_cmd_kick | apply s_cmd_kill | apply s_cmd_knock | apply s_cmd_list | apply s_cmd_mode
            | apply s_cmd_motd | apply s_cmd_names | apply s_cmd_nick | apply s_cmd_oper | apply s_cmd_part | apply s_cmd_pass
            | apply s_cmd_ping | apply s_cmd_privmsg | apply s_cmd_quit | apply s_cmd_topic | apply s_cmd_user
            | apply s_cmd_userhost | apply s_cmd_who | apply s_cmd_whois | apply s_cmd_server
            | apply s_cmd_server_invite | apply s_cmd_server_join | apply s_cmd_server_kick | apply s_cmd_server_kill
            | apply s_cmd_server_mode | apply s_cmd_server_nick | apply s_cmd_server_part | apply s_cmd_server_privmsg
            | apply s_cmd_server_quit | apply s_cmd_server_svshold | apply s_cmd_server_svsjoin | apply s_cmd_server_svsmode
            | apply s_cmd_server_svsnick | apply s_cmd_server_svspart | apply s_cmd_server_topic ].
  Qed.

  Lemma s_process_message e k ra ircmsg : sim (process_message e k ra ircmsg) (process_message e k ra ircmsg).
  Proof.
    unfold process_message. apply sim_bind; [unf; go|]. intros s.
    destruct ircmsg as [m|]; [|unf; go]. cbv zeta.
    apply sim_bind.
    { destruct (_ && _); [|apply sim_ret]. unf. go; apply s_delete_session. }
    intros banned. destruct banned; [apply sim_ret|].
    apply sim_bind; [unf; go|]. intros s1.
    destruct (_ && _ && _).
    { unf. go; apply s_delete_session. }
    destruct (assoc_str _ commands) as [[minp f]|] eqn:Hc; [|unf; go].
    destruct (Nat.ltb _ _); [unf; go|].
    eapply s_dispatch. eapply assoc_str_In. exact Hc.
  Qed.

  (* ---- log entries ---------------------------------------------------------------------------------------- *)
  Notation R := (R D).

  Lemma R_refl sv : R sv sv.
  Proof. exists (sv_serverSessions sv). split; [symmetry; apply patch_id|apply eqD_refl]. Qed.

  (* related states agree on everything but the list of services links *)
  Lemma R_fields sv1 sv2 : R sv1 sv2 ->
    sv_sessions sv2 = sv_sessions sv1 /\ sv_nicks sv2 = sv_nicks sv1 /\ sv_channels sv2 = sv_channels sv1 /\
    sv_svsholds sv2 = sv_svsholds sv1 /\ sv_netname sv2 = sv_netname sv1 /\ sv_lastProcessed sv2 = sv_lastProcessed sv1 /\
    sv_config sv2 = sv_config sv1 /\
    eqD D (sv_serverSessions sv1) (sv_serverSessions sv2).
  Proof. intros (l & -> & Hl). do 7 (split; [reflexivity|]). exact Hl. Qed.

  Lemma R_intro sv1 sv2 :
    sv_sessions sv2 = sv_sessions sv1 -> sv_nicks sv2 = sv_nicks sv1 -> sv_channels sv2 = sv_channels sv1 ->
    sv_svsholds sv2 = sv_svsholds sv1 -> sv_netname sv2 = sv_netname sv1 -> sv_lastProcessed sv2 = sv_lastProcessed sv1 ->
    sv_config sv2 = sv_config sv1 ->
    eqD D (sv_serverSessions sv1) (sv_serverSessions sv2) -> R sv1 sv2.
  Proof.
    intros H1 H2 H3 H4 H5 H6 H7 H8. exists (sv_serverSessions sv2). split; [|exact H8].
    destruct sv2. cbn in *. subst. reflexivity.
  Qed.

  Definition same_out (out1 out2 : list omsg) : Prop := map (proj_out D) out1 = map (proj_out D) out2.

  Definition Rout (o1 o2 : outcome) : Prop :=
    match o1, o2 with
    | OOk s1 out1, OOk s2 out2 => R s1 s2 /\ same_out out1 out2
    | OSessionLimit s1, OSessionLimit s2 => R s1 s2
    | OSkip s1, OSkip s2 => R s1 s2
    | OPanic x, OPanic y => x = y
    | OGap x, OGap y => x = y
    | _, _ => False
    end.

  Lemma update_last_cmid_patch k ts d c l sv :
    update_last_cmid k ts d c (patch l sv) = patch l <$> update_last_cmid k ts d c sv.
  Proof. unfold update_last_cmid. norm. destruct (sv_sessions sv !! k); reflexivity. Qed.

  Lemma maybe_delete_session_patch k l sv :
    maybe_delete_session k (patch l sv) = patch l (maybe_delete_session k sv).
  Proof.
    unfold maybe_delete_session. norm. destruct (sv_sessions sv !! k) as [s|]; [|reflexivity].
    destruct (s_server s || s_operator s), (s_deleted s); reflexivity.
  Qed.

  Lemma same_out_rev out1 out2 : same_out out1 out2 -> same_out (rev out1) (rev out2).
  Proof. unfold same_out. intros H. rewrite !map_rev, H. reflexivity. Qed.

  Lemma run_handler_sim e k ra ircmsg sv1 sv2 msgid finish :
    R sv1 sv2 -> (forall l sv, finish (patch l sv) = patch l (finish sv)) ->
    Rout (run_handler sv1 msgid (process_message e k ra ircmsg) finish)
         (run_handler sv2 msgid (process_message e k ra ircmsg) finish).
  Proof.
    intros HR Hfin. unfold run_handler.
    assert (Hr0 : Rr D (RCtx msgid []) (RCtx msgid [])) by (split; reflexivity).
    pose proof (s_process_message e k ra ircmsg sv1 sv2 _ _ HR Hr0) as H.
    destruct (process_message e k ra ircmsg sv1 _) as [[[[] s1] q1]|x|x],
             (process_message e k ra ircmsg sv2 _) as [[[[] s2] q2]|y|y]; try contradiction; try exact H.
    destruct H as (_ & (l & -> & Hl) & [_ Hout]). cbn [Rout]. split.
    - rewrite Hfin. exists l. split; [reflexivity|].
      (* finish does not touch the list *)
      specialize (Hfin (sv_serverSessions s1) s1). rewrite patch_id in Hfin.
      pose proof (f_equal sv_serverSessions (Hfin)) as E. cbn [patch sv_serverSessions] in E. rewrite E. exact Hl.
    - apply same_out_rev. exact Hout.
  Qed.

  Theorem apply_entry_sim e sv1 sv2 en : R sv1 sv2 -> Rout (apply_entry e sv1 en) (apply_entry e sv2 en).
  Proof.
    intros HR. destruct en as [id un auth|id un session q|id un session cmid ra data|id un session cmid data|id un rev parsed];
      cbn [apply_entry].
    - assert (Hr0 : Rr D (RCtx id []) (RCtx id [])) by (split; reflexivity).
      assert (Hc : sim (create_session (id, 0%N) auth (timestamp id un)) (create_session (id, 0%N) auth (timestamp id un)))
        by (unf; go).
      specialize (Hc sv1 sv2 _ _ HR Hr0).
      destruct (create_session _ _ _ sv1 _) as [[[b1 s1] q1]|x|x], (create_session _ _ _ sv2 _) as [[[b2 s2] q2]|y|y];
        try contradiction; try exact Hc.
      destruct Hc as (<- & HR' & _). destruct b1; cbn [Rout]; [split; [exact HR'|reflexivity]|exact HR'].
    - destruct HR as (l & -> & Hl). norm.
      destruct (sv_sessions sv1 !! (session, 0%N)).
      + apply run_handler_sim; [exists l; auto|]. intros l' sv'. now rewrite <- maybe_delete_session_patch.
      + cbn [Rout]. split; [exists l; auto|reflexivity].
    - destruct HR as (l & -> & Hl). change (is_retry (session, 0%N) cmid (patch l sv1)) with (is_retry (session, 0%N) cmid sv1).
      destruct (is_retry _ _ sv1); [cbn [Rout]; split; [exists l; auto|reflexivity]|].
      rewrite update_last_cmid_patch. destruct (update_last_cmid _ _ _ _ sv1) as [sv1'|] eqn:Hu; cbn [fmap option_fmap option_map].
      + apply run_handler_sim.
        * exists l. split; [reflexivity|]. unfold update_last_cmid in Hu.
          destruct (sv_sessions sv1 !! (session, 0%N)); [|discriminate]. injection Hu as <-. exact Hl.
        * intros l' sv'. now rewrite <- maybe_delete_session_patch.
      + cbn [Rout]. exists l. auto.
    - destruct HR as (l & -> & Hl). rewrite update_last_cmid_patch.
      destruct (update_last_cmid _ _ _ _ sv1) as [sv1'|] eqn:Hu; cbn [fmap option_fmap option_map Rout].
      + split; [|reflexivity]. exists l. split; [reflexivity|]. unfold update_last_cmid in Hu.
        destruct (sv_sessions sv1 !! (session, 0%N)); [|discriminate]. injection Hu as <-. exact Hl.
      + exists l. auto.
    - destruct HR as (l & -> & Hl). destruct (config_in_force _ _ _) as [g|] eqn:Hcf; cbn [Rout]; (split; [|reflexivity]).
      + exists l. split; [|exact Hl]. reflexivity.
      + exists l. auto.
  Qed.

  (* ---- histories ----------------------------------------------------------------------------------------------- *)
  Fixpoint run_trace (e : env) (sv : server) (es : list entry) : list outcome :=
    match es with
    | [] => []
    | en :: r => let o := apply_entry e sv en in
                 o :: match entry_result o with Some sv' => run_trace e sv' r | None => [] end
    end.

  Theorem run_trace_sim e es : forall sv1 sv2, R sv1 sv2 -> Forall2 Rout (run_trace e sv1 es) (run_trace e sv2 es).
  Proof.
    induction es as [|en es IH]; intros sv1 sv2 HR; cbn [run_trace]; [constructor|].
    pose proof (apply_entry_sim e sv1 sv2 en HR) as H. constructor; [exact H|].
    destruct (apply_entry e sv1 en) as [s1 o1|s1|s1|x|x], (apply_entry e sv2 en) as [s2 o2|s2|s2|y|y];
      try contradiction; cbn [entry_result]; try constructor; apply IH; try exact H. apply H.
  Qed.

  Corollary run_sim e es sv1 sv2 :
    R sv1 sv2 ->
    match run e sv1 es, run e sv2 es with
    | Some s1, Some s2 => R s1 s2
    | None, None => True
    | _, _ => False
    end.
  Proof.
    revert sv1 sv2. induction es as [|en es IH]; intros sv1 sv2 HR; cbn [run]; [exact HR|].
    pose proof (apply_entry_sim e sv1 sv2 en HR) as H.
    destruct (apply_entry e sv1 en) as [s1 o1|s1|s1|x|x], (apply_entry e sv2 en) as [s2 o2|s2|s2|y|y];
      try contradiction; cbn [entry_result]; try exact Logic.I; apply IH; try exact H. apply H.
  Qed.
End Handlers.

(* with nothing to ignore, equal projections are equal outputs *)
Lemma proj_out_none o : proj_out (fun _ => false) o = o.
Proof.
  destruct o as [n d rc]. unfold proj_out, nD. cbn. f_equal.
  induction rc as [|x rc IH]; cbn; [reflexivity|]. now rewrite IH.
Qed.
Lemma same_out_none out1 out2 : same_out (fun _ => false) out1 out2 -> out1 = out2.
Proof.
  unfold same_out. intros H. rewrite !(map_ext _ (fun o => o) proj_out_none), !map_id in H. exact H.
Qed.
