(* Proofs for Sys/EndToEnd.v (property C05).  All statements are unbounded: any machine, any log,
   any number of nodes, sessions and requests; proofs by induction over the log. *)
From Coq Require Import List NArith Arith Bool Lia.
From RV Require Import Sys.EndToEnd.
Import ListNotations.

Section Composition.
  Variable M : Sys.

  (* ---------------------------------------------------------------- replay lemmas *)
  Lemma run_app : forall l1 l2 st,
    run M st (l1 ++ l2) =
    (fst (run M (fst (run M st l1)) l2), snd (run M st l1) ++ snd (run M (fst (run M st l1)) l2)).
  Proof.
    induction l1 as [|e l1 IH]; intros l2 st; cbn [run app fst snd].
    - destruct (run M st l2); reflexivity.
    - rewrite IH. cbn [fst snd]. rewrite app_assoc. reflexivity.
  Qed.

  Lemma state_of_snoc : forall l e, state_of M (l ++ [e]) = fst (step M (state_of M l) e).
  Proof. intros l e. unfold state_of. rewrite run_app. cbn. reflexivity. Qed.

  Lemma outs_of_app : forall l1 l2, outs_of M (l1 ++ l2) = outs_of M l1 ++ snd (run M (state_of M l1) l2).
  Proof. intros. unfold outs_of, state_of. rewrite run_app. reflexivity. Qed.

  (* outputs of a prefix are a prefix of the outputs *)
  Lemma outs_prefix : forall l1 l2, prefix_of l1 l2 -> prefix_of (outs_of M l1) (outs_of M l2).
  Proof. intros l1 l2 [t ->]. rewrite outs_of_app. eexists; reflexivity. Qed.

  Lemma filter_prefix : forall A (f : A -> bool) a b, prefix_of a b -> prefix_of (filter f a) (filter f b).
  Proof. intros A f a b [t ->]. rewrite filter_app. eexists; reflexivity. Qed.

  Lemma firstn_prefix : forall A (l : list A) a b, a <= b -> prefix_of (firstn a l) (firstn b l).
  Proof.
    intros A l a b Hab. exists (skipn a (firstn b l)).
    replace (firstn a l) with (firstn a (firstn b l)).
    - symmetry. apply firstn_skipn.
    - rewrite firstn_firstn. f_equal. lia.
  Qed.

  (* ---------------------------------------------------------------- same stream *)
  Section Nodes.
    Hypothesis node_state_is_replay : NodeStateIsReplay M.

    Lemma served_mono : forall i j s, applied M i <= applied M j -> prefix_of (served M i s) (served M j s).
    Proof.
      intros i j s Hle. unfold served.
      destruct (node_state_is_replay i) as [_ ->]. destruct (node_state_is_replay j) as [_ ->].
      apply filter_prefix, outs_prefix, firstn_prefix, Hle.
    Qed.

    Theorem same_stream : SameStream M.
    Proof.
      intros i j s. destruct (le_ge_dec (applied M i) (applied M j)) as [H|H].
      - left. apply served_mono, H.
      - right. apply served_mono. lia.
    Qed.
  End Nodes.

  (* ---------------------------------------------------------------- marker lemmas *)
  Section Marker.
    Hypothesis marker_init : MarkerInit M.
    Hypothesis marker_set : MarkerSet M.
    Hypothesis marker_only : MarkerOnly M.

    (* a non-zero marker was written by an applied entry with that session and id *)
    Lemma marker_from_entry : forall l s c, lastpost M (state_of M l) s = c -> c <> 0%N ->
      exists i e, nth_error l i = Some e /\ entry_key M e = Some (s, c).
    Proof.
      induction l as [|e l IH] using rev_ind; intros s c Hc Hnz.
      - exfalso. apply Hnz. rewrite <- Hc. apply marker_init.
      - rewrite state_of_snoc in Hc.
        destruct (N.eq_dec (lastpost M (fst (step M (state_of M l) e)) s) (lastpost M (state_of M l) s)) as [Heq|Hne].
        + rewrite Heq in Hc. destruct (IH s c Hc Hnz) as (i & e' & Hn & Hk).
          exists i, e'. split; [|exact Hk]. rewrite nth_error_app1; [exact Hn|].
          apply nth_error_Some. congruence.
        + apply marker_only in Hne. rewrite Hc in Hne.
          exists (length l), e. split; [|exact Hne].
          rewrite nth_error_app2 by lia. rewrite Nat.sub_diag. reflexivity.
    Qed.

    (* once an entry (s,c) is applied and every later entry of s carries c, the marker is c *)
    Lemma marker_stays : forall l s c i e, nth_error l i = Some e -> entry_key M e = Some (s, c) ->
      (forall j e' c', i < j -> nth_error l j = Some e' -> entry_key M e' = Some (s, c') -> c' = c) ->
      lastpost M (state_of M l) s = c.
    Proof.
      induction l as [|x l IH] using rev_ind; intros s c i e Hn Hk Hlater.
      - destruct i; discriminate.
      - rewrite state_of_snoc.
        destruct (Nat.eq_dec i (length l)) as [->|Hi].
        + rewrite nth_error_app2 in Hn by lia. rewrite Nat.sub_diag in Hn. cbn in Hn.
          injection Hn as ->. apply marker_set, Hk.
        + assert (Hlt : i < length l).
          { assert (i < length (l ++ [x])) by (apply nth_error_Some; congruence).
            rewrite app_length in H. cbn in H. lia. }
          rewrite nth_error_app1 in Hn by exact Hlt.
          assert (IH' : lastpost M (state_of M l) s = c).
          { apply (IH s c i e Hn Hk). intros j e' c' Hij Hj Hk'.
            apply (Hlater j e' c' Hij); [|exact Hk'].
            rewrite nth_error_app1; [exact Hj|]. apply nth_error_Some. congruence. }
          destruct (N.eq_dec (lastpost M (fst (step M (state_of M l) x)) s) (lastpost M (state_of M l) s)) as [Heq|Hne].
          * rewrite Heq. exact IH'.
          * apply marker_only in Hne.
            apply (Hlater (length l) x _ Hlt); [|exact Hne].
            rewrite nth_error_app2 by lia. rewrite Nat.sub_diag. reflexivity.
    Qed.
  End Marker.

  Lemma nth_error_firstn_lt : forall A (l : list A) k i, i < k -> nth_error (firstn k l) i = nth_error l i.
  Proof.
    intros A l. induction l as [|x l IH]; intros k i Hik.
    - rewrite firstn_nil. reflexivity.
    - destruct k; [lia|]. destruct i; cbn; [reflexivity|]. apply IH. lia.
  Qed.

  Lemma nth_error_firstn_some : forall A (l : list A) k i x, nth_error (firstn k l) i = Some x ->
    i < k /\ nth_error l i = Some x.
  Proof.
    intros A l k i x H.
    assert (Hlen : i < length (firstn k l)) by (apply nth_error_Some; congruence).
    rewrite firstn_length in Hlen. assert (i < k) by lia.
    split; [assumption|]. rewrite <- H. symmetry. apply nth_error_firstn_lt. assumption.
  Qed.

  (* ---------------------------------------------------------------- durability of acknowledgements *)
  Section Durable.
    Hypothesis proposal_entry : ProposalEntry M.
    Hypothesis ack_implies_committed : AckImpliesCommitted M.
    Hypothesis marker_init : MarkerInit M.
    Hypothesis marker_only : MarkerOnly M.
    Hypothesis cmid_nonzero : CmidNonzero M.

    (* This IS the raft-contract hypothesis [ack_implies_committed] composed with the handler
       model: on the proposal path the entry is in L by the contract; on the dedup path the marker
       equals the id, and a non-zero marker can only have been written by an applied entry of L. *)
    Theorem ack_durable : AckDurable M.
    Proof.
      intros s n Hn Hack. destruct (ack_implies_committed s n Hn Hack) as [[i Hi]|Hm].
      - exists i. apply (proposal_entry s n i Hn Hi).
      - unfold seen_state in Hm.
        destruct (marker_from_entry marker_init marker_only _ _ _ Hm (cmid_nonzero s n Hn)) as (i & e & Hi & Hk).
        apply nth_error_firstn_some in Hi. destruct Hi as [_ Hi].
        exists i, e. split; assumption.
    Qed.
  End Durable.

  (* ---------------------------------------------------------------- processed exactly once *)
  Section ProcessedOnce.
    Hypothesis node_state_is_replay : NodeStateIsReplay M.
    Hypothesis proposal_appends : ProposalAppends M.
    Hypothesis proposal_entry : ProposalEntry M.
    Hypothesis log_from_requests : LogFromRequests M.
    Hypothesis ack_implies_committed : AckImpliesCommitted M.
    Hypothesis marker_init : MarkerInit M.
    Hypothesis marker_set : MarkerSet M.
    Hypothesis marker_only : MarkerOnly M.
    Hypothesis apply_skip : ApplySkip M.
    Hypothesis cmid_nonzero : CmidNonzero M.
    Hypothesis client_no_return : ClientNoReturn M.
    Hypothesis earlier_messages_settled : EarlierMessagesSettled M.

    (* between two copies of a post the log holds no entry of that session with another id, so a
       node applying the later copy finds the marker equal to its id *)
    Lemma later_copy_sees_marker : forall s c i1 i2, copy_at M s c i1 -> copy_at M s c i2 -> i1 < i2 ->
      lastpost M (state_before M i2) s = c.
    Proof.
      intros s c i1 i2 H1 H2 Hlt.
      destruct (log_from_requests s c i1 H1) as (n1 & Hn1 & Hc1 & Hi1).
      destruct (log_from_requests s c i2 H2) as (n2 & Hn2 & Hc2 & Hi2).
      destruct H1 as (e1 & He1 & Hk1). unfold state_before.
      apply (marker_stays marker_set marker_only _ s c i1 e1).
      - rewrite nth_error_firstn_lt by exact Hlt. exact He1.
      - exact Hk1.
      - intros j e' c' Hij Hj Hk'.
        apply nth_error_firstn_some in Hj. destruct Hj as [Hji2 Hj].
        destruct (N.eq_dec c' c) as [|Hcc]; [assumption|exfalso].
        destruct (log_from_requests s c' j (ex_intro _ e' (conj Hj Hk'))) as (n' & Hn' & Hc' & Hi').
        destruct (lt_eq_lt_dec n' n1) as [[Hq|Hq]|Hq].
        + assert (Hd : r_cmid M s n' <> r_cmid M s n1) by congruence.
          pose proof (earlier_messages_settled s n' n1 j Hq Hn1 Hd Hi').
          pose proof (proposal_appends s n1 i1 Hn1 Hi1). lia.
        + subst n'. congruence.
        + destruct (lt_eq_lt_dec n' n2) as [[Hr|Hr]|Hr].
          * assert (r_cmid M s n' = r_cmid M s n1) by (apply (client_no_return s n1 n' n2 Hq Hr Hn2); congruence).
            congruence.
          * subst n'. congruence.
          * assert (Hd : r_cmid M s n2 <> r_cmid M s n') by congruence.
            pose proof (earlier_messages_settled s n2 n' i2 Hr Hn' Hd Hi2).
            pose proof (proposal_appends s n' j Hn' Hi'). lia.
    Qed.

    Lemma effective_is_copy : forall s c i, effective_at M s c i -> copy_at M s c i.
    Proof. intros s c i (e & He & Hk & _). exists e. split; assumption. Qed.

    (* below every copy there is a processed one (the first) *)
    Lemma effective_exists : forall s c, c <> 0%N -> forall i, copy_at M s c i ->
      exists i0, i0 <= i /\ effective_at M s c i0.
    Proof.
      intros s c Hnz i. induction i as [i IH] using lt_wf_ind. intros (e & He & Hk).
      destruct (N.eq_dec (lastpost M (state_before M i) s) c) as [Heq|Hne].
      - unfold state_before in Heq.
        destruct (marker_from_entry marker_init marker_only _ _ _ Heq Hnz) as (i' & e' & Hi' & Hk').
        apply nth_error_firstn_some in Hi'. destruct Hi' as [Hlt Hi'].
        destruct (IH i' Hlt (ex_intro _ e' (conj Hi' Hk'))) as (i0 & Hle & Heff).
        exists i0. split; [lia|exact Heff].
      - exists i. split; [lia|]. exists e. repeat split; assumption.
    Qed.

    Lemma later_copy_skipped : forall s c i j, c <> 0%N -> copy_at M s c i -> copy_at M s c j -> i < j ->
      skipped_at M j.
    Proof.
      intros s c i j Hnz Hi Hj Hlt. pose proof (later_copy_sees_marker s c i j Hi Hj Hlt) as Hm.
      destruct Hj as (e' & He' & Hk'). exists e'. split; [exact He'|].
      apply (apply_skip _ e' s c Hk' Hnz Hm).
    Qed.

    Theorem processed_once : ProcessedOnce M.
    Proof.
      intros s n Hn Hack. pose proof (cmid_nonzero s n Hn) as Hnz.
      destruct (ack_durable proposal_entry ack_implies_committed marker_init marker_only cmid_nonzero s n Hn Hack) as [i Hi].
      destruct (effective_exists s _ Hnz i Hi) as (i0 & _ & Heff).
      exists i0. split; [exact Heff|]. intros j Hj Hne.
      destruct (lt_eq_lt_dec j i0) as [[H|H]|H]; [exfalso|congruence|].
      - pose proof (later_copy_sees_marker s _ j i0 Hj (effective_is_copy _ _ _ Heff) H) as Hm.
        destruct Heff as (e & _ & _ & Hd). apply Hd, Hm.
      - split; [exact H|]. apply (later_copy_skipped s _ i0 j Hnz (effective_is_copy _ _ _ Heff) Hj H).
    Qed.

    Theorem sender_order : SenderOrder M.
    Proof.
      intros s n n' i i' Hnn Hn' Hdiff Hi Hi'.
      destruct (log_from_requests s _ i Hi) as (m & Hm & Hcm & Him).
      destruct (log_from_requests s _ i' Hi') as (m' & Hm' & Hcm' & Him').
      destruct (lt_eq_lt_dec m m') as [[H|H]|H].
      - assert (Hd : r_cmid M s m <> r_cmid M s m') by congruence.
        pose proof (earlier_messages_settled s m m' i H Hm' Hd Him).
        pose proof (proposal_appends s m' i' Hm' Him'). lia.
      - subst m'. congruence.
      - exfalso. (* m' (id of n') before m (id of n), although n before n': the client returned to an id *)
        destruct (lt_eq_lt_dec n m') as [[Hq|Hq]|Hq].
        + assert (r_cmid M s m' = r_cmid M s n) by (apply (client_no_return s n m' m Hq H Hm); congruence). congruence.
        + subst m'. congruence.
        + assert (r_cmid M s n = r_cmid M s m') by (apply (client_no_return s m' n n' Hq Hnn Hn'); congruence). congruence.
    Qed.

    Lemma split_at : forall A (l : list A) i e, nth_error l i = Some e -> l = firstn i l ++ e :: skipn (S i) l.
    Proof.
      intros A l. induction l as [|x l IH]; intros i e H.
      - destruct i; discriminate.
      - destruct i; cbn in *.
        + injection H as ->. reflexivity.
        + f_equal. apply IH, H.
    Qed.

    Lemma firstn_S_nth : forall A (l : list A) i e, nth_error l i = Some e -> firstn (S i) l = firstn i l ++ [e].
    Proof.
      intros A l. induction l as [|x l IH]; intros i e H.
      - destruct i; discriminate.
      - destruct i.
        + cbn in H. injection H as ->. reflexivity.
        + cbn in H. change (x :: firstn (S i) l = x :: (firstn i l ++ [e])). f_equal. apply IH, H.
    Qed.

    Theorem delivered_once : DeliveredOnce M.
    Proof.
      intros s n Hn Hack. pose proof (cmid_nonzero s n Hn) as Hnz.
      destruct (processed_once s n Hn Hack) as (i & Heff & Hothers).
      pose proof (effective_is_copy _ _ _ Heff) as Hcopy.
      destruct Heff as (e & He & Hk & Hd).
      exists i, e. split; [exact He|]. split; [exact Hk|]. split; [|split].
      - intros k Hki Hck. destruct (Hothers k Hck) as [Hlt _]; lia.
      - intros k Hik Hck. apply (Hothers k Hck). lia.
      - intros j r Hij.
        set (l := firstn (applied M j) (L M)).
        assert (Hl : nth_error l i = Some e) by (unfold l; rewrite nth_error_firstn_lt by exact Hij; exact He).
        assert (Hfi : firstn i l = firstn i (L M)).
        { unfold l. rewrite firstn_firstn. f_equal. lia. }
        pose proof (split_at _ l i e Hl) as Hsplit. rewrite Hfi in Hsplit.
        unfold served. destruct (node_state_is_replay j) as [_ ->]. fold l.
        rewrite Hsplit at 1. rewrite outs_of_app. rewrite filter_app. f_equal.
        cbn [run]. cbn [fst snd]. rewrite filter_app. unfold state_before. f_equal. f_equal.
        assert (Hs : firstn (S i) (L M) = firstn i (L M) ++ [e]) by (apply firstn_S_nth, He).
        rewrite Hs. rewrite state_of_snoc. reflexivity.
    Qed.
  End ProcessedOnce.
End Composition.

(* ---------------------------------------------------------------- closed statements *)
Theorem composition_same_stream : forall M, NodeStateIsReplay M -> SameStream M.
Proof. exact same_stream. Qed.

Theorem composition_ack_durable : forall M,
  ProposalEntry M -> AckImpliesCommitted M -> MarkerInit M -> MarkerOnly M -> CmidNonzero M -> AckDurable M.
Proof. exact ack_durable. Qed.

Theorem composition_exactly_once : forall M, Contract M ->
  ProcessedOnce M /\ SenderOrder M /\ DeliveredOnce M.
Proof.
  intros M ((H1 & H2 & H3 & H4 & H5 & H6 & H7 & H8 & H9 & H10 & H11) & H12).
  split; [|split].
  - apply processed_once; assumption.
  - apply sender_order; assumption.
  - apply delivered_once; assumption.
Qed.

(* ---------------------------------------------------------------- the hypotheses are satisfiable *)
Ltac req2 n := destruct n as [|[|n]]; [| |cbn in *; lia].

Lemma tiny_copy_at : forall sk log na nq cm ln sn ix ak c i,
  copy_at (tiny sk log na nq cm ln sn ix ak) tt c i <-> nth_error log i = Some c.
Proof.
  intros. unfold copy_at. cbn. split.
  - intros (e & He & Hk). injection Hk as ->. exact He.
  - intros H. exists c. split; [exact H|reflexivity].
Qed.

Lemma tiny_marker_rules : forall sk log na nq cm ln sn ix ak,
  let T := tiny sk log na nq cm ln sn ix ak in MarkerInit T /\ MarkerSet T /\ MarkerOnly T.
Proof.
  intros. split; [|split].
  - intros s. reflexivity.
  - intros st e s c H. cbn in *. injection H as _ ->. unfold tiny_step.
    destruct (sk && negb (N.eqb c 0) && N.eqb (tiny_marker st) c) eqn:Hc; cbn; [|reflexivity].
    apply andb_prop in Hc. destruct Hc as [_ Hc]. apply N.eqb_eq, Hc.
  - intros st e s H. cbn in *. destruct s. unfold tiny_step in *.
    destruct (sk && negb (N.eqb e 0) && N.eqb (tiny_marker st) e); cbn in *; [congruence|reflexivity].
Qed.

Lemma tiny_apply_skip : forall log na nq cm ln sn ix ak, ApplySkip (tiny true log na nq cm ln sn ix ak).
Proof.
  intros log na nq cm ln sn ix ak st e s c Hk Hnz Hm. cbn in *. injection Hk as _ ->.
  unfold tiny_step. apply N.eqb_neq in Hnz. rewrite Hnz. rewrite Hm. rewrite N.eqb_refl. reflexivity.
Qed.

Example tiny_ok_contract : Contract tiny_ok.
Proof.
  destruct (tiny_marker_rules true [5%N; 6%N] (fun b : bool => if b then 2 else 1) 2
              (fun n => match n with 0 => 5%N | _ => 6%N end) (fun n => n) (fun n => n)
              (fun n => Some n) (fun _ => true)) as (Hmi & Hms & Hmo).
  split; [unfold ContractWithoutApplySkip; repeat apply conj|apply tiny_apply_skip].
  - intros i. split; destruct i; reflexivity.
  - intros s n i Hn Hi. cbn in *. injection Hi as <-. lia.
  - intros s n i Hn Hi. destruct s. apply tiny_copy_at. cbn in Hi. injection Hi as <-.
    cbn in Hn. req2 n; reflexivity.
  - intros s c i H. destruct s. apply tiny_copy_at in H. cbn.
    destruct i as [|[|i]]; cbn in H.
    + injection H as <-. exists 0. repeat split; lia.
    + injection H as <-. exists 1. repeat split; lia.
    + destruct i; discriminate.
  - intros s n Hn _. left. exists n. reflexivity.
  - exact Hmi.
  - exact Hms.
  - exact Hmo.
  - intros s n Hn. cbn in *. req2 n; discriminate.
  - intros s a b c Hab Hbc Hc. cbn in Hc. lia.
  - intros s m n i Hmn Hn _ Hi. cbn in *. injection Hi as <-. lia.
Qed.

(* the contract minus the apply rule holds of the D14 history on either machine; the log holds the
   acknowledged post twice *)
Lemma lagging_contract : forall sk, ContractWithoutApplySkip (lagging sk).
Proof.
  intros sk.
  destruct (tiny_marker_rules sk [5%N; 5%N] (fun b : bool => if b then 2 else 1) 2 (fun _ => 5%N) (fun n => n) (fun _ => 0)
              (fun n => Some n) (fun n => match n with 0 => false | _ => true end)) as (Hmi & Hms & Hmo).
  unfold ContractWithoutApplySkip; repeat apply conj.
  - intros i. split; destruct i; reflexivity.
  - intros s n i Hn Hi. cbn in *. injection Hi as <-. lia.
  - intros s n i Hn Hi. destruct s. apply tiny_copy_at. cbn in Hi. injection Hi as <-.
    cbn in Hn. req2 n; reflexivity.
  - intros s c i H. destruct s. apply tiny_copy_at in H. cbn.
    destruct i as [|[|i]]; cbn in H.
    + injection H as <-. exists 0. repeat split; lia.
    + injection H as <-. exists 1. repeat split; lia.
    + destruct i; discriminate.
  - intros s n Hn _. left. exists n. reflexivity.
  - exact Hmi.
  - exact Hms.
  - exact Hmo.
  - intros s n Hn. cbn. discriminate.
  - intros s a b c Hab Hbc Hc _. reflexivity.
  - intros s m n i Hmn Hn Hd. exfalso. apply Hd. reflexivity.
Qed.

Lemma lagging_two_copies : forall sk, TwoCopies (lagging sk).
Proof.
  intros sk. exists tt, 5%N, 0, 1. split; [discriminate|]. split; [|split].
  - apply tiny_copy_at. reflexivity.
  - apply tiny_copy_at. reflexivity.
  - exists 1. cbn. repeat split; lia.
Qed.

(* D14 after the repair: the log holds the acknowledged post twice, the contract holds, hence
   (composition_exactly_once) it is processed once and delivered once on every node *)
Example tiny_lagging_contract : Contract tiny_lagging /\ TwoCopies tiny_lagging.
Proof.
  split; [split; [apply lagging_contract|apply tiny_apply_skip]|apply lagging_two_copies].
Qed.

Example hypotheses_satisfiable : Contract tiny_ok /\ Contract tiny_lagging /\ TwoCopies tiny_lagging.
Proof. split; [exact tiny_ok_contract|exact tiny_lagging_contract]. Qed.

Theorem two_copies_processed_once : exists M, Contract M /\ TwoCopies M /\
  ProcessedOnce M /\ SenderOrder M /\ DeliveredOnce M.
Proof.
  exists tiny_lagging. destruct tiny_lagging_contract as [Hc Ht].
  split; [exact Hc|]. split; [exact Ht|]. apply composition_exactly_once, Hc.
Qed.

(* D14 before the repair: without the apply rule both copies are processed *)
Theorem refuted_without_apply_skip : exists M, ContractWithoutApplySkip M /\ TwoCopies M /\ ~ ProcessedOnce M.
Proof.
  exists tiny_lagging_noskip. split; [apply lagging_contract|]. split; [apply lagging_two_copies|].
  intros H. destruct (H tt 1) as (i & _ & Hothers); [cbn; lia|reflexivity|].
  assert (Hns : forall j, j < 2 -> ~ skipped_at tiny_lagging_noskip j).
  { intros j Hj (e & He & Hs). destruct j as [|[|j]]; [| |lia]; cbn in He; injection He as <-; cbn in Hs; discriminate. }
  destruct (Nat.eq_dec i 0) as [->|Hi].
  - destruct (Hothers 1) as [_ Hs]; [apply tiny_copy_at; reflexivity|discriminate|]. apply (Hns 1); [lia|exact Hs].
  - destruct (Hothers 0) as [_ Hs]; [apply tiny_copy_at; reflexivity|congruence|]. apply (Hns 0); [lia|exact Hs].
Qed.
