(* IrcProofs/Utf8Handlers.v — the logical relation [u8_ok] over the handler monad, every handler, ProcessMessage, log entries
   and histories: every string IRCServer.Marshal serialises is valid UTF-8 in every reachable state (C03 / C02).
   See Utf8.v.  Outputs are of no concern here (truncation by Message.Bytes happens on the way out only). *)
From stdpp Require Import gmap.
From Coq Require Import Strings.String Strings.Ascii ZArith NArith Lia.
From RV Require Import Base.Text Irc.Str Irc.Parse Irc.State Irc.Monad Irc.Cmds Irc.SCmds Irc.Apply.
From RV Require Import IrcProofs.Top IrcProofs.Utf8.
From RV Require IrcProofs.Outputs IrcProofs.Examples.
Local Open Scope string_scope.

(* ---- the pure side conditions: a hint database -------------------------------------------------------- *)
Create HintDb u8db discriminated.

Ltac is_lit s :=
  lazymatch s with
  | EmptyString => idtac
  | String _ ?r => is_lit r
  end.

Global Hint Extern 0 (u8 ?s) => (is_lit s; vm_compute; reflexivity) : u8db.
Global Hint Extern 0 (u8 _) => assumption : u8db.
Global Hint Extern 0 (u8 _) => (simple apply @triv_u8; solve [typeclasses eauto]) : u8db.
Global Hint Resolve u8_empty u8_app u8_to_lower u8_chan_to_lower u8_nick_to_lower u8_trim_space u8_cap_user u8_hex_of_N
  u8_ban_pattern u8_Some u8_None u8_pair u8_Ok u8_Panic u8_Gap u8_nil u8_cons u8_lapp u8_last u8_nth u8_nth_error u8_hd u8_tl
  u8_lfilter u8_sjoin u8_zip_keys u8_Prefix u8_p_name u8_p_user u8_p_host u8_IMsg u8_m_prefix u8_m_params u8_trailing
  u8_s_auth u8_s_nick u8_s_user u8_s_real u8_s_channels u8_s_away u8_s_invited u8_s_svid u8_s_pass u8_s_prefix u8_s_remoteAddr
  u8_c_name u8_c_topicNick u8_c_topic u8_c_nicks u8_c_key u8_c_bans u8_SvsHold u8_h_reason u8_Config
  u8_g_captchaURL u8_g_captchaHMAC u8_g_operators u8_g_services u8_g_banned u8_g_trustedBridges u8_g_whitelistedOrigins
  u8_with_revision u8_sv_sessions u8_sv_channels u8_sv_svsholds u8_sv_config u8_ModeCmd u8_mc_param
  u8_sempty u8_singleton u8_union u8_difference u8_gempty u8_insert u8_delete u8_fmap u8_mfilter
  u8_ss_nick u8_ss_user_real u8_ss_loggedIn u8_ss_channels u8_ss_activity u8_ss_solved u8_ss_operator u8_ss_away
  u8_ss_invited u8_ss_modes u8_ss_svid u8_ss_pass u8_ss_server u8_ss_prefix u8_ss_deleted u8_ss_remoteAddr
  u8_reload_session u8_mk_prefix u8_update_prefix u8_new_session
  u8_cc_nicks u8_cc_topic u8_cc_modes u8_cc_key u8_cc_bans u8_new_chan u8_rename_member u8_ban_both u8_resolve_remote
  u8_set_serverSessions u8_set_nicks u8_set_lastProcessed u8_default_config u8_init_server
  u8_parse_prefix u8_parse_message u8_normalize_modes u8_collectM u8_member_session : u8db.
Global Hint Extern 1 (u8 (split_on _ _)) => (simple apply u8_split_on; [reflexivity|]) : u8db.
Global Hint Extern 2 (u8 (set_sessions _ _)) => (simple apply u8_set_sessions; [|cbv beta]) : u8db.
Global Hint Extern 2 (u8 (set_channels _ _)) => (simple apply u8_set_channels; [|cbv beta]) : u8db.
Global Hint Extern 2 (u8 (set_svsholds _ _)) => (simple apply u8_set_svsholds; [|cbv beta]) : u8db.
Global Hint Extern 2 (u8 (set_config _ _)) => (simple apply u8_set_config; [|cbv beta]) : u8db.
Global Hint Extern 1 (u8 (fst _)) => (eapply u8_fst; eassumption) : u8db.
Global Hint Extern 1 (u8 (snd _)) => (eapply u8_snd; eassumption) : u8db.

Lemma u8_drop_invites (lc : string) (m : gmap (N * N) session) : u8 m -> u8 (drop_invites lc m).
Proof.
  intros Hm. unfold drop_invites. apply u8_fmap; [|exact Hm]. intros s Hs. apply u8_ss_invited; [|exact Hs].
  apply u8_difference. apply u8_s_invited. exact Hs.
Qed.
Lemma u8_lookup_sess sv (k : N * N) : u8 sv -> u8 (sv_sessions sv !! k).
Proof. intros Hsv. apply u8_lookup, u8_sv_sessions, Hsv. Qed.
Lemma u8_lookup_chan sv (k : string) : u8 sv -> u8 (sv_channels sv !! k).
Proof. intros Hsv. apply u8_lookup, u8_sv_channels, Hsv. Qed.
Lemma u8_lookup_hold sv (k : string) : u8 sv -> u8 (sv_svsholds sv !! k).
Proof. intros Hsv. apply u8_lookup, u8_sv_svsholds, Hsv. Qed.
Lemma u8_lookup_banned g (k : string) : u8 g -> u8 (g_banned g !! k).
Proof. intros Hg. apply u8_lookup, u8_g_banned, Hg. Qed.
Lemma u8_prefix_string p : u8 p -> u8 (prefix_string p).
Proof.
  intros (Hn & Hu & Hh). unfold prefix_string. apply u8_app; [exact Hn|]. apply u8_app.
  - destruct (is_empty _); [reflexivity|apply u8_app; [reflexivity|exact Hu]].
  - destruct (is_empty _); [reflexivity|apply u8_app; [reflexivity|exact Hh]].
Qed.
Global Hint Resolve u8_prefix_string : u8db.
Global Hint Resolve u8_drop_invites u8_lookup_sess u8_lookup_chan u8_lookup_hold u8_lookup_banned : u8db.
Global Hint Extern 5 (u8 (_ !! _)) => (eapply u8_lookup) : u8db.

(* hypotheses [u8 (Some x)], [u8 (a, b)], [u8 (x :: l)], [u8 (Ok a)] are taken apart *)
Ltac u8_hyps :=
  repeat match goal with
  | HH : @u8 _ (@u8_option _ ?C) (Some ?x) |- _ => change (@u8 _ C x) in HH
  | HH : @u8 _ (@u8_option _ _) None |- _ => clear HH
  | HH : @u8 _ (@u8_res _ ?C) (Ok ?x) |- _ => change (@u8 _ C x) in HH
  | HH : @u8 _ (@u8_res _ _) (Panic _) |- _ => clear HH
  | HH : @u8 _ (@u8_res _ _) (Gap _) |- _ => clear HH
  | HH : @u8 _ (@u8_prod _ _ _ _) (_, _) |- _ => destruct HH as [? ?]; cbn [fst snd] in *
  | HH : @u8 _ (@u8_list _ _) (_ :: _) |- _ => apply u8_cons_inv in HH; destruct HH as [? ?]
  | HH : @u8 _ (@u8_list _ _) [] |- _ => clear HH
  | HH : @u8 unit _ _ |- _ => clear HH
  | HH : @u8 bool _ _ |- _ => clear HH
  | HH : @u8 nat _ _ |- _ => clear HH
  end.

Ltac u8_case x :=
  try (let HH := fresh "Hu8" in assert (HH : u8 x) by (auto 12 with u8db));
  destruct x eqn:?; u8_hyps.
Global Hint Extern 3 (u8 (if ?b then _ else _)) => destruct b : u8db.
Global Hint Extern 4 (u8 (match ?x with _ => _ end)) => u8_case x : u8db.
Global Hint Extern 1 (u8 (let _ := _ in _)) => cbv zeta : u8db.
Global Hint Extern 1 (u8 ((fun _ => _) _)) => cbv beta : u8db.

Ltac u8_pure := solve [auto 14 with u8db].

(* ---- the relation -------------------------------------------------------------------------------------- *)
Definition u8_ok {A} `{U8 A} (m : M A) : Prop :=
  forall sv r, u8 sv -> match m sv r with Ok (a, sv', _) => u8 a /\ u8 sv' | _ => True end.

Section Rules.
  Context {A B : Type} `{U8 A} `{U8 B}.
  Lemma u8_ok_ret (a : A) : u8 a -> u8_ok (retM a).
  Proof. intros Ha sv r Hsv. cbn. auto. Qed.
  Lemma u8_ok_bind (m : M A) (f : A -> M B) : u8_ok m -> (forall a, u8 a -> u8_ok (f a)) -> u8_ok (bindM m f).
  Proof.
    intros Hm Hf sv r Hsv. unfold bindM. specialize (Hm sv r Hsv).
    destruct (m sv r) as [[[a sv'] r']|?|?]; [|exact Logic.I|exact Logic.I]. destruct Hm as (Ha & Hsv').
    exact (Hf a Ha sv' r' Hsv').
  Qed.
  Lemma u8_ok_panic s : u8_ok (@panicM A s). Proof. intros sv r _. exact Logic.I. Qed.
  Lemma u8_ok_gap s : u8_ok (@gapM A s). Proof. intros sv r _. exact Logic.I. Qed.
  Lemma u8_ok_liftR (x : res A) : u8 x -> u8_ok (liftR x).
  Proof. intros Hx sv r Hsv. unfold liftR. destruct x; [cbn; auto|exact Logic.I|exact Logic.I]. Qed.
End Rules.
Lemma u8_ok_forM {A} `{U8 A} (l : list A) (f : A -> M unit) : u8 l -> (forall x, u8 x -> u8_ok (f x)) -> u8_ok (forM l f).
Proof.
  intros Hl Hf. induction Hl as [|x l Hx Hl IH]; cbn [forM]; [apply u8_ok_ret; exact Logic.I|].
  apply u8_ok_bind; [apply Hf; exact Hx|intros _ _; exact IH].
Qed.
Lemma u8_ok_forM_any {A} (l : list A) (f : A -> M unit) : (forall x, u8_ok (f x)) -> u8_ok (forM l f).
Proof.
  intros Hf. induction l as [|x l IH]; cbn [forM]; [apply u8_ok_ret; exact Logic.I|].
  apply u8_ok_bind; [apply Hf|intros _ _; exact IH].
Qed.
Lemma u8_ok_getS : u8_ok getS. Proof. intros sv r Hsv. cbn. auto. Qed.
Lemma u8_ok_modS f : (forall sv, u8 sv -> u8 (f sv)) -> u8_ok (modS f).
Proof. intros Hf sv r Hsv. cbn. split; [exact Logic.I|apply Hf; exact Hsv]. Qed.
Lemma u8_ok_replyCount : u8_ok replyCount. Proof. intros sv r Hsv. cbn. split; [exact Logic.I|exact Hsv]. Qed.
Lemma u8_ok_emit rc m : u8_ok (emit rc m).
Proof. intros sv r Hsv. unfold emit. split; [exact Logic.I|exact Hsv]. Qed.
Lemma u8_ok_whenM b m : u8_ok m -> u8_ok (whenM b m).
Proof. intros Hm. destruct b; [exact Hm|apply u8_ok_ret; exact Logic.I]. Qed.

Lemma u8_ok_sessM k : u8_ok (sessM k).
Proof.
  unfold sessM. apply u8_ok_bind; [apply u8_ok_getS|]. intros sv Hsv.
  destruct (sv_sessions sv !! k) as [s|] eqn:E; [|apply u8_ok_gap]. apply u8_ok_ret. exact (proj2 (u8_sv_sessions sv Hsv k s E)).
Qed.
Lemma u8_ok_chanM lc : u8_ok (chanM lc).
Proof. unfold chanM. apply u8_ok_bind; [apply u8_ok_getS|]. intros sv Hsv. apply u8_ok_ret. u8_pure. Qed.
Lemma u8_ok_nickM lc : u8_ok (nickM lc).
Proof. unfold nickM. apply u8_ok_bind; [apply u8_ok_getS|]. intros sv Hsv. apply u8_ok_ret. u8_pure. Qed.
Lemma u8_ok_cfgM : u8_ok cfgM.
Proof. unfold cfgM. apply u8_ok_bind; [apply u8_ok_getS|]. intros sv Hsv. apply u8_ok_ret. u8_pure. Qed.
Lemma u8_ok_updSess k f : (forall s, u8 s -> u8 (f s)) -> u8_ok (updSess k f).
Proof.
  intros Hf. unfold updSess. apply u8_ok_modS. intros sv Hsv. apply u8_set_sessions; [exact Hsv|].
  pose proof (u8_sv_sessions sv Hsv) as Hm. destruct (sv_sessions sv !! k) as [s|] eqn:E; [|exact Hm].
  apply u8_insert; [exact (triv_u8 k)|apply Hf; exact (proj2 (Hm k s E))|exact Hm].
Qed.
Lemma u8_ok_updChan lc f : (forall c, u8 c -> u8 (f c)) -> u8_ok (updChan lc f).
Proof.
  intros Hf. unfold updChan. apply u8_ok_modS. intros sv Hsv. apply u8_set_channels; [exact Hsv|].
  pose proof (u8_sv_channels sv Hsv) as Hm. destruct (sv_channels sv !! lc) as [s|] eqn:E; [|exact Hm].
  destruct (Hm lc s E) as [Hk Hs]. apply u8_insert; [exact Hk|apply Hf; exact Hs|exact Hm].
Qed.
Lemma u8_ok_param m k : u8 m -> u8_ok (param m k).
Proof.
  intros Hm. unfold param. pose proof (u8_nth_error (m_params m) k (u8_m_params m Hm)) as Hp.
  destruct (nth_error _ _); [apply u8_ok_ret; exact Hp|apply u8_ok_panic].
Qed.
(* a parameter that is only compared or sent *)
Lemma u8_ok_param_any m k (f : string -> M unit) : (forall p, u8_ok (f p)) -> u8_ok (bindM (param m k) f).
Proof.
  intros Hf sv r Hsv. unfold bindM, param. destruct (nth_error _ _); [|exact Logic.I]. cbn. apply Hf. exact Hsv.
Qed.
Lemma u8_ok_prefix_name m : u8 m -> u8_ok (prefix_name m).
Proof.
  intros Hm. unfold prefix_name. pose proof (u8_m_prefix m Hm) as Hp.
  destruct (m_prefix m); [apply u8_ok_ret; apply u8_p_name; exact Hp|apply u8_ok_panic].
Qed.
Lemma u8_ok_msg_prefix m : u8 m -> u8_ok (msg_prefix m).
Proof.
  intros Hm. unfold msg_prefix. pose proof (u8_m_prefix m Hm) as Hp.
  destruct (m_prefix m); [apply u8_ok_ret; exact Hp|apply u8_ok_panic].
Qed.
Lemma u8_ok_reply_num k cmd ps : u8_ok (reply_num k cmd ps).
Proof. unfold reply_num. apply u8_ok_bind; [apply u8_ok_getS|]. intros sv Hsv. apply u8_ok_emit. Qed.
Lemma u8_ok_reply_svc cmd ps : u8_ok (reply_svc cmd ps).
Proof. unfold reply_svc. apply u8_ok_bind; [apply u8_ok_getS|]. intros sv Hsv. apply u8_ok_emit. Qed.

Create HintDb u8h discriminated.

(* the syntactic closure *)
Ltac u8_step :=
  lazymatch goal with
  | |- u8_ok (bindM (param _ _) _) =>
      first [ apply u8_ok_bind; [apply u8_ok_param; u8_pure|intros ? ?; u8_hyps] | apply u8_ok_param_any; intros ? ]
  | |- u8_ok (bindM _ _) => apply u8_ok_bind; [|intros ? ?; u8_hyps]
  | |- u8_ok (retM _) => apply u8_ok_ret; u8_pure
  | |- u8_ok (panicM _) => apply u8_ok_panic
  | |- u8_ok (gapM _) => apply u8_ok_gap
  | |- u8_ok getS => apply u8_ok_getS
  | |- u8_ok (sessM _) => apply u8_ok_sessM
  | |- u8_ok (chanM _) => apply u8_ok_chanM
  | |- u8_ok (nickM _) => apply u8_ok_nickM
  | |- u8_ok cfgM => apply u8_ok_cfgM
  | |- u8_ok replyCount => apply u8_ok_replyCount
  | |- u8_ok (param _ _) => apply u8_ok_param; u8_pure
  | |- u8_ok (prefix_name _) => apply u8_ok_prefix_name; u8_pure
  | |- u8_ok (msg_prefix _) => apply u8_ok_msg_prefix; u8_pure
  | |- u8_ok (reply_num _ _ _) => apply u8_ok_reply_num
  | |- u8_ok (reply_svc _ _) => apply u8_ok_reply_svc
  | |- u8_ok (updSess _ _) => apply u8_ok_updSess; intros ? ?; u8_pure
  | |- u8_ok (updChan _ _) => apply u8_ok_updChan; intros ? ?; u8_pure
  | |- u8_ok (modS _) => apply u8_ok_modS; intros ? ?; u8_pure
  | |- u8_ok (liftR _) => apply u8_ok_liftR; u8_pure
  | |- u8_ok (emit _ _) => apply u8_ok_emit
  | |- u8_ok (whenM _ _) => apply u8_ok_whenM
  | |- u8_ok (forM _ _) => first [ apply u8_ok_forM; [u8_pure|intros ? ?; u8_hyps] | apply u8_ok_forM_any; intros ? ]
  | |- u8_ok (if ?b then _ else _) => destruct b
  | |- u8_ok (match ?x with _ => _ end) => u8_case x
  | |- u8_ok (let _ := _ in _) => cbv zeta
  | |- u8_ok _ => solve [auto 6 with u8h u8db]
  end.
Ltac unf := unfold chanop_of, captcha_url_check, add_member, leave_channel, maybe_delete_channel, rename_in_channels,
                   change_nick, create_session.
Ltac go := repeat (first [ u8_step | progress unf ]).

Lemma u8_cmd_ping k m : u8_ok (cmd_ping k m).
Proof. unfold cmd_ping. go. Qed.
Lemma u8_cmd_away k m : u8 m -> u8_ok (cmd_away k m).
Proof. intros Hm. unfold cmd_away. go. Qed.
Lemma u8_cmd_topic k m : u8 m -> u8_ok (cmd_topic k m).
Proof. intros Hm. unfold cmd_topic. go. Qed.
Lemma u8_cmd_privmsg k m : u8_ok (cmd_privmsg k m).
Proof. unfold cmd_privmsg. go. Qed.
Lemma u8_cmd_whois k m : u8_ok (cmd_whois k m).
Proof. unfold cmd_whois. go. Qed.
Lemma u8_remove_nick_everywhere lcn : u8_ok (remove_nick_everywhere lcn).
Proof. unfold remove_nick_everywhere. go. Qed.
Global Hint Resolve u8_remove_nick_everywhere : u8h.
Lemma u8_delete_session k : u8_ok (delete_session k).
Proof. unfold delete_session. go. Qed.
Global Hint Resolve u8_delete_session : u8h.
Lemma u8_verify_captcha e k c : u8_ok (verify_captcha e k c).
Proof. unfold verify_captcha. go. Qed.
Global Hint Resolve u8_verify_captcha : u8h.
Lemma u8_cmd_motd k m : u8_ok (cmd_motd k m).
Proof. unfold cmd_motd. go. Qed.
Global Hint Resolve u8_cmd_motd : u8h.
(* OPER only compares its parameters *)
Lemma u8_cmd_oper k m : u8_ok (cmd_oper k m).
Proof. unfold cmd_oper. go. Qed.
Global Hint Resolve u8_cmd_oper : u8h.
Lemma u8_maybe_login e k m : u8_ok (maybe_login e k m).
Proof. unfold maybe_login. go. Qed.
Global Hint Resolve u8_maybe_login : u8h.
Lemma u8_cmd_nick e k m : u8 m -> u8_ok (cmd_nick e k m).
Proof. intros Hm. unfold cmd_nick. go. Qed.
Lemma u8_cmd_user e k m : u8 m -> u8_ok (cmd_user e k m).
Proof. intros Hm. unfold cmd_user. go. Qed.
Lemma u8_cmd_pass e k m : u8 m -> u8_ok (cmd_pass e k m).
Proof. intros Hm. unfold cmd_pass. go. Qed.
Lemma u8_mode_step k lc ch op md q : u8 lc -> u8 md -> u8_ok (cmd_mode_chan_step k lc ch op md q).
Proof. intros Hlc Hmd. unfold cmd_mode_chan_step. go. Qed.
Lemma u8_mode_loop k lc ch op mds q : u8 lc -> u8 mds -> u8_ok (cmd_mode_chan_loop k lc ch op mds q).
Proof.
  intros Hch Hmds. revert q. induction Hmds as [|md mds Hmd Hmds IH]; intros q; cbn [cmd_mode_chan_loop]; [go|].
  apply u8_ok_bind; [apply u8_mode_step; assumption|]. intros st _. destruct (fst st); [go|apply IH].
Qed.
Global Hint Resolve u8_mode_loop : u8h.
Lemma u8_cmd_mode k m : u8 m -> u8_ok (cmd_mode k m).
Proof. intros Hm. unfold cmd_mode. go. Qed.
Lemma u8_cmd_names k m : u8_ok (cmd_names k m).
Proof. unfold cmd_names. go. Qed.
Global Hint Resolve u8_cmd_mode u8_cmd_topic u8_cmd_names : u8h.
Lemma u8_join_one e k ch key : u8 ch -> u8_ok (join_one e k ch key).
Proof. intros Hch. unfold join_one. go. Qed.
Global Hint Resolve u8_join_one : u8h.
Lemma u8_cmd_join e k m : u8 m -> u8_ok (cmd_join e k m).
Proof. intros Hm. unfold cmd_join. go. Qed.
Lemma u8_cmd_part k m : u8 m -> u8_ok (cmd_part k m).
Proof. intros Hm. unfold cmd_part. go. Qed.
Lemma u8_cmd_kick k m : u8 m -> u8_ok (cmd_kick k m).
Proof. intros Hm. unfold cmd_kick. go. Qed.
Lemma u8_cmd_invite k m : u8 m -> u8_ok (cmd_invite k m).
Proof. intros Hm. unfold cmd_invite. go. Qed.
Global Hint Resolve u8_cmd_privmsg : u8h.
Lemma u8_cmd_service_alias k m : u8_ok (cmd_service_alias k m).
Proof. unfold cmd_service_alias. go. Qed.
Lemma u8_cmd_who k m : u8_ok (cmd_who k m).
Proof. unfold cmd_who. go. Qed.
Lemma u8_cmd_list k m : u8_ok (cmd_list k m).
Proof. unfold cmd_list. go. Qed.
Lemma u8_cmd_ison k m : u8_ok (cmd_ison k m).
Proof. unfold cmd_ison. go. Qed.
Lemma u8_cmd_userhost k m : u8_ok (cmd_userhost k m).
Proof. unfold cmd_userhost. go. Qed.
Lemma u8_cmd_knock k m : u8_ok (cmd_knock k m).
Proof. unfold cmd_knock. go. Qed.
Lemma u8_cmd_quit k m : u8_ok (cmd_quit k m).
Proof. unfold cmd_quit. go. Qed.
Lemma u8_cmd_kill k m : u8_ok (cmd_kill k m).
Proof. unfold cmd_kill. go. Qed.
Global Hint Resolve u8_cmd_kill : u8h.
Lemma u8_cmd_gline k m : u8 m -> u8_ok (cmd_gline k m).
Proof. intros Hm. unfold cmd_gline. go. Qed.
(* services *)
Lemma u8_burst_one sv t : u8_ok (burst_one sv t).
Proof. unfold burst_one. go. Qed.
Global Hint Resolve u8_burst_one : u8h.
Lemma u8_cmd_server k m : u8 m -> u8_ok (cmd_server k m).
Proof. intros Hm. unfold cmd_server. go. Qed.
Lemma u8_cmd_server_nick k m : u8 m -> u8_ok (cmd_server_nick k m).
Proof. intros Hm. unfold cmd_server_nick. go. Qed.
Lemma u8_quit_pseudo tk m : u8_ok (quit_pseudo tk m).
Proof. unfold quit_pseudo. go. Qed.
Global Hint Resolve u8_quit_pseudo : u8h.
Lemma u8_cmd_server_quit k m : u8_ok (cmd_server_quit k m).
Proof. unfold cmd_server_quit. go. Qed.
Lemma u8_cmd_server_kill k m : u8 m -> u8_ok (cmd_server_kill k m).
Proof. intros Hm. unfold cmd_server_kill. go. Qed.
Lemma u8_cmd_server_join k m : u8 m -> u8_ok (cmd_server_join k m).
Proof. intros Hm. unfold cmd_server_join. go. Qed.
Lemma u8_cmd_server_part k m : u8 m -> u8_ok (cmd_server_part k m).
Proof. intros Hm. unfold cmd_server_part. go. Qed.
Lemma u8_cmd_server_kick k m : u8 m -> u8_ok (cmd_server_kick k m).
Proof. intros Hm. unfold cmd_server_kick. go. Qed.
Lemma u8_cmd_server_svsjoin k m : u8 m -> u8_ok (cmd_server_svsjoin k m).
Proof. intros Hm. unfold cmd_server_svsjoin. go. Qed.
Lemma u8_cmd_server_svspart k m : u8 m -> u8_ok (cmd_server_svspart k m).
Proof. intros Hm. unfold cmd_server_svspart. go. Qed.
Lemma u8_cmd_server_svsnick k m : u8 m -> u8_ok (cmd_server_svsnick k m).
Proof. intros Hm. unfold cmd_server_svsnick. go. Qed.
Lemma u8_cmd_server_mode k m : u8 m -> u8_ok (cmd_server_mode k m).
Proof. intros Hm. unfold cmd_server_mode. go. Qed.
Lemma u8_cmd_server_topic k m : u8 m -> u8_ok (cmd_server_topic k m).
Proof. intros Hm. unfold cmd_server_topic. go. Qed.
Lemma u8_cmd_server_invite k m : u8 m -> u8_ok (cmd_server_invite k m).
Proof. intros Hm. unfold cmd_server_invite. go. Qed.
Lemma u8_cmd_server_privmsg k m : u8 m -> u8_ok (cmd_server_privmsg k m).
Proof. intros Hm. unfold cmd_server_privmsg. go. Qed.
Lemma u8_cmd_server_svshold k m : u8 m -> u8_ok (cmd_server_svshold k m).
Proof. intros Hm. unfold cmd_server_svshold. go. Qed.
Lemma u8_cmd_server_svsmode k m : u8 m -> u8_ok (cmd_server_svsmode k m).
Proof. intros Hm. unfold cmd_server_svsmode. go. Qed.

(* ---- the command table and ProcessMessage ------------------------------------------------------------- *)
Lemma u8_dispatch name minp (f : handler) e k m : In (name, (minp, f)) commands -> u8 m -> u8_ok (f e k m).
Proof.
  intros Hin Hm. unfold commands in Hin.
  repeat (destruct Hin as [Hin|Hin]; [injection Hin as <- <- <-|]); try contradiction; unfold noenv;
    first [ apply u8_cmd_service_alias | apply u8_cmd_away | apply u8_cmd_gline | apply u8_cmd_invite | apply u8_cmd_ison
          | apply u8_cmd_join | apply u8_cmd_kick | apply u8_cmd_kill | apply u8_cmd_knock | apply u8_cmd_list | apply u8_cmd_mode
          | apply u8_cmd_motd | apply u8_cmd_names | apply u8_cmd_nick | apply u8_cmd_oper | apply u8_cmd_part | apply u8_cmd_pass
          | apply u8_cmd_ping | apply u8_cmd_privmsg | apply u8_cmd_quit | apply u8_cmd_topic | apply u8_cmd_user
          | apply u8_cmd_userhost | apply u8_cmd_who | apply u8_cmd_whois | apply u8_cmd_server
          | apply u8_cmd_server_invite | apply u8_cmd_server_join | apply u8_cmd_server_kick | apply u8_cmd_server_kill
          | apply u8_cmd_server_mode | apply u8_cmd_server_nick | apply u8_cmd_server_part | apply u8_cmd_server_privmsg
          | apply u8_cmd_server_quit | apply u8_cmd_server_svshold | apply u8_cmd_server_svsjoin | apply u8_cmd_server_svsmode
          | apply u8_cmd_server_svsnick | apply u8_cmd_server_svspart | apply u8_cmd_server_topic ]; try exact Hm.
Qed.

Lemma u8_process_message e k ra ircmsg : u8 ra -> u8 ircmsg -> u8_ok (process_message e k ra ircmsg).
Proof.
  intros Hra Hm. unfold process_message. apply u8_ok_bind; [go|]. intros s Hs.
  destruct ircmsg as [m|]; [|go]. u8_hyps. cbv zeta.
  apply u8_ok_bind; [go|]. intros banned _. destruct banned; [go|].
  apply u8_ok_bind; [go|]. intros s1 Hs1.
  destruct (_ && _ && _); [go|].
  destruct (assoc_str _ commands) as [[minp f]|] eqn:Hc; [|go].
  destruct (Nat.ltb _ _); [go|].
  eapply u8_dispatch; [eapply Outputs.assoc_str_In'; exact Hc|exact Hm].
Qed.

(* ---- log entries ------------------------------------------------------------------------------------------ *)
(* the strings an entry carries.  They come through the HTTP API: encoding/json yields valid UTF-8 only (ill-formed input
   is replaced by U+FFFD), the raft entry is itself a proto3 message, config.FromString reads TOML (UTF-8 by definition). *)
Definition utf8_entry (en : entry) : Prop :=
  match en with
  | EMessage _ _ _ _ remoteAddr data => utf8 remoteAddr /\ utf8 data
  | EDelete _ _ _ quitmsg => utf8 quitmsg
  | ECreate _ _ auth => utf8 auth
  | EConfig _ _ _ parsed => u8 parsed
  | EDeath _ _ _ _ _ => True
  end.

Lemma u8_maybe_delete_session k sv : u8 sv -> u8 (maybe_delete_session k sv).
Proof.
  intros Hsv. unfold maybe_delete_session. destruct (sv_sessions sv !! k) as [s|]; [|exact Hsv]. cbv zeta.
  assert (u8 (if s_server s || s_operator s
              then set_sessions (base.filter (fun kv : N * N * session => s_deleted (snd kv) = false)) sv else sv)) as H1.
  { destruct (_ || _); [|exact Hsv]. u8_pure. }
  destruct (s_deleted s); [|exact H1]. u8_pure.
Qed.

Lemma u8_update_last_cmid k ts d c sv sv' : u8 sv -> update_last_cmid k ts d c sv = Some sv' -> u8 sv'.
Proof.
  intros Hsv. unfold update_last_cmid. destruct (sv_sessions sv !! k) as [s|] eqn:E; [|discriminate]. intros [= <-].
  pose proof (proj2 (u8_sv_sessions sv Hsv k s E)) as Hs. u8_pure.
Qed.

Lemma u8_create_session k a ts : u8 a -> u8_ok (create_session k a ts).
Proof. intros Ha. unfold create_session. go. Qed.

Definition utf8_outcome (o : outcome) : Prop :=
  match o with
  | OOk sv' _ | OSessionLimit sv' | OSkip sv' => Utf8State sv'
  | OPanic _ | OGap _ => True
  end.

Lemma u8_run_handler sv id act fin :
  u8 sv -> u8_ok act -> (forall sv', u8 sv' -> u8 (fin sv')) -> utf8_outcome (run_handler sv id act fin).
Proof.
  intros Hsv Hact Hfin. unfold run_handler. specialize (Hact sv (RCtx id []) Hsv).
  destruct (act sv _) as [[[[] sv1] r1]|?|?]; try exact Logic.I. destruct Hact as (_ & Hsv1). apply Hfin. exact Hsv1.
Qed.

(* one entry keeps every serialised string valid *)
Theorem utf8_step e sv en : Utf8State sv -> utf8_entry en -> utf8_outcome (apply_entry e sv en).
Proof.
  unfold Utf8State. intros Hsv Hen. destruct en; cbn [apply_entry utf8_entry] in *.
  - pose proof (u8_create_session (id, 0%N) auth (timestamp id unixnano) Hen sv (RCtx id []) Hsv) as H.
    destruct (create_session _ _ _ sv _) as [[[[] sv1] r1]|?|?]; cbn; try exact Logic.I; apply H.
  - destruct (sv_sessions sv !! _); [|exact Hsv]. apply u8_run_handler; [exact Hsv| |].
    + apply u8_process_message; [reflexivity|]. apply u8_parse_message. apply u8_app; [reflexivity|exact Hen].
    + intros sv' Hsv'. apply u8_maybe_delete_session. u8_pure.
  - destruct Hen as [Hra Hd]. destruct (is_retry _ _ sv); [exact Hsv|].
    destruct (update_last_cmid _ _ _ _ sv) as [sv1|] eqn:Hu; [|exact Hsv].
    pose proof (u8_update_last_cmid _ _ _ _ _ _ Hsv Hu) as Hsv1. apply u8_run_handler; [exact Hsv1| |].
    + apply u8_process_message; [exact Hra|]. apply u8_parse_message. exact Hd.
    + intros sv' Hsv'. apply u8_maybe_delete_session. u8_pure.
  - destruct (update_last_cmid _ _ _ _ sv) as [sv1|] eqn:Hu; [|exact Hsv].
    exact (u8_update_last_cmid _ _ _ _ _ _ Hsv Hu).
  - destruct (config_in_force _ _ _) as [g|] eqn:Hcf; [|exact Hsv]. apply config_in_force_Some in Hcf. rewrite Hcf in Hen. u8_hyps. unfold utf8_outcome, Utf8State. u8_pure.
Qed.

(* ---- histories -------------------------------------------------------------------------------------------- *)
(* the states reached entry by entry, up to the first entry that panics (if any) *)
Fixpoint states (e : env) (sv : server) (es : list entry) : list server :=
  match es with
  | [] => []
  | en :: r =>
      match apply_entry e sv en with
      | OOk sv' _ | OSessionLimit sv' | OSkip sv' => sv' :: states e sv' r
      | OPanic _ | OGap _ => []
      end
  end.

Theorem utf8_states e sv es : Utf8State sv -> Forall utf8_entry es -> Forall Utf8State (states e sv es).
Proof.
  intros Hsv Hes. revert sv Hsv. induction Hes as [|en es Hen Hes IH]; intros sv Hsv; cbn [states]; [constructor|].
  pose proof (utf8_step e sv en Hsv Hen) as H. destruct (apply_entry e sv en); cbn [utf8_outcome] in H; constructor; auto.
Qed.

Theorem utf8_run_state e sv es sv' : Utf8State sv -> Forall utf8_entry es -> run e sv es = Some sv' -> Utf8State sv'.
Proof.
  intros Hsv Hes. revert sv Hsv. induction Hes as [|en es Hen Hes IH]; intros sv Hsv; cbn [run]; [intros [= <-]; exact Hsv|].
  pose proof (utf8_step e sv en Hsv Hen) as H. destruct (apply_entry e sv en); cbn [utf8_outcome entry_result] in *; try discriminate;
    apply IH; exact H.
Qed.

(* every state reachable from the initial state by entries that carry valid UTF-8 has only valid UTF-8 in the fields Marshal
   serialises — whatever the network name, and without any well-formedness (no-panic) hypothesis on the history *)
Theorem utf8_run e net es sv : Forall utf8_entry es -> run e (init_server net) es = Some sv -> Utf8State sv.
Proof. intros Hes. apply utf8_run_state; [apply u8_init_server|exact Hes]. Qed.

(* the snapshot round trip keeps the property *)
Theorem utf8_reload sv : Utf8State sv -> Utf8State (reload sv).
Proof.
  unfold Utf8State. intros Hsv. unfold reload. cbv zeta. pose proof (u8_sv_config sv Hsv) as Hg. apply u8_Server; u8_pure.
Qed.

(* ---- what IRCServer.Marshal hands to proto.Marshal as proto3 `string` (internal/ircserver/serialize.go) ---- *)
Definition mode_strings (m : gset N) : list string :=
  map (fun n => String (chr n) "") (List.filter (fun c => has_mode c m) mode_range).   (* for mode := 'A'; mode < 'z' *)
Definition session_strings (s : session) : list string :=
  [s_auth s; s_nick s; s_user s; s_real s] ++ elements (s_channels s) ++ [s_away s] ++ elements (s_invited s) ++
  mode_strings (s_modes s) ++
  [s_svid s; s_pass s; p_name (s_prefix s); p_user (s_prefix s); p_host (s_prefix s); s_remoteAddr s].
Definition chan_strings (c : chan) : list string :=
  [c_name c; c_topicNick c; c_topic c; c_key c] ++ (map_to_list (c_nicks c)).*1 ++ mode_strings (c_modes c) ++
  List.concat (map (fun b : string * string => [fst b; snd b]) (c_bans c)).
Definition config_strings (g : config) : list string :=
  [g_captchaURL g; g_captchaHMAC g] ++ List.concat (map (fun o : string * string => [fst o; snd o]) (g_operators g)) ++
  g_services g ++ List.concat (map (fun kv : string * string => [fst kv; snd kv]) (map_to_list (g_banned g))) ++
  List.concat (map (fun kv : string * string => [fst kv; snd kv]) (map_to_list (g_trustedBridges g))) ++
  elements (g_whitelistedOrigins g).
(* not listed: the member modes string(rune(0)), string(rune(1)) and the three durations printed by time.Duration.String — fixed
   ASCII text *)
Definition marshal_strings (sv : server) : list string :=
  List.concat (map (fun kv : N * N * session => session_strings (snd kv)) (map_to_list (sv_sessions sv))) ++
  List.concat (map (fun kv : string * chan => chan_strings (snd kv)) (map_to_list (sv_channels sv))) ++
  List.concat (map (fun kv : string * svshold => [fst kv; h_reason (snd kv)]) (map_to_list (sv_svsholds sv))) ++
  config_strings (sv_config sv).

Lemma Forall_concat_map {A B} (P : B -> Prop) (f : A -> list B) (l : list A) :
  (forall x, In x l -> Forall P (f x)) -> Forall P (List.concat (map f l)).
Proof.
  induction l as [|x l IH]; cbn [map List.concat]; intros H; [constructor|].
  apply Forall_app. split; [apply H; now left|apply IH; intros y Hy; apply H; now right].
Qed.
Lemma utf8_mode_strings m : Forall utf8 (mode_strings m).
Proof.
  unfold mode_strings. apply Forall_forall. intros s Hin. apply in_map_iff in Hin. destruct Hin as (n & <- & Hn).
  apply filter_In in Hn. destruct Hn as [Hn _]. apply utf8_iff.
  assert (forallb (fun n => validb (String (chr n) "")) mode_range = true) as Hb by (vm_compute; reflexivity).
  rewrite forallb_forall in Hb. exact (Hb n Hn).
Qed.
Lemma u8_gset_elements (s : gset string) : u8 s -> Forall utf8 (elements s).
Proof. intros Hs. apply Forall_forall. intros x Hx. apply Hs. apply elem_of_elements, elem_of_list_In. exact Hx. Qed.
Lemma u8_pairs (l : list (string * string)) : u8 l -> Forall utf8 (List.concat (map (fun b : string * string => [fst b; snd b]) l)).
Proof.
  intros Hl. apply Forall_concat_map. intros b Hb. unfold u8, u8_list in Hl. rewrite Forall_forall in Hl. destruct (Hl b Hb) as [H1 H2].
  apply Forall_cons; [exact H1|]. apply Forall_cons; [exact H2|apply Forall_nil].
Qed.
Lemma u8_gmap_pairs (m : gmap string string) : u8 m -> Forall utf8 (List.concat (map (fun kv : string * string => [fst kv; snd kv]) (map_to_list m))).
Proof.
  intros Hm. apply Forall_concat_map. intros [k v] Hin. apply elem_of_list_In, elem_of_map_to_list in Hin. destruct (Hm k v Hin) as [H1 H2].
  apply Forall_cons; [exact H1|]. apply Forall_cons; [exact H2|apply Forall_nil].
Qed.

Ltac lit_list := repeat (apply Forall_cons; [assumption|]); apply Forall_nil.
Lemma session_strings_utf8 s : u8 s -> Forall utf8 (session_strings s).
Proof.
  intros (Hau & Hn & Hu & Hr & Hc & Ha & Hi & Hsv & Hp & (Hp1 & Hp2 & Hp3) & Hra). unfold session_strings.
  apply Forall_app; split; [lit_list|]. apply Forall_app; split; [apply u8_gset_elements; exact Hc|].
  apply Forall_app; split; [lit_list|]. apply Forall_app; split; [apply u8_gset_elements; exact Hi|].
  apply Forall_app; split; [apply utf8_mode_strings|lit_list].
Qed.
Lemma chan_strings_utf8 c : u8 c -> Forall utf8 (chan_strings c).
Proof.
  intros (Hn & Htn & Ht & Hns & Hk & Hb). unfold chan_strings.
  apply Forall_app; split; [lit_list|]. apply Forall_app; split; [|apply Forall_app; split; [apply utf8_mode_strings|apply u8_pairs; exact Hb]].
  apply Forall_forall. intros x Hx. apply in_map_iff in Hx. destruct Hx as ([k v] & <- & Hin).
  apply elem_of_list_In, elem_of_map_to_list in Hin. exact (proj1 (Hns k v Hin)).
Qed.
Lemma config_strings_utf8 g : u8 g -> Forall utf8 (config_strings g).
Proof.
  intros (Hcu & Hch & Hops & Hsvc & Hb & Htb & Hwo). unfold config_strings.
  apply Forall_app; split; [lit_list|]. apply Forall_app; split; [apply u8_pairs; exact Hops|].
  apply Forall_app; split; [exact Hsvc|]. apply Forall_app; split; [apply u8_gmap_pairs; exact Hb|].
  apply Forall_app; split; [apply u8_gmap_pairs; exact Htb|apply u8_gset_elements; exact Hwo].
Qed.

(* Utf8State covers every string Marshal serialises: proto.Marshal cannot fail with "invalid UTF-8" on such a state *)
Theorem marshal_strings_utf8 sv : Utf8State sv -> Forall utf8 (marshal_strings sv).
Proof.
  intros (Hs & Hc & Hh & Hg). unfold marshal_strings. apply Forall_app; split; [|apply Forall_app; split; [|apply Forall_app; split]].
  - apply Forall_concat_map. intros [k s] Hin. apply elem_of_list_In, elem_of_map_to_list in Hin.
    apply session_strings_utf8. exact (proj2 (Hs k s Hin)).
  - apply Forall_concat_map. intros [k c] Hin. apply elem_of_list_In, elem_of_map_to_list in Hin.
    apply chan_strings_utf8. exact (proj2 (Hc k c Hin)).
  - apply Forall_concat_map. intros [k h] Hin. apply elem_of_list_In, elem_of_map_to_list in Hin.
    destruct (Hh k h Hin) as [H1 H2]. lit_list.
  - apply config_strings_utf8. exact Hg.
Qed.

Corollary marshal_total e net es sv :
  Forall utf8_entry es -> run e (init_server net) es = Some sv -> Forall utf8 (marshal_strings sv).
Proof. intros Hes Hrun. apply marshal_strings_utf8. eapply utf8_run; eauto. Qed.

Corollary marshal_total_reload e net es sv :
  Forall utf8_entry es -> run e (init_server net) es = Some sv -> Forall utf8 (marshal_strings (reload sv)).
Proof. intros Hes Hrun. apply marshal_strings_utf8, utf8_reload. eapply utf8_run; eauto. Qed.

(* ---- the hypotheses are satisfiable, and needed --------------------------------------------------------------- *)
(* channel "#Ü", topic "Übergröße", a 40-byte user name whose 32nd/33rd bytes are one two-byte character, a ban mask and a
   channel key with multi-byte characters *)
Definition u8_history : list entry :=
  [ ECreate 1 1000 "0123456789abcdef";
    EMessage 2 2000 1 11 "10.0.0.1" "NICK Foo";
    EMessage 3 3000 1 12 "" "USER aaaaaaaaaaaaaaaaaaaaaaaaaaaaaaaübbbbbbb 0 * :Jürgen Ü";
    EMessage 4 4000 1 13 "" "JOIN #Ü";
    EMessage 5 5000 1 14 "" "TOPIC #Ü :Übergröße";
    EMessage 6 6000 1 15 "" "MODE #Ü +b *!*@übel.example";
    EMessage 7 7000 1 16 "" "MODE #Ü +k schlüssel";
    EMessage 8 8000 1 17 "" "AWAY :  bin weg – später  " ].

Example u8_history_ok : Forall utf8_entry u8_history.
Proof. unfold u8_history. repeat (apply Forall_cons; [vm_compute; repeat split|]). apply Forall_nil. Qed.

Definition validb_state (sv : server) : bool := forallb validb (marshal_strings sv).

(* the history runs; in its final state all 24 serialised strings are valid (computed, independently of the theorem), the user
   name was cut to 31 bytes (the two-byte character across the 32-byte limit is dropped whole), the channel is stored under
   the folded key "#ü" with its name, topic, key and ban mask as given *)
Definition u8_history_check : bool :=
  match run Examples.ex_env (init_server "robustirc.net") u8_history with
  | Some sv =>
      validb_state sv && Nat.eqb (List.length (marshal_strings sv)) 24 &&
      match sv_sessions sv !! (1%N, 0%N) with
      | Some s => String.eqb (s_user s) "aaaaaaaaaaaaaaaaaaaaaaaaaaaaaaa" && String.eqb (s_real s) "Jürgen Ü" &&
                  String.eqb (sjoin "," (elements (s_channels s))) "#ü" && String.eqb (s_away s) "bin weg – später"
      | None => false
      end &&
      match sv_channels sv !! "#ü" with
      | Some c => String.eqb (c_name c) "#Ü" && String.eqb (c_topic c) "Übergröße" && String.eqb (c_key c) "schlüssel" &&
                  String.eqb (sjoin "," (map fst (c_bans c))) "*!*@übel.example"
      | None => false
      end
  | None => false
  end.
Example u8_history_runs : u8_history_check = true.
Proof. vm_compute. reflexivity. Qed.

Example u8_history_state sv :
  run Examples.ex_env (init_server "robustirc.net") u8_history = Some sv -> Utf8State sv /\ Forall utf8 (marshal_strings sv).
Proof. intros H. split; [eapply utf8_run; [exact u8_history_ok|exact H]|eapply marshal_total; [exact u8_history_ok|exact H]]. Qed.

(* without the cut repair the same USER line would have stored the lone lead byte C3: cutting at 32 bytes is not enough *)
Example byte_cut_is_ill_formed : ~ utf8 (stake max_user_len "aaaaaaaaaaaaaaaaaaaaaaaaaaaaaaaübbbbbbb").
Proof. intros H. apply utf8_iff in H. vm_compute in H. discriminate. Qed.

(* the hypothesis on the entries is needed: a raw ill-formed byte in a posted line (which encoding/json never lets through)
   does reach the state — here as the away message *)
Definition ill_line : string := "AWAY :" ++ String (chr 195) "x".
Definition ill_formed_check : bool :=
  match run Examples.ex_env (init_server "robustirc.net") (firstn 3 u8_history) with
  | Some sv =>
      match apply_entry Examples.ex_env sv (EMessage 4 4000 1 13 "" ill_line) with
      | OOk sv' _ => negb (validb_state sv') &&
                     match sv_sessions sv' !! (1%N, 0%N) with Some s => negb (validb (s_away s)) | None => false end
      | _ => false
      end
  | None => false
  end.
Example ill_formed_entry_reaches_state : ill_formed_check = true.
Proof. vm_compute. reflexivity. Qed.
(* ... in the words of the theorem *)
Example ill_formed_entry_breaks_marshal :
  exists sv sv' out,
    run Examples.ex_env (init_server "robustirc.net") (firstn 3 u8_history) = Some sv /\
    (apply_entry Examples.ex_env sv (EMessage 4 4000 1 13 "" ill_line) = OOk sv' out) /\
    ~ (Forall utf8 (marshal_strings sv')).
Proof.
  pose proof ill_formed_entry_reaches_state as H. unfold ill_formed_check in H.
  destruct (run _ _ _) as [sv|] eqn:E1; [|discriminate]. destruct (apply_entry _ sv _) as [sv' out| | | |] eqn:E2; try discriminate.
  exists sv, sv', out. split; [reflexivity|]. split; [exact E2|]. apply andb_true_iff in H. destruct H as [H _].
  apply negb_true_iff in H. intros HF. unfold validb_state in H. assert (forallb validb (marshal_strings sv') = true) as HT; [|congruence].
  apply forallb_forall. intros x Hx. apply utf8_iff. rewrite Forall_forall in HF. exact (HF x Hx).
Qed.

(* ---- what the hypotheses say, without the class ------------------------------------------------------------------- *)
Lemma utf8_config_spec g :
  u8 g <->
  utf8 (g_captchaURL g) /\ utf8 (g_captchaHMAC g) /\
  Forall (fun o : string * string => utf8 (fst o) /\ utf8 (snd o)) (g_operators g) /\ Forall utf8 (g_services g) /\
  (forall k v, g_banned g !! k = Some v -> utf8 k /\ utf8 v) /\
  (forall k v, g_trustedBridges g !! k = Some v -> utf8 k /\ utf8 v) /\
  (forall x, x ∈ g_whitelistedOrigins g -> utf8 x).
Proof. reflexivity. Qed.
Lemma utf8_entry_config_spec id un rv g : utf8_entry (EConfig id un rv (Some g)) <-> u8 g.
Proof. reflexivity. Qed.
Lemma Utf8State_init net : Utf8State (init_server net).
Proof. apply u8_init_server. Qed.

Print Assumptions utf8_step.
Print Assumptions utf8_states.
Print Assumptions utf8_run.
Print Assumptions utf8_reload.
Print Assumptions marshal_total.
Print Assumptions marshal_total_reload.
Print Assumptions u8_history_runs.
Print Assumptions ill_formed_entry_breaks_marshal.
