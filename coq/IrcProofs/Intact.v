(* IrcProofs/Intact.v — C15: the truncation of Message.Bytes to 510 bytes never cuts into the head of a line
   (":prefix " followed by the command word).  The prefix of every emitted message is the server's, a stored
   session prefix, or one a services link chose; stored nick and user names are bounded (a client's user name is
   cut to 32 bytes by cmd_user, nicknames are validated), session ids are 64-bit, the network name is bounded.
   The bounds are threaded through all handlers with the relation [hl] of Recipients2.v.
   Services are trusted: the lines of authenticated services links (and the SERVER line that authenticates one)
   are assumed to carry prefixes and NICK/SERVER parameters of at most 63 bytes — the property is about what
   CLIENTS can post.  No other hypothesis (no well-formedness, no base invariant) is needed. *)
From stdpp Require Import gmap.
From Coq Require Import Strings.String Strings.Ascii ZArith NArith Lia.
From RV Require Import Base.Text Irc.Str Irc.Parse Irc.State Irc.Monad Irc.Cmds Irc.SCmds Irc.Apply.
From RV Require Import IrcProofs.WP IrcProofs.Inv IrcProofs.InvPrims IrcProofs.StrLemmas IrcProofs.Handlers IrcProofs.Top.
From RV Require Import IrcProofs.Outputs IrcProofs.Examples IrcProofs.Recipients2.
From RV Require IrcProofs.Trim.
Local Open Scope string_scope.

(* ====================================================================================================== *)
(* 1. Lengths                                                                                             *)
(* ====================================================================================================== *)
Definition head (m : imsg) : string :=
  (match m_prefix m with Some p => ":" ++ prefix_string p ++ " " | None => "" end) ++ m_cmd m.

Lemma slen_app a b : slen (a ++ b) = slen a + slen b.
Proof.
  unfold slen. induction a as [|c a IH]; [reflexivity|].
  change (String c a ++ b) with (String c (a ++ b)). cbn [String.length Nat.add]. now rewrite IH.
Qed.

Lemma slen_to_upper s : slen (to_upper s) = slen s.
Proof. unfold slen. induction s as [|c s IH]; cbn [to_upper String.length]; [reflexivity|]. now rewrite IH. Qed.

Lemma valid_nick_len n : valid_nick n = true -> slen n <= 31.
Proof.
  destruct n as [|c r]; [discriminate|]. unfold valid_nick. intros H.
  apply andb_true_iff in H. destruct H as [_ H]. apply Nat.leb_le in H. unfold slen in *. cbn. lia.
Qed.

Lemma hex_aux_len fuel n acc : slen (hex_of_N_aux fuel n acc) <= fuel + slen acc.
Proof.
  revert n acc. induction fuel as [|f IH]; intros n acc; cbn [hex_of_N_aux]; [lia|].
  destruct (n / 16 =? 0)%N.
  - unfold slen. cbn. lia.
  - specialize (IH (n / 16)%N (String (hex_digit (n mod 16)) acc)). unfold slen in *. cbn in IH. lia.
Qed.

Lemma hex_len n : (n < two64)%N -> slen (hex_of_N n) <= 64.
Proof.
  intros H. unfold hex_of_N. pose proof (hex_aux_len (S (N.to_nat (N.log2 n))) n "") as Hl.
  assert (N.to_nat (N.log2 n) < 64)%nat.
  { destruct (N.eq_dec n 0) as [->|Hn]; [cbn; lia|].
    assert (N.log2 n < 64)%N by (apply N.log2_lt_pow2; [lia|exact H]). lia. }
  change (slen "") with 0 in Hl. lia.
Qed.

(* bounds on the parts of a prefix under which a line head fits *)
Definition PB (p : prefix) : Prop := slen (p_name p) <= 255 /\ slen (p_user p) <= 63 /\ slen (p_host p) <= 80.

Lemma prefix_string_len p : PB p -> slen (prefix_string p) <= 400.
Proof.
  intros (H1 & H2 & H3). unfold prefix_string. rewrite !slen_app.
  destruct (is_empty (p_user p)), (is_empty (p_host p)); rewrite ?slen_app; unfold slen in *; cbn; lia.
Qed.

Lemma head_some p cmd ps : PB p -> slen cmd <= 16 -> slen (head (IMsg (Some p) cmd ps)) <= 510.
Proof.
  intros Hp Hc. unfold head. cbn [m_prefix m_cmd]. rewrite !slen_app. pose proof (prefix_string_len p Hp).
  change (slen ":") with 1. change (slen " ") with 1. lia.
Qed.
Lemma head_none cmd ps : slen cmd <= 16 -> slen (head (IMsg None cmd ps)) <= 510.
Proof. intros Hc. unfold head. cbn [m_prefix m_cmd]. change ("" ++ cmd) with cmd. lia. Qed.

Lemma PB_small p : slen (p_name p) <= 63 -> slen (p_user p) <= 63 -> slen (p_host p) <= 63 -> PB p.
Proof. intros. unfold PB. lia. Qed.

(* truncation keeps a head that fits *)
Lemma has_prefix_app a b : has_prefix a (a ++ b) = true.
Proof.
  induction a as [|c a IH]; [reflexivity|]. change (String c a ++ b) with (String c (a ++ b)).
  cbn [has_prefix]. now rewrite Ascii.eqb_refl.
Qed.
Lemma stake_app n a b : slen a <= n -> exists r, stake n (a ++ b) = a ++ r.
Proof.
  revert n. induction a as [|c a IH]; intros n H.
  - eexists. reflexivity.
  - change (String c a ++ b) with (String c (a ++ b)).
    destruct n as [|n]; [unfold slen in H; cbn in H; lia|]. cbn [stake].
    destruct (IH n) as [r Hr]; [unfold slen in *; cbn in H; lia|]. rewrite Hr. exists r. reflexivity.
Qed.

Lemma msg_bytes_full_head m : exists rest, msg_bytes_full m = head m ++ rest.
Proof. unfold msg_bytes_full, head. eexists. rewrite StrLemmas.append_assoc. reflexivity. Qed.

(* send() also removes an incomplete UTF-8 sequence from the end of the line (at most 3 non-ASCII bytes): a head that
   ends in an ASCII byte — the command word is a non-empty ASCII word — is not touched by it *)
Fixpoint all_low (s : string) : bool :=
  match s with EmptyString => true | String c r => (byte_of c <? 128)%N && all_low r end.
Definition cmd_ok (c : string) : bool := negb (is_empty c) && all_low c.

Lemma all_low_last c r : all_low (String c r) = true ->
  exists a' d, String c r = a' ++ String d "" /\ (byte_of d < 128)%N.
Proof.
  revert c. induction r as [|c' r IH]; intros c H.
  - exists "", c. split; [reflexivity|]. cbn [all_low] in H. apply andb_true_iff in H. now apply N.ltb_lt.
  - cbn [all_low] in H. apply andb_true_iff in H. destruct H as [_ H]. destruct (IH c' H) as (a' & d & Heq & Hd).
    exists (String c a'), d. split; [|exact Hd]. cbn [append]. now rewrite Heq.
Qed.

Lemma ends_ascii_head m : cmd_ok (m_cmd m) = true -> Trim.ends_ascii (head m).
Proof.
  unfold cmd_ok, head. intros H. apply andb_true_iff in H. destruct H as [Hne Hl].
  destruct (m_cmd m) as [|c r]; [discriminate|]. destruct (all_low_last c r Hl) as (a' & d & -> & Hd).
  right. eexists. exists d. split; [|exact Hd]. now rewrite <- StrLemmas.append_assoc.
Qed.

Lemma byte_of_chr n : (n < 256)%N -> byte_of (chr n) = n.
Proof. intros H. unfold byte_of, chr. now apply N_ascii_embedding. Qed.

Lemma all_low_to_upper s : all_low (to_upper s) = all_low s.
Proof.
  induction s as [|c s IH]; [reflexivity|]. cbn [to_upper all_low]. rewrite IH. f_equal.
  pose proof (N_ascii_bounded c) as Hb. fold (byte_of c) in Hb. unfold upper_byte, in_range.
  destruct ((97 <=? byte_of c)%N && (byte_of c <=? 122)%N) eqn:E.
  - apply andb_true_iff in E. destruct E as [E1 E2]. apply N.leb_le in E1, E2.
    rewrite byte_of_chr by lia. transitivity true; [apply N.ltb_lt; lia|symmetry; apply N.ltb_lt; lia].
  - now rewrite byte_of_chr.
Qed.
Lemma cmd_ok_to_upper s : cmd_ok (to_upper s) = cmd_ok s.
Proof. unfold cmd_ok. rewrite all_low_to_upper. destruct s; reflexivity. Qed.

Lemma head_kept m : slen (head m) <= 510 -> cmd_ok (m_cmd m) = true -> has_prefix (head m) (msg_bytes m) = true.
Proof.
  intros H Hok. unfold msg_bytes. destruct (msg_bytes_full_head m) as [rest ->].
  destruct (stake_app max_length (head m) rest H) as [r ->].
  destruct (Trim.trim_keeps_prefix (head m) r (ends_ascii_head m Hok)) as [r' ->]. apply has_prefix_app.
Qed.

(* ====================================================================================================== *)
(* 2. The bounds kept by every session record                                                             *)
(* ====================================================================================================== *)
Definition idok (k : N * N) : Prop := (fst k < two64)%N.
Definition Bs (k : N * N) (s : session) : Prop :=
  idok k /\ s_key s = k /\ slen (s_nick s) <= 63 /\ slen (s_user s) <= 63 /\ PB (s_prefix s).

Record BI (net : string) (sv : server) : Prop := {
  b_sess : forall (k : N * N) s, sv_sessions sv !! k = Some s -> Bs k s;
  b_net : sv_netname sv = net;
}.

Lemma PB_mk s : idok (s_key s) -> slen (s_nick s) <= 63 -> slen (s_user s) <= 63 -> PB (mk_prefix s).
Proof.
  intros Hi Hn Hu. unfold PB, mk_prefix. cbn [p_name p_user p_host]. rewrite slen_app.
  pose proof (hex_len _ Hi). change (slen "robust/0x") with 9. lia.
Qed.

Lemma Bs_update' k s : idok k -> s_key s = k -> slen (s_nick s) <= 63 -> slen (s_user s) <= 63 -> Bs k (update_prefix s).
Proof.
  intros Hi Hk Hn Hu. split; [exact Hi|]. split; [exact Hk|]. split; [exact Hn|]. split; [exact Hu|].
  apply PB_mk; auto. now rewrite Hk.
Qed.
Lemma Bs_update k s : Bs k s -> Bs k (update_prefix s).
Proof. intros (Hi & Hk & Hn & Hu & Hp). now apply Bs_update'. Qed.

Definition bs_keep (f : session -> session) : Prop := forall k s, Bs k s -> Bs k (f s).

Section BILemmas.
  Variable net : string.
  Notation BI := (BI net).

  Lemma BI_same sv sv' : sv_sessions sv' = sv_sessions sv -> sv_netname sv' = sv_netname sv -> BI sv -> BI sv'.
  Proof. intros Hs Hn [B1 B2]. split; [rewrite Hs; exact B1|congruence]. Qed.

  Lemma BI_updSess sv (k : N * N) f :
    bs_keep f -> BI sv -> BI (set_sessions (fun m => match m !! k with Some s => <[k := f s]> m | None => m end) sv).
  Proof.
    intros Hf [B1 B2]. split; [|exact B2]. cbn [sv_sessions set_sessions]. intros k' s'. rewrite lookup_upd_sess.
    case_bool_decide as Heq; [destruct Heq|apply B1]. destruct (sv_sessions sv !! k) as [s|] eqn:Hs; [|discriminate].
    cbn. intros [= <-]. apply Hf, B1, Hs.
  Qed.
  (* one record gets a new value for which the bounds are shown from those of the old one *)
  Lemma BI_updSess_at sv (k : N * N) f :
    (forall s, sv_sessions sv !! k = Some s -> Bs k s -> Bs k (f s)) -> BI sv ->
    BI (set_sessions (fun m => match m !! k with Some s => <[k := f s]> m | None => m end) sv).
  Proof.
    intros Hf [B1 B2]. split; [|exact B2]. cbn [sv_sessions set_sessions]. intros k' s'. rewrite lookup_upd_sess.
    case_bool_decide as Heq; [destruct Heq|apply B1]. destruct (sv_sessions sv !! k) as [s|] eqn:Hs; [|discriminate].
    cbn. intros [= <-]. apply Hf; [reflexivity|apply B1, Hs].
  Qed.
  Lemma BI_fmap sv f : bs_keep f -> BI sv -> BI (set_sessions (fmap f) sv).
  Proof.
    intros Hf [B1 B2]. split; [|exact B2]. cbn [sv_sessions set_sessions]. intros k' s'. rewrite lookup_fmap.
    destruct (sv_sessions sv !! k') as [s|] eqn:Hs; [|discriminate]. cbn. intros [= <-]. apply Hf, B1, Hs.
  Qed.
  Lemma BI_insert sv (key : N * N) s0 : Bs key s0 -> BI sv -> BI (set_sessions (<[key := s0]>) sv).
  Proof.
    intros H0 [B1 B2]. split; [|exact B2]. cbn [sv_sessions set_sessions]. intros k' s'.
    destruct (decide (key = k')) as [<-|Hne]; [rewrite lookup_insert; now intros [= <-]|].
    rewrite lookup_insert_ne by assumption. apply B1.
  Qed.
  Lemma BI_sub (sv : server) (g : gmap (N * N) session -> gmap (N * N) session) :
    (forall (k : N * N) s, g (sv_sessions sv) !! k = Some s -> sv_sessions sv !! k = Some s) -> BI sv -> BI (set_sessions g sv).
  Proof. intros Hg [B1 B2]. split; [|exact B2]. cbn [sv_sessions set_sessions]. intros k s H. apply B1, Hg, H. Qed.

  (* change_nick, possibly after another change of the same record: the prefix is recomputed at the end *)
  Lemma BI_nick_state sv (k0 : N * N) f0 nick old caps :
    (forall s, Bs k0 s -> s_key (f0 s) = s_key s /\ slen (s_user (f0 s)) <= 63) -> slen nick <= 63 -> BI sv ->
    BI (nick_state k0 nick old caps
          (set_sessions (fun m => match m !! k0 with Some s => <[k0 := f0 s]> m | None => m end) sv)).
  Proof.
    intros Hf Hn [B1 B2]. split.
    - intros k' s'. rewrite nick_state_sessions. cbn [sv_sessions set_sessions]. rewrite lookup_upd_sess.
      destruct (decide (k0 = k')) as [<-|Hne].
      + rewrite !bool_decide_true by reflexivity. destruct (sv_sessions sv !! k0) as [s|] eqn:Hs; [|discriminate].
        cbn. intros [= <-]. pose proof (B1 _ _ Hs) as HB. destruct (Hf s HB) as [Hk Hu]. destruct HB as (Hi & Hk0 & _ & _ & _).
        apply Bs_update'; [exact Hi|cbn; congruence|exact Hn|exact Hu].
      + rewrite !bool_decide_false by assumption. destruct (sv_sessions sv !! k') as [s|] eqn:Hs; [|discriminate].
        cbn. intros [= <-]. now apply B1.
    - unfold nick_state. destruct (negb (is_empty old) && negb caps); exact B2.
  Qed.

  Lemma BI_svsnick sv (tk : N * N) p1 old :
    slen p1 <= 63 -> BI sv ->
    BI (set_sessions (fun m => match m !! tk with Some s => <[tk := update_prefix s]> m | None => m end)
         (set_channels (fmap (cc_nicks (rename_member old (nick_to_lower p1))))
            (set_nicks (fun ns => delete old (<[nick_to_lower p1 := tk]> ns))
               (set_sessions (fun m => match m !! tk with Some s => <[tk := ss_nick p1 s]> m | None => m end) sv)))).
  Proof.
    intros Hn [B1 B2]. split; [|exact B2]. intros k' s'. cbn [sv_sessions set_sessions set_nicks set_channels].
    rewrite !lookup_upd_sess. destruct (decide (tk = k')) as [<-|Hne].
    - rewrite !bool_decide_true by reflexivity. destruct (sv_sessions sv !! tk) as [s|] eqn:Hs; [|discriminate].
      cbn. intros [= <-]. destruct (B1 _ _ Hs) as (Hi & Hk & _ & Hu & Hp). apply Bs_update'; [exact Hi|exact Hk|exact Hn|exact Hu].
    - rewrite !bool_decide_false by assumption. destruct (sv_sessions sv !! k') as [s|] eqn:Hs; [|discriminate].
      cbn. intros [= <-]. now apply B1.
  Qed.
End BILemmas.

(* ---- what is assumed of trusted lines ------------------------------------------------------------------- *)
Definition pfx_small (m : imsg) : Prop :=
  forall p, m_prefix m = Some p -> slen (p_name p) <= 63 /\ slen (p_user p) <= 63 /\ slen (p_host p) <= 63.
Definition params_small (m : imsg) : Prop := Forall (fun x => slen x <= 63) (m_params m).
Definition msg_small (m : imsg) : Prop :=
  pfx_small m /\ (to_upper (m_cmd m) = "NICK" \/ to_upper (m_cmd m) = "SERVER" -> params_small m).

(* the session presents a services password (it may become a link), or is a link *)
Definition auth (sv : server) (s : session) : bool :=
  existsb (fun pw => String.eqb (s_pass s) ("services=" ++ pw)) (g_services (sv_config sv)).
Definition trusted_at (sv : server) (k : N * N) : Prop :=
  exists s, sv_sessions sv !! k = Some s /\ (s_server s = true \/ auth sv s = true).

Lemma param_small m i p : params_small m -> nth_error (m_params m) i = Some p -> slen p <= 63.
Proof. intros H Hp. unfold params_small in H. rewrite Forall_forall in H. apply H. eapply nth_error_In; eauto. Qed.

Lemma valid_nick_len63 n : negb (valid_nick n) = false -> slen n <= 63.
Proof. intros H. apply negb_false_iff, valid_nick_len in H. lia. Qed.

(* ---- outputs ------------------------------------------------------------------------------------------------ *)
Definition SI (rc : list N) (m : imsg) : Prop := slen (head m) <= 510 /\ cmd_ok (m_cmd m) = true.
Definition outI (o : omsg) : Prop := exists m, o_data o = msg_bytes m /\ slen (head m) <= 510 /\ cmd_ok (m_cmd m) = true.
Lemma outI_emit n rc m : SI rc m -> outI (OMsg n (msg_bytes m) (set_of_ids rc)).
Proof. intros [H1 H2]. exists m. auto. Qed.

(* ====================================================================================================== *)
(* 3. Every handler                                                                                       *)
(* ====================================================================================================== *)
Lemma PB_name n : slen n <= 255 -> PB (Prefix n "" "").
Proof. intros H. unfold PB. cbn [p_name p_user p_host]. change (slen "") with 0. lia. Qed.
Lemma PB_services n : slen n <= 63 -> PB (Prefix n "services" "services").
Proof. intros H. unfold PB. cbn [p_name p_user p_host]. change (slen "services") with 8. lia. Qed.

Ltac hl_step2 site inv :=
  lazymatch goal with
  | |- hl _ _ _ (bindM (bindM _ _) _) => apply hl_bind_assoc
  | |- hl _ _ _ (bindM getS _) => apply hl_bind_getS; intros ?
  | |- hl _ _ _ (bindM (retM _) _) => apply hl_bind_ret; cbn [negb fst snd]
  | |- hl _ _ _ (bindM (panicM _) _) => apply hl_bind_panic
  | |- hl _ _ _ (bindM (gapM _) _) => apply hl_bind_gap
  | |- hl _ _ _ (bindM replyCount _) => apply hl_bind_replyCount; intros ?
  | |- hl _ _ _ (bindM (liftR _) _) => apply hl_bind_liftR; intros ? ?
  | |- hl _ _ _ (bindM (emit _ _) _) => eapply (hl_bind_emit _ _ _ outI_emit); [intros ?; site|]
  | |- hl _ _ _ (bindM (modS _) _) => apply hl_bind_modS; [intros ?; inv|]
  | |- hl _ _ _ (bindM (whenM ?b _) _) => destruct b eqn:?; cbn [whenM]
  | |- hl _ _ _ (bindM (if ?b then _ else _) _) => destruct b eqn:?
  | |- hl _ _ _ (bindM (match ?x with _ => _ end) _) => destruct x eqn:?
  | |- hl _ _ _ (bindM (forM _ _) _) => apply hl_bind; [apply hl_forM; intros ? ?|intros ? ?]
  | |- hl _ _ _ (retM _) => apply hl_ret
  | |- hl _ _ _ (panicM _) => apply hl_panic
  | |- hl _ _ _ (gapM _) => apply hl_gap
  | |- hl _ _ _ getS => apply hl_getS
  | |- hl _ _ _ replyCount => apply hl_replyCount
  | |- hl _ _ _ (liftR _) => apply hl_liftR
  | |- hl _ _ _ (emit _ _) => eapply (hl_emit _ _ _ outI_emit); intros ?; site
  | |- hl _ _ _ (modS _) => apply hl_modS; intros ?; inv
  | |- hl _ _ _ (whenM ?b _) => destruct b eqn:?; cbn [whenM]
  | |- hl _ _ _ (forM _ _) => apply hl_forM; intros ? ?
  | |- hl _ _ _ (if ?b then _ else _) => destruct b eqn:?
  | |- hl _ _ _ (match ?x with _ => _ end) => destruct x eqn:?
  end.

Ltac lit_len := unfold slen; cbn [String.length]; lia.
Ltac solve_cmd :=
  first [ lit_len
        | match goal with Hc : to_upper (m_cmd ?m) = _ |- slen (m_cmd ?m) <= _ =>
            rewrite <- (slen_to_upper (m_cmd m)), Hc; lit_len end ].
Ltac solve_keep := let H := fresh in intros ? ? H; exact H.

Ltac solve_PB :=
  first
    [ match goal with HJ : BI _ ?sv |- PB (server_prefix ?sv) =>
        unfold server_prefix; rewrite (b_net _ _ HJ); apply PB_name; assumption end
    | match goal with HJ : BI _ ?sv, H : sv_sessions ?sv !! _ = Some ?s |- PB (s_prefix ?s) =>
        exact (proj2 (proj2 (proj2 (proj2 (b_sess _ _ HJ _ _ H))))) end
    | match goal with HJ : BI _ ?sv, H : sv_sessions ?sv !! _ = Some ?s |- PB (Prefix (s_nick ?s) _ _) =>
        apply PB_name; pose proof (proj1 (proj2 (proj2 (b_sess _ _ HJ _ _ H)))); lia end
    | match goal with Hsm : pfx_small ?m, Hp : m_prefix ?m = Some ?p |- PB (services_prefix ?p) =>
        unfold services_prefix; apply PB_services; exact (proj1 (Hsm _ Hp)) end
    | match goal with Hsm : pfx_small ?m, Hp : m_prefix ?m = Some ?p |- PB (Prefix (p_name ?p) "services" "services") =>
        apply PB_services; exact (proj1 (Hsm _ Hp)) end
    | match goal with Hsm : pfx_small ?m, Hp : m_prefix ?m = Some ?p |- PB ?p =>
        destruct (Hsm _ Hp) as (? & ? & ?); apply PB_small; assumption end ].

Ltac solve_ok :=
  cbn [m_cmd];
  first [ reflexivity
        | match goal with Hc : to_upper (m_cmd ?m) = _ |- cmd_ok (m_cmd ?m) = true =>
            rewrite <- (cmd_ok_to_upper (m_cmd m)), Hc; reflexivity end ].
Ltac site2 :=
  try solve [ unfold SI, usrmsg, srvmsg, noprefix; split;
              [ first [ apply head_none; solve_cmd | apply head_some; [solve_PB|solve_cmd] ] | solve_ok ] ].

Ltac inv2 :=
  unfold drop_invites;
  try solve
    [ match goal with HJ : BI _ ?sv0 |- _ => apply (BI_same _ sv0); [reflexivity|reflexivity|exact HJ] end
    | apply BI_updSess; [solve_keep|assumption]
    | apply BI_fmap; [solve_keep|assumption]
    | apply BI_updSess; [|assumption]; intros ? ? (? & ? & ? & ? & ?); apply Bs_update'; cbn [s_key s_nick s_user ss_user_real];
        [assumption|assumption|assumption|
         match goal with |- slen (cap_user ?u) <= _ => pose proof (slen_cap_user u); unfold max_user_len in *; lia end]
    | apply BI_insert; [|assumption];
        match goal with HJ : BI _ ?sv, H : sv_sessions ?sv !! ?k0 = Some _ |- Bs (fst ?k0, _) _ =>
          split; [exact (proj1 (b_sess _ _ HJ _ _ H))|] end;
        split; [reflexivity|]; cbn [s_nick s_user s_prefix new_session]; unfold PB; cbn [p_name p_user p_host];
        repeat split; lit_len ].

Section Handlers2.
  Variable net : string.
  Hypothesis Hnet : slen net <= 255.

  Notation BI := (BI net).
  Notation HL := (hl BI outI).

  Ltac unf := unfold reply_num, reply_svc, sessM, updSess, updChan, chanM, nickM, cfgM, param, prefix_name, msg_prefix,
                chanop_of, captcha_url_check, leave_channel, maybe_delete_channel, add_member,
                remove_nick_everywhere, rename_in_channels.
  Ltac sub :=
    lazymatch goal with
    | |- hl _ _ _ (bindM _ _) => apply hl_bind; [solve [auto 3 with hldb2 nocore]|intros ? ?]
    | |- hl _ _ _ _ => solve [auto 3 with hldb2 nocore]
    end.
  Ltac go := cbv zeta; repeat first [ hl_step2 site2 inv2 | sub | progress unf ].

  Lemma ok_delete_session k0 sv : HL sv (delete_session k0).
  Proof. unfold delete_session. unf. go. Qed.
  Lemma ok_verify_captcha e k0 c sv : HL sv (verify_captcha e k0 c).
  Proof. unfold verify_captcha. unf. go. Qed.
  Lemma ok_cmd_motd k0 m sv : HL sv (cmd_motd k0 m).
  Proof. unfold cmd_motd. unf. go. Qed.
  Lemma ok_cmd_oper k0 m sv : HL sv (cmd_oper k0 m).
  Proof. unfold cmd_oper. unf. go. Qed.
  Local Hint Resolve ok_delete_session ok_verify_captcha ok_cmd_motd ok_cmd_oper : hldb2.

  Lemma ok_change_nick k0 nick old caps sv : slen nick <= 63 -> HL sv (change_nick k0 nick old caps).
  Proof.
    intros Hn r HJ HP. rewrite change_nick_run. split; [|exact HP].
    pose proof (BI_nick_state net sv k0 (fun s => s) nick old caps) as H.
    assert (HB : BI (nick_state k0 nick old caps
               (set_sessions (fun m => match m !! k0 with Some s => <[k0 := s]> m | None => m end) sv))).
    { apply H; [|exact Hn|exact HJ]. intros s (_ & _ & _ & Hu & _). auto. }
    destruct HB as [B1 B2]. split.
    - intros k' s' Hs'. apply (B1 k' s'). revert Hs'. rewrite !nick_state_sessions. cbn [sv_sessions set_sessions].
      rewrite lookup_upd_sess. destruct (bool_decide (k0 = k')), (sv_sessions sv !! k'); exact (fun x => x).
    - unfold nick_state. destruct (negb (is_empty old) && negb caps); exact (b_net _ _ HJ).
  Qed.

  Lemma ok_maybe_login e k0 m sv : HL sv (maybe_login e k0 m).
  Proof. unfold maybe_login. unf. go. Qed.
  Local Hint Resolve ok_change_nick ok_maybe_login : hldb2.
  Local Hint Extern 1 (slen _ <= 63) =>
    first [ assumption | (apply valid_nick_len63; assumption) | (eapply param_small; eassumption) ] : hldb2.

  Lemma ok_cmd_nick e k0 m sv : HL sv (cmd_nick e k0 m).
  Proof. unfold cmd_nick. unf. go. Qed.
  Lemma ok_cmd_user e k0 m sv : HL sv (cmd_user e k0 m).
  Proof. unfold cmd_user. unf. go. Qed.
  Lemma ok_cmd_pass e k0 m sv : HL sv (cmd_pass e k0 m).
  Proof. unfold cmd_pass. unf. go. Qed.
  Lemma ok_mode_step k0 lc ch op md q sv : HL sv (cmd_mode_chan_step k0 lc ch op md q).
  Proof. unfold cmd_mode_chan_step. unf. go. Qed.
  Lemma ok_mode_loop k0 lc ch op mds q sv : HL sv (cmd_mode_chan_loop k0 lc ch op mds q).
  Proof.
    revert q sv. induction mds as [|md mds IH]; intros q sv; cbn [cmd_mode_chan_loop]; [apply hl_ret|].
    apply hl_bind; [apply ok_mode_step|]. intros st sv'. destruct (fst st); [apply hl_ret|apply IH].
  Qed.
  Local Hint Resolve ok_mode_loop : hldb2.
  Lemma ok_cmd_mode k0 m sv : HL sv (cmd_mode k0 m).
  Proof. unfold cmd_mode. unf. go. Qed.
  Lemma ok_cmd_topic k0 m sv : HL sv (cmd_topic k0 m).
  Proof. unfold cmd_topic. unf. go. Qed.
  Lemma ok_cmd_names k0 m sv : HL sv (cmd_names k0 m).
  Proof. unfold cmd_names. unf. go. Qed.
  Local Hint Resolve ok_cmd_mode ok_cmd_topic ok_cmd_names : hldb2.
  Lemma ok_join_one e k0 ch key sv : HL sv (join_one e k0 ch key).
  Proof. unfold join_one. unf. go. Qed.
  Local Hint Resolve ok_join_one : hldb2.
  Lemma ok_cmd_join e k0 m sv : HL sv (cmd_join e k0 m).
  Proof. unfold cmd_join. unf. go. Qed.
  Lemma ok_cmd_part k0 m sv : HL sv (cmd_part k0 m).
  Proof. unfold cmd_part. unf. go. Qed.
  Lemma ok_cmd_kick k0 m sv : HL sv (cmd_kick k0 m).
  Proof. unfold cmd_kick. unf. go. Qed.
  Lemma ok_cmd_invite k0 m sv : HL sv (cmd_invite k0 m).
  Proof. unfold cmd_invite. unf. go. Qed.
  Lemma ok_cmd_privmsg k0 m sv :
    to_upper (m_cmd m) = "PRIVMSG" \/ to_upper (m_cmd m) = "NOTICE" -> HL sv (cmd_privmsg k0 m).
  Proof. intros [Hc|Hc]; unfold cmd_privmsg; unf; go. Qed.
  Lemma ok_cmd_service_alias k0 m sv : HL sv (cmd_service_alias k0 m).
  Proof.
    unfold cmd_service_alias. destruct (service_alias (to_upper (m_cmd m))) as [expanded|] eqn:He; [|apply hl_ret].
    destruct (parse_message _) as [p|] eqn:Hp; [|apply hl_panic].
    apply ok_cmd_privmsg. left. rewrite (alias_cmd _ _ He _ _ Hp). reflexivity.
  Qed.
  Lemma ok_cmd_who k0 m sv : HL sv (cmd_who k0 m).
  Proof. unfold cmd_who. unf. go. Qed.
  Lemma ok_cmd_whois k0 m sv : HL sv (cmd_whois k0 m).
  Proof. unfold cmd_whois. unf. go. Qed.
  Lemma ok_cmd_list k0 m sv : HL sv (cmd_list k0 m).
  Proof. unfold cmd_list. unf. go. Qed.
  Lemma ok_cmd_away k0 m sv : HL sv (cmd_away k0 m).
  Proof. unfold cmd_away. unf. go. Qed.
  Lemma ok_cmd_ison k0 m sv : HL sv (cmd_ison k0 m).
  Proof. unfold cmd_ison. unf. go. Qed.
  Lemma ok_cmd_userhost k0 m sv : HL sv (cmd_userhost k0 m).
  Proof. unfold cmd_userhost. unf. go. Qed.
  Lemma ok_cmd_knock k0 m sv : HL sv (cmd_knock k0 m).
  Proof. unfold cmd_knock. unf. go. Qed.
  Lemma ok_cmd_ping k0 m sv : HL sv (cmd_ping k0 m).
  Proof. unfold cmd_ping. unf. go. Qed.
  Lemma ok_cmd_quit k0 m sv : HL sv (cmd_quit k0 m).
  Proof. unfold cmd_quit. unf. go. Qed.
  Lemma ok_cmd_kill k0 m sv : HL sv (cmd_kill k0 m).
  Proof. unfold cmd_kill. unf. go. Qed.
  Local Hint Resolve ok_cmd_kill : hldb2.
  Lemma ok_cmd_gline k0 m sv : HL sv (cmd_gline k0 m).
  Proof. unfold cmd_gline. unf. go. Qed.

  (* ---- services ------------------------------------------------------------------------------------- *)
  Lemma ok_burst_one sv0 t sv : BI sv0 -> HL sv (burst_one sv0 t).
  Proof. intros HJ0. unfold burst_one. unf. go. Qed.
  Local Hint Resolve ok_burst_one : hldb2.
  (* SERVER: the name the link gives itself becomes its stored prefix *)
  Lemma ok_cmd_server k0 m sv :
    (forall s, sv_sessions sv !! k0 = Some s -> auth sv s = true -> params_small m) -> HL sv (cmd_server k0 m).
  Proof.
    intros Htr. unfold cmd_server, member_session. unf. go.
    match goal with Hneg : negb (existsb _ _) = false, Hs : sv_sessions sv !! k0 = Some ?s |- _ =>
      apply negb_false_iff in Hneg; pose proof (Htr s eq_refl Hneg) as Hps end.
    apply BI_updSess_at; [|assumption]. intros s1 _ (Hi & Hk & Hn & Hu & Hp).
    split; [exact Hi|]. split; [exact Hk|]. split; [exact Hn|]. split; [exact Hu|]. apply PB_name.
    match goal with Hp0 : nth_error (m_params m) 0 = Some ?p0 |- _ => pose proof (param_small m 0 p0 Hps Hp0) end. lia.
  Qed.

  Lemma ok_upd_change_nick (k0 : N * N) f0 nick old caps sv :
    (forall s, Bs k0 s -> s_key (f0 s) = s_key s /\ slen (s_user (f0 s)) <= 63) -> slen nick <= 63 ->
    HL sv (bindM (modS (set_sessions (fun m => match m !! k0 with Some s => <[k0 := f0 s]> m | None => m end)))
                 (fun _ => change_nick k0 nick old caps)).
  Proof.
    intros Hf Hn r HJ HP. unfold bindM, modS. rewrite change_nick_run. split; [|exact HP].
    now apply BI_nick_state.
  Qed.

  Section Link.
    Variable m : imsg.
    Hypothesis Hsm : pfx_small m.

    Lemma ok_cmd_server_nick k0 sv : params_small m -> HL sv (cmd_server_nick k0 m).
    Proof.
      intros Hps. unfold cmd_server_nick, create_session. unf. cbv zeta.
      repeat first [ (apply ok_upd_change_nick;
                        [intros ? _; split; [reflexivity|cbn [s_user ss_user_real]; eapply param_small; eassumption]
                        |eapply param_small; eassumption])
                   | hl_step2 site2 inv2 | sub | progress unf ].
    Qed.
    Lemma ok_quit_pseudo tk sv : HL sv (quit_pseudo tk m).
    Proof. unfold quit_pseudo. unf. go. Qed.
    Local Hint Resolve ok_quit_pseudo : hldb2.
    Lemma ok_cmd_server_quit k0 sv : HL sv (cmd_server_quit k0 m).
    Proof. unfold cmd_server_quit. unf. go. Qed.
    Lemma ok_cmd_server_kill k0 sv : HL sv (cmd_server_kill k0 m).
    Proof. unfold cmd_server_kill. unf. go. Qed.
    Lemma ok_cmd_server_join k0 sv : HL sv (cmd_server_join k0 m).
    Proof. unfold cmd_server_join. unf. go. Qed.
    Lemma ok_cmd_server_part k0 sv : HL sv (cmd_server_part k0 m).
    Proof. unfold cmd_server_part. unf. go. Qed.
    Lemma ok_cmd_server_kick k0 sv : HL sv (cmd_server_kick k0 m).
    Proof. unfold cmd_server_kick. unf. go. Qed.
    Lemma ok_cmd_server_svsjoin k0 sv : HL sv (cmd_server_svsjoin k0 m).
    Proof. unfold cmd_server_svsjoin. unf. go. Qed.
    Lemma ok_cmd_server_svspart k0 sv : HL sv (cmd_server_svspart k0 m).
    Proof. unfold cmd_server_svspart. unf. go. Qed.
    Lemma ok_cmd_server_svsnick k0 sv : HL sv (cmd_server_svsnick k0 m).
    Proof.
      unfold cmd_server_svsnick. unf. cbv zeta.
      repeat first [ (eapply hl_bind_modS4; [intros ?; apply BI_svsnick; [apply valid_nick_len63; assumption|assumption]|])
                   | hl_step2 site2 inv2 | sub | progress unf ].
    Qed.
    Lemma ok_cmd_server_mode k0 sv : HL sv (cmd_server_mode k0 m).
    Proof. unfold cmd_server_mode. unf. go. Qed.
    Lemma ok_cmd_server_topic k0 sv : HL sv (cmd_server_topic k0 m).
    Proof. unfold cmd_server_topic. unf. go. Qed.
    Lemma ok_cmd_server_invite k0 sv : HL sv (cmd_server_invite k0 m).
    Proof. unfold cmd_server_invite. unf. go. Qed.
    Lemma ok_cmd_server_privmsg k0 sv :
      to_upper (m_cmd m) = "PRIVMSG" \/ to_upper (m_cmd m) = "NOTICE" -> HL sv (cmd_server_privmsg k0 m).
    Proof. intros [Hc|Hc]; unfold cmd_server_privmsg; unf; go. Qed.
    Lemma ok_cmd_server_svshold k0 sv : HL sv (cmd_server_svshold k0 m).
    Proof. unfold cmd_server_svshold. unf. go. Qed.
    Lemma ok_cmd_server_svsmode k0 sv : HL sv (cmd_server_svsmode k0 m).
    Proof. unfold cmd_server_svsmode. unf. go. Qed.
  End Link.

  (* ---- the command table --------------------------------------------------------------------------- *)
  Lemma ok_dispatch name minp (f : handler) e (k : N * N) m sv s1 (srv : bool) :
    In (name, (minp, f)) commands ->
    name = (if srv then "server_" else "") ++ to_upper (m_cmd m) ->
    sv_sessions sv !! k = Some s1 -> s_server s1 = srv ->
    (trusted_at sv k -> msg_small m) ->
    HL sv (f e k m).
  Proof.
    intros Hin Hname Hs1 Hsrv1 Htr. unfold commands in Hin.
    repeat (destruct Hin as [Hin|Hin]; [injection Hin as <- <- <-|]); try contradiction; unfold noenv.
    all: destruct srv; cbn [String.append] in Hname; try discriminate Hname.
    all: try (exfalso; symmetry in Hname; revert Hname; apply to_upper_not_s).
    all: try (injection Hname as Hname).
    (* a services link is trusted *)
    all: try (assert (Hsm : msg_small m) by (apply Htr; exists s1; split; [exact Hs1|now left]); destruct Hsm as [Hpf Hpar]).
    all: first [ apply ok_cmd_privmsg; first [left; symmetry; exact Hname|right; symmetry; exact Hname]
               | apply ok_cmd_server_privmsg; [exact Hpf|first [left; symmetry; exact Hname|right; symmetry; exact Hname]]
               | (apply ok_cmd_server_nick; try exact Hpf; apply Hpar; left; symmetry; exact Hname)
               | (apply ok_cmd_server; intros s2 Hs2 Ha; apply Htr; [exists s2; split; [exact Hs2|now right]|right; symmetry; exact Hname])
               | apply ok_cmd_service_alias | apply ok_cmd_away | apply ok_cmd_gline
               | apply ok_cmd_invite | apply ok_cmd_ison | apply ok_cmd_join
               | apply ok_cmd_kick | apply ok_cmd_kill | apply ok_cmd_knock
               | apply ok_cmd_list | apply ok_cmd_mode | apply ok_cmd_motd
               | apply ok_cmd_names | apply ok_cmd_nick | apply ok_cmd_oper
               | apply ok_cmd_part | apply ok_cmd_pass | apply ok_cmd_ping
               | apply ok_cmd_quit | apply ok_cmd_topic | apply ok_cmd_user
               | apply ok_cmd_userhost | apply ok_cmd_who | apply ok_cmd_whois
               | apply ok_cmd_server_invite; exact Hpf | apply ok_cmd_server_join; exact Hpf
               | apply ok_cmd_server_kick; exact Hpf | apply ok_cmd_server_kill; exact Hpf
               | apply ok_cmd_server_mode; exact Hpf
               | apply ok_cmd_server_part; exact Hpf | apply ok_cmd_server_quit
               | apply ok_cmd_server_svshold | apply ok_cmd_server_svsjoin
               | apply ok_cmd_server_svsmode | apply ok_cmd_server_svsnick
               | apply ok_cmd_server_svspart | apply ok_cmd_server_topic; exact Hpf ].
  Qed.

  (* ---- ProcessMessage -------------------------------------------------------------------------------- *)
  Lemma ok_process_message e (k : N * N) ra ircmsg sv s0 :
    sv_sessions sv !! k = Some s0 ->
    (forall m, ircmsg = Some m -> trusted_at sv k -> msg_small m) ->
    HL sv (process_message e k ra ircmsg).
  Proof.
    intros Hs0 Htr0.
    unfold process_message. unfold sessM at 1. apply hl_bind_assoc, hl_bind_getS. intros HJ. rewrite Hs0. apply hl_bind_ret.
    destruct ircmsg as [m|]; [|unf; go]. cbv zeta. specialize (Htr0 m eq_refl).
    match goal with |- hl _ _ _ (bindM _ (fun banned => if banned then retM tt else ?tail)) =>
      assert (Htail : forall sv1 s1, sv_sessions sv1 !! k = Some s1 -> (trusted_at sv1 k -> msg_small m) -> HL sv1 tail) end.
    { intros sv1 s1 Hs1 Htr1. unfold sessM at 1. apply hl_bind_assoc, hl_bind_getS. intros HJ1. rewrite Hs1. apply hl_bind_ret.
      destruct (negb (s_loggedIn s1) && negb (s_server s1) && negb (pre_registration (to_upper (m_cmd m)))) eqn:Hgate; [unf; go|].
      destruct (assoc_str _ commands) as [[minp f]|] eqn:Hc; [|unf; go].
      destruct (Nat.ltb _ _); [unf; go|].
      eapply ok_dispatch; [eapply assoc_str_In; exact Hc|reflexivity|exact Hs1|reflexivity|exact Htr1]. }
    destruct (negb (is_empty ra) && negb (String.eqb ra (s_remoteAddr s0))) eqn:Hra.
    - unfold updSess, cfgM.
      assert (Hl1 : sv_sessions (set_sessions (fun m0 => match m0 !! k with Some s => <[k := ss_remoteAddr ra s]> m0 | None => m0 end) sv) !! k
                    = Some (ss_remoteAddr ra s0)).
      { cbn [sv_sessions set_sessions]. rewrite lookup_upd_sess, bool_decide_true, Hs0 by reflexivity. reflexivity. }
      repeat first [ (apply Htail with (s1 := ss_remoteAddr ra s0);
                       [exact Hl1
                       |intros (s2 & Hs2 & Ht2); apply Htr0; rewrite Hl1 in Hs2; injection Hs2 as <-; exists s0; split; [exact Hs0|exact Ht2]])
                   | hl_step2 site2 inv2 | sub ].
    - apply hl_bind_ret. cbn [negb]. eapply Htail; [exact Hs0|exact Htr0].
  Qed.
End Handlers2.

(* ====================================================================================================== *)
(* 4. Log entries and histories                                                                           *)
(* ====================================================================================================== *)
(* raft indexes are 64-bit *)
Definition id_entry_ok (en : entry) : Prop := match en with ECreate id _ _ => (id < two64)%N | _ => True end.
(* the lines of services links (and the SERVER line of a session presenting a services password) are small *)
Definition small_entry_ok (sv : server) (en : entry) : Prop :=
  match en with
  | EMessage _ _ session _ _ data => forall m, parse_message data = Some m -> trusted_at sv (session, 0%N) -> msg_small m
  | _ => True
  end.

Lemma BI_maybe_delete net (k : N * N) sv : BI net sv -> BI net (maybe_delete_session k sv).
Proof.
  intros HJ. unfold maybe_delete_session. destruct (sv_sessions sv !! k) as [s|]; [|exact HJ].
  assert (H1 : BI net (if s_server s || s_operator s
                       then set_sessions (base.filter (fun kv : N * N * session => s_deleted kv.2 = false)) sv else sv)).
  { destruct (s_server s || s_operator s); [|exact HJ]. apply BI_sub; [|exact HJ].
    intros k' s' H. apply map_filter_lookup_Some in H. apply H. }
  destruct (s_deleted s); [|exact H1]. apply BI_sub; [|exact H1].
  intros k' s' H. apply lookup_delete_Some in H. apply H.
Qed.

Lemma BI_update_last_cmid net k ts data cmid sv sv1 :
  BI net sv -> update_last_cmid k ts data cmid sv = Some sv1 ->
  BI net sv1 /\ exists s1, sv_sessions sv1 !! k = Some s1 /\ (trusted_at sv1 k -> trusted_at sv k).
Proof.
  intros HJ H. unfold update_last_cmid in H. destruct (sv_sessions sv !! k) as [s|] eqn:Hs; [|discriminate].
  injection H as <-. split.
  - apply BI_insert; [|exact HJ]. exact (b_sess _ _ HJ _ _ Hs).
  - eexists. cbn [sv_sessions set_sessions]. rewrite lookup_insert. split; [reflexivity|].
    intros (s2 & Hs2 & Ht). cbn [sv_sessions set_sessions] in Hs2. rewrite lookup_insert in Hs2. injection Hs2 as <-. exists s. split; [exact Hs|exact Ht].
Qed.

Theorem intact_entry net e sv en sv' out :
  slen net <= 255 -> BI net sv -> small_entry_ok sv en -> apply_entry e sv en = OOk sv' out ->
  Forall outI out /\ (id_entry_ok en -> BI net sv').
Proof.
  intros Hnet HJ Hsm. destruct en as [id un auth|id un session q|id un session cmid ra data|id un session cmid data|id un rev parsed];
    cbn [apply_entry].
  - unfold create_session, bindM, getS, retM, modS. destruct (_ && _); cbn; [discriminate|]. intros [= <- <-].
    split; [constructor|]. intros Hid. apply BI_insert; [|exact HJ].
    split; [exact Hid|]. split; [reflexivity|]. cbn [s_nick s_user s_prefix new_session]. unfold PB. cbn [p_name p_user p_host].
    repeat split; lit_len.
  - destruct (sv_sessions sv !! (session, 0%N)) as [s|] eqn:Hs; [|intros [= <- <-]; split; [constructor|intros _; exact HJ]].
    destruct (parse_quit q) as [ps Hq]. rewrite Hq. unfold run_handler.
    assert (Htr : forall m, Some (IMsg None "QUIT" ps) = Some m -> trusted_at sv (session, 0%N) -> msg_small m).
    { intros m [= <-] _. split; [intros p Hp; discriminate|]. intros [H|H]; vm_compute in H; discriminate. }
    pose proof (ok_process_message net Hnet e (session, 0%N) "" _ sv s Hs Htr (RCtx id []) HJ (Forall_nil _)) as H.
    destruct (process_message _ _ _ _ sv _) as [[[[] sv1] r1]|?|?]; try discriminate.
    intros [= <- <-]. destruct H as [HJ1 HP1]. split; [apply Forall_rev, HP1|]. intros _.
    apply BI_maybe_delete. eapply BI_same; [| |exact HJ1]; reflexivity.
  - destruct (is_retry _ _ sv); [intros [= <- <-]; split; [constructor|intros _; exact HJ]|].
    destruct (update_last_cmid _ _ _ _ sv) as [sv1|] eqn:Hu; [|discriminate].
    destruct (BI_update_last_cmid _ _ _ _ _ _ _ HJ Hu) as (HJ1 & s1 & Hs1 & Htrans). unfold run_handler.
    assert (Htr : forall m, parse_message data = Some m -> trusted_at sv1 (session, 0%N) -> msg_small m).
    { intros m Hm Ht. apply (Hsm m Hm), Htrans, Ht. }
    pose proof (ok_process_message net Hnet e (session, 0%N) ra _ sv1 s1 Hs1 Htr (RCtx id []) HJ1 (Forall_nil _)) as H.
    destruct (process_message _ _ _ _ sv1 _) as [[[[] sv2] r2]|?|?]; try discriminate.
    intros [= <- <-]. destruct H as [HJ2 HP2]. split; [apply Forall_rev, HP2|]. intros _.
    apply BI_maybe_delete. eapply BI_same; [| |exact HJ2]; reflexivity.
  - destruct (update_last_cmid _ _ _ _ sv) as [sv1|] eqn:Hu; [|discriminate].
    intros [= <- <-]. split; [constructor|]. intros _. eapply BI_update_last_cmid; eauto.
  - destruct (config_in_force _ _ _); intros [= <- <-]; (split; [constructor|intros _]); [|exact HJ]. eapply BI_same; [| |exact HJ]; reflexivity.
Qed.

Fixpoint intact_history (e : env) (sv : server) (es : list entry) : Prop :=
  match es with
  | [] => True
  | en :: r => id_entry_ok en /\ small_entry_ok sv en /\
               forall sv', entry_result (apply_entry e sv en) = Some sv' -> intact_history e sv' r
  end.

Lemma BI_init net : BI net (init_server net).
Proof. split; [|reflexivity]. intros k s H. cbn in H. rewrite lookup_empty in H. discriminate. Qed.

Lemma apply_entry_same' e sv en sv' :
  apply_entry e sv en = OSessionLimit sv' \/ apply_entry e sv en = OSkip sv' -> sv' = sv.
Proof.
  destruct en; cbn [apply_entry].
  - unfold create_session, bindM, getS, retM, modS. destruct (_ && _); cbn; intros [H|H]; congruence.
  - destruct (sv_sessions sv !! _); [|intros [H|H]; discriminate]. unfold run_handler.
    destruct (process_message _ _ _ _ _ _) as [[[[] ?] ?]|?|?]; intros [H|H]; discriminate.
  - destruct (is_retry _ _ _); [intros [H|H]; discriminate|].
    destruct (update_last_cmid _ _ _ _ _); [|intros [H|H]; congruence]. unfold run_handler.
    destruct (process_message _ _ _ _ _ _) as [[[[] ?] ?]|?|?]; intros [H|H]; discriminate.
  - destruct (update_last_cmid _ _ _ _ _); intros [H|H]; congruence.
  - destruct (config_in_force _ _ _); intros [H|H]; discriminate.
Qed.

Lemma BI_step net e sv en sv' :
  slen net <= 255 -> BI net sv -> id_entry_ok en -> small_entry_ok sv en ->
  entry_result (apply_entry e sv en) = Some sv' -> BI net sv'.
Proof.
  intros Hnet HJ Hid Hsm Hr. destruct (apply_entry e sv en) as [sv1 out| sv1 | sv1 | |] eqn:Ha; cbn in Hr; try discriminate;
    injection Hr as ->.
  - now apply (intact_entry net e sv en sv' out Hnet HJ Hsm Ha).
  - rewrite (apply_entry_same' e sv en sv' (or_introl Ha)). exact HJ.
  - rewrite (apply_entry_same' e sv en sv' (or_intror Ha)). exact HJ.
Qed.

Lemma BI_run net e es1 : forall sv rest svj,
  slen net <= 255 -> BI net sv -> intact_history e sv (es1 ++ rest) -> run e sv es1 = Some svj ->
  BI net svj /\ intact_history e svj rest.
Proof.
  induction es1 as [|a es1 IH]; intros sv rest svj Hnet HJ Hh Hrun; cbn [run] in Hrun.
  - injection Hrun as <-. auto.
  - cbn [app intact_history] in Hh. destruct Hh as (Hid & Hsm & Hrest).
    destruct (entry_result (apply_entry e sv a)) as [sv1|] eqn:Hr; [|discriminate].
    apply (IH sv1 rest svj Hnet); [eapply BI_step; eauto|now apply Hrest|exact Hrun].
Qed.

(* C15: in every reachable state, every line an entry produces keeps its head: truncation to 510 bytes never cuts
   into ":prefix command" *)
Theorem command_intact e net es1 en es2 sv sv' out :
  slen net <= 255 -> intact_history e (init_server net) (es1 ++ en :: es2) ->
  run e (init_server net) es1 = Some sv -> apply_entry e sv en = OOk sv' out ->
  forall o, In o out ->
    exists m, o_data o = msg_bytes m /\ slen (head m) <= 510 /\ has_prefix (head m) (o_data o) = true.
Proof.
  intros Hnet Hh Hrun Ha o Ho.
  destruct (BI_run net e es1 _ _ _ Hnet (BI_init net) Hh Hrun) as [HJ Hrest]. cbn [intact_history] in Hrest.
  destruct Hrest as (_ & Hsm & _).
  destruct (intact_entry net e sv en sv' out Hnet HJ Hsm Ha) as [HF _]. rewrite Forall_forall in HF.
  destruct (HF o Ho) as (m & Hd & Hl & Hok). exists m. split; [exact Hd|]. split; [exact Hl|]. rewrite Hd. now apply head_kept.
Qed.

(* the stored user name of a client session is at most 32 bytes... the invariant also gives the weaker uniform bounds *)
Theorem stored_names_bounded e net es sv :
  slen net <= 255 -> intact_history e (init_server net) es -> run e (init_server net) es = Some sv ->
  forall (k : N * N) s, sv_sessions sv !! k = Some s ->
    slen (s_nick s) <= 63 /\ slen (s_user s) <= 63 /\ slen (prefix_string (s_prefix s)) <= 400.
Proof.
  intros Hnet Hh Hrun k s Hs. rewrite <- (app_nil_r es) in Hh.
  destruct (BI_run net e es _ _ _ Hnet (BI_init net) Hh Hrun) as [HJ _].
  destruct (b_sess _ _ HJ _ _ Hs) as (_ & _ & Hn & Hu & Hp). split; [exact Hn|]. split; [exact Hu|]. now apply prefix_string_len.
Qed.

(* ====================================================================================================== *)
(* 5. Non-vacuity                                                                                         *)
(* ====================================================================================================== *)
(* a history without trusted sessions (no services link, no session presenting a services password) satisfies the
   hypothesis on trusted lines trivially *)
Definition trusted_b (sv : server) (k : N * N) : bool :=
  match sv_sessions sv !! k with Some s => s_server s || auth sv s | None => false end.
Lemma trusted_b_false sv k : trusted_b sv k = false -> ~ trusted_at sv k.
Proof.
  unfold trusted_b. intros H (s & Hs & Ht). rewrite Hs in H. apply orb_false_iff in H. destruct H as [H1 H2].
  destruct Ht; congruence.
Qed.
Fixpoint intact_history_b (e : env) (sv : server) (es : list entry) : bool :=
  match es with
  | [] => true
  | en :: r =>
      match en with
      | ECreate id _ _ => N.ltb id two64
      | EMessage _ _ session _ _ _ => negb (trusted_b sv (session, 0%N))
      | _ => true
      end &&
      match entry_result (apply_entry e sv en) with Some sv' => intact_history_b e sv' r | None => true end
  end.
Lemma intact_history_b_sound e sv es : intact_history_b e sv es = true -> intact_history e sv es.
Proof.
  revert sv. induction es as [|en es IH]; intros sv H; cbn [intact_history intact_history_b] in *; [exact Logic.I|].
  apply andb_true_iff in H. destruct H as [H1 H2]. split; [|split].
  - destruct en; cbn; try exact Logic.I. now apply N.ltb_lt.
  - destruct en; cbn; try exact Logic.I. intros m _ Ht. exfalso. apply negb_true_iff in H1. now apply (trusted_b_false _ _ H1).
  - intros sv' Hs. rewrite Hs in H2. now apply IH.
Qed.

(* a client registers with a 40-byte user name, joins a channel and speaks *)
Definition ex_long : list entry :=
  [ ECreate 1 1000 "0123456789abcdef";
    EMessage 2 2000 1 11 "" "NICK Foo";
    EMessage 3 3000 1 12 "" "USER aaaaaaaaaabbbbbbbbbbccccccccccdddddddddd 0 * :x";
    ECreate 4 4000 "fedcba9876543210";
    EMessage 5 5000 4 21 "" "NICK bar";
    EMessage 6 6000 4 22 "" "USER bar 0 * :Bar";
    EMessage 7 7000 1 13 "" "JOIN #c";
    EMessage 8 8000 4 23 "" "JOIN #c" ].
Definition ex_speak : entry := EMessage 9 9000 1 14 "" "PRIVMSG #c :hi".

Lemma ex_long_intact : intact_history ex_env (init_server "robustirc.net") (ex_long ++ ex_speak :: []).
Proof. apply intact_history_b_sound. vm_compute. reflexivity. Qed.

Definition ex_long_sv : server :=
  match run ex_env (init_server "robustirc.net") ex_long with Some sv => sv | None => init_server "" end.
Lemma ex_long_run : run ex_env (init_server "robustirc.net") ex_long = Some ex_long_sv.
Proof. vm_compute. reflexivity. Qed.

(* the stored user name is the first 32 bytes of what the client sent *)
Example ex_long_user :
  option_map s_user (sv_sessions ex_long_sv !! (1%N, 0%N)) = Some "aaaaaaaaaabbbbbbbbbbccccccccccdd".
Proof. vm_compute. reflexivity. Qed.

(* the relayed line keeps " PRIVMSG " *)
Definition datas_of (o : outcome) : option (list string) :=
  match o with OOk _ out => Some (map o_data out) | _ => None end.
Example ex_long_relayed :
  datas_of (apply_entry ex_env ex_long_sv ex_speak) =
  Some [":Foo!aaaaaaaaaabbbbbbbbbbccccccccccdd@robust/0x1 PRIVMSG #c hi"].
Proof. vm_compute. reflexivity. Qed.

Example ex_long_command_intact sv' out :
  apply_entry ex_env ex_long_sv ex_speak = OOk sv' out ->
  forall o, In o out -> exists m, o_data o = msg_bytes m /\ slen (head m) <= 510 /\ has_prefix (head m) (o_data o) = true.
Proof.
  intros Ha. eapply (command_intact ex_env "robustirc.net" ex_long ex_speak []);
    [vm_compute; lia|exact ex_long_intact|exact ex_long_run|exact Ha].
Qed.

(* what the bound is for: with a 510-byte user name in the prefix, truncation removes the command word
   (the behaviour of the code before cmd_user cut the user name: finding c15:nocommand) *)
Fixpoint rep_a (n : nat) : string := match n with O => "" | S k => String "a" (rep_a k) end.
Example long_user_cuts_command :
  let m := usrmsg (Prefix "Foo" (rep_a 510) "robust/0x1") "PRIVMSG" ["#c"; "hi"] in
  has_prefix (head m) (msg_bytes m) = false /\ slen (msg_bytes m) = 510.
Proof. split; vm_compute; reflexivity. Qed.

Print Assumptions command_intact.
Print Assumptions stored_names_bounded.
Print Assumptions intact_entry.
Print Assumptions head_kept.
