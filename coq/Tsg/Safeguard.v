(* Tsg/Safeguard.v — model of internal/timesafeguard (worstCaseDrift, timeInSync,
   synchronizedWithNetwork).  Times are Z nanoseconds on the local clock's axis; a
   measurement whose Result is Go's zero time (peer did not answer) has m_result = None. *)
From Coq Require Import ZArith List Bool.
Import ListNotations.
Local Open Scope Z_scope.

Record meas := Meas { m_start : Z; m_end : Z; m_result : option Z }.

(* const ElectionTimeout = 2 * time.Second.  The model is parametric in the threshold:
   every theorem holds for any value [ET]; the harness passes the value of the constant
   compiled into /repo and checks that main() hands the same constant to raft. *)
Section WithET.
Variable ET : Z.

(* timeResult.worstCaseDrift for an answered measurement *)
Definition worst (st en res : Z) : Z := Z.abs (res - st) + (en - st).

Definition answered (ms : list meas) : list (Z * Z * Z) :=
  flat_map (fun m => match m_result m with
                     | Some r => [(m_start m, m_end m, r)]
                     | None => [] end) ms.

Definition worst3 (x : Z * Z * Z) : Z := let '(st, en, r) := x in worst st en r.

(* timeInSync *)
Definition in_sync (rs : list (Z * Z * Z)) : bool :=
  forallb (fun x => worst3 x <? ET) rs.

Definition offenders (rs : list (Z * Z * Z)) : list (Z * Z * Z) :=
  filter (fun x => ET <=? worst3 x) rs.

Inductive decision :=
| Accept                                   (* nil error, in sync *)
| AcceptDisabled (off : list (Z * Z * Z))   (* nil error although out of sync: flag set *)
| Refuse (off : list (Z * Z * Z)).          (* error naming the offending peers *)

(* synchronizedWithNetwork *)
Definition decide (disabled : bool) (ms : list meas) : decision :=
  let rs := answered ms in
  if in_sync rs then Accept
  else if disabled then AcceptDisabled (offenders rs)
  else Refuse (offenders rs).
End WithET.
