(* case-file driver for the time-safeguard model:
   in : tsg <ET ns> <disabled 0|1> {<start> <end> <result|->}*
   out: tsg et=<ET> <accept|accept-disabled|refuse> off=<st:en:res,...> drifts=<d,...> *)
From RV Require Import Base.Text Tsg.Safeguard.
Local Open Scope string_scope.

Fixpoint parse_meas (l : list string) : list meas :=
  match l with
  | a :: b :: c :: r =>
      match Z_of_dec a, Z_of_dec b with
      | Some st, Some en => Meas st en (Z_of_dec c) :: parse_meas r
      | _, _ => []
      end
  | _ => []
  end.

Definition show3 (x : Z * Z * Z) : string :=
  let '(st, en, r) := x in dec_of_Z st ++ ":" ++ dec_of_Z en ++ ":" ++ dec_of_Z r.
Definition show_list (l : list string) : string :=
  match l with [] => "-" | _ => sjoin "," l end.

Definition run_line (f : list string) : string :=
  let et := Z_field f 1 in
  let disabled := String.eqb (nth_field f 2) "1" in
  let ms := parse_meas (skipn 3 f) in
  let drifts := show_list (map (fun x => dec_of_Z (worst3 x)) (answered ms)) in
  match decide et disabled ms with
  | Accept => "tsg et=" ++ dec_of_Z et ++ " accept off=- drifts=" ++ drifts
  | AcceptDisabled off => "tsg et=" ++ dec_of_Z et ++ " accept-disabled off=" ++ show_list (map show3 off) ++ " drifts=" ++ drifts
  | Refuse off => "tsg et=" ++ dec_of_Z et ++ " refuse off=" ++ show_list (map show3 off) ++ " drifts=" ++ drifts
  end.
