(* Fsm/Fsm.v — M-FSM: the bookkeeping of statemachine.go / compaction.go around an ABSTRACT
   deterministic machine (S, init, apply, marshal, unmarshal, exp_of).

   What is modelled (line by line, see the comments):  FSM.Apply, FSM.Snapshot (first/last,
   lookup of the base state in lastSnapshotState, the fold loop with its `first = i; break`
   bookkeeping, deletion from ircstore and the output stream, Marshal, pruning of the other
   keys), robustSnapshot.Persist (state + retained entries first..last), FSM.Restore /
   decodeProtobuf (wipe both stores, load the state message, re-apply the retained entries),
   process restart as main() performs it (irclog is a persistent LevelDB, tmp-outputstream is not),
   and raft's contract (after Restore/restart exactly the entries after the snapshot are applied).

   Three switches select the behaviour of the pinned tree or of the repaired tree
   (/verif/fixes/D3-snapshot-chain.diff, D15-restore-expiration.diff, D18-wipe-irclog-on-start.diff);
   the theorems of FsmProofs.v are about every variant with the first two repairs ([repaired],
   [repaired_all]), the refutations about [pinned] (and about [repaired] for D18).

   Executable definitions only; proofs live in FsmProofs.v. *)
From Coq Require Import List ZArith NArith Bool String.
Import ListNotations.
Local Open Scope N_scope.

(* ---- log entries ------------------------------------------------------------------ *)
Inductive kind :=
| KCmd        (* raft.LogCommand carrying a robust.Message other than MessageOfDeath *)
| KMoD        (* raft.LogCommand whose robust.Message has Type = MessageOfDeath *)
| KInternal.  (* raft-internal entry (LogNoop, LogConfiguration, ...): FSM.Apply skips it *)

Record entry := mkEntry {
  e_idx : N;              (* raft index *)
  e_ts : Z;               (* robust.Message.Timestamp(), ns *)
  e_kind : kind;
  e_exp : option N;       (* Some d: a Config message that parses, SessionExpiration = d ns *)
  e_rev : N;              (* robust.Message.Revision (only read for Config messages) *)
  e_payload : string      (* opaque to the bookkeeping *)
}.

Definition stored_kind (e : entry) : bool :=
  match e_kind e with KInternal => false | _ => true end.
(* the Config case of applyRobustMessage is the only place that assigns fsm.sessionExpirationDur: a Config message
   that parses AND follows the revision in force ([r] = Config.Revision of the server it is applied to:
   `if msg.Revision != i.Config.Revision+1 { skip }`); every other Config message changes nothing *)
Definition sets_exp (r : N) (e : entry) : bool :=
  match e_kind e, e_exp e with KCmd, Some _ => e_rev e =? r + 1 | _, _ => false end.

Definition kind_eqb (a b : kind) : bool :=
  match a, b with KCmd, KCmd | KMoD, KMoD | KInternal, KInternal => true | _, _ => false end.

(* ---- ordered key/value stores (LevelDB with 8-byte big-endian keys; Go map for lss) -- *)
Definition store (V : Type) := list (N * V).

Section Store.
  Context {V : Type}.
  Fixpoint put (k : N) (v : V) (m : store V) : store V :=
    match m with
    | [] => [(k, v)]
    | (k', v') :: r =>
        if k <? k' then (k, v) :: m
        else if k =? k' then (k, v) :: r
        else (k', v') :: put k v r
    end.
  Definition del (k : N) (m : store V) : store V :=
    filter (fun kv => negb (fst kv =? k)) m.
  Fixpoint get (k : N) (m : store V) : option V :=
    match m with
    | [] => None
    | (k', v) :: r => if k' =? k then Some v else get k r
    end.
  Definition keys (m : store V) : list N := map fst m.
  (* LevelDBStore.FirstIndex / LastIndex: 0 for an empty store *)
  Definition first_index (m : store V) : N :=
    match m with [] => 0 | (k, _) :: _ => k end.
  Fixpoint last_index (m : store V) : N :=
    match m with [] => 0 | [(k, _)] => k | _ :: r => last_index r end.
  (* GetBulkIterator(lo, hi): the entries with lo <= key < hi, in key order *)
  Definition range (lo hi : N) (m : store V) : store V :=
    filter (fun kv => (lo <=? fst kv) && (fst kv <? hi)) m.
  (* the entry with the greatest key < bound (a loop over a Go map keeping the maximum) *)
  Fixpoint lookup_lt (bound : N) (m : store V) : option (N * V) :=
    match m with
    | [] => None
    | (k, v) :: r =>
        let rest := lookup_lt bound r in
        if k <? bound then
          match rest with
          | Some (k', _) => if k' <? k then Some (k, v) else rest
          | None => Some (k, v)
          end
        else rest
    end.
End Store.

(* ---- variants ----------------------------------------------------------------------- *)
Record variant := mkVariant {
  fix_d3 : bool;   (* D3-snapshot-chain.diff: file under the last included index, look up the greatest key < first *)
  fix_d15 : bool;  (* D15-restore-expiration.diff: Restore refreshes sessionExpirationDur; folding does not touch it *)
  fix_d18 : bool   (* D18-wipe-irclog-on-start.diff: main() re-creates irclog at process start *)
}.
Definition pinned : variant := mkVariant false false false.
Definition repaired : variant := mkVariant true true false.      (* D3 + D15 applied, D18 open *)
Definition repaired_all : variant := mkVariant true true true.

Definition ten_minutes : Z := 600000000000%Z.
Definition expire_interval : Z := 10000000000%Z.   (* expireSessionsInterval = 10 s *)
(* exp := fsm.sessionExpiration(); if exp == 0 { exp = 10 * time.Minute } *)
Definition eff_exp (d : N) : Z := if d =? 0 then ten_minutes else Z.of_N d.
(* compactionEnd := compactionStart.Add(-1 * (exp + expireSessionsInterval)) *)
Definition horizon (d : N) (t : Z) : Z := (t - (eff_exp d + expire_interval))%Z.

Section FSM.
  Variables S O B : Type.
  Variable init : S.                          (* ircserver.NewIRCServer *)
  Variable apply : S -> entry -> S * list O.  (* applyRobustMessage on a server; the reply batch *)
  Variable marshal : S -> N -> B.             (* IRCServer.Marshal(lastIncludedIndex) *)
  Variable unmarshal : B -> option (S * N).   (* Unmarshal onto a fresh server; returns lastIncludedIndex *)
  Variable exp_of : S -> N.                   (* Config.SessionExpiration of the server *)
  Variable rev_of : S -> N.                   (* Config.Revision of the server: the revision in force *)

  Record fsm := mkFsm {
    ircstore : store entry;        (* FSM.ircstore: irclog LevelDB *)
    outstore : store (list O);     (* outputStream: one batch per input id (only non-empty batches) *)
    lss : store B;                 (* FSM.lastSnapshotState *)
    expdur : N;                    (* FSM.sessionExpirationDur (0 = never set) *)
    server : S                     (* the global ircServer *)
  }.

  Definition fresh_fsm (irc : store entry) : fsm := mkFsm irc [] [] 0 init.

  (* FSM.Apply: skip raft-internal entries; store in ircstore; applyProto -> applyRobustMessage
     (sendMessages adds the batch only if it is non-empty; a Config message refreshes expdur). *)
  Definition apply_entry (f : fsm) (e : entry) : fsm :=
    if stored_kind e then
      let '(s', o) := apply (server f) e in
      mkFsm (put (e_idx e) e (ircstore f))
            (match o with [] => outstore f | _ => put (e_idx e) o (outstore f) end)
            (lss f)
            (if sets_exp (rev_of (server f)) e then exp_of s' else expdur f)
            s'
    else f.

  (* ---- Snapshot ------------------------------------------------------------------- *)
  Record snapshot := mkSnap { sn_first : N; sn_last : N; sn_state : B }.
  Record loopst := mkLoop { l_tmp : S; l_irc : store entry; l_out : store (list O); l_exp : N }.

  (* the `for available { ... }` loop over the iterator [it] (a consistent view taken before the loop) *)
  Fixpoint snap_loop (v : variant) (hz : Z) (it : store entry) (a : loopst) : loopst * option N :=
    match it with
    | [] => (a, None)
    | (i, e) :: r =>
        if (hz <? e_ts e)%Z then (a, Some i)     (* parsed.Timestamp().After(compactionEnd): first = i; break *)
        else
          let s' := fst (apply (l_tmp a) e) in     (* fsm.applyRobustMessage(&parsed, tmpServer, nil) *)
          snap_loop v hz r
            (mkLoop s' (del i (l_irc a)) (del i (l_out a))
                    (if fix_d15 v then l_exp a
                     else if sets_exp (rev_of (l_tmp a)) e then exp_of s' else l_exp a))
    end.

  (* the base state: lastSnapshotState[first-1] (pinned) / the entry with the greatest key < first
     (repaired); found: Unmarshal into tmpServer and delete every other key *)
  Definition snap_base (v : variant) (first : N) (m : store B) : option (S * store B) :=
    match (if fix_d3 v then lookup_lt first m
           else match get (first - 1) m with Some b => Some (first - 1, b) | None => None end) with
    | None => Some (init, m)                     (* no previous state: empty tmpServer, nothing pruned *)
    | Some (k, b) =>
        match unmarshal b with
        | Some (s, _) => Some (s, [(k, b)])      (* all other keys are deleted *)
        | None => None                           (* return nil, err *)
        end
    end.

  Definition fsm_snapshot (v : variant) (t : Z) (f : fsm) : option (fsm * snapshot) :=
    let first := first_index (ircstore f) in
    let last := last_index (ircstore f) in
    if first <? 1 then None else                     (* "first index of ircstore is < 1" *)
    let hz := horizon (expdur f) t in
    match snap_base v first (lss f) with
    | None => None
    | Some (tmp0, lss1) =>
        let '(a, brk) := snap_loop v hz (range first (last + 1) (ircstore f))
                                   (mkLoop tmp0 (ircstore f) (outstore f) (expdur f)) in
        let first' := match brk with Some i => i | None => first end in
        let key := match brk with
                   | Some i => i - 1
                   | None => if fix_d3 v then last else first - 1
                   end in
        let state := marshal (l_tmp a) key in
        Some (mkFsm (l_irc a) (l_out a) (put key state lss1) (l_exp a) (server f),
              mkSnap first' last state)
    end.

  (* ---- Persist / Restore ------------------------------------------------------------ *)
  Record persisted := mkPers {
    p_state : B;              (* the robust.State message *)
    p_entries : list entry;   (* the retained raw entries, in index order *)
    p_applied : nat           (* raft's snapshot index: how many log entries had been applied *)
  }.

  (* robustSnapshot.Persist writes the state, then GetBulkIterator(firstIndex, lastIndex+1) *)
  Definition persist (f : fsm) (sn : snapshot) (applied : nat) : persisted :=
    mkPers (sn_state sn) (map snd (range (sn_first sn) (sn_last sn + 1) (ircstore f))) applied.

  (* FSM.Restore: new irclog, new output stream, new server; the State message is unmarshalled and
     filed under the index it carries; every other entry is stored and applied (applyProto). *)
  Definition fsm_restore (v : variant) (f : fsm) (p : persisted) : option fsm :=
    match unmarshal (p_state p) with
    | None => None
    | Some (s0, lii) =>
        let f0 := mkFsm [] [] (put lii (p_state p) (lss f)) (expdur f) s0 in
        let f1 := fold_left apply_entry (p_entries p) f0 in
        Some (if fix_d15 v
              then mkFsm (ircstore f1) (outstore f1) (lss f1) (exp_of (server f1)) (server f1)
              else f1)
    end.

  (* ---- the node: FSM + raft's view ---------------------------------------------------- *)
  Record world := mkWorld {
    w_fsm : fsm;
    w_applied : nat;                 (* number of entries of the log raft has handed to Apply *)
    w_persisted : list persisted     (* snapshot store, newest first *)
  }.

  Definition world0 : world := mkWorld (fresh_fsm []) 0 [].

  Inductive step :=
  | SApply (n : nat)                 (* raft hands log entry number n (0-based position) to Apply *)
  | SSnapshot (t : Z) (k : nat) (ok : bool)
                                     (* FSM.Snapshot() at compaction time t; raft hands k more entries to Apply
                                        while the snapshot goroutine has not called Persist yet; then Persist of
                                        THAT snapshot object succeeds / fails.  raft files the snapshot under the
                                        index it had when Snapshot() was called. *)
  | SRestore                         (* Restore(latest persisted snapshot) on the running FSM *)
  | SRestart.                        (* process exit + start: fresh FSM, Restore(latest) if any *)

  (* raft hands the next k entries of the log to Apply *)
  Fixpoint apply_n (L : list entry) (k : nat) (w : world) : world :=
    match k with
    | Datatypes.O => w
    | Datatypes.S k' =>
        match nth_error L (w_applied w) with
        | Some e => apply_n L k' (mkWorld (apply_entry (w_fsm w) e) (Datatypes.S (w_applied w)) (w_persisted w))
        | None => w
        end
    end.

  Definition do_step (v : variant) (L : list entry) (w : world) (st : step) : world :=
    match st with
    | SApply n =>
        match nth_error L n with
        | Some e => mkWorld (apply_entry (w_fsm w) e) (Datatypes.S n) (w_persisted w)
        | None => w
        end
    | SSnapshot t k ok =>
        match fsm_snapshot v t (w_fsm w) with
        | None => w
        | Some (f', sn) =>
            let w2 := apply_n L k (mkWorld f' (w_applied w) (w_persisted w)) in
            (* Persist reads the store as it is NOW, bounded by the snapshot's firstIndex/lastIndex;
               the snapshot is filed under the number of entries applied when Snapshot() ran *)
            mkWorld (w_fsm w2) (w_applied w2)
                    (if ok then persist (w_fsm w2) sn (w_applied w) :: w_persisted w else w_persisted w)
        end
    | SRestore =>
        match w_persisted w with
        | [] => w
        | p :: _ =>
            match fsm_restore v (w_fsm w) p with
            | Some f' => mkWorld f' (p_applied p) (w_persisted w)
            | None => w
            end
        end
    | SRestart =>
        (* main(): tmp-outputstream-* deleted, irclog re-opened as it is on disk, fresh server,
           empty lastSnapshotState; raft restores the latest snapshot if there is one, otherwise it
           replays the log from the start *)
        let f := fresh_fsm (if fix_d18 v then [] else ircstore (w_fsm w)) in
        match w_persisted w with
        | [] => mkWorld f 0 []
        | p :: _ =>
            match fsm_restore v f p with
            | Some f' => mkWorld f' (p_applied p) (w_persisted w)
            | None => mkWorld f 0 (w_persisted w)
            end
        end
    end.

  Definition run (v : variant) (L : list entry) (sigma : list step) (w : world) : world :=
    fold_left (do_step v L) sigma w.

  (* Raft's contract, as a condition on schedules: entries are handed to Apply in log order, each one
     exactly once after the point the FSM state stands for (w_applied is reset by Restore/restart to
     the snapshot's index by [do_step]).  For SRestart: the hypothesis that excludes D18 (a restart
     without any persisted snapshot finds the stale irclog) unless the tree carries the D18 fix. *)
  Definition step_ok (v : variant) (w : world) (st : step) : Prop :=
    match st with
    | SApply n => n = w_applied w
    | SRestart => fix_d18 v = true \/ w_persisted w <> []
    | _ => True
    end.
  Fixpoint schedule_ok (v : variant) (L : list entry) (sigma : list step) (w : world) : Prop :=
    match sigma with
    | [] => True
    | st :: r => step_ok v w st /\ schedule_ok v L r (do_step v L w st)
    end.
  (* the same without the D18 exclusion (used to state the refutation) *)
  Definition step_ok_raft (w : world) (st : step) : Prop :=
    match st with SApply n => n = w_applied w | _ => True end.
  Fixpoint schedule_ok_raft (v : variant) (L : list entry) (sigma : list step) (w : world) : Prop :=
    match sigma with
    | [] => True
    | st :: r => step_ok_raft w st /\ schedule_ok_raft v L r (do_step v L w st)
    end.

  (* ---- the reference: plain replay, no bookkeeping ------------------------------------ *)
  Definition cmds (l : list entry) : list entry := filter stored_kind l.
  Fixpoint run_state (s : S) (l : list entry) : S :=
    match l with [] => s | e :: r => run_state (fst (apply s e)) r end.
  Fixpoint run_out (s : S) (l : list entry) : store (list O) :=
    match l with
    | [] => []
    | e :: r =>
        let '(s', o) := apply s e in
        match o with [] => run_out s' r | _ => (e_idx e, o) :: run_out s' r end
    end.
  Definition replay (l : list entry) : S := run_state init (cmds l).
  Definition replay_out (l : list entry) : store (list O) := run_out init (cmds l).
End FSM.

Arguments ircstore {S O B}. Arguments outstore {S O B}. Arguments lss {S O B}.
Arguments expdur {S O B}. Arguments server {S O B}.
Arguments w_fsm {S O B}. Arguments w_applied {S O B}. Arguments w_persisted {S O B}.
Arguments p_state {B}. Arguments p_entries {B}. Arguments p_applied {B}.
Arguments sn_first {B}. Arguments sn_last {B}. Arguments sn_state {B}.
