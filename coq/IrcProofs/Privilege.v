(* IrcProofs/Privilege.v — C13: without the privilege, the privileged command changes nothing. *)
From stdpp Require Import gmap.
From Coq Require Import Strings.String Strings.Ascii ZArith NArith Lia.
From RV Require Import Base.Text Irc.Str Irc.Parse Irc.State Irc.Monad Irc.Cmds Irc.SCmds Irc.Apply.
From RV Require Import IrcProofs.WP IrcProofs.Inv IrcProofs.InvPrims IrcProofs.StrLemmas IrcProofs.Handlers.
Local Open Scope string_scope.

(* the acting session is a channel operator of the channel stored under lc *)
Definition is_chanop (sv : server) (k : N * N) (lc : string) : Prop :=
  exists s c v, sv_sessions sv !! k = Some s /\ sv_channels sv !! lc = Some c /\
                c_nicks c !! nick_to_lower (s_nick s) = Some (true, v).
Definition is_oper (sv : server) (k : N * N) : Prop :=
  exists s, sv_sessions sv !! k = Some s /\ s_operator s = true.

Lemma kick_needs_chanop k m sv r p0 :
  InvM sv -> present sv k -> 2 <= nparams m -> nth_error (m_params m) 0 = Some p0 ->
  ~ is_chanop sv k (chan_to_lower p0) -> wp (cmd_kick k m) (unchanged sv) sv r.
Proof.
  intros I [s Hs] Hp Hp0 Hno. unfold cmd_kick. repeat wp_step; try reflexivity.
  all: exfalso; apply Hno.
  all: match goal with H0 : nth_error (m_params _) 0 = Some ?p |- _ => rewrite Hp0 in H0; injection H0 as <- end.
  all: match goal with Hc : sv_channels _ !! _ = Some ?c, Hm : c_nicks ?c !! _ = Some (?o, ?v), Ho : negb ?o = false |- _ =>
    apply negb_false_iff in Ho; subst o; exists s, c, v; auto end.
Qed.

Lemma kill_needs_oper k m sv r :
  present sv k -> ~ is_oper sv k -> wp (cmd_kill k m) (unchanged sv) sv r.
Proof.
  intros [s Hs] Hno. unfold cmd_kill. repeat wp_step; try reflexivity.
  exfalso. apply Hno. exists s. split; [exact Hs|].
  match goal with Ho : negb (s_operator s) = false |- _ => now apply negb_false_iff in Ho end.
Qed.

Lemma gline_needs_oper k m sv r :
  present sv k -> ~ is_oper sv k -> wp (cmd_gline k m) (unchanged sv) sv r.
Proof.
  intros [s Hs] Hno. unfold cmd_gline. repeat wp_step; try reflexivity.
  exfalso. apply Hno. exists s. split; [exact Hs|].
  match goal with Ho : negb (s_operator s) = false |- _ => now apply negb_false_iff in Ho end.
Qed.

Lemma oper_needs_credentials k m sv r p0 p1 :
  present sv k -> nth_error (m_params m) 0 = Some p0 -> nth_error (m_params m) 1 = Some p1 ->
  auth_oper (sv_config sv) p0 p1 = false -> wp (cmd_oper k m) (unchanged sv) sv r.
Proof.
  intros [s Hs] H0 H1 Hbad. unfold cmd_oper.
  assert (Hn : 2 <= nparams m).
  { unfold nparams. assert (nth_error (m_params m) 1 <> None) by congruence. apply nth_error_Some in H. lia. }
  repeat wp_step; try reflexivity.
  exfalso.
  repeat match goal with Hx : nth_error (m_params m) _ = Some _ |- _ => rewrite ?H0, ?H1 in Hx; injection Hx as <- end.
  match goal with Hb : negb (auth_oper _ _ _) = false |- _ => apply negb_false_iff in Hb; congruence end.
Qed.

Lemma server_needs_password k m sv r s :
  sv_sessions sv !! k = Some s ->
  existsb (fun pw => String.eqb (s_pass s) ("services=" ++ pw)) (g_services (sv_config sv)) = false ->
  wp (cmd_server k m) (unchanged sv) sv r.
Proof.
  intros Hs Hbad. unfold cmd_server. wp_step. wp_step. wp_step. wp_step. rewrite Hbad. cbn [negb]. wp_step. reflexivity.
Qed.

(* setting or clearing a topic: only members, and on +t channels only channel operators *)
Lemma topic_needs_membership k m sv r p0 s :
  sv_sessions sv !! k = Some s -> 1 <= nparams m -> nth_error (m_params m) 0 = Some p0 ->
  chan_to_lower p0 ∉ s_channels s -> wp (cmd_topic k m) (unchanged sv) sv r.
Proof.
  intros Hs Hp Hp0 Hnot. unfold cmd_topic. wp_step. wp_step. wp_step. wp_step. wp_step. wp_step. cbv zeta.
  match goal with H0 : nth_error (m_params m) 0 = Some ?p |- _ => rewrite Hp0 in H0; injection H0 as <- end.
  wp_step; [|repeat wp_step; reflexivity].
  apply in_set_false in Hnot. rewrite Hnot. cbn [negb]. repeat wp_step. reflexivity.
Qed.

Lemma wp_chanop_of_eq c n o v (Q : bool -> server -> rctx -> Prop) sv r :
  c_nicks c !! n = Some (o, v) -> Q o sv r -> wp (chanop_of c n) Q sv r.
Proof. intros H HQ. unfold chanop_of. rewrite H. apply wp_ret, HQ. Qed.

Lemma topic_needs_chanop k m sv r p0 s c :
  InvM sv -> sv_sessions sv !! k = Some s -> s_deleted s = false -> 2 <= nparams m ->
  nth_error (m_params m) 0 = Some p0 ->
  sv_channels sv !! chan_to_lower p0 = Some c -> has_mode 116 (c_modes c) = true ->
  ~ is_chanop sv k (chan_to_lower p0) -> wp (cmd_topic k m) (unchanged sv) sv r.
Proof.
  intros I Hs Hd Hp Hp0 Hc Ht Hno. unfold cmd_topic. wp_step. wp_step. wp_step. wp_step. wp_step. wp_step. cbv zeta.
  match goal with H0 : nth_error (m_params m) 0 = Some ?p |- _ => rewrite Hp0 in H0; injection H0 as <- end.
  rewrite Hc. wp_step; [repeat wp_step; reflexivity|].
  match goal with Hi : negb (in_set _ _) = false |- _ => apply negb_false_iff, in_set_true in Hi; rename Hi into Hin end.
  pose proof (acting_member sv k s _ c I Hs Hd Hin Hc) as [[o v] Hm].
  assert (Ho : o = false).
  { destruct o; [|reflexivity]. exfalso. apply Hno. exists s, c, v. auto. }
  subst o.
  assert (Hnot1 : Nat.eqb (nparams m) 1 = false) by (apply Nat.eqb_neq; lia).
  wp_step.
  - apply wp_bind. eapply wp_chanop_of_eq; [exact Hm|]. rewrite Ht. cbn [negb andb]. repeat wp_step. reflexivity.
  - rewrite Hnot1. apply wp_bind. eapply wp_chanop_of_eq; [exact Hm|]. rewrite Ht. cbn [negb andb]. repeat wp_step. reflexivity.
Qed.

(* ---- MODE --------------------------------------------------------------------------------------- *)
Lemma mode_step_needs_priv k lc ch md q sv r c :
  present sv k -> sv_channels sv !! lc = Some c ->
  wp (cmd_mode_chan_step k lc ch false md q) (fun _ sv' _ => sv' = sv) sv r.
Proof.
  intros [s Hs] Hc. unfold cmd_mode_chan_step. wp_step. wp_step. wp_step. wp_step. cbv zeta.
  wp_step.
  - cbn [negb]. repeat wp_step. reflexivity.
  - wp_step. wp_step. rewrite Hc. apply wp_bind. eapply (wp_mono _ (fun _ sv' _ => sv' = sv)).
    + apply (wp_forM _ _ (fun sv' _ => sv' = sv)); [reflexivity|]. intros p sv' r' _ ->. repeat wp_step. reflexivity.
    + intros [] sv' r' ->. repeat wp_step. reflexivity.
Qed.

Lemma mode_loop_needs_priv k lc ch mds q sv r c :
  present sv k -> sv_channels sv !! lc = Some c ->
  wp (cmd_mode_chan_loop k lc ch false mds q) (fun _ sv' _ => sv' = sv) sv r.
Proof.
  intros P Hc. revert q r. induction mds as [|md mds IH]; intros q r; cbn [cmd_mode_chan_loop].
  - apply wp_ret. reflexivity.
  - apply wp_bind. eapply wp_mono; [eapply mode_step_needs_priv; eauto|].
    intros st sv' r' ->. cbv beta. destruct (fst st); [apply wp_ret; reflexivity|apply IH].
Qed.

Lemma mode_needs_priv k m sv r p0 s :
  InvM sv -> sv_sessions sv !! k = Some s -> s_deleted s = false -> 1 <= nparams m ->
  nth_error (m_params m) 0 = Some p0 -> chan_to_lower p0 ∈ s_channels s ->
  ~ is_chanop sv k (chan_to_lower p0) -> ~ is_oper sv k ->
  wp (cmd_mode k m) (unchanged sv) sv r.
Proof.
  intros I Hs Hd Hp Hp0 Hin Hno Hnoop. unfold cmd_mode. wp_step. wp_step. wp_step. wp_step. wp_step. wp_step. cbv zeta.
  match goal with H0 : nth_error (m_params m) 0 = Some ?p |- _ => rewrite Hp0 in H0; injection H0 as <- end.
  apply in_set_true in Hin. rewrite Hin. apply in_set_true in Hin.
  destruct (i_memb_s sv I _ _ _ Hs Hd Hin) as (c & Hc & [[o v] Hm]). rewrite Hc.
  wp_step; [repeat wp_step; reflexivity|].
  apply wp_bind. eapply wp_chanop_of_eq; [exact Hm|]. cbv zeta.
  assert (Ho : o = false) by (destruct o; [exfalso; apply Hno; exists s, c, v; auto|reflexivity]).
  assert (Hop : s_operator s = false) by (destruct (s_operator s) eqn:E; [exfalso; apply Hnoop; exists s; auto|reflexivity]).
  subst o. rewrite Hop. cbn [orb].
  apply wp_bind. eapply wp_mono; [eapply mode_loop_needs_priv; [now exists s|exact Hc]|].
  intros st sv' r' ->. cbv beta.
  wp_step; [wp_step; reflexivity|]. wp_step; [wp_step; reflexivity|].
  wp_step. wp_step. wp_step; [wp_step; reflexivity|].
  wp_step. wp_step. wp_step. wp_step. rewrite Hc. repeat wp_step; [eapply rc_channel_ok; eauto|reflexivity].
Qed.

(* ---- INVITE into +i, JOIN against +i / +b / +k -------------------------------------------------------- *)
Lemma invite_needs_chanop k m sv r nickname channelname s c :
  InvM sv -> sv_sessions sv !! k = Some s -> 2 <= nparams m ->
  nth_error (m_params m) 0 = Some nickname -> nth_error (m_params m) 1 = Some channelname ->
  sv_channels sv !! chan_to_lower channelname = Some c -> has_mode 105 (c_modes c) = true ->
  ~ is_chanop sv k (chan_to_lower channelname) ->
  wp (cmd_invite k m) (unchanged sv) sv r.
Proof.
  intros I Hs Hp H0 H1 Hc Hi Hno. unfold cmd_invite. wp_step. wp_step. wp_step. wp_step. wp_step. wp_step. wp_step. wp_step.
  repeat match goal with Hx : nth_error (m_params m) _ = Some _ |- _ => rewrite ?H0, ?H1 in Hx; injection Hx as <- end.
  cbv zeta. rewrite Hc.
  wp_step; [|repeat wp_step; reflexivity]. wp_step.
  wp_step; [|repeat wp_step; reflexivity].
  apply wp_bind. wp_sess_of_index I.
  wp_step; [repeat wp_step; reflexivity|].
  rewrite Hi.
  match goal with Hm : c_nicks c !! nick_to_lower (s_nick s) = Some (?o, ?v) |- _ =>
    assert (Ho : o = false) by (destruct o; [exfalso; apply Hno; exists s, c, v; auto|reflexivity]); subst o end.
  cbn [negb andb]. repeat wp_step. reflexivity.
Qed.

Lemma join_refused k e channelname key sv r s c :
  sv_sessions sv !! k = Some s -> sv_channels sv !! chan_to_lower channelname = Some c ->
  let invited := in_set (chan_to_lower channelname) (s_invited s) in
  (has_mode 105 (c_modes c) && negb invited = true) \/
  (has_mode 105 (c_modes c) && negb invited = false /\ has_mode 120 (c_modes c) && negb invited = false /\
   (banned (c_bans c) (prefix_string (s_prefix s)) (s_nick s ++ "!" ++ s_user s ++ "@" ++ s_remoteAddr s) = true \/
    (banned (c_bans c) (prefix_string (s_prefix s)) (s_nick s ++ "!" ++ s_user s ++ "@" ++ s_remoteAddr s) = false /\
     has_mode 107 (c_modes c) && negb (String.eqb (c_key c) key) = true))) ->
  wp (join_one e k channelname key) (unchanged sv) sv r.
Proof.
  intros Hs Hc invited Hcase. unfold join_one. wp_step. wp_step. wp_step. wp_step. cbv zeta.
  wp_step; [repeat wp_step; reflexivity|]. rewrite Hc. fold invited.
  destruct Hcase as [Hi|(Hi & Hx & [Hb|(Hb & Hk)])].
  - rewrite Hi. repeat wp_step. reflexivity.
  - rewrite Hi, Hx, Hb. repeat wp_step. reflexivity.
  - rewrite Hi, Hx, Hb, Hk. repeat wp_step. reflexivity.
Qed.
