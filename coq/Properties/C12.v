(* C12 — messages reach exactly the entitled sessions under the sender's identity.
   Proved over the model: exact recipients and prefix of channel / private PRIVMSG and NOTICE; for EVERY output of
   EVERY entry a recipient table (C12_recipient_table: each recipient is justified by a recipient kind the rule
   table allows for the command word: acting session, owner of a nick, services link, member of the named channel,
   member of a channel the subject lists, all — the last only for an operator's $-broadcast); numerics only to the
   session that caused them (C12_numerics), the closing ERROR to exactly one session which is gone afterwards
   (C12_error_single_recipient, C12_closed_after_quit/kill); exact two-sided recipient statements for PART, KICK,
   TOPIC, QUIT, KILL, JOIN, NICK pinned to the state before the command; the prefix of every relayed line is the
   acting session's own stored prefix nick!user@robust/0x<id> (C12_prefix_identity, C12_prefix_invariant) — the
   prefix a client writes into its line never appears.  Limits (see DESIGN §10): comma lists of JOIN/PART are
   covered by the table only; JOIN/NICK exactness is for the recipient computation. *)
From stdpp Require Import gmap.
From Coq Require Import Strings.String List.
From RV Require Import Irc.Str Irc.Parse Irc.State Irc.Monad Irc.Cmds.
From Coq Require Import ZArith NArith.
From RV Require Import Base.Text Irc.Apply.
From RV Require Import IrcProofs.Inv IrcProofs.InvPrims IrcProofs.Top IrcProofs.Recipients.
From RV Require Import IrcProofs.Recipients2 IrcProofs.Recipients3 IrcProofs.Recipients4.
Local Open Scope string_scope.

Theorem C12_channel_text : forall k m sv r s target rest c,
  InvM sv -> sv_sessions sv !! k = Some s -> m_params m = target :: rest -> rest <> [] ->
  has_prefix "#" target = true -> sv_channels sv !! chan_to_lower target = Some c ->
  (is_Some (c_nicks c !! nick_to_lower (s_nick s)) \/ has_mode 110 (c_modes c) = false) ->
  exists o, cmd_privmsg k m sv r = Ok (tt, sv, RCtx (r_msgid r) (o :: r_out r)) /\
    o_data o = msg_bytes (usrmsg (s_prefix s) (m_cmd m) [target; trailing m]) /\
    (forall id, In id (o_rcpt o) <->
       exists n p k', c_nicks c !! n = Some p /\ sv_nicks sv !! n = Some k' /\ k' <> k /\ id = fst k').
Proof. exact privmsg_channel. Qed.
Print Assumptions C12_channel_text.

Theorem C12_private_text : forall (k : N * N) m sv r s target rest (tk : N * N) t,
  sv_sessions sv !! k = Some s -> m_params m = target :: rest -> rest <> [] ->
  has_prefix "#" target = false -> has_prefix "$" target = false ->
  sv_nicks sv !! nick_to_lower target = Some tk -> sv_sessions sv !! tk = Some t ->
  (has_mode 71 (s_modes t) = false \/ s_channels t ∩ s_channels s <> ∅) ->
  exists r' o away, cmd_privmsg k m sv r = Ok (tt, sv, r') /\
    r_out r' = (away ++ o :: r_out r)%list /\
    o_data o = msg_bytes (usrmsg (s_prefix s) (m_cmd m) [target; trailing m]) /\ o_rcpt o = [fst tk] /\
    (forall a, In a away -> o_rcpt a = [fst k]).
Proof. exact privmsg_private. Qed.
Print Assumptions C12_private_text.

(* every output of every log entry: its recipients are accounted for by recipient kinds which the rule table
   (Recipients2.kinds_ok) allows for the command word of the message *)
Theorem C12_recipient_table : forall e sv en sv' out,
  SInv sv -> apply_entry e sv en = OOk sv' out ->
  forall o, In o out ->
  exists m ks, o_data o = msg_bytes m /\ kinds_ok (entry_srv sv en) (ucmd m) (hd0 m) ks /\
    forall id, In id (o_rcpt o) ->
      exists kd, In kd ks /\ just (has_id sv) (links sv (entry_key en)) (sv_netname sv) (entry_key en) (entry_srv sv en) kd id.
Proof. exact recipients_by_kind. Qed.
Print Assumptions C12_recipient_table.

Theorem C12_numerics : forall e sv en sv' out,
  SInv sv -> apply_entry e sv en = OOk sv' out ->
  forall o, In o out ->
  exists m, o_data o = msg_bytes m /\
    (is_numeric (ucmd m) = true ->
     o_rcpt o = [fst (entry_key en)] \/
     (entry_srv sv en = true /\
      ((exists k' : N * N, o_rcpt o = [fst k'] /\ has_id sv (fst k')) \/
       (forall id, In id (o_rcpt o) -> In id (sv_serverSessions sv) \/ id = fst (entry_key en))))).
Proof. exact numeric_addressing. Qed.
Print Assumptions C12_numerics.

Theorem C12_error_single_recipient : forall e sv en sv' out,
  SInv sv -> apply_entry e sv en = OOk sv' out ->
  forall o, In o out ->
  exists m, o_data o = msg_bytes m /\
    (ucmd m = "ERROR" ->
     exists k' : N * N, o_rcpt o = [fst k'] /\
       (k' = entry_key en \/
        exists svx n, JJ (has_id sv) (links sv (entry_key en)) (sv_netname sv) svx /\ sv_nicks svx !! n = Some k')).
Proof. exact error_addressing. Qed.
Print Assumptions C12_error_single_recipient.

Theorem C12_prefix_identity : forall e sv en sv' out,
  SInv sv -> apply_entry e sv en = OOk sv' out ->
  forall o, entry_srv sv en = false -> In o out ->
  exists m, o_data o = msg_bytes m /\
    match m_prefix m with
    | None => True
    | Some p =>
        p = Prefix (sv_netname sv) "" "" \/
        (exists nick, p = Prefix nick "" "" /\ ucmd m = "TOPIC") \/
        (exists (k' : N * N) s, s_key s = k' /\ p = s_prefix s /\ (k' = entry_key en \/ ucmd m = "QUIT") /\
           (s_server s = false -> s_nick s <> "" ->
            p = Prefix (s_nick s) (s_user s) ("robust/0x" ++ hex_of_N (fst k'))))
    end.
Proof. exact prefix_identity. Qed.
Print Assumptions C12_prefix_identity.

Theorem C12_prefix_invariant : forall e net es sv,
  run e (init_server net) es = Some sv ->
  forall (k : N * N) s, sv_sessions sv !! k = Some s ->
    s_key s = k /\
    (s_server s = false -> s_nick s <> "" -> s_prefix s = Prefix (s_nick s) (s_user s) ("robust/0x" ++ hex_of_N (fst k))).
Proof. exact prefix_invariant. Qed.
Print Assumptions C12_prefix_invariant.

Theorem C12_part : forall (k : N * N) m sv r s ch c,
  InvM sv -> sv_sessions sv !! k = Some s -> m_params m = [ch] -> split_on ","%char ch = [ch] ->
  sv_channels sv !! chan_to_lower ch = Some c -> is_Some (c_nicks c !! nick_to_lower (s_nick s)) ->
  exists o,
    cmd_part k m sv r = Ok (tt, leave_state (chan_to_lower ch) (nick_to_lower (s_nick s)) k sv, RCtx (r_msgid r) (o :: r_out r)) /\
    o_data o = msg_bytes (usrmsg (s_prefix s) "PART" [ch]) /\
    (forall id, In id (o_rcpt o) <-> chan_ids sv c id \/ In id (sv_serverSessions sv)).
Proof. exact part_event. Qed.
Print Assumptions C12_part.

Theorem C12_kick : forall (k : N * N) m sv r s ch target rest c v (tk : N * N),
  InvM sv -> sv_sessions sv !! k = Some s -> m_params m = ch :: target :: rest ->
  sv_channels sv !! chan_to_lower ch = Some c -> c_nicks c !! nick_to_lower (s_nick s) = Some (true, v) ->
  is_Some (c_nicks c !! nick_to_lower target) -> sv_nicks sv !! nick_to_lower target = Some tk ->
  exists o,
    cmd_kick k m sv r = Ok (tt, leave_state (chan_to_lower ch) (nick_to_lower target) tk sv, RCtx (r_msgid r) (o :: r_out r)) /\
    o_data o = msg_bytes (usrmsg (s_prefix s) "KICK" [ch; target; trailing m]) /\
    (forall id, In id (o_rcpt o) <-> chan_ids sv c id \/ In id (sv_serverSessions sv)).
Proof. exact kick_event. Qed.
Print Assumptions C12_kick.

Theorem C12_topic : forall (k : N * N) m sv r s ch c o v,
  InvM sv -> sv_sessions sv !! k = Some s -> nth_error (m_params m) 0 = Some ch ->
  sv_channels sv !! chan_to_lower ch = Some c -> chan_to_lower ch ∈ s_channels s ->
  is_empty (trailing m) = false -> Nat.eqb (nparams m) 1 = false ->
  c_nicks c !! nick_to_lower (s_nick s) = Some (o, v) -> (has_mode 116 (c_modes c) = false \/ o = true) ->
  exists sv' o1 o2,
    cmd_topic k m sv r = Ok (tt, sv', RCtx (r_msgid r) (o2 :: o1 :: r_out r)) /\
    o_data o1 = msg_bytes (usrmsg (s_prefix s) "TOPIC" [ch; trailing m]) /\
    (forall id, In id (o_rcpt o1) <-> chan_ids sv c id) /\
    (forall id, In id (o_rcpt o2) <-> In id (sv_serverSessions sv)).
Proof. exact topic_event. Qed.
Print Assumptions C12_topic.

Theorem C12_quit : forall (k : N * N) m sv r s,
  InvM sv -> sv_sessions sv !! k = Some s -> s_deleted s = false -> s_loggedIn s = true ->
  exists o1 o2,
    cmd_quit k m sv r = Ok (tt, delete_state k s sv, RCtx (r_msgid r) (o2 :: o1 :: r_out r)) /\
    o_data o1 = msg_bytes (usrmsg (s_prefix s) "QUIT" [trailing m]) /\
    (forall id, In id (o_rcpt o1) <-> others_sharing sv s id \/ In id (sv_serverSessions sv)) /\
    o_data o2 = msg_bytes (noprefix "ERROR" ["Closing Link: " ++ s_nick s ++ "[" ++ p_host (s_prefix s) ++ "] (" ++ trailing m ++ ")"]) /\
    o_rcpt o2 = [fst k].
Proof. exact quit_event. Qed.
Print Assumptions C12_quit.

Theorem C12_kill : forall (k : N * N) m sv r s p0 rest (tk : N * N) t,
  InvM sv -> sv_sessions sv !! k = Some s -> s_operator s = true -> m_params m = p0 :: rest ->
  sv_nicks sv !! nick_to_lower p0 = Some tk -> sv_sessions sv !! tk = Some t -> s_deleted t = false ->
  exists o1 o2 o3,
    cmd_kill k m sv r = Ok (tt, delete_state tk t sv, RCtx (r_msgid r) (o3 :: o2 :: o1 :: r_out r)) /\
    o_data o1 = msg_bytes (usrmsg (s_prefix t) "QUIT" ["Killed by " ++ s_nick s ++ ": " ++ trailing m]) /\
    (forall id, In id (o_rcpt o1) <-> others_sharing sv t id \/ In id (sv_serverSessions sv)) /\
    o_data o2 = msg_bytes (usrmsg (s_prefix s) "KILL"
                  [s_nick t; "ircd!" ++ p_host (s_prefix s) ++ "!" ++ s_nick s ++ " (" ++ trailing m ++ ")"]) /\
    o_rcpt o2 = [fst tk] /\
    o_data o3 = msg_bytes (noprefix "ERROR"
                  ["Closing Link: " ++ s_nick t ++ "[" ++ p_host (s_prefix t) ++ "] (Killed (" ++ s_nick s ++ " (" ++ trailing m ++ ")))"]) /\
    o_rcpt o3 = [fst tk].
Proof. exact kill_event. Qed.
Print Assumptions C12_kill.

Theorem C12_closed_after_quit : forall (k : N * N) s sv lp,
  sv_sessions sv !! k = Some s ->
  sv_sessions (maybe_delete_session k (set_lastProcessed lp (delete_state k s sv))) !! k = None.
Proof. exact quit_closes. Qed.
Print Assumptions C12_closed_after_quit.

Theorem C12_closed_after_kill : forall (k tk : N * N) s t sv lp,
  sv_sessions sv !! k = Some s -> s_operator s = true -> sv_sessions sv !! tk = Some t ->
  sv_sessions (maybe_delete_session k (set_lastProcessed lp (delete_state tk t sv))) !! tk = None.
Proof. exact kill_closes. Qed.
Print Assumptions C12_closed_after_kill.

Theorem C12_join_recipients : forall sv lc c me (k : N * N) op ids id,
  sv_nicks sv !! me = Some k ->
  rc_channel (add_member_state lc c me k op sv) (cc_nicks (<[me := (op, false)]>) c) = Ok ids ->
  (In id ids <-> chan_ids sv c id \/ id = fst k).
Proof. exact join_recipients. Qed.
Print Assumptions C12_join_recipients.

Theorem C12_nick_recipients : forall sv (k : N * N) s nick s' ids id,
  InvM sv -> sv_sessions sv !! k = Some s -> s_deleted s = false -> s_nick s <> "" ->
  sv_nicks sv !! nick_to_lower nick = None -> s_channels s' = s_channels s ->
  rc_common (nick_state k nick (nick_to_lower (s_nick s)) false sv) s' = Ok ids ->
  (In id ids <-> exists lc c, lc ∈ s_channels s /\ sv_channels sv !! lc = Some c /\ chan_ids sv c id).
Proof. exact nick_recipients. Qed.
Print Assumptions C12_nick_recipients.

Theorem C12_members_are_sessions : forall sv lc c id,
  EInv sv -> sv_channels sv !! lc = Some c ->
  (chan_ids sv c id <-> exists (k' : N * N) s', sv_sessions sv !! k' = Some s' /\ lc ∈ s_channels s' /\ id = fst k').
Proof. exact chan_ids_sessions. Qed.
Print Assumptions C12_members_are_sessions.
